import RedunModel.Proto
import RedunModel.Model.CacheHist
open RedunModel RedunModel.CacheHist

/- request (one history per line):
     hist (V <simpleExprValid T|F> <cseSubtreeFromDb T|F> <noCatchCache T|F>) (tbl (i<name> i<ver> <spec>)*) (steps <step>*)
     spec ::= (ret <tm>) | (raise i<cls>)
     tm   ::= arg | numarg | kindarg | i<int> | (file i<p>) | (add <tm> <tm>) | (call i<name> <tm>) | (catch <tm> i<cls> i<rec>)
     step ::= (step (code (i<name> i<ver> <shallow T|F> <pinned T|F>)*) (fs (i<p> i<stamp>)*) (root i<name> <val>)
                    (err (i<name> i<ver> <val>)*))     -- failed jobs whose rejection was processed (observed)
     val  ::= i<int> | (file i<p> i<stamp>) | (prim i<tag> i<int>)   -- float z / -0.0 / bool, see `Val.prim`
   reply: one item per step joined by " ; ":   <res> | <called keys, in call order>
     res ::= ok:<val> | err:<cls> | fuel        key ::= <name>.<ver>(<val>)                                  -/

def natA : Sexp → Option Nat
  | .atom a => natOfAtom a
  | _ => none

def boolA : Sexp → Option Bool
  | .atom "T" => some true
  | .atom "F" => some false
  | _ => none

partial def tmOf : Sexp → Option Tm
  | .atom "arg" => some .arg
  | .atom "numarg" => some .numarg
  | .atom "kindarg" => some .kindarg
  | .atom a => (intOfAtom a).map .lit
  | .list [.atom "file", p] => (natA p).map .file
  | .list [.atom "add", a, b] => do pure (.add (← tmOf a) (← tmOf b))
  | .list [.atom "call", n, t] => do pure (.call (← natA n) (← tmOf t))
  | .list [.atom "catch", t, c, r] => do pure (.catch (← tmOf t) (← natA c) (← natA r))
  | _ => none

def specOf : Sexp → Option Spec
  | .list [.atom "ret", t] => (tmOf t).map .ret
  | .list [.atom "raise", c] => (natA c).map .raise
  | _ => none

def valOf : Sexp → Option Val
  | .atom a => (intOfAtom a).map .int
  | .list [.atom "file", p, s] => do pure (.file (← natA p) (← natA s))
  | .list [.atom "prim", t, .atom z] => do pure (.prim (← natA t) (← intOfAtom z))
  | _ => none

def tblOf : List Sexp → Option (List (TH × Spec))
  | [] => some []
  | .list [n, v, sp] :: r => do
    let e : TH × Spec := (⟨← natA n, ← natA v⟩, ← specOf sp)
    pure (e :: (← tblOf r))
  | _ => none

def codeRows : List Sexp → Option (List (Nat × Nat × Bool × Bool))
  | [] => some []
  | .list [n, v, s, p] :: r => do
    let e := (← natA n, ← natA v, ← boolA s, ← boolA p)
    pure (e :: (← codeRows r))
  | _ => none

def fsRows : List Sexp → Option (List (Nat × Nat))
  | [] => some []
  | .list [p, s] :: r => do
    let e := (← natA p, ← natA s)
    pure (e :: (← fsRows r))
  | _ => none

def keyRows : List Sexp → Option (List Key)
  | [] => some []
  | .list [n, v, a] :: r => do
    let e : Key := (⟨← natA n, ← natA v⟩, ← valOf a)
    pure (e :: (← keyRows r))
  | _ => none

def codeOf (rows : List (Nat × Nat × Bool × Bool)) : Code where
  ver n := match lookup n rows with | some (v, _) => v | none => 0
  shallow n := match lookup n rows with | some (_, s, _) => s | none => false
  pinned n := match lookup n rows with | some (_, _, p) => p | none => false

def fsOf (rows : List (Nat × Nat)) : FS := fun p => (lookup p rows).getD 0

def stepOf : Sexp → Option RunIn
  | .list [.atom "step", .list (.atom "code" :: cr), .list (.atom "fs" :: fr), .list [.atom "root", n, a],
           .list (.atom "err" :: er)] => do
    let c ← codeRows cr
    let f ← fsRows fr
    pure { code := codeOf c, fs := fsOf f, root := .call (← natA n) (.lit (← valOf a)), fuel := 200, errRec := ← keyRows er }
  | _ => none

def stepsOf : List Sexp → Option (List RunIn)
  | [] => some []
  | s :: r => do pure ((← stepOf s) :: (← stepsOf r))

def showVal : Val → String
  | .int z => toString z
  | .file p s => s!"file({p},{s})"
  | .exc c => s!"exc({c})"
  | .prim t z => s!"prim({t},{z})"

def showRes : Res → String
  | .ok v => "ok:" ++ showVal v
  | .err c => s!"err:{c}"

def showKey (k : Key) : String := s!"{k.1.name}.{k.1.ver}({showVal k.2})"

def runAll (V : Variant) (P : Prog) : St → List RunIn → List String
  | _, [] => []
  | st, ri :: rest =>
    match runOne V P st ri with
    | none => ["fuel"]
    | some (st1, r, _) => (showRes r ++ " | " ++ " ".intercalate (st1.log.map showKey)) :: runAll V P st1 rest

def step (_ : Unit) (line : String) : Unit × String :=
  match Sexp.parseLine line with
  | some [.atom "hist", .list [.atom "V", a, b, c], .list (.atom "tbl" :: tb), .list (.atom "steps" :: ss)] =>
    match boolA a, boolA b, boolA c, tblOf tb, stepsOf ss with
    | some a, some b, some c, some tbl, some steps =>
      ((), " ; ".intercalate (runAll ⟨a, b, c⟩ (tableProg tbl) {} steps))
    | _, _, _, _, _ => ((), "bad-value")
  | _ => ((), "bad-op")

def main : IO Unit := do driverLoop (← IO.getStdin) () step
