import RedunModel.Proto
import RedunModel.Model.Promise
open RedunModel RedunModel.Promise

/- Line protocol of the promise model.

request  ::= (reset) | (op ACT)
ACT      ::= (then iP FN? FN?) | (settle BR iP VAL) | (settlearg BR iP) | (new) | (newf (ACT*) OUT)
           | (all iP*) | (wait iP*)
FN?      ::= N | (fn iID (ACT*) OUT) | (bind BR iP)
OUT      ::= (ret VAL) | retarg | (raise iE)
BR       ::= res | rej
VAL      ::= N | i<int> | (e iK) | (p iK) | (l VAL*)

reply to (op ..): `(log (c iID VAL)*) (st ST*) FLAGS` where the log holds the user-function calls made by
this operation (oldest first), ST ::= (P n m) | (F VAL n m) | (R VAL n m) for every promise in creation
order (n, m = lengths of _resolvers/_rejectors) and FLAGS ::= ok | badref | fuel-out.
-/

partial def renderVal : Val → String
  | .none => "N"
  | .int n => atomOfInt n
  | .err e => "(e i" ++ toString e ++ ")"
  | .prom p => "(p i" ++ toString p ++ ")"
  | .list l => "(l" ++ String.join (l.map fun v => " " ++ renderVal v) ++ ")"

mutual
  partial def toVal : Sexp → Option Val
    | .atom "N" => some .none
    | .atom a => (intOfAtom a).map .int
    | .list [.atom "e", .atom k] => (natOfAtom k).map .err
    | .list [.atom "p", .atom k] => (natOfAtom k).map .prom
    | .list (.atom "l" :: vs) => (toVals vs).map .list
    | _ => none
  partial def toVals : List Sexp → Option (List Val)
    | [] => some []
    | x :: xs => do
      let v ← toVal x
      let t ← toVals xs
      pure (v :: t)
end

def toBr : Sexp → Option Br
  | .atom "res" => some .res
  | .atom "rej" => some .rej
  | _ => none

def toOut : Sexp → Option Outcome
  | .atom "retarg" => some .retArg
  | .list [.atom "ret", v] => (toVal v).map .ret
  | .list [.atom "raise", .atom k] => (natOfAtom k).map .raise
  | _ => none

def toNats : List Sexp → Option (List Nat)
  | [] => some []
  | .atom a :: xs => do
    let n ← natOfAtom a
    let t ← toNats xs
    pure (n :: t)
  | _ => none

mutual
  partial def toAct : Sexp → Option Act
    | .list [.atom "then", .atom p, r, j] => do
      let p ← natOfAtom p
      let r ← toFnOpt r
      let j ← toFnOpt j
      pure (.then_ p r j)
    | .list [.atom "settle", b, .atom p, v] => do
      let b ← toBr b
      let p ← natOfAtom p
      let v ← toVal v
      pure (.settle b p v)
    | .list [.atom "settlearg", b, .atom p] => do
      let b ← toBr b
      let p ← natOfAtom p
      pure (.settleArg b p)
    | .list [.atom "new"] => some .new
    | .list [.atom "newf", .list acts, out] => do
      let acts ← toActs acts
      let out ← toOut out
      pure (.newf acts out)
    | .list (.atom "all" :: ps) => (toNats ps).map .all
    | .list (.atom "wait" :: ps) => (toNats ps).map .wait
    | _ => none
  partial def toActs : List Sexp → Option (List Act)
    | [] => some []
    | x :: xs => do
      let a ← toAct x
      let t ← toActs xs
      pure (a :: t)
  partial def toFnOpt : Sexp → Option (Option UFn)
    | .atom "N" => some none
    | .list [.atom "fn", .atom id, .list acts, out] => do
      let id ← natOfAtom id
      let acts ← toActs acts
      let out ← toOut out
      pure (some (.script id acts out))
    | .list [.atom "bind", b, .atom p] => do
      let b ← toBr b
      let p ← natOfAtom p
      pure (some (.bind b p))
    | _ => none
end

def renderProm (pr : Prom) : String :=
  let tail := " i" ++ toString pr.resolvers.length ++ " i" ++ toString pr.rejectors.length ++ ")"
  match pr.st with
  | .pending => "(P" ++ tail
  | .settled .res v => "(F " ++ renderVal v ++ tail
  | .settled .rej v => "(R " ++ renderVal v ++ tail

def fuel : Nat := 5000

def stepLine (s : State) (line : String) : State × String :=
  match Sexp.parseLine line with
  | some [.list [.atom "reset"]] => (init, "ok")
  | some [.list [.atom "op", a]] =>
    match toAct a with
    | none => (s, "bad-value")
    | some a =>
      -- once an operation has run out of fuel the rest of the history is not meaningful
      if !s.stack.isEmpty then (s, "fuel-out") else
      let s0 : State := { s with log := [] }
      let s1 := exec fuel a s0
      let calls := s1.log.reverse.filterMap fun
        | .call id v => some ("(c i" ++ toString id ++ " " ++ renderVal v ++ ")")
        | _ => none
      let bad := s1.log.any fun | .badRef => true | _ => false
      let flag := if !s1.stack.isEmpty then "fuel-out" else if bad then "badref" else "ok"
      (s1, "(log" ++ String.join (calls.map (" " ++ ·)) ++ ") (st" ++
        String.join (s1.heap.map fun pr => " " ++ renderProm pr) ++ ") " ++ flag)
  | _ => (s, "bad-op")

def main : IO Unit := do driverLoop (← IO.getStdin) init stepLine
