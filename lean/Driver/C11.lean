import RedunModel.Proto
import RedunModel.Model.Arrayer
open RedunModel RedunModel.Arrayer

/- request: `run <cur|fix> (<min> <max> <stale>) ((<id> <descr> <T|F>)*) (<S|M|(T n)>*)`   (ints as i<n>)
   reply:   one S-expression per schedule letter, separated by ` | `:
              `(<pc executed> <state after>)`   or `blocked` when the letter's thread is not enabled
            followed by ` | (final <state>)`.
   state ::= (pend ((d (ids))*)) (ts ((d t)*)) (num n) (lock N|S|M) (sub ((ids)*)) (err (..)) (ad pc) (mon pc) (started n) -/

def apcName : APc → String
  | .a158 => "a158" | .a159 => "a159" | .a160 => "a160" | .a162 => "a162" | .a163 => "a163" | .a164 => "a164"
  | .a165 => "a165" | .a166 => "a166" | .a163x => "a163x" | .a168 => "a168" | .s136 => "s136" | .s137 => "s137"
  | .s139 => "s139" | .s140 => "s140" | .s144 => "s144" | .s145 => "s145" | .s146 => "s146" | .done => "done"

def mpcName : MPc → String
  | .none => "none" | .m122 => "m122" | .m123 => "m123" | .m124 => "m124" | .g172 => "g172" | .gLock => "gLock"
  | .g175a => "g175a" | .g173a => "g173a" | .g175b => "g175b" | .g176 => "g176" | .g174 => "g174" | .g173b => "g173b"
  | .g173e => "g173e" | .gUnlock => "gUnlock" | .gUnlockE => "gUnlockE" | .g178 => "g178" | .m126 => "m126"
  | .m127 => "m127" | .p183 => "p183" | .p184 => "p184" | .p185 => "p185" | .p183x => "p183x" | .p183xE => "p183xE"
  | .p188 => "p188" | .p189 => "p189" | .p190 => "p190" | .p191 => "p191" | .p193 => "p193" | .p194 => "p194"
  | .p195 => "p195" | .p193x => "p193x" | .p197 => "p197" | .p198 => "p198" | .p199 => "p199" | .p201 => "p201"
  | .pdLock => "pdLock" | .p203 => "p203" | .p203w => "p203w" | .pdUnlock => "pdUnlock" | .m128 => "m128"
  | .m132 => "m132" | .mExit => "mExit" | .dead => "dead"

def ids (js : List Job) : String := "(" ++ " ".intercalate (js.map fun j => atomOfInt j.id) ++ ")"

def showState (s : State) : String :=
  let pend := " ".intercalate (s.pending.map fun (d, js) => "(" ++ atomOfInt d ++ " " ++ ids js ++ ")")
  let ts := " ".intercalate (s.stamps.map fun (d, t) => "(" ++ atomOfInt d ++ " " ++ atomOfInt t ++ ")")
  let lock := match s.lock with | none => "N" | some .S => "S" | some .M => "M"
  let sub := " ".intercalate (s.submitted.map ids)
  let err := " ".intercalate (s.errors.map fun e => match e with | .keyError => "KeyError" | .runtimeError => "RuntimeError")
  s!"(pend ({pend})) (ts ({ts})) (num {atomOfInt s.num}) (lock {lock}) (sub ({sub})) (err ({err})) (ad {apcName s.ad.pc}) (mon {mpcName s.mon.pc}) (started {atomOfInt s.started})"

def parseJob : Sexp → Option Job
  | .list [.atom i, .atom d, .atom sc] => do
    let i ← natOfAtom i
    let d ← natOfAtom d
    let sc ← (if sc = "T" then some true else if sc = "F" then some false else none)
    pure ⟨i, d, sc⟩
  | _ => none

def parseEv : Sexp → Option Ev
  | .atom "S" => some (.thr .S)
  | .atom "M" => some (.thr .M)
  | .list [.atom "T", .atom n] => (natOfAtom n).map .tick
  | _ => none

def runTrace (c : Cfg) (p : Params) : State → List Ev → List String → List String
  | s, [], acc => (s!"(final {showState s})" :: acc).reverse
  | s, e :: es, acc =>
    let pcName := match e with
      | .thr .S => apcName s.ad.pc
      | .thr .M => mpcName s.mon.pc
      | .tick _ => "tick"
    match step c p s e with
    | some s' => runTrace c p s' es (s!"({pcName} {showState s'})" :: acc)
    | none => runTrace c p s es ("blocked" :: acc)

def handle (_ : Unit) (line : String) : Unit × String :=
  match Sexp.parseLine line with
  | some [.atom "run", .atom cfg, .list [.atom mn, .atom mx, .atom st], .list jobs, .list sched] =>
    match (if cfg = "cur" then some Cfg.current else if cfg = "fix" then some Cfg.fixed else none),
          natOfAtom mn, natOfAtom mx, intOfAtom st, jobs.mapM parseJob, sched.mapM parseEv with
    | some c, some mn, some mx, some st, some jobs, some sched =>
      ((), " | ".intercalate (runTrace c ⟨mn, mx, st⟩ (init jobs) sched []))
    | _, _, _, _, _, _ => ((), "bad-value")
  | _ => ((), "bad-op")

def main : IO Unit := do driverLoop (← IO.getStdin) () handle
