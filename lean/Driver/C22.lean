import RedunModel.Model.DbProto
/- driver of the shared `Model/Db` (see `RedunModel/Model/DbProto.lean` for the protocol) -/
def main : IO Unit := RedunModel.DbProto.main
