import RedunModel.Proto
import RedunModel.Model.Monitor
open RedunModel RedunModel.Monitor

/- request: `run <docker|batch|k8s|gcp|glue> <arrayer max_array_size, i0 = unbounded> (<job id>*) (<S | A | F | (M k) | (U k)>*)`   (F = the environment arms one transient cloud error; (L j) = the first listing names
            an in-flight cloud job for j; (O j T|F) = that cloud job changes state, T = the API no longer describes it)   (ints as i<n>)
   reply:   per schedule letter `(<label executed> <state after>)` or `blocked`, separated by ` | `,
            then ` | (final <state>)`.
   state ::= (flag T|F) (pend (ids)) (queue (ids)) (arr T|F) (rep (ids)) (crash n) (hit T|F) (S <lbl>|-)
             (mons <lbl>|dead|new ...) (subs ...) (lost (ids)) -/

def variantOf : String → Option Variant
  | "docker" => some docker | "batch" => some awsBatch | "k8s" => some k8s | "gcp" => some gcpBatch
  | "glue" => some glue | _ => none

def ids (js : List Job) : String := "(" ++ " ".intercalate (js.map fun j => atomOfInt (Int.ofNat j)) ++ ")"
def tf (b : Bool) : String := if b then "T" else "F"
def lblStr : Option Lbl → String
  | some l => atomOfInt (Int.ofNat l)
  | none => "-"

def showState (V : Variant) (s : State) : String :=
  let mons := " ".intercalate (s.mons.map fun m => match m.ph with
    | .unstarted => "new" | .dead => "dead" | _ => lblStr (labelM V m))
  let subs := " ".intercalate (s.subs.map fun u => match u.ph with
    | .unstarted => "new" | .dead => "dead" | _ => lblStr (labelU V u))
  s!"(flag {tf s.flag}) (pend {ids s.pending}) (queue {ids s.queue}) (arr {tf s.arrAlive}) (rep {ids s.reported}) (crash {atomOfInt (Int.ofNat s.crashes)}) (num {atomOfInt (Int.ofNat s.queue.length)}) (armed {tf s.armed}) (pre {ids s.pre}) (hit {tf s.hit}) (S {lblStr (labelS V s)}) (mons {mons}) (subs {subs}) (lost {ids (lost s)})"

def parseEv : Sexp → Option Ev
  | .atom "S" => some .S
  | .atom "A" => some .A
  | .atom "F" => some .F
  | .list [.atom "L", .atom j] => (natOfAtom j).map .L
  | .list [.atom "O", .atom j, .atom g] => (natOfAtom j).bind (fun j => if g = "T" then some (.O j true) else if g = "F" then some (.O j false) else none)
  | .list [.atom "M", .atom k] => (natOfAtom k).map .M
  | .list [.atom "U", .atom k] => (natOfAtom k).map .U
  | _ => none

def execLabel (V : Variant) (s : State) : Ev → Option Lbl
  | .S => labelS V s
  | .M k => (s.mons[k]?).bind (labelM V)
  | .U k => (s.subs[k]?).bind (labelU V)
  | .A => some 0
  | .F => none
  | .L _ => none
  | .O _ _ => none

def runTrace (V : Variant) : State → List Ev → List String → List String
  | s, [], acc => (s!"(final {showState V s})" :: acc).reverse
  | s, e :: es, acc =>
    match step V s e with
    | some s' => runTrace V s' es (s!"({lblStr (execLabel V s e)} {showState V s'})" :: acc)
    | none => runTrace V s es ("blocked" :: acc)

def handle (_ : Unit) (line : String) : Unit × String :=
  match Sexp.parseLine line with
  | some [.atom "run", .atom v, .atom amax, .list jobs, .list sched] =>
    match (variantOf v).bind (fun V => (natOfAtom amax).map (fun k => { V with arrMax := k })), jobs.mapM (fun x => match x with | .atom a => natOfAtom a | _ => none), sched.mapM parseEv with
    | some V, some jobs, some sched => ((), " | ".intercalate (runTrace V (init jobs) sched []))
    | _, _, _ => ((), "bad-value")
  | _ => ((), "bad-op")

def main : IO Unit := do driverLoop (← IO.getStdin) () handle
