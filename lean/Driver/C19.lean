import RedunModel.Proto
import RedunModel.Model.Nested
import RedunModel.Model.NestedMap
open RedunModel RedunModel.Nested RedunModel.Nested.NV RedunModel.NestedMap

/- value ::= <atom>                                   leaf (opaque text, never one of the keywords below)
           | (L v*) | (U v*) | (NT <cls> v*) | (S v*)  list / tuple / namedtuple / set (iteration order)
           | (D (k v)*)                                dict items in insertion order
           | (DC <cls> <frozen T|F> <hasDict T|F> (<field> <init T|F> v)*)   dataclass instance
   requests:  iter v        -> ( leaf* )   iterator order            (`iterNested`, the explicit stack loop)
              visit v       -> ( leaf* )   order of `func` calls     (`visited`)
              map <pre> v   -> value | !Err      repaired code `mapPy` with func = (pre ++ ·)
              mapold <pre> v-> value | !Err      code before the repair `mapOld`
              shape v       -> value with every leaf `_`
-/
def boolOfAtom : Sexp → Option Bool
  | .atom "T" => some true
  | .atom "F" => some false
  | _ => none

mutual
  partial def toNV : Sexp → Option (NV String)
    | .atom a => some (.leaf a)
    | .list (.atom "L" :: items) => (toNVs items).map .list
    | .list (.atom "U" :: items) => (toNVs items).map .tuple
    | .list (.atom "NT" :: .atom c :: items) => (toNVs items).map (.ntuple c)
    | .list (.atom "S" :: items) => (toNVs items).map .set
    | .list (.atom "D" :: items) => do
      let kvs ← toKVs items
      pure (.dict (kvs.map Prod.fst) (kvs.map Prod.snd))
    | .list (.atom "DC" :: .atom c :: fz :: hd :: fields) => do
      let fz ← boolOfAtom fz
      let hd ← boolOfAtom hd
      let fs ← toFields fields
      pure (.dcls { name := c, fields := fs.map (fun x => (x.1, x.2.1)), frozen := fz, hasDict := hd }
                  (fs.map (fun x => x.2.2)))
    | _ => none
  partial def toNVs : List Sexp → Option (List (NV String))
    | [] => some []
    | x :: xs => do
      let v ← toNV x
      let t ← toNVs xs
      pure (v :: t)
  partial def toKVs : List Sexp → Option (List (NV String × NV String))
    | [] => some []
    | .list [k, v] :: xs => do
      let k' ← toNV k
      let v' ← toNV v
      let t ← toKVs xs
      pure ((k', v') :: t)
    | _ => none
  partial def toFields : List Sexp → Option (List (String × Bool × NV String))
    | [] => some []
    | .list [.atom n, i, v] :: xs => do
      let i' ← boolOfAtom i
      let v' ← toNV v
      let t ← toFields xs
      pure ((n, i', v') :: t)
    | _ => none
end

def tf (b : Bool) : String := if b then "T" else "F"

/-- zip that reports a length mismatch instead of truncating -/
def zipExact {α β : Type} : List α → List β → Option (List (α × β))
  | [], [] => some []
  | a :: as, b :: bs => (zipExact as bs).map ((a, b) :: ·)
  | _, _ => none

partial def render : NV String → String
  | .leaf a => a
  | .list xs => "(" ++ " ".intercalate ("L" :: xs.map render) ++ ")"
  | .tuple xs => "(" ++ " ".intercalate ("U" :: xs.map render) ++ ")"
  | .ntuple c xs => "(" ++ " ".intercalate ("NT" :: c :: xs.map render) ++ ")"
  | .set xs => "(" ++ " ".intercalate ("S" :: xs.map render) ++ ")"
  | .dict ks vs =>
    match zipExact ks vs with
    | some kvs => "(" ++ " ".intercalate ("D" :: kvs.map (fun kv => "(" ++ render kv.1 ++ " " ++ render kv.2 ++ ")")) ++ ")"
    | none => "ill-formed-dict"
  | .dcls c xs =>
    match zipExact c.fields xs with
    | some fxs => "(" ++ " ".intercalate ("DC" :: c.name :: tf c.frozen :: tf c.hasDict ::
        fxs.map (fun fx => "(" ++ fx.1.1 ++ " " ++ tf fx.1.2 ++ " " ++ render fx.2 ++ ")")) ++ ")"
    | none => "ill-formed-dataclass"

def renderLeaves (l : List String) : String := "(" ++ " ".intercalate l ++ ")"

def renderRes : Except PyErr (NV String) → String
  | .ok v => render v
  | .error .frozenInstanceError => "!FrozenInstanceError"
  | .error .attributeError => "!AttributeError"

def step (_ : Unit) (line : String) : Unit × String :=
  match Sexp.parseLine line with
  | some [.atom "iter", x] =>
    match toNV x with
    | some v => ((), renderLeaves (iterNested v))
    | none => ((), "bad-value")
  | some [.atom "visit", x] =>
    match toNV x with
    | some v => ((), renderLeaves (visited v))
    | none => ((), "bad-value")
  | some [.atom "map", .atom pre, x] =>
    match toNV x with
    | some v => ((), renderRes (mapPy (pre ++ ·) v))
    | none => ((), "bad-value")
  | some [.atom "mapold", .atom pre, x] =>
    match toNV x with
    | some v => ((), renderRes (mapOld (pre ++ ·) v))
    | none => ((), "bad-value")
  | some [.atom "shape", x] =>
    match toNV x with
    | some v => ((), render (mapNV (fun _ => "_") v))
    | none => ((), "bad-value")
  | _ => ((), "bad-op")

def main : IO Unit := do driverLoop (← IO.getStdin) () step
