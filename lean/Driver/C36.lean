import RedunModel.Proto
import RedunModel.Model.Migrate
open RedunModel RedunModel.Migrate

/- request:  mig s<start revision id> (tbl s<name> (cols s<col>*) (row <val>*)*)*
     <val> ::= N | i<int> | s<hex utf-8 text> | b<hex blob> | (T i<whole seconds since the epoch> s<fraction part as written>)
   reply:    ok (tbl ...)*   in the same syntax (tables in model order, rows in model order)
             !error s<message> -/

def valOf : Sexp → Option Val
  | .atom "N" => some .null
  | .list [.atom "T", .atom w, .atom f] => do
    let w ← intOfAtom w
    let f ← strOfAtom f
    pure (.ts w f)
  | .atom a =>
    match intOfAtom a with
    | some z => some (.int z)
    | none =>
      match a.toList with
      | 's' :: _ => (strOfAtom a).map .text
      | 'b' :: r => if (bytesOfHex (String.ofList r)).isSome then some (.blob (String.ofList r)) else none
      | _ => none
  | _ => none

def valsOf : List Sexp → Option (List Val)
  | [] => some []
  | x :: xs => do
    let v ← valOf x
    let t ← valsOf xs
    pure (v :: t)

def strsOf : List Sexp → Option (List String)
  | [] => some []
  | .atom a :: xs => do
    let v ← strOfAtom a
    let t ← strsOf xs
    pure (v :: t)
  | _ => none

def rowsOfS (cols : List String) : List Sexp → Option (List Row)
  | [] => some []
  | .list (.atom "row" :: vs) :: rest => do
    let v ← valsOf vs
    if v.length ≠ cols.length then none
    let t ← rowsOfS cols rest
    pure (cols.zip v :: t)
  | _ => none

def tablesOf : List Sexp → Option Db
  | [] => some []
  | .list (.atom "tbl" :: .atom n :: .list (.atom "cols" :: cs) :: rows) :: rest => do
    let n ← strOfAtom n
    let cs ← strsOf cs
    let rs ← rowsOfS cs rows
    let t ← tablesOf rest
    pure (⟨n, cs, rs⟩ :: t)
  | _ => none

def showVal : Val → String
  | .null => "N"
  | .int i => atomOfInt i
  | .text s => atomOfStr s
  | .blob h => "b" ++ h
  | .ts w f => "(T " ++ atomOfInt w ++ " " ++ atomOfStr f ++ ")"

def showTable (t : Table) : String :=
  let rows := t.rows.map fun r => "(row " ++ " ".intercalate (t.cols.map fun c => showVal (getD c r)) ++ ")"
  "(tbl " ++ atomOfStr t.name ++ " (cols " ++ " ".intercalate (t.cols.map atomOfStr) ++ ")" ++
    (if rows.isEmpty then "" else " " ++ " ".intercalate rows) ++ ")"

def step (_ : Unit) (line : String) : Unit × String :=
  match Sexp.parseLine line with
  | some (.atom "mig" :: .atom start :: tbls) =>
    match strOfAtom start, tablesOf tbls with
    | some start, some db =>
      match migrate start db with
      | .ok db' => ((), "ok " ++ " ".intercalate (db'.map showTable))
      | .error x => ((), "!error " ++ atomOfStr x)
    | _, _ => ((), "bad-value")
  | _ => ((), "bad-op")

def main : IO Unit := do driverLoop (← IO.getStdin) () step
