import RedunModel.Proto
import RedunModel.Model.TagValue
open RedunModel RedunModel.TagValue

/- values:  N | T | F | i<int> | (f s<hex repr>) | s<hex> | (c s<hex canonical json>)
   oracle answers of the real Python functions on one text:  I ::= i<int> | E    (int(text))
                                                              Fl ::= (f s<hex repr>) | E   (float(text))
                                                              Lo ::= value | E   (json.loads(text))
   requests:
     parse s<text> I Fl Lo                       → ok <value> | !ValueError
     format <value> s<json.dumps(value)> I Fl Lo → ok s<text> | !ValueError     (I Fl Lo: for the string value's own text)
     formatold … (same arguments)                → the code before the repair
     parsekv s<text> T|F I Fl Lo                 → ok s<key> <value> | ok s<key> ANY | !ValueError   (I Fl Lo: for the part after the first '=')
-/
abbrev V := JV String String

def toVal : Sexp → Option V
  | .atom "N" => some .null
  | .atom "T" => some (.bool true)
  | .atom "F" => some (.bool false)
  | .list [.atom "f", .atom a] => (strOfAtom a).map .float
  | .list [.atom "c", .atom a] => (strOfAtom a).map .compound
  | .atom a =>
    match intOfAtom a with
    | some z => some (.int z)
    | none => (strOfAtom a).map fun s => .str s.toList
  | _ => none

def renderVal : V → String
  | .null => "N"
  | .bool true => "T"
  | .bool false => "F"
  | .int z => atomOfInt z
  | .float f => "(f " ++ atomOfStr f ++ ")"
  | .str s => atomOfStr (String.ofList s)
  | .compound c => "(c " ++ atomOfStr c ++ ")"

/-- `some none` = the function raised; `none` = malformed request -/
def toOrInt : Sexp → Option (Option Int)
  | .atom "E" => some none
  | .atom a => (intOfAtom a).map some
  | _ => none
def toOrFloat : Sexp → Option (Option String)
  | .atom "E" => some none
  | .list [.atom "f", .atom a] => (strOfAtom a).map some
  | _ => none
def toOrLoads : Sexp → Option (Option V)
  | .atom "E" => some none
  | x => (toVal x).map some

/-- The real functions' answers, valid for the one text / value they were computed for. -/
def mkLex (key : Str) (i : Option Int) (f : Option String) (l : Option V) (dv : V) (dt : Str) : Lex String String where
  pyInt := fun x => if x = key then i else none
  pyFloat := fun x => if x = key then f else none
  loads := fun x => if x = key then l else none
  dumps := fun v => if v = dv then dt else ['?']

def answer (line : String) : String :=
  match Sexp.parseLine line with
  | some [.atom "parse", .atom t, i, f, l] =>
    match strOfAtom t, toOrInt i, toOrFloat f, toOrLoads l with
    | some t, some i, some f, some l =>
      match parse (mkLex t.toList i f l .null []) t.toList with
      | .ok v => "ok " ++ renderVal v
      | .error .valueError => "!ValueError"
    | _, _, _, _ => "bad-value"
  | some [.atom op, v, .atom d, i, f, l] =>
    if op = "format" ∨ op = "formatold" then
      match toVal v, strOfAtom d, toOrInt i, toOrFloat f, toOrLoads l with
      | some v, some d, some i, some f, some l =>
        let key : Str := match v with
          | .str s => s
          | _ => []
        let L := mkLex key i f l v d.toList
        match (if op = "format" then format L v else formatOld L v) with
        | .ok t => "ok " ++ atomOfStr (String.ofList t)
        | .error .valueError => "!ValueError"
      | _, _, _, _, _ => "bad-value"
    else if op = "parsekv" then
      match strOfAtom (match v with | .atom a => a | _ => ""), d, toOrInt i, toOrFloat f, toOrLoads l with
      | some t, req, some i, some f, some l =>
        if req ≠ "T" ∧ req ≠ "F" then "bad-value" else
        let key : Str := match splitEq t.toList with
          | some (_, v) => v
          | none => []
        match parseKeyValue (mkLex key i f l .null []) t.toList (req = "T") with
        | .ok (k, some v) => "ok " ++ atomOfStr (String.ofList k) ++ " " ++ renderVal v
        | .ok (k, none) => "ok " ++ atomOfStr (String.ofList k) ++ " ANY"
        | .error .valueError => "!ValueError"
      | _, _, _, _, _ => "bad-value"
    else "bad-op"
  | _ => "bad-op"

def step (_ : Unit) (line : String) : Unit × String := ((), answer line)

def main : IO Unit := do driverLoop (← IO.getStdin) () step
