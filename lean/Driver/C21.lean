import RedunModel.Proto
import RedunModel.Model.Upstreams
open RedunModel RedunModel.Upstreams

/- request:  eval <T|F legacy> <src>
   src ::= (L i<n>) | (K src*) | (T i<key> <T|F prov> (src*) (i<kwname>*) (src*) (i<defname>*) (src*)) | (O src*)
         | (C src <T|F taken> src src) | (X src <T|F failed> i<recKey>) | (G src)
   reply: (ups i<k>*) (rows (i<call> (p i<n>)|(k i<name>) (i<up>*))*)      -- rows in recording order, ups as yielded -/

def nat? : Sexp → Option Nat
  | .atom s => natOfAtom s
  | _ => none

def bool? : Sexp → Option Bool
  | .atom "T" => some true
  | .atom "F" => some false
  | _ => none

partial def toSrc : Sexp → Option Src
  | .list [.atom "L", v] => (nat? v).map .lit
  | .list (.atom "K" :: items) => (items.mapM toSrc).map .cont
  | .list [.atom "T", key, prov, .list args, .list kn, .list ka, .list dn, .list d] => do
    pure (.call (← nat? key) (← bool? prov) (← args.mapM toSrc) (← kn.mapM nat?) (← ka.mapM toSrc)
      (← dn.mapM nat?) (← d.mapM toSrc))
  | .list (.atom "O" :: args) => (args.mapM toSrc).map .op
  | .list [.atom "C", c, t, a, b] => do pure (.cond (← toSrc c) (← bool? t) (← toSrc a) (← toSrc b))
  | .list [.atom "X", e, f, r] => do pure (.catchE (← toSrc e) (← bool? f) (← nat? r))
  | .list [.atom "G", v] => (toSrc v).map .tags
  | _ => none

def rNats (l : List Nat) : String := "(" ++ " ".intercalate (l.map fun (n : Nat) => atomOfInt n) ++ ")"

def rSlot : Slot → String
  | .pos i => "(p " ++ atomOfInt i ++ ")"
  | .key n => "(k " ++ atomOfInt n ++ ")"

def rRow (r : Row) : String := "(" ++ atomOfInt r.call ++ " " ++ rSlot r.slot ++ " " ++ rNats r.ups ++ ")"

def stepLine (_ : Unit) (line : String) : Unit × String :=
  match Sexp.parseLine line with
  | some [.atom "eval", lg, s] =>
    match bool? lg, toSrc s with
    | some lg, some s =>
      let r := evalE lg [] s
      ((), "(ups" ++ String.join ((findUps r.2.1).map fun (n : Nat) => " " ++ atomOfInt n) ++ ") (rows" ++
        String.join (r.2.2.map fun x => " " ++ rRow x) ++ ")")
    | _, _ => ((), "bad-value")
  | _ => ((), "bad-op")

def main : IO Unit := do driverLoop (← IO.getStdin) () stepLine
