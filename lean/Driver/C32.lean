import RedunModel.Proto
import RedunModel.Model.RemoteProto
open RedunModel RedunModel.RemoteProto
open RedunModel.Script (Str)

/- requests (strings are `s<hex utf-8>` atoms):
   name pfx hash T|F                      -> s<name>
   parse name                             -> (s<hash>|none T|F)
   array scratch arrayId (hash*)          -> (s<input> s<output> s<error> s<hashes> (out*) (err*) s<evaltext>)
   elem scratch (hash*) i<n>              -> (i<args> i<kwargs> s<out> s<err>) | !IndexError
   gather ((name id ((cid i<n>)*))*) ((parent (hash*))*)   -> ((hash id)*) | !IndexError
   ops scratch (hash*) i<n> T|F none|code|import|lookup|task  -> ((remove p)|(werror p)|(woutput p) ...) | !IndexError
   rerun scratch (hash*) i<n> T|F N|T|F none|...|task   -> ops of a re-run (existing output: none / valid / invalid)
   gatherq queue prefix ((name id queue STATUS ((cid i<n> STATUS)*))*) ((parent (hash*))*) -> ((hash id)*) | !IndexError
   reunite ((hash id)*) T|F evalhash (aliveId*)            -> (s<id>|none ((hash id)*)) -/

def outS (s : Str) : String := atomOfStr (String.ofList s)
def inS (x : Sexp) : Option Str :=
  match x with
  | .atom a => (strOfAtom a).map String.toList
  | _ => none
def inN (x : Sexp) : Option Nat :=
  match x with
  | .atom a => natOfAtom a
  | _ => none
def inB : Sexp → Option Bool
  | .atom "T" => some true
  | .atom "F" => some false
  | _ => none
def optS : Option Str → String
  | some s => outS s
  | none => "none"
def listS (l : List Str) : String := "(" ++ " ".intercalate (l.map outS) ++ ")"
def preS (p : Pre) : String := "(" ++ " ".intercalate (p.map fun kv => "(" ++ outS kv.1 ++ " " ++ outS kv.2 ++ ")") ++ ")"

def inList {γ : Type} (f : Sexp → Option γ) : Sexp → Option (List γ)
  | .list l => l.mapM f
  | _ => none

def inChild : Sexp → Option (Str × Nat)
  | .list [c, i] => do pure (← inS c, ← inN i)
  | _ => none
def inJob : Sexp → Option Inflight
  | .list [n, i, ch] => do pure { name := ← inS n, jobId := ← inS i, children := ← inList inChild ch }
  | _ => none
def inFile : Sexp → Option (Str × List Str)
  | .list [p, hs] => do pure (← inS p, ← inList inS hs)
  | _ => none
def inPair : Sexp → Option (Str × Str)
  | .list [a, b] => do pure (← inS a, ← inS b)
  | _ => none

def inStatus : Sexp → Option Status
  | .atom "SUBMITTED" => some .submitted
  | .atom "PENDING" => some .pending
  | .atom "RUNNABLE" => some .runnable
  | .atom "STARTING" => some .starting
  | .atom "RUNNING" => some .running
  | .atom "SUCCEEDED" => some .succeeded
  | .atom "FAILED" => some .failed
  | _ => none
def inQChild : Sexp → Option (Str × Nat × Status)
  | .list [c, i, st] => do pure (← inS c, ← inN i, ← inStatus st)
  | _ => none
def inQJob : Sexp → Option BatchJob
  | .list [n, i, q, st, ch] => do
    pure { name := ← inS n, jobId := ← inS i, queue := ← inS q, status := ← inStatus st, children := ← inList inQChild ch }
  | _ => none

def inFail : Sexp → Option (Option FailAt)
  | .atom "none" => some none
  | .atom "code" => some (some .code)
  | .atom "import" => some (some .importScript)
  | .atom "lookup" => some (some .taskLookup)
  | .atom "task" => some (some .task)
  | _ => none
def opS : FileOp → String
  | .remove p => "(remove " ++ outS p ++ ")"
  | .writeError p => "(werror " ++ outS p ++ ")"
  | .writeOutput p => "(woutput " ++ outS p ++ ")"

def mkJobs (hashes : List Str) : List (RJob Nat Nat) :=
  (List.range hashes.length).zip hashes |>.map fun (i, h) => { evalHash := h, args := i, kwargs := i }

def step (_ : Unit) (line : String) : Unit × String :=
  match Sexp.parseLine line with
  | some [.atom "name", p, h, a] => match inS p, inS h, inB a with
    | some p, some h, some a => ((), outS (jobName p h a))
    | _, _, _ => ((), "bad-value")
  | some [.atom "parse", n] => match inS n with
    | some n => ((), "(" ++ optS (hashFromJobName n) ++ " " ++ (if isArrayJobName n then "T" else "F") ++ ")")
    | none => ((), "bad-value")
  | some [.atom "array", s, a, hs] => match inS s, inS a, inList inS hs with
    | some s, some a, some hs =>
      let f := writeArrayFiles s (mkJobs hs)
      ((), "(" ++ " ".intercalate [outS (arrayFile s a fInput), outS (arrayFile s a fOutput), outS (arrayFile s a fError),
        outS (arrayFile s a fHashes), listS f.outputPaths, listS f.errorPaths, outS f.evalText] ++ ")")
    | _, _, _ => ((), "bad-value")
  | some [.atom "elem", s, hs, i] => match inS s, inList inS hs, inN i with
    | some s, some hs, some i =>
      match oneshotElement (writeArrayFiles s (mkJobs hs)) i with
      | .ok e => ((), s!"(i{e.args} i{e.kwargs} {outS e.outputPath} {outS e.errorPath})")
      | .error _ => ((), "!IndexError")
    | _, _, _ => ((), "bad-value")
  | some [.atom "gather", js, fs] => match inList inJob js, inList inFile fs with
    | some js, some fs =>
      let evalFile : Str → Option (List Str) := fun p => (fs.find? (fun f => f.1 = p)).map (·.2)
      match gather evalFile js with
      | .ok pre => ((), preS pre)
      | .error _ => ((), "!IndexError")
    | _, _ => ((), "bad-value")
  | some [.atom "ops", s, hs, i, c, f] => match inS s, inList inS hs, inN i, inB c, inFail f with
    | some s, some hs, some i, some c, some f =>
      match oneshotOps (writeArrayFiles s (mkJobs hs)) i c f with
      | .ok ops => ((), "(" ++ " ".intercalate (ops.map opS) ++ ")")
      | .error _ => ((), "!IndexError")
    | _, _, _, _, _ => ((), "bad-value")
  | some [.atom "rerun", s, hs, i, c, ex, f] =>
    let ex' : Option (Option Bool) := match ex with
      | .atom "N" => some none
      | x => (inB x).map some
    match inS s, inList inS hs, inN i, inB c, ex', inFail f with
    | some s, some hs, some i, some c, some ex, some f =>
      match oneshotRerunOps (writeArrayFiles s (mkJobs hs)) i c ex f with
      | .ok ops => ((), "(" ++ " ".intercalate (ops.map opS) ++ ")")
      | .error _ => ((), "!IndexError")
    | _, _, _, _, _, _ => ((), "bad-value")
  | some [.atom "gatherq", q, p, js, fs] => match inS q, inS p, inList inQJob js, inList inFile fs with
    | some q, some p, some js, some fs =>
      let evalFile : Str → Option (List Str) := fun u => (fs.find? (fun f => f.1 = u)).map (·.2)
      match gatherQueue evalFile q p js with
      | .ok pre => ((), preS pre)
      | .error _ => ((), "!IndexError")
    | _, _, _, _ => ((), "bad-value")
  | some [.atom "reunite", pre, b, h, alive] => match inList inPair pre, inB b, inS h, inList inS alive with
    | some pre, some b, some h, some alive =>
      let (pre', r) := reunite pre b h (fun id => alive.contains id)
      ((), "(" ++ optS r ++ " " ++ preS pre' ++ ")")
    | _, _, _, _ => ((), "bad-value")
  | _ => ((), "bad-op")

def main : IO Unit := do driverLoop (← IO.getStdin) () step
