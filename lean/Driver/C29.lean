import RedunModel.Proto
import RedunModel.Model.Script
open RedunModel RedunModel.Script

/- requests (strings are `s<hex utf-8>` atoms):
   prep c | dedent c | strip c | eof c pfx | wrap c pfx | temp script | quote s | join (s*) |
   script c <inputs> <outputs> <N|tempdir> | post <outputs> | exec full
   nested values: (L v*) (U v*) (NT v*) (D k* v*) (S v*) ; leaves (F fam T|F path) (G fam T|F (F..) (F..)) (O tag) R
   fam ::= p | i | c -/

def outS (s : Str) : String := atomOfStr (String.ofList s)
def inS (x : Sexp) : Option Str :=
  match x with
  | .atom a => (strOfAtom a).map String.toList
  | _ => none

def famOf : Sexp → Option Fam
  | .atom "p" => some .plain
  | .atom "i" => some .imm
  | .atom "c" => some .content
  | _ => none
def famTo : Fam → String
  | .plain => "p" | .imm => "i" | .content => "c"
def boolOf : Sexp → Option Bool
  | .atom "T" => some true
  | .atom "F" => some false
  | _ => none
def boolTo (b : Bool) : String := if b then "T" else "F"

def frefOf : Sexp → Option FRef
  | .list [.atom "F", f, d, p] => do
    let f ← famOf f; let d ← boolOf d; let p ← inS p
    pure ⟨f, d, p⟩
  | _ => none
def frefTo (f : FRef) : String := s!"(F {famTo f.fam} {boolTo f.isDir} {outS f.path})"

def kindOf : String → Option Kind
  | "L" => some .list | "U" => some .tuple | "NT" => some .ntuple | "D" => some .dict | "S" => some .set
  | _ => none
def kindTo : Kind → String
  | .list => "L" | .tuple => "U" | .ntuple => "NT" | .dict => "D" | .set => "S"

mutual
  partial def nvOf : Sexp → Option (NV Leaf)
    | .atom "R" => some (.leaf .result)
    | .list [.atom "O", t] => (inS t).map fun t => .leaf (.other t)
    | .list [.atom "F", f, d, p] => (frefOf (.list [.atom "F", f, d, p])).map fun r => .leaf (.fref r)
    | .list [.atom "G", f, d, l, r] => do
      let f ← famOf f; let d ← boolOf d; let l ← frefOf l; let r ← frefOf r
      pure (.leaf (.staging f d l r))
    | .list (.atom k :: items) => do
      let k ← kindOf k
      let cs ← nvsOf items
      pure (.node k cs)
    | _ => none
  partial def nvsOf : List Sexp → Option (List (NV Leaf))
    | [] => some []
    | x :: xs => do
      let v ← nvOf x
      let t ← nvsOf xs
      pure (v :: t)
end

def leafTo : Leaf → String
  | .fref f => frefTo f
  | .staging f d l r => s!"(G {famTo f} {boolTo d} {frefTo l} {frefTo r})"
  | .other t => s!"(O {outS t})"
  | .result => "R"

partial def nvTo : NV Leaf → String
  | .leaf a => leafTo a
  | .node k cs => "(" ++ " ".intercalate (kindTo k :: cs.map nvTo) ++ ")"

def optS : Option Str → String
  | some s => outS s
  | none => "none"

def step (_ : Unit) (line : String) : Unit × String :=
  match Sexp.parseLine line with
  | some [.atom "prep", c] => match inS c with
    | some c => ((), outS (prepare c))
    | none => ((), "bad-value")
  | some [.atom "dedent", c] => match inS c with
    | some c => ((), outS (dedent c))
    | none => ((), "bad-value")
  | some [.atom "strip", c] => match inS c with
    | some c => ((), outS (strip c))
    | none => ((), "bad-value")
  | some [.atom "eof", c, p] => match inS c, inS p with
    | some c, some p => ((), optS (commandEof c p))
    | _, _ => ((), "bad-value")
  | some [.atom "wrap", c, p] => match inS c, inS p with
    | some c, some p => ((), optS (wrap c p))
    | _, _ => ((), "bad-value")
  | some [.atom "temp", c] => match inS c with
    | some c => ((), optS (tempFileOf c))
    | none => ((), "bad-value")
  | some [.atom "exec", c] => match inS c with
    | some c => ((), "(" ++ outS (executedScript c) ++ " " ++ optS (tempFileOf (executedScript c)) ++ ")")
    | none => ((), "bad-value")
  | some [.atom "quote", c] => match inS c with
    | some c => ((), outS (shQuote c))
    | none => ((), "bad-value")
  | some [.atom "join", .list items] => match items.mapM inS with
    | some l => ((), outS (shJoin l))
    | none => ((), "bad-value")
  | some [.atom "script", c, i, o, t] =>
    let t' : Option (Option Str) := match t with
      | .atom "N" => some none
      | x => (inS x).map some
    match inS c, nvOf i, nvOf o, t' with
    | some c, some i, some o, some t =>
      match scriptCall c i o t with
      | .ok r => ((), "(ok " ++ outS r.full ++ " " ++ nvTo r.inputArgs ++ " " ++ nvTo r.outputs ++ ")")
      | .error .attributeError => ((), "!AttributeError")
      | .error .nonTerminating => ((), "!NonTerminating")
    | _, _, _, _ => ((), "bad-value")
  | some [.atom "post", o] => match nvOf o with
    | some o => ((), nvTo (postprocess o))
    | none => ((), "bad-value")
  | _ => ((), "bad-op")

def main : IO Unit := do driverLoop (← IO.getStdin) () step
