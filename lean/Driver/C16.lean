import RedunModel.Proto
import RedunModel.Model.ValueHash
open RedunModel RedunModel.ValueHash

/- value ::= N | T | F | i<int> | f<16 hex digits: binary64 bits> | s<hex utf-8> | b<hex> | (L v*) | (U v*) | (D (k v)*) | (S v*) | (FS v*) | (O <cls> v*) | (X <cls> v)  instance of subclass <cls> of a builtin, v = builtin(value)
   (sets / frozensets list their elements in the iteration order observed in the process that hashed the value)
   request:  record v -> same reply format, for the hash `record_value` stores (`get_hash(data=serialize())`)
   request:  hash v   ->   V:<layout>          pre-image under tag "Value"
                           S:(<sorted items>)  pre-image under tag "Value.set"
                           S:(<items by element digest>) when sorted() raises TypeError (model digest, see `digest`)
                           unspecified
-/
mutual
  partial def toV : Sexp → Option V
    | .atom "N" => some .none
    | .atom "T" => some (.bool true)
    | .atom "F" => some (.bool false)
    | .atom a =>
      match intOfAtom a with
      | some z => some (.int z)
      | none =>
        match a.toList with
        | 's' :: r => (stringOfHex (String.ofList r)).map (fun s => V.str (s.toList.map Char.toNat))
        | 'b' :: r => (bytesOfHex (String.ofList r)).map (fun b => V.bytes (b.map UInt8.toNat))
        | 'f' :: r => (bytesOfHex (String.ofList r)).bind (fun b =>
            if b.length = 8 then some (V.float (b.foldl (fun n x => n * 256 + x.toNat) 0)) else none)
        | _ => none
    | .list (.atom "L" :: items) => (toVs items).map .list
    | .list (.atom "U" :: items) => (toVs items).map .tuple
    | .list (.atom "S" :: items) => (toVs items).map .set
    | .list (.atom "FS" :: items) => (toVs items).map .fset
    | .list (.atom "O" :: .atom c :: items) => (toVs items).map (.obj c)
    | .list [.atom "X", .atom c, b] => (toV b).map (.sub c)
    | .list (.atom "D" :: items) => do
      let kvs ← toKVs items
      pure (.dict (kvs.map Prod.fst) (kvs.map Prod.snd))
    | _ => none
  partial def toVs : List Sexp → Option (List V)
    | [] => some []
    | x :: xs => do
      let v ← toV x
      let t ← toVs xs
      pure (v :: t)
  partial def toKVs : List Sexp → Option (List (V × V))
    | [] => some []
    | .list [k, v] :: xs => do
      let k' ← toV k
      let v' ← toV v
      let t ← toKVs xs
      pure ((k', v') :: t)
    | _ => none
end

def nats (l : List Nat) : String := ".".intercalate (l.map toString)

def zipExact {α β : Type} : List α → List β → Option (List (α × β))
  | [], [] => some []
  | a :: as, b :: bs => (zipExact as bs).map ((a, b) :: ·)
  | _, _ => none

partial def render : V → String
  | .none => "N"
  | .bool b => if b then "T" else "F"
  | .int z => "i" ++ toString z
  | .float b => "f" ++ toString b
  | .str s => "s" ++ nats s
  | .bytes s => "b" ++ nats s
  | .list xs => "(" ++ " ".intercalate ("L" :: xs.map render) ++ ")"
  | .tuple xs => "(" ++ " ".intercalate ("U" :: xs.map render) ++ ")"
  | .set xs => "(" ++ " ".intercalate ("S" :: xs.map render) ++ ")"
  | .fset xs => "(" ++ " ".intercalate ("FS" :: xs.map render) ++ ")"
  | .obj c xs => "(" ++ " ".intercalate ("O" :: c :: xs.map render) ++ ")"
  | .sub c b => "(X " ++ c ++ " " ++ render b ++ ")"
  | .dict ks vs =>
    match zipExact ks vs with
    | some kvs => "(" ++ " ".intercalate ("D" :: kvs.map (fun kv => "(" ++ render kv.1 ++ " " ++ render kv.2 ++ ")")) ++ ")"
    | none => "ill-formed-dict"

def renderPre : Pre → String
  | .value w => "V:" ++ render w
  | .valueSet l => "S:(" ++ " ".intercalate (l.map render) ++ ")"

/-- A concrete injective digest for running the model: the rendering read as a number.  The real digests order
the elements differently; the tie only uses that the order is a function of the set of element pre-images. -/
def digest (p : Pre) : Nat := (renderPre p).toList.foldl (fun n c => n * 1114112 + c.toNat + 1) 0

def step (_ : Unit) (line : String) : Unit × String :=
  match Sexp.parseLine line with
  | some [.atom "hash", x] =>
    match toV x with
    | some v =>
      match getHash digest v with
      | .ok p => ((), renderPre p)
      | .typeError => ((), "!TypeError")
      | .unspecified => ((), "unspecified")
    | none => ((), "bad-value")
  | some [.atom "record", x] =>
    match toV x with
    | some v =>
      match recordValue digest v with
      | .ok p => ((), renderPre p)
      | .typeError => ((), "!TypeError")
      | .unspecified => ((), "unspecified")
    | none => ((), "bad-value")
  | _ => ((), "bad-op")

def main : IO Unit := do driverLoop (← IO.getStdin) () step
