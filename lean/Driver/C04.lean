import RedunModel.Proto
import RedunModel.Model.ExtCache
import RedunModel.Model.FileSysIO
open RedunModel RedunModel.FileSys RedunModel.ExtCache

/- One request per line, state threaded through.
   (init (<path>*))                                        universe, resets filesystem, cache and counter -> ok
   (xwrite <path> b<hex> t) (xremove <path>) (xtouch <path> t) (xtrunc <path> t)   external mutations     -> ok
   (run t ((<path> b<hex>)*) (<val>|P ...))                one scheduler.run of the task that writes the
                                                           files at mtime t and returns the leaves
                                                           -> (exec <H>|P ...) | (replay <H>|P ...)
   (fs)                                                    -> ((<path> N) | (<path> b<hex> i<mtime>) ...) over the universe -/

def pWrite : Sexp → Option (Path × Bytes)
  | .list [p, b] => do pure (← pPath p, ← pBytes b)
  | _ => none

def pOut : Sexp → Option (Option Val)
  | .atom "P" => some none
  | v => (pVal v).map some

def rLeaf : Leaf → String
  | .plain => "P"
  | .ext _ h => rH h

def rFs (U : List Path) (fs : FS) : String :=
  "(" ++ " ".intercalate (U.map fun p =>
    match fs p with
    | none => s!"({rPath p} N)"
    | some n => s!"({rPath p} {atomOfBytes n.bytes} {atomOfInt n.mtime})") ++ ")"

def stepLine (st : List Path × St) (line : String) : (List Path × St) × String :=
  let U := st.1
  let s := st.2
  match Sexp.parseLine line with
  | some [.list [.atom "init", .list ps]] =>
    match ps.mapM pPath with
    | some U => ((U, ⟨FS.empty, none, 0⟩), "ok")
    | none => (st, "bad-value")
  | some [.list [.atom "fs"]] => (st, rFs U s.fs)
  | some [.list [.atom "xwrite", p, b, t]] =>
    match pPath p, pBytes b, pInt t with
    | some p, some b, some t => ((U, { s with fs := s.fs.write p b t }), "ok")
    | _, _, _ => (st, "bad-value")
  | some [.list [.atom "xremove", p]] =>
    match pPath p with
    | some p => ((U, { s with fs := s.fs.remove p }), "ok")
    | none => (st, "bad-value")
  | some [.list [.atom "xtouch", p, t]] =>
    match pPath p, pInt t with
    | some p, some t => ((U, { s with fs := FS.utimeIfExists s.fs p t }), "ok")
    | _, _ => (st, "bad-value")
  | some [.list [.atom "xtrunc", p, t]] =>
    match pPath p, pInt t with
    | some p, some t => ((U, { s with fs := FS.truncIfExists s.fs p t }), "ok")
    | _, _ => (st, "bad-value")
  | some [.list [.atom "run", t, .list ws, .list os]] =>
    match pInt t, ws.mapM pWrite, os.mapM pOut with
    | some t, some ws, some os =>
      let r := run U (writerBody ws os t) s
      let txt := match r.2 with
        | .replay ls => "(replay " ++ " ".intercalate (ls.map rLeaf) ++ ")"
        | .exec ls => "(exec " ++ " ".intercalate (ls.map rLeaf) ++ ")"
        | .failed e => nomatch e
      ((U, r.1), txt)
    | _, _, _ => (st, "bad-value")
  | _ => (st, "bad-op")

def main : IO Unit := do driverLoop (← IO.getStdin) (([] : List Path), (⟨FS.empty, none, 0⟩ : St)) stepLine
