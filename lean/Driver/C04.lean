import RedunModel.Proto
import RedunModel.Model.ExtCache
import RedunModel.Model.FileSysIO
open RedunModel RedunModel.FileSys RedunModel.ExtCache

/- One request per line, state threaded through.
   (init (<path>*))                                        universe, resets filesystem, cache and counter -> ok
   (xwrite <path> b<hex> t) (xremove <path>) (xtouch <path> t) (xtrunc <path> t)   external mutations     -> ok
   (run t full|shallow ((<path> b<hex>)*) (<val>|P ...))   one scheduler.run of the task that writes the
                                                           files at mtime t and returns the leaves
                                                           -> (exec <H>|P ...) | (replay <H>|P ...)
   (chain t full|shallow (writes) (outs))                  one scheduler.run of consume(task(...))
                                                           -> (exec)|(replay) (cexec|creplay i<obs>*)
   (fs)                                                    -> ((<path> N) | (<path> b<hex> i<mtime>) ...) over the universe -/

def pWrite : Sexp → Option (Path × Bytes)
  | .list [p, b] => do pure (← pPath p, ← pBytes b)
  | _ => none

def pOut : Sexp → Option (Option Val)
  | .atom "P" => some none
  | v => (pVal v).map some

def rLeaf : Leaf → String
  | .plain => "P"
  | .ext _ h => rH h

def rFs (U : List Path) (fs : FS) : String :=
  "(" ++ " ".intercalate (U.map fun p =>
    match fs p with
    | none => s!"({rPath p} N)"
    | some n => s!"({rPath p} {atomOfBytes n.bytes} {atomOfInt n.mtime})") ++ ")"

def pVariant : Sexp → Option Bool
  | .atom "full" => some false
  | .atom "shallow" => some true
  | _ => none

def rInts (l : List Int) : String := String.join (l.map fun z => " " ++ atomOfInt z)

def stepLine (st : List Path × CSt) (line : String) : (List Path × CSt) × String :=
  let U := st.1
  let c := st.2
  let s := c.base
  let setFs (f : FS) : List Path × CSt := (U, { c with base := { s with fs := f } })
  match Sexp.parseLine line with
  | some [.list [.atom "init", .list ps]] =>
    match ps.mapM pPath with
    | some U => ((U, ⟨⟨FS.empty, none, [], 0⟩, [], 0⟩), "ok")
    | none => (st, "bad-value")
  | some [.list [.atom "fs"]] => (st, rFs U s.fs)
  | some [.list [.atom "xwrite", p, b, t]] =>
    match pPath p, pBytes b, pInt t with
    | some p, some b, some t => (setFs (s.fs.write p b t), "ok")
    | _, _, _ => (st, "bad-value")
  | some [.list [.atom "xremove", p]] =>
    match pPath p with
    | some p => (setFs (s.fs.remove p), "ok")
    | none => (st, "bad-value")
  | some [.list [.atom "xtouch", p, t]] =>
    match pPath p, pInt t with
    | some p, some t => (setFs (FS.utimeIfExists s.fs p t), "ok")
    | _, _ => (st, "bad-value")
  | some [.list [.atom "xtrunc", p, t]] =>
    match pPath p, pInt t with
    | some p, some t => (setFs (FS.truncIfExists s.fs p t), "ok")
    | _, _ => (st, "bad-value")
  | some [.list [.atom "run", t, v, .list ws, .list os]] =>
    match pInt t, pVariant v, ws.mapM pWrite, os.mapM pOut with
    | some t, some sh, some ws, some os =>
      let r := run U sh (writerBody ws os t) s
      let txt := match r.2 with
        | .replay ls => "(replay" ++ String.join (ls.map fun l => " " ++ rLeaf l) ++ ")"
        | .exec ls => "(exec" ++ String.join (ls.map fun l => " " ++ rLeaf l) ++ ")"
        | .failed e => nomatch e
      ((U, { c with base := r.1 }), txt)
    | _, _, _, _ => (st, "bad-value")
  | some [.list [.atom "chain", t, v, .list ws, .list os]] =>
    match pInt t, pVariant v, ws.mapM pWrite, os.mapM pOut with
    | some t, some sh, some ws, some os =>
      let r := runChain U sh (writerBody ws os t) c
      let up := match r.2.1 with
        | .replay _ => "(replay)"
        | .exec _ => "(exec)"
        | .failed e => nomatch e
      let dn := match r.2.2 with
        | some (true, sm) => " (cexec" ++ rInts sm ++ ")"
        | some (false, sm) => " (creplay" ++ rInts sm ++ ")"
        | none => ""
      ((U, r.1), up ++ dn)
    | _, _, _, _ => (st, "bad-value")
  | _ => (st, "bad-op")

def main : IO Unit := do
  driverLoop (← IO.getStdin) (([] : List Path), (⟨⟨FS.empty, none, [], 0⟩, [], 0⟩ : CSt)) stepLine
