import RedunModel.Proto
import RedunModel.Model.Context
open RedunModel RedunModel.Context

/- requests (ctx ::= s<hex of the JSON dump of a non-dict value> | (O (s<hex key> ctx)*)):
     merge ctx*                     → merge_dicts([...])
     deep ctx ctx                   → the specification deepMerge
     get ctx s<hex path> ctx        → get_context_value(ctx, path, default)
     update ctx ctx ctx             → merge_dicts([prev, context, kwargs])   (Task.update_context)
     chain (P ctx ctx)*             → the _context_override after update_context(c1, **k1) … update_context(cn, **kn)
     jobctx ctx ctx (L ctx*)        → Job.get_context: config context, run context, overrides self … root
     jobget ctx ctx (L ctx*) s<hex path> ctx
   reply: ctx -/
mutual
  partial def toCtx : Sexp → Option Ctx
    | .atom a => (strOfAtom a).map .leaf
    | .list (.atom "O" :: kvs) => (toKvs kvs).map .obj
    | _ => none
  partial def toKvs : List Sexp → Option (List (String × Ctx))
    | [] => some []
    | .list [.atom k, v] :: t => do
      let k' ← strOfAtom k
      let v' ← toCtx v
      let t' ← toKvs t
      pure ((k', v') :: t')
    | _ => none
end

partial def toCtxs : List Sexp → Option (List Ctx)
  | [] => some []
  | x :: t => do
    let c ← toCtx x
    let r ← toCtxs t
    pure (c :: r)

partial def toSteps : List Sexp → Option (List (Ctx × Ctx))
  | [] => some []
  | .list [.atom "P", c, k] :: t => do
    let c' ← toCtx c
    let k' ← toCtx k
    let r ← toSteps t
    pure ((c', k') :: r)
  | _ => none

partial def render : Ctx → String
  | .leaf v => atomOfStr v
  | .obj kvs => "(O" ++ String.join (kvs.map fun (k, v) => " (" ++ atomOfStr k ++ " " ++ render v ++ ")") ++ ")"

def answer (line : String) : String :=
  match Sexp.parseLine line with
  | some (.atom "merge" :: args) =>
    match toCtxs args with
    | some cs => render (mergeDicts cs)
    | none => "bad-value"
  | some [.atom "deep", a, b] =>
    match toCtx a, toCtx b with
    | some a, some b => render (deepMerge a b)
    | _, _ => "bad-value"
  | some [.atom "get", c, .atom p, d] =>
    match toCtx c, strOfAtom p, toCtx d with
    | some c, some p, some d => render (getContextValue c p d)
    | _, _, _ => "bad-value"
  | some [.atom "update", p, c, k] =>
    match toCtx p, toCtx c, toCtx k with
    | some p, some c, some k => render (updateContext p c k)
    | _, _, _ => "bad-value"
  | some (.atom "chain" :: steps) =>
    match toSteps steps with
    | some st => render (overrideOfChain st)
    | none => "bad-value"
  | some [.atom "jobctx", cfg, run, .list (.atom "L" :: chain)] =>
    match toCtx cfg, toCtx run, toCtxs chain with
    | some cfg, some run, some chain => render (jobContext (execContext cfg run) chain)
    | _, _, _ => "bad-value"
  | some [.atom "jobget", cfg, run, .list (.atom "L" :: chain), .atom p, d] =>
    match toCtx cfg, toCtx run, toCtxs chain, strOfAtom p, toCtx d with
    | some cfg, some run, some chain, some p, some d =>
      render (getContextValue (jobContext (execContext cfg run) chain) p d)
    | _, _, _, _, _ => "bad-value"
  | _ => "bad-op"

def step (_ : Unit) (line : String) : Unit × String := ((), answer line)

def main : IO Unit := do driverLoop (← IO.getStdin) () step
