import RedunModel.Proto
import RedunModel.Model.EvalCore
import RedunModel.Model.EvalLib
import RedunModel.Model.CacheLookup
import RedunModel.Model.SubrunModules
open RedunModel RedunModel.EvalCore

/-
Driver for C01 / C12 / C38 (EvalCore).

request   (eval i<fuel> <expr>)                                   empty context
request   (evalc i<fuel> ((s<var> <expr>)*) ((s<var> <expr>)*) <expr>)   job context (effective), config context
reply     (outs <out>*)          <out> ::= (ok <expr>) | (err s<cls> s<msg>) | unk
request   (checkcache none|cse|backend full|shallow <b> <b> <b> <f> <f> <f>)     allowed: cse single ultimate;
                                                         facts: cse ultimate single, <f> ::= N | T | F  (found? is error?)
reply     cse|single|ultimate|miss N|T|F
request   (getcache cse|single|ultimate|miss <b> <b>)   is-error, is-valid
reply     hit | miss
request   (ownmodule s<dotted module name>)              is it one of redun's own modules (not shipped by subrun)?
reply     T | F
request   (runscope <b> none|cse|backend)               run uses the cache?, scope asked for
reply     none|cse|backend                               the scope the job's lookup is made with

<expr> ::= N | T | F | i<int> | s<hex>
         | (E s<cls> s<msg>) | (C s<name>) | (F s<name>) | (T s<name>)
         | (P s<name> (<expr>*) ((s<key> <expr>)*)) | (TH <expr>) | (V <expr>) | (O s<class> <expr>*)
         | (L <expr>*) | (U <expr>*) | (S <expr>*) | (NT s<cls> <expr>*) | (DC s<cls> <expr>*)
         | (D (<expr> <expr>)*)
         | (call s<name> (<expr>*) ((s<key> <expr>)*) [((s<var> <expr>)*)]) | (op s<name> <expr>*)     4th: update_context override
         | (getctx s<var> <expr>)
         | (cond <expr>*) | (seq <expr>*) | (catch <expr> (<expr> <expr>)*)
         | (catchall <expr> <expr> <expr>) | (map <expr> <expr>) | (tags <expr> <expr> <expr> <expr>)
         | (fork <expr>) | (join <expr>) | (subrun <expr> T|F)
-/

mutual
  partial def toExpr : Sexp → Option Expr
    | .atom "N" => some .none
    | .atom "T" => some (.bool true)
    | .atom "F" => some (.bool false)
    | .atom a =>
      match intOfAtom a with
      | some z => some (.int z)
      | none => (strOfAtom a).map .str
    | .list [.atom "E", .atom c, .atom m] => do
      let c ← strOfAtom c
      let m ← strOfAtom m
      pure (.errv ⟨c, m⟩)
    | .list [.atom "C", .atom n] => (strOfAtom n).map .cls
    | .list [.atom "F", .atom n] => (strOfAtom n).map .pyfunc
    | .list [.atom "T", .atom n] => (strOfAtom n).map .taskv
    | .list [.atom "P", .atom n, .list args, .list kws] => do
      let n ← strOfAtom n
      let args ← toExprs args
      let (kn, kv) ← toKws kws
      pure (.partialv n args kn kv)
    | .list [.atom "TH", e] => (toExpr e).map .threadv
    | .list (.atom "O" :: .atom c :: xs) => do
      let c ← strOfAtom c
      let xs ← toExprs xs
      pure (.objv c xs)
    | .list [.atom "V", e] => (toExpr e).map .vexpr
    | .list (.atom "L" :: xs) => (toExprs xs).map (.cont .list)
    | .list (.atom "U" :: xs) => (toExprs xs).map (.cont .tuple)
    | .list (.atom "S" :: xs) => (toExprs xs).map (.cont .set)
    | .list (.atom "NT" :: .atom c :: xs) => do
      let c ← strOfAtom c
      let xs ← toExprs xs
      pure (.cont (.ntuple c) xs)
    | .list (.atom "DC" :: .atom c :: xs) => do
      let c ← strOfAtom c
      let xs ← toExprs xs
      pure (.cont (.dcls c) xs)
    | .list (.atom "D" :: kvs) => do
      let (ks, vs) ← toPairs kvs
      pure (.dict ks vs)
    | .list [.atom "call", .atom n, .list args, .list kws] => do
      let n ← strOfAtom n
      let args ← toExprs args
      let (kn, kv) ← toKws kws
      pure (.call n args kn kv [] [])
    | .list [.atom "call", .atom n, .list args, .list kws, .list ovs] => do
      let n ← strOfAtom n
      let args ← toExprs args
      let (kn, kv) ← toKws kws
      let (on, ov) ← toKws ovs
      pure (.call n args kn kv on ov)
    | .list [.atom "getctx", .atom k, d] => do
      let k ← strOfAtom k
      let d ← toExpr d
      pure (.getCtx k d)
    | .list (.atom "op" :: .atom n :: args) => do
      let n ← strOfAtom n
      let args ← toExprs args
      pure (.op n args)
    | .list (.atom "cond" :: xs) => (toExprs xs).map .cond
    | .list (.atom "seq" :: xs) => (toExprs xs).map .seq
    | .list (.atom "catch" :: e :: hs) => do
      let e ← toExpr e
      let (cs, rs) ← toPairs hs
      pure (.catch e cs rs)
    | .list [.atom "catchall", a, b, c] => do
      let a ← toExpr a
      let b ← toExpr b
      let c ← toExpr c
      pure (.catchAll a b c)
    | .list [.atom "map", a, b] => do
      let a ← toExpr a
      let b ← toExpr b
      pure (.map_ a b)
    | .list [.atom "tags", a, b, c, d] => do
      let a ← toExpr a
      let b ← toExpr b
      let c ← toExpr c
      let d ← toExpr d
      pure (.applyTags a b c d)
    | .list [.atom "fork", a] => (toExpr a).map .fork
    | .list [.atom "join", a] => (toExpr a).map .join
    | .list [.atom "subrun", a, .atom "T"] => (toExpr a).map (.subrun · true)
    | .list [.atom "subrun", a, .atom "F"] => (toExpr a).map (.subrun · false)
    | _ => none
  partial def toExprs : List Sexp → Option (List Expr)
    | [] => some []
    | x :: xs => do
      let e ← toExpr x
      let es ← toExprs xs
      pure (e :: es)
  partial def toPairs : List Sexp → Option (List Expr × List Expr)
    | [] => some ([], [])
    | .list [k, v] :: rest => do
      let k ← toExpr k
      let v ← toExpr v
      let (ks, vs) ← toPairs rest
      pure (k :: ks, v :: vs)
    | _ => none
  partial def toKws : List Sexp → Option (List String × List Expr)
    | [] => some ([], [])
    | .list [.atom k, v] :: rest => do
      let k ← strOfAtom k
      let v ← toExpr v
      let (ks, vs) ← toKws rest
      pure (k :: ks, v :: vs)
    | _ => none
end

mutual
  partial def showExpr : Expr → String
    | .none => "N"
    | .bool true => "T"
    | .bool false => "F"
    | .int z => atomOfInt z
    | .str s => atomOfStr s
    | .errv x => "(E " ++ atomOfStr x.cls ++ " " ++ atomOfStr x.msg ++ ")"
    | .cls n => "(C " ++ atomOfStr n ++ ")"
    | .pyfunc n => "(F " ++ atomOfStr n ++ ")"
    | .taskv n => "(T " ++ atomOfStr n ++ ")"
    | .partialv n args kn kv => "(P " ++ atomOfStr n ++ " (" ++ showExprs args ++ ") (" ++ showKws kn kv ++ "))"
    | .threadv e => "(TH " ++ showExpr e ++ ")"
    | .objv c xs => "(O " ++ atomOfStr c ++ sp xs ++ ")"
    | .vexpr e => "(V " ++ showExpr e ++ ")"
    | .cont .list xs => "(L" ++ sp xs ++ ")"
    | .cont .tuple xs => "(U" ++ sp xs ++ ")"
    | .cont .set xs => "(S" ++ sp xs ++ ")"
    | .cont (.ntuple c) xs => "(NT " ++ atomOfStr c ++ sp xs ++ ")"
    | .cont (.dcls c) xs => "(DC " ++ atomOfStr c ++ sp xs ++ ")"
    | .dict ks vs => "(D" ++ showPairs ks vs ++ ")"
    | .call n args kn kv on ov =>
      "(call " ++ atomOfStr n ++ " (" ++ showExprs args ++ ") (" ++ showKws kn kv ++ ")" ++
        (if on.isEmpty then ")" else " (" ++ showKws on ov ++ "))")
    | .getCtx k d => "(getctx " ++ atomOfStr k ++ " " ++ showExpr d ++ ")"
    | .op n args => "(op " ++ atomOfStr n ++ sp args ++ ")"
    | .cond xs => "(cond" ++ sp xs ++ ")"
    | .seq xs => "(seq" ++ sp xs ++ ")"
    | .catch e cs rs => "(catch " ++ showExpr e ++ showPairs cs rs ++ ")"
    | .catchAll a b c => "(catchall " ++ showExpr a ++ " " ++ showExpr b ++ " " ++ showExpr c ++ ")"
    | .map_ a b => "(map " ++ showExpr a ++ " " ++ showExpr b ++ ")"
    | .applyTags a b c d => "(tags " ++ showExpr a ++ " " ++ showExpr b ++ " " ++ showExpr c ++ " " ++ showExpr d ++ ")"
    | .fork a => "(fork " ++ showExpr a ++ ")"
    | .join a => "(join " ++ showExpr a ++ ")"
    | .subrun a ne => "(subrun " ++ showExpr a ++ (if ne then " T)" else " F)")
    | .settle a => "(settle " ++ showExpr a ++ ")"
  partial def showExprs : List Expr → String
    | [] => ""
    | [x] => showExpr x
    | x :: xs => showExpr x ++ " " ++ showExprs xs
  partial def sp : List Expr → String
    | [] => ""
    | x :: xs => " " ++ showExpr x ++ sp xs
  partial def showPairs : List Expr → List Expr → String
    | k :: ks, v :: vs => " (" ++ showExpr k ++ " " ++ showExpr v ++ ")" ++ showPairs ks vs
    | _, _ => ""
  partial def showKws : List String → List Expr → String
    | [k], [v] => "(" ++ atomOfStr k ++ " " ++ showExpr v ++ ")"
    | k :: ks, v :: vs => "(" ++ atomOfStr k ++ " " ++ showExpr v ++ ") " ++ showKws ks vs
    | _, _ => ""
end

def showOut : Out → String
  | .ok v => "(ok " ++ showExpr v ++ ")"
  | .err x => "(err " ++ atomOfStr x.cls ++ " " ++ atomOfStr x.msg ++ ")"
  | .unk => "unk"

open RedunModel.CacheLookup in
def parseScope : String → Option Scope
  | "none" => some .none
  | "cse" => some .cse
  | "backend" => some .backend
  | _ => none

open RedunModel.CacheLookup in
def parseCv : String → Option CheckValid
  | "full" => some .full
  | "shallow" => some .shallow
  | _ => none

def parseB : String → Option Bool
  | "T" => some true
  | "F" => some false
  | _ => none

def parseFact : String → Option (Option Bool)
  | "N" => some none
  | "T" => some (some true)
  | "F" => some (some false)
  | _ => none

open RedunModel.CacheLookup in
def parseCt : String → Option CacheResult
  | "cse" => some .cse
  | "single" => some .single
  | "ultimate" => some .ultimate
  | "miss" => some .miss
  | _ => none

open RedunModel.CacheLookup in
def showCt : CacheResult → String
  | .cse => "cse"
  | .single => "single"
  | .ultimate => "ultimate"
  | .miss => "miss"

def showFact : Option Bool → String
  | none => "N"
  | some true => "T"
  | some false => "F"

open RedunModel.CacheLookup in
def cacheOp : List Sexp → Option String
  | [.atom "checkcache", .atom s, .atom cv, .atom a1, .atom a2, .atom a3, .atom f1, .atom f2, .atom f3] => do
    let s ← parseScope s
    let cv ← parseCv cv
    let a1 ← parseB a1
    let a2 ← parseB a2
    let a3 ← parseB a3
    let f1 ← parseFact f1
    let f2 ← parseFact f2
    let f3 ← parseFact f3
    let (ct, e) := checkCache s cv ⟨a1, a2, a3⟩ ⟨f1, f2, f3⟩
    pure (showCt ct ++ " " ++ showFact e)
  | [.atom "runscope", .atom u, .atom s] => do
    let u ← parseB u
    let s ← parseScope s
    pure (match runScope u s with | .none => "none" | .cse => "cse" | .backend => "backend")
  | [.atom "getcache", .atom ct, .atom e, .atom v] => do
    let ct ← parseCt ct
    let e ← parseB e
    let v ← parseB v
    pure (if getCache ct e v then "hit" else "miss")
  | _ => none

def step (_ : Unit) (line : String) : Unit × String :=
  match Sexp.parseLine line with
  | some [.list [.atom "eval", .atom f, x]] =>
    match natOfAtom f, toExpr x with
    | some fuel, some e =>
      let outs := evalAll EvalLib.lib fuel Ctx.empty e
      ((), "(outs" ++ String.join (outs.map fun o => " " ++ showOut o) ++ ")")
    | _, _ => ((), "bad-value")
  | some [.list [.atom "evalc", .atom f, .list cs, .list cfgs, x]] =>
    match natOfAtom f, toKws cs, toKws cfgs, toExpr x with
    | some fuel, some (cn, cv), some (gn, gv), some e =>
      let lib : Lib := { EvalLib.lib with config := kvLookup gn gv }
      let outs := evalAll lib fuel (kvLookup cn cv) e
      ((), "(outs" ++ String.join (outs.map fun o => " " ++ showOut o) ++ ")")
    | _, _, _, _ => ((), "bad-value")
  | some [.list (.atom "checkcache" :: rest)] =>
    match cacheOp (.atom "checkcache" :: rest) with
    | some r => ((), r)
    | none => ((), "bad-value")
  | some [.list [.atom "ownmodule", .atom m]] =>
    match strOfAtom m with
    | some name => ((), if RedunModel.SubrunModules.own (name.splitOn ".") then "T" else "F")
    | none => ((), "bad-value")
  | some [.list (.atom "runscope" :: rest)] =>
    match cacheOp (.atom "runscope" :: rest) with
    | some r => ((), r)
    | none => ((), "bad-value")
  | some [.list (.atom "getcache" :: rest)] =>
    match cacheOp (.atom "getcache" :: rest) with
    | some r => ((), r)
    | none => ((), "bad-value")
  | some [.list [.atom "echo", x]] =>
    match toExpr x with
    | some e => ((), showExpr e)
    | none => ((), "bad-value")
  | _ => ((), "bad-op")

def main : IO Unit := do driverLoop (← IO.getStdin) () step
