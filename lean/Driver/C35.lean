import RedunModel.Proto
import RedunModel.Model.Config
open RedunModel RedunModel.Config

/- text atoms: s<hex utf-8>.   opts ::= (s<key> s<value>)*
   cfg  ::= (C (D opts) (S s<name> opts)*)          parser._defaults, parser._sections (raw values, in order)
   dict ::= (S s<name> opts)*
   requests:
     env (E opts)                          → ok            sets os.environ for the following requests
     effective cfg                         → ok dict | !Err     interpolated items of every section (parser order)
     nest cfg                              → ok node | !Err     Config._sections: node ::= (l s<full name>) | (n (s<key> node)*)
     dict cfg s<local dir> (s<replace>|N)  → ok dict | !Err     Config.get_config_dict(replace_config_dir)
     roundtrip cfg s<local dir> (s<r>|N)   → ok dict ; node | !Err   effective items + nesting of Config(config_dict=get_config_dict())
     readdict (X dict)                     → ok dict ; node | !Err   effective items + nesting of Config(config_dict=dict)
     replace s<pat> s<rep> s<text>         → s<text>
-/
def toStr (x : Sexp) : Option Str :=
  match x with
  | .atom a => (strOfAtom a).map String.toList
  | _ => none

def toOpts : List Sexp → Option Opts
  | [] => some []
  | .list [k, v] :: t => do
    let k' ← toStr k
    let v' ← toStr v
    let t' ← toOpts t
    pure ((k', v') :: t')
  | _ => none

def toSections : List Sexp → Option (List (Str × Opts))
  | [] => some []
  | .list (.atom "S" :: n :: opts) :: t => do
    let n' ← toStr n
    let o ← toOpts opts
    let t' ← toSections t
    pure ((n', o) :: t')
  | _ => none

def toCfg : Sexp → Option Cfg
  | .list (.atom "C" :: .list (.atom "D" :: d) :: secs) => do
    let d' ← toOpts d
    let s ← toSections secs
    pure ⟨d', s⟩
  | _ => none

def rStr (s : Str) : String := atomOfStr (String.ofList s)
def rOpts (o : Opts) : String := String.join (o.map fun (k, v) => " (" ++ rStr k ++ " " ++ rStr v ++ ")")
def rDict (d : List (Str × Opts)) : String :=
  " ".intercalate (d.map fun (n, o) => "(S " ++ rStr n ++ rOpts o ++ ")")

mutual
  partial def rNode : Node → String
    | .leaf f => "(l " ++ rStr f ++ ")"
    | .node kids => rKids kids
  partial def rKids (kids : List (Str × Node)) : String :=
    "(n" ++ String.join (kids.map fun (k, n) => " (" ++ rStr k ++ " " ++ rNode n ++ ")") ++ ")"
end

def rErr : Err → String
  | .depth => "!InterpolationDepthError"
  | .syntax => "!InterpolationSyntaxError"
  | .missing => "!InterpolationMissingOptionError"
  | .valueError => "!ValueError"
  | .typeError => "!TypeError"

def okDict (d : List (Str × Opts)) : String := if d = [] then "ok" else "ok " ++ rDict d

def effNest (cfg : Cfg) (env : Opts) : String :=
  match effective cfg env, parseSections (cfg.sections.map (·.1)) [] with
  | .ok e, .ok t => okDict e ++ " ; " ++ rKids t
  | .error e, _ => rErr e
  | _, .error e => rErr e

def toRepl : Sexp → Option (Option Str)
  | .atom "N" => some none
  | x => (toStr x).map some

def answer (env : Opts) (line : String) : Opts × String :=
  match Sexp.parseLine line with
  | some [.atom "env", .list (.atom "E" :: o)] =>
    match toOpts o with
    | some e => (e, "ok")
    | none => (env, "bad-value")
  | some [.atom "effective", c] =>
    match toCfg c with
    | some cfg => (env, match effective cfg env with
                        | .ok e => okDict e
                        | .error e => rErr e)
    | none => (env, "bad-value")
  | some [.atom "nest", c] =>
    match toCfg c with
    | some cfg => (env, match parseSections (cfg.sections.map (·.1)) [] with
                        | .ok t => "ok " ++ rKids t
                        | .error e => rErr e)
    | none => (env, "bad-value")
  | some [.atom "dict", c, l, r] =>
    match toCfg c, toStr l, toRepl r with
    | some cfg, some l, some r => (env, match getConfigDict cfg env l r with
                                        | .ok d => okDict d
                                        | .error e => rErr e)
    | _, _, _ => (env, "bad-value")
  | some [.atom "roundtrip", c, l, r] =>
    match toCfg c, toStr l, toRepl r with
    | some cfg, some l, some r =>
      (env, match getConfigDict cfg env l r with
            | .error e => rErr e
            | .ok d =>
              match readDict d with
              | .error e => rErr e
              | .ok cfg' => effNest cfg' env)
    | _, _, _ => (env, "bad-value")
  | some [.atom "readdict", .list (.atom "X" :: d)] =>
    match toSections d with
    | some d => (env, match readDict d with
                      | .error e => rErr e
                      | .ok cfg' => effNest cfg' env)
    | none => (env, "bad-value")
  | some [.atom "replace", p, r, s] =>
    match toStr p, toStr r, toStr s with
    | some p, some r, some s => (env, rStr (replaceAll p r s))
    | _, _, _ => (env, "bad-value")
  | _ => (env, "bad-op")

def main : IO Unit := do driverLoop (← IO.getStdin) ([] : Opts) answer
