import RedunModel.Proto
import RedunModel.Model.PreRender
import RedunModel.Model.TaskHash
open RedunModel RedunModel.Pre RedunModel.TaskHash

/- requests
     src    (s<line>*)                 → s<hex of get_func_source> (repaired pattern)
     srcold (s<line>*)                 → the pattern before the repair
     hash    <taskdef>                 → rendered pre-image of Task._calc_hash
     hashold <taskdef>
     partial <taskdef> (<pre>*) ((s<k> <pre>)*)   → PartialTask._calc_hash
   taskdef ::= (T s<name> s<ns> (s<line>*) N|s<given> N|s<version> (s<compat>*) N|((i<rank> <pre>)*) N|i<override>)
             | (W (s<line>*) ((i<rank> <pre>)*) N|s<version> i<rank> <taskdef>)      wraps_task
             | (O <taskdef> i<override>)                                             Task.options
   inside includes `<pre>` may also be `(TH <taskdef>)` = the hash of that task -/

def strs (l : List Sexp) : Option (List String) :=
  l.mapM (fun x => match x with | .atom a => strOfAtom a | _ => none)

def optStr : Sexp → Option (Option String)
  | .atom "N" => some none
  | .atom a => (strOfAtom a).map some
  | _ => none

mutual
  partial def taskOf (old : Bool) : Sexp → Option TaskDef
    | .list [.atom "O", t, .atom n] => do
      let t' ← taskOf old t
      let n' ← natOfAtom n
      pure (if old then withOptionsOld t' n' else withOptions t' n')
    | .list [.atom "T", .atom n, .atom ns, .list lines, given, version, .list compat, incl, ov] => do
      let n' ← strOfAtom n
      let ns' ← strOfAtom ns
      let lines' ← strs lines
      let g ← optStr given
      let v ← optStr version
      let c ← strs compat
      let i ← match incl with
        | .atom "N" => some none
        | .list l => (inclOf old l).map some
        | _ => none
      let o ← match ov with
        | .atom "N" => some none
        | .atom a => (natOfAtom a).map some
        | _ => none
      pure { name := n', ns := ns', srcLines := lines', srcGiven := g, version := v, compat := c, includes := i,
             base := 0, override := o }
    | .list [.atom "W", .list lines, .list incl, version, .atom r, inner] => do
      let lines' ← strs lines
      let i ← inclOf old incl
      let v ← optStr version
      let r' ← natOfAtom r
      let t ← taskOf old inner
      pure (wrapTask { funcLines := lines', includes := i, version := v, base := 0 } r' t)
    | _ => none
  partial def inclOf (old : Bool) : List Sexp → Option (List Inc)
    | [] => some []
    | .list [.atom r, p] :: t => do
      let r' ← natOfAtom r
      let p' ← preOf old p
      let t' ← inclOf old t
      pure ((r', p') :: t')
    | _ => none
  partial def preOf (old : Bool) : Sexp → Option Pre
    | .list [.atom "TH", t] => (taskOf old t).map calcHash
    | x => Pre.ofSexp x
end

def kwPre : List Sexp → Option (List (String × Pre))
  | [] => some []
  | .list [.atom k, p] :: t => do
    let k' ← strOfAtom k
    let p' ← preOf false p
    let t' ← kwPre t
    pure ((k', p') :: t')
  | _ => none

def step (_ : Unit) (line : String) : Unit × String :=
  match Sexp.parseLine line with
  | some [.atom "src", .list lines] =>
    match strs lines with
    | some l => ((), atomOfStr (funcSource l))
    | none => ((), "bad-value")
  | some [.atom "srcold", .list lines] =>
    match strs lines with
    | some l => ((), atomOfStr (funcSourceOld l))
    | none => ((), "bad-value")
  | some [.atom "hash", t] =>
    match taskOf false t with
    | some t => ((), (calcHash t).render)
    | none => ((), "bad-value")
  | some [.atom "hashold", t] =>
    match taskOf true t with
    | some t => ((), (calcHashOld t).render)
    | none => ((), "bad-value")
  | some [.atom "partial", t, .list args, .list kw] =>
    match taskOf false t, args.mapM (preOf false), kwPre kw with
    | some t, some a, some k => ((), (partialHash (calcHash t) a k).render)
    | _, _, _ => ((), "bad-value")
  | _ => ((), "bad-op")

def main : IO Unit := do driverLoop (← IO.getStdin) () step
