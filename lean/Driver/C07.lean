import RedunModel.Proto
import RedunModel.Model.Timing
open RedunModel RedunModel.Timing

/- requests (one per line)
     graph (tbl (i<task> <tm>)*) (root i<task> i<arg>)
         tm ::= arg | i<int> | (add <tm> <tm>) | (call i<task> <tm>) | (cond <tm> <tm> <tm>)
     handles <recount T|F> (lanes (<src> <step i<int>|N> i<b> <slow T|F>)*) (entries i<job>*)
         src ::= shared | (own i<name>) | (pre i<key>)
     fork (tbl ...) (a i<task> i<arg>) (b i<task> i<arg>) <seen T|F>
         main() = cond(fork_thread(<a>), <b>, <b>);  seen: the forked job had ended when main resolved
   reply:  [dup ]<value> || <row> ; <row> ; ...   (rows of the call graph, pre-images; the harness sorts;
           `dup`: some task function returned two equal sub-expressions; the reply is then computed with the
           per-parent expression memo `evalM` (`_pending_expr`) instead of `evalC`)
     row ::= (N <h>) | (A <h> i<pos> <hv>) | (E <h> <h>)
     h   ::= (C i<task> (<hv>*) <hv> (<h>*))
     hv  ::= i<int> | (Hi i<name> i<key>) | (Hf i<name> i<key> <hv>) | (Ha i<name> i<task> <hv> i<int>)   -/

def natA : Sexp → Option Nat
  | .atom a => natOfAtom a
  | _ => none

def intA : Sexp → Option Int
  | .atom a => intOfAtom a
  | _ => none

def boolA : Sexp → Option Bool
  | .atom "T" => some true
  | .atom "F" => some false
  | _ => none

partial def tmOf : Sexp → Option Tm
  | .atom "arg" => some .arg
  | .atom a => (intOfAtom a).map .lit
  | .list [.atom "add", a, b] => do pure (.add (← tmOf a) (← tmOf b))
  | .list [.atom "call", n, t] => do pure (.call (← natA n) (← tmOf t))
  | .list [.atom "cond", c, a, b] => do pure (.cond (← tmOf c) (← tmOf a) (← tmOf b))
  | _ => none

def tblOf : List Sexp → Option (List (Nat × Tm))
  | [] => some []
  | .list [n, t] :: r => do
    let e := (← natA n, ← tmOf t)
    pure (e :: (← tblOf r))
  | _ => none

partial def showHV : HV → String
  | .int z => atomOfInt z
  | .hinit n k => s!"(Hi i{n} i{k})"
  | .hfork n k p => s!"(Hf i{n} i{k} {showHV p})"
  | .happly n t h z => s!"(Ha i{n} i{t} {showHV h} {atomOfInt z})"

partial def showH : H → String
  | .call t a r k =>
    s!"(C i{t} (" ++ " ".intercalate (a.map showHV) ++ s!") {showHV r} (" ++ " ".intercalate (k.map showH) ++ "))"

def showRow : Row → String
  | .node h => s!"(N {showH h})"
  | .arg h p v => s!"(A {showH h} i{p} {showHV v})"
  | .edge p c => s!"(E {showH p} {showH c})"

def reply (v : HV) (rs : List Row) : String := showHV v ++ " || " ++ " ; ".intercalate (rs.map showRow)

def srcOf : Sexp → Option Src
  | .atom "shared" => some .shared
  | .list [.atom "own", n] => (natA n).map .own
  | .list [.atom "pre", k] => (natA k).map .prekeyed
  | _ => none

def lanesOf : List Sexp → Option (List (Lane × Bool))
  | [] => some []
  | .list [s, st, b, sl] :: r => do
    let step ← match st with
      | .atom "N" => some none
      | x => (intA x).map some
    let l : Lane := { src := ← srcOf s, step := step, b := ← intA b }
    pure ((l, ← boolA sl) :: (← lanesOf r))
  | _ => none

def natsOf : List Sexp → Option (List Nat)
  | [] => some []
  | x :: r => do pure ((← natA x) :: (← natsOf r))

def taskSlow : Nat := 3
def taskFork : Nat := 99

def step (_ : Unit) (line : String) : Unit × String :=
  match Sexp.parseLine line with
  | some [.atom "graph", .list (.atom "tbl" :: tb), .list [.atom "root", n, a]] =>
    match tblOf tb, natA n, intA a with
    | some tbl, some n, some a =>
      match evalC (tableProg tbl) 200 (.call n (.lit (.int a))) with
      | some (v, ks) =>
        if dupInL (tableProg tbl) ks then
          -- equal sub-expressions under one parent: evaluated once (`_pending_expr`), see `evalM`
          match evalM (tableProg tbl) 200 [] (.call n (.lit (.int a))) with
          | some (v', ks', _) => ((), "dup " ++ reply v' (rowsL H.le ks'))
          | none => ((), "fuel")
        else ((), reply v (rowsL H.le ks))
      | none => ((), "fuel")
    | _, _, _ => ((), "bad-value")
  | some [.atom "handles", rc, .list (.atom "lanes" :: ls), .list (.atom "entries" :: es)] =>
    match boolA rc, lanesOf ls, natsOf es with
    | some rc, some lanes, some entries =>
      let extra := (lanes.filter (·.2)).map fun p => JT.node taskSlow [.int p.1.b] [.int p.1.b] (.int p.1.b) true []
      let t := handleTree rc (lanes.map (·.1)) entries extra
      match t with
      | .node _ _ _ r _ _ => ((), reply r (rows H.le t))
    | _, _, _ => ((), "bad-value")
  | some [.atom "fork", .list (.atom "tbl" :: tb), .list [.atom "a", na, aa], .list [.atom "b", nb, ab], seen] =>
    match tblOf tb, natA na, intA aa, natA nb, intA ab, boolA seen with
    | some tbl, some na, some aa, some nb, some ab, some seen =>
      let P := tableProg tbl
      match evalC P 200 (.call na (.lit (.int aa))), evalC P 200 (.call nb (.lit (.int ab))) with
      | some (_, ka), some (vb, kb) =>
        if dupInL P (ka ++ kb) then
          match evalM P 200 [] (.call na (.lit (.int aa))), evalM P 200 [] (.call nb (.lit (.int ab))) with
          | some (_, ka', _), some (vb', kb', _) =>
            ((), "dup " ++ reply vb' (rows H.le (JT.node taskFork [] [] vb' true (ka'.map (JT.setSeen seen) ++ kb'))))
          | _, _ => ((), "fuel")
        else ((), reply vb (rows H.le (JT.node taskFork [] [] vb true (ka.map (JT.setSeen seen) ++ kb))))
      | _, _ => ((), "fuel")
    | _, _, _, _, _, _ => ((), "bad-value")
  | _ => ((), "bad-op")

def main : IO Unit := do driverLoop (← IO.getStdin) () step
