import RedunModel.Proto
import RedunModel.Model.BStruct
open RedunModel RedunModel.BStruct

/- requests:
   `enc <pyval>`  reply: hex of the encoding, or `!TypeError` / `!ValueError` (`encodeE`)
   `dec <hex>`    reply: `ok <dval> <unread byte count>` or `!TypeError|!ValueError|!AssertionError|!OverflowError`
                  with dval ::= N | i<int> | b<hex> | (L dval*) | (D (b<hex> dval)*)  -- the Python dict view (`canonD`)
   `decraw <hex>` same, dict items in stream order (duplicates kept)
   pyval ::= i<int> | h<hex of |z|> | h-<hex of |z|> (ints too big for Python to print in decimal) | T | F | N | f | s<hex> | b<hex> | (L v*) | (U v*) | (D (k v)*)
-/
def natOfHexChars : List Char → Option Nat
  | [] => none
  | cs => cs.foldlM (fun acc c => (hexVal c).map (acc * 16 + ·)) 0

def intOfHexAtom (a : String) : Option Int :=
  match a.toList with
  | 'h' :: '-' :: r => (natOfHexChars r).map fun n => -(Int.ofNat n)
  | 'h' :: r => (natOfHexChars r).map Int.ofNat
  | _ => none

mutual
  partial def toPy : Sexp → Option PyVal
    | .atom "T" => some (.bool true)
    | .atom "F" => some (.bool false)
    | .atom "N" => some .none
    | .atom "f" => some .float
    | .atom a =>
      match intOfAtom a with
      | some z => some (.int z)
      | none =>
        match a.toList with
        | 's' :: r => (bytesOfHex (String.ofList r)).map .str
        | 'b' :: r => (bytesOfHex (String.ofList r)).map .bytes
        | 'h' :: _ => (intOfHexAtom a).map .int
        | _ => none
    | .list (.atom "L" :: items) => (toPyList items).map .list
    | .list (.atom "U" :: items) => (toPyList items).map .tuple
    | .list (.atom "D" :: items) => (toPyDict items).map .dict
    | _ => none
  partial def toPyList : List Sexp → Option PyList
    | [] => some .nil
    | x :: xs => do
      let v ← toPy x
      let t ← toPyList xs
      pure (.cons v t)
  partial def toPyDict : List Sexp → Option PyDict
    | [] => some .nil
    | .list [k, v] :: xs => do
      let k' : PyKey := match k with
        | .atom a => match a.toList with
          | 's' :: r => match bytesOfHex (String.ofList r) with | some b => .str b | none => .other
          | 'b' :: r => match bytesOfHex (String.ofList r) with | some b => .bytes b | none => .other
          | _ => .other
        | _ => .other
      let v' ← toPy v
      let t ← toPyDict xs
      pure (.cons k' v' t)
    | _ => none
end

mutual
  partial def showD : DVal → String
    | .none => "N"
    | .int z => atomOfInt z
    | .bytes b => atomOfBytes b
    | .list l => "(L" ++ showDList l ++ ")"
    | .dict d => "(D" ++ showDDict d ++ ")"
  partial def showDList : DList → String
    | .nil => ""
    | .cons v t => " " ++ showD v ++ showDList t
  partial def showDDict : DDict → String
    | .nil => ""
    | .cons k v t => " (" ++ atomOfBytes k ++ " " ++ showD v ++ ")" ++ showDDict t
end

def showErr : DErr → String
  | .type => "!TypeError"
  | .value => "!ValueError"
  | .assertion => "!AssertionError"
  | .overflow => "!OverflowError"
  | .fuel => "!MODEL-OUT-OF-FUEL"

def decReply (view : DVal → DVal) (h : String) : String :=
  match bytesOfHex h with
  | none => "bad-value"
  | some bs =>
    match decode bs with
    | .ok (v, rest) => "ok " ++ showD (view v) ++ " " ++ toString rest.length
    | .error e => showErr e

def step (_ : Unit) (line : String) : Unit × String :=
  match Sexp.parseLine line with
  | some [.atom "enc", x] =>
    match toPy x with
    | some v => match encodeE v with
      | .ok bs => ((), hexOfBytes bs)
      | .error .type => ((), "!TypeError")
      | .error .value => ((), "!ValueError")
    | none => ((), "bad-value")
  | some [.atom "dec", .atom h] => ((), decReply canonD h)
  | some [.atom "dec"] => ((), decReply canonD "")
  | some [.atom "decraw", .atom h] => ((), decReply id h)
  | some [.atom "decraw"] => ((), decReply id "")
  | _ => ((), "bad-op")

def main : IO Unit := do driverLoop (← IO.getStdin) () step
