import RedunModel.Proto
import RedunModel.Model.BStruct
open RedunModel RedunModel.BStruct

/- request: `enc <pyval>` with pyval ::= i<int> | T | F | N | f | s<hex> | b<hex> | (L v*) | (U v*) | (D (k v)*)
   reply: hex of the encoding, or `!TypeError` -/
mutual
  partial def toPy : Sexp → Option PyVal
    | .atom "T" => some (.bool true)
    | .atom "F" => some (.bool false)
    | .atom "N" => some .none
    | .atom "f" => some .float
    | .atom a =>
      match intOfAtom a with
      | some z => some (.int z)
      | none =>
        match a.toList with
        | 's' :: r => (bytesOfHex (String.ofList r)).map .str
        | 'b' :: r => (bytesOfHex (String.ofList r)).map .bytes
        | _ => none
    | .list (.atom "L" :: items) => (toPyList items).map .list
    | .list (.atom "U" :: items) => (toPyList items).map .tuple
    | .list (.atom "D" :: items) => (toPyDict items).map .dict
    | _ => none
  partial def toPyList : List Sexp → Option PyList
    | [] => some .nil
    | x :: xs => do
      let v ← toPy x
      let t ← toPyList xs
      pure (.cons v t)
  partial def toPyDict : List Sexp → Option PyDict
    | [] => some .nil
    | .list [k, v] :: xs => do
      let k' : PyKey := match k with
        | .atom a => match a.toList with
          | 's' :: r => match bytesOfHex (String.ofList r) with | some b => .str b | none => .other
          | 'b' :: r => match bytesOfHex (String.ofList r) with | some b => .bytes b | none => .other
          | _ => .other
        | _ => .other
      let v' ← toPy v
      let t ← toPyDict xs
      pure (.cons k' v' t)
    | _ => none
end

def step (_ : Unit) (line : String) : Unit × String :=
  match Sexp.parseLine line with
  | some [.atom "enc", x] =>
    match toPy x with
    | some v => match norm v with
      | some b => ((), hexOfBytes (enc b))
      | none => ((), "!TypeError")
    | none => ((), "bad-value")
  | _ => ((), "bad-op")

def main : IO Unit := do driverLoop (← IO.getStdin) () step
