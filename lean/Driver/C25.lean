import RedunModel.Proto
import RedunModel.Model.Handles
open RedunModel RedunModel.Handles

/- requests (one per line, state threaded):
     (reset fixed|current)                         both models back to the empty backend, variant chosen
     (adv ((i<h> s<name> T|F (i<h> s<name>)*)*) (i<h> s<name>))
                                                   advance_handle(parents, child); a parent is
                                                   (hash fullname is_recorded fork_parent-chain…)
     (rb i<h> s<name>)                             rollback_handle(h)
   reply: `(rows (i<h> s<name> T|F)*) (edges (i<p> i<c>)*)` — the raw tables after the step
     (wf s<name> s<task>*)                         one execution of the chain tₙ(…t₁(Handle(name)))
   reply: `(ran s<task>*) (final T|F) (ext s<task>*) (rows n valid) (edges n)`
     (wfk s<name> i<cd> s<task>*)                  the same execution, killed right after its task number cd (0-based)
                                                   started writing (nothing happens if that task is served from the cache)
   reply: `(ext s<task>*) (rows n valid) (edges n)`  — what the next process finds
   errors: `!fuel`, `bad-op`, `bad-value`. -/

structure DSt where
  fixed : Bool := true
  raw : St Nat := {}
  wf : WSt := {}

def refOf : Sexp → Sexp → Option (HRef Nat)
  | .atom h, .atom n => do
    let h' ← natOfAtom h
    let n' ← strOfAtom n
    pure ⟨h', n'⟩
  | _, _ => none

def chainOf : List Sexp → Option (List (HRef Nat))
  | [] => some []
  | h :: n :: rest => do
    let r ← refOf h n
    let t ← chainOf rest
    pure (r :: t)
  | _ => none

def parentOf : Sexp → Option (Parent Nat)
  | .list (h :: n :: .atom rec :: chain) => do
    let r ← refOf h n
    let b ← (if rec = "T" then some true else if rec = "F" then some false else none)
    let c ← chainOf chain
    pure ⟨r, b, c⟩
  | _ => none

def parentsOf : List Sexp → Option (List (Parent Nat))
  | [] => some []
  | x :: xs => do
    let p ← parentOf x
    let t ← parentsOf xs
    pure (p :: t)

def strsOf : List Sexp → Option (List String)
  | [] => some []
  | .atom a :: xs => do
    let s ← strOfAtom a
    let r ← strsOf xs
    pure (s :: r)
  | _ => none

def dumpRaw (st : St Nat) : String :=
  let row (r : Row Nat) : String :=
    "(" ++ atomOfInt (Int.ofNat r.hash) ++ " " ++ atomOfStr r.name ++ " " ++ (if r.valid then "T" else "F") ++ ")"
  let edge (e : Nat × Nat) : String := "(" ++ atomOfInt (Int.ofNat e.1) ++ " " ++ atomOfInt (Int.ofNat e.2) ++ ")"
  "(rows " ++ " ".intercalate (st.rows.map row) ++ ") (edges " ++ " ".intercalate (st.edges.map edge) ++ ")"

def step (d : DSt) (line : String) : DSt × String :=
  match Sexp.parseLine line with
  | some [.list [.atom "reset", .atom v]] =>
    if v = "fixed" then ({ fixed := true }, "ok")
    else if v = "current" then ({ fixed := false }, "ok")
    else (d, "bad-value")
  | some [.list [.atom "adv", .list ps, .list [h, n]]] =>
    match parentsOf ps, refOf h n with
    | some ps', some c =>
      let st' := d.raw.advance d.fixed ps' c
      ({ d with raw := st' }, dumpRaw st')
    | _, _ => (d, "bad-value")
  | some [.list [.atom "rb", h, n]] =>
    match refOf h n with
    | some r =>
      match d.raw.rollback d.fixed r with
      | .ok st' => ({ d with raw := st' }, dumpRaw st')
      | .error .fuel => (d, "!fuel")
    | none => (d, "bad-value")
  | some [.list (.atom "wf" :: .atom n :: ts)] =>
    match strOfAtom n, strsOf ts with
    | some name, some tasks =>
      match runWorkflow d.fixed d.wf name tasks with
      | .ok (w', final, ran) =>
        ({ d with wf := w' },
          "(ran " ++ " ".intercalate (ran.map atomOfStr) ++ ") (final " ++ (if w'.st.isValid final then "T" else "F") ++
          ") (ext " ++ " ".intercalate (w'.ext.map atomOfStr) ++ ") (rows " ++ atomOfInt (Int.ofNat w'.st.rows.length) ++ " " ++
          atomOfInt (Int.ofNat (w'.st.rows.filter (·.valid)).length) ++ ") (edges " ++ atomOfInt (Int.ofNat w'.st.edges.length) ++ ")")
      | .error .fuel => (d, "!fuel")
    | _, _ => (d, "bad-value")
  | some [.list (.atom "wfk" :: .atom n :: .atom cd :: ts)] =>
    match strOfAtom n, natOfAtom cd, strsOf ts with
    | some name, some c, some tasks =>
      match runChainCrash d.fixed true "1" d.wf 0 tasks (.init name) c with
      | .ok w' =>
        ({ d with wf := w' },
          "(ext " ++ " ".intercalate (w'.ext.map atomOfStr) ++ ") (rows " ++ atomOfInt (Int.ofNat w'.st.rows.length) ++ " " ++
          atomOfInt (Int.ofNat (w'.st.rows.filter (·.valid)).length) ++ ") (edges " ++ atomOfInt (Int.ofNat w'.st.edges.length) ++ ")")
      | .error .fuel => (d, "!fuel")
    | _, _, _ => (d, "bad-value")
  | _ => (d, "bad-op")

def main : IO Unit := do driverLoop (← IO.getStdin) {} step
