import RedunModel.Proto
import RedunModel.Model.Status
open RedunModel RedunModel.StatusSql RedunModel.Status

/- request (one abstract database + the status lists to filter by):
     db (jobs (i<id> T|F(end_time NULL) T|F(cached) i<call_hash>|N)*) (calls (i<call_hash> i<value_hash>)*)
        (values (i<value_hash> T|F(type is the error type))*) (execs (i<id> i<job_id>)*)
        (jq (STATUS*)*) (eq (STATUS*)*)
   reply:
     (jq <r>*) (eq <r>*) (disp (i<id> STATUS|!AttributeError)*) (edisp (i<id> STATUS|!AttributeError)*)
     with <r> = (i<id>*) in table order, or !AssertionError for an empty status list -/

def stOfAtom : String → Option St
  | "RUNNING" => some .running | "CACHED" => some .cached | "FAILED" => some .failed | "DONE" => some .done
  | _ => none

def boolOfAtom : String → Option Bool
  | "T" => some true | "F" => some false | _ => none

def parseJobs : List Sexp → Option (List JobRec)
  | [] => some []
  | .list [.atom i, .atom e, .atom c, .atom h] :: rest => do
    let id ← natOfAtom i
    let e ← boolOfAtom e
    let c ← boolOfAtom c
    let ch ← if h = "N" then some none else (natOfAtom h).map some
    let t ← parseJobs rest
    pure (⟨id, e, c, ch⟩ :: t)
  | _ => none

def parsePairs : List Sexp → Option (List (Nat × Nat))
  | [] => some []
  | .list [.atom a, .atom b] :: rest => do
    let a ← natOfAtom a
    let b ← natOfAtom b
    let t ← parsePairs rest
    pure ((a, b) :: t)
  | _ => none

def parseVals : List Sexp → Option (List (Nat × Bool))
  | [] => some []
  | .list [.atom a, .atom b] :: rest => do
    let a ← natOfAtom a
    let b ← boolOfAtom b
    let t ← parseVals rest
    pure ((a, b) :: t)
  | _ => none

def parseSts : List Sexp → Option (List St)
  | [] => some []
  | .atom a :: rest => do
    let s ← stOfAtom a
    let t ← parseSts rest
    pure (s :: t)
  | _ => none

def parseQs : List Sexp → Option (List (List St))
  | [] => some []
  | .list l :: rest => do
    let s ← parseSts l
    let t ← parseQs rest
    pure (s :: t)
  | _ => none

def ids (l : List Nat) : String := "(" ++ " ".intercalate (l.map fun n => atomOfInt (Int.ofNat n)) ++ ")"

def res (r : Option (List Nat)) : String :=
  match r with
  | some l => ids l
  | none => "!AssertionError"

def dispText : Except DispErr St → String
  | .ok s => s.name
  | .error .attributeError => "!AttributeError"

def answer (db : Db) (jq eq : List (List St)) : String :=
  let a := jq.map fun ss => res (queryJobs ss db)
  let b := eq.map fun ss => res (queryExecs ss db)
  let d := db.jobs.map fun j => "(" ++ atomOfInt j.id ++ " " ++ dispText (display (rowOf db j)) ++ ")"
  let e := db.execs.map fun x => "(" ++ atomOfInt x.1 ++ " " ++ dispText (execDisplay (execRowOf db x)) ++ ")"
  "(jq " ++ " ".intercalate a ++ ") (eq " ++ " ".intercalate b ++ ") (disp " ++ " ".intercalate d ++
    ") (edisp " ++ " ".intercalate e ++ ")"

def step (_ : Unit) (line : String) : Unit × String :=
  match Sexp.parseLine line with
  | some [.atom "db", .list (.atom "jobs" :: js), .list (.atom "calls" :: cs), .list (.atom "values" :: vs),
          .list (.atom "execs" :: es), .list (.atom "jq" :: jq), .list (.atom "eq" :: eq)] =>
    match parseJobs js, parsePairs cs, parseVals vs, parsePairs es, parseQs jq, parseQs eq with
    | some js, some cs, some vs, some es, some jq, some eq => ((), answer ⟨js, cs, vs, es⟩ jq eq)
    | _, _, _, _, _, _ => ((), "bad-value")
  | _ => ((), "bad-op")

def main : IO Unit := do driverLoop (← IO.getStdin) () step
