import RedunModel.Proto
import RedunModel.Model.Tags
open RedunModel RedunModel.Tags

/- requests (one per line, state threaded):
     reset
     (add s<ent> (s<key> s<json>)*)
     (update s<ent> (s<key> s<json>)*)
     (rm s<ent> ((s<key> s<json>)*) (s<key>*))
   reply: `(rows (i<id> s<ent> s<key> s<json> (i<parent>*) T|F)*) (edges (i<p> i<c>)*)` — the whole state after
   the step — or `!fuel`, `bad-op`, `bad-value`. -/

def kvOf : Sexp → Option (String × String)
  | .list [.atom k, .atom v] => do
    let k' ← strOfAtom k
    let v' ← strOfAtom v
    pure (k', v')
  | _ => none

def kvsOf : List Sexp → Option (List (String × String))
  | [] => some []
  | x :: xs => do
    let a ← kvOf x
    let r ← kvsOf xs
    pure (a :: r)

def strsOf : List Sexp → Option (List String)
  | [] => some []
  | .atom a :: xs => do
    let s ← strOfAtom a
    let r ← strsOf xs
    pure (s :: r)
  | _ => none

def opOf : Sexp → Option (Option Op)     -- none = bad-op, some none = bad-value
  | .list (.atom "add" :: .atom e :: kvs) =>
    some (do let e' ← strOfAtom e; let l ← kvsOf kvs; pure (Op.add e' l))
  | .list (.atom "update" :: .atom e :: kvs) =>
    some (do let e' ← strOfAtom e; let l ← kvsOf kvs; pure (Op.update e' l))
  | .list [.atom "rm", .atom e, .list pairs, .list keys] =>
    some (do let e' ← strOfAtom e; let l ← kvsOf pairs; let k ← strsOf keys; pure (Op.rm e' l k))
  | _ => none

def dump (st : St) : String :=
  let row (r : Row) : String :=
    "(" ++ atomOfInt r.id ++ " " ++ atomOfStr r.pre.ent ++ " " ++ atomOfStr r.pre.key ++ " " ++ atomOfStr r.pre.val ++
      " (" ++ " ".intercalate (r.pre.parents.map fun p => atomOfInt (Int.ofNat p)) ++ ") " ++ (if r.cur then "T" else "F") ++ ")"
  let edge (e : Nat × Nat) : String := "(" ++ atomOfInt e.1 ++ " " ++ atomOfInt e.2 ++ ")"
  "(rows " ++ " ".intercalate (st.rows.map row) ++ ") (edges " ++ " ".intercalate (st.edges.map edge) ++ ")"

def step (st : St) (line : String) : St × String :=
  match Sexp.parseLine line with
  | some [.atom "reset"] => (init, dump init)
  | some [x] =>
    match opOf x with
    | some (some op) =>
      match st.step op with
      | .ok st' => (st', dump st')
      | .error .fuel => (st, "!fuel")
    | some none => (st, "bad-value")
    | none => (st, "bad-op")
  | _ => (st, "bad-op")

def main : IO Unit := do driverLoop (← IO.getStdin) init step
