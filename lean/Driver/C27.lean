import RedunModel.Proto
import RedunModel.Model.Options
open RedunModel RedunModel.Options

/- requests
     val   ::= N | T | F | i<int> | s<hex> | (E s<cls> s<member value>) | (L val*) | (C s<id> val)
     dict  ::= (D (s<key> val)*)
     task  ::= (K dict dict)                      @task(**first, export_options=second)   (second empty = not given)
     op    ::= (O dict) | (X dict) | (R)          .options(**dict) | .export_options(**dict) | pickle.loads(pickle.dumps(task))
     call  ::= (J task (op*)) | (W dict)          task.op..op(...) | with_export_options(quote(..), dict)
     tree  ::= (T s<id> call (tree*))
   task <task> (op*)          → (ok dict dict (s<name>*)) | !TypeError | !ValueError     base, override, exported names
   tree T|F <tree>            → (ok (job*) (job*)) | !KeyError (the run raises) | !… (a constructor raises)    T/F = the run uses the cache; tree jobs, then option-value jobs
        job ::= (s<id> dict (s<name>*) dict)                evaluated options, exported names, raw options
   chain T|F (call*)          → job of the head of the ancestor chain (self first, root last), id = "" -/

partial def toVal : Sexp → Option Val
  | .atom "N" => some .none
  | .atom "T" => some (.bool true)
  | .atom "F" => some (.bool false)
  | .list [.atom "E", .atom c, .atom v] => do
    let c ← strOfAtom c
    let v ← strOfAtom v
    pure (.enum c v)
  | .list (.atom "L" :: xs) => (xs.mapM toVal).map .list
  | .list [.atom "C", .atom i, r] => do
    let i ← strOfAtom i
    let r ← toVal r
    pure (.call i r)
  | .atom a =>
    match a.toList with
    | 'i' :: _ => (intOfAtom a).map .int
    | 's' :: _ => (strOfAtom a).map .str
    | _ => none
  | _ => none

def toDict : Sexp → Option (Dict Val)
  | .list (.atom "D" :: kvs) => kvs.mapM fun
    | .list [.atom k, v] => do
      let k ← strOfAtom k
      let v ← toVal v
      pure (k, v)
    | _ => none
  | _ => none

def toOp : Sexp → Option TaskOp
  | .list [.atom "O", d] => (toDict d).map .options
  | .list [.atom "X", d] => (toDict d).map .exportOptions
  | .list [.atom "R"] => some .roundtrip
  | _ => none

/-- `none` = unparsable, `some (error e)` = the real constructor raises -/
def toTask (s : Sexp) (ops : Sexp) : Option (Except Err (TaskV × TaskV)) :=
  match s, ops with
  | .list [.atom "K", b, x], .list ops => do
    let b ← toDict b
    let x ← toDict x
    let ops ← ops.mapM toOp
    pure (do
      let reg ← mkTask b x
      let var ← applyOps reg reg ops
      pure (reg, var))
  | _, _ => none

def toCall : Sexp → Option (Except Err Call)
  | .list [.atom "J", t, ops] => (toTask t ops).map fun r => r.map fun (reg, var) => { reg := reg, var := var }
  | .list [.atom "W", d] => (toDict d).map wxCall
  | _ => none

partial def toTree : Sexp → Option (Except Err JTree)
  | .list [.atom "T", .atom i, c, .list ch] => do
    let i ← strOfAtom i
    let c ← toCall c
    let ch ← ch.mapM toTree
    pure (do
      let c ← c
      let ch ← ch.mapM id
      pure (.node i c ch))
  | _ => none

partial def renderC : CVal → String
  | .none => "N"
  | .bool true => "T"
  | .bool false => "F"
  | .int i => atomOfInt i
  | .str s => atomOfStr s
  | .enum c v => "(E " ++ atomOfStr c ++ " " ++ atomOfStr v ++ ")"
  | .list l => "(L" ++ String.join (l.map fun v => " " ++ renderC v) ++ ")"

partial def renderV : Val → String
  | .none => "N"
  | .bool true => "T"
  | .bool false => "F"
  | .int i => atomOfInt i
  | .str s => atomOfStr s
  | .enum c v => "(E " ++ atomOfStr c ++ " " ++ atomOfStr v ++ ")"
  | .list l => "(L" ++ String.join (l.map fun v => " " ++ renderV v) ++ ")"
  | .call i r => "(C " ++ atomOfStr i ++ " " ++ renderV r ++ ")"

def renderDict (f : α → String) (d : Dict α) : String :=
  "(D" ++ String.join (d.map fun kv => " (" ++ atomOfStr kv.1 ++ " " ++ f kv.2 ++ ")") ++ ")"

def renderNames (l : List String) : String := "(" ++ " ".intercalate (l.map atomOfStr) ++ ")"

def renderErr : Err → String
  | .typeError => "!TypeError"
  | .valueError => "!ValueError"

def renderJob (i : String) (j : JobInfo) (raw : Dict Val) : String :=
  "(" ++ atomOfStr i ++ " " ++ renderDict renderC j.evalOpts ++ " " ++ renderNames j.exports ++ " " ++
    renderDict renderV raw ++ ")"

mutual
/-- the raw options of every tree job, in `walk` order (for the raw-options comparison) -/
partial def raws (u : Bool) (p : Option JobInfo) : JTree → List (Dict Val)
  | .node _ c ch => rawOptions u p c :: rawsL u (some (jobStep u p c)) ch
partial def rawsL (u : Bool) (p : Option JobInfo) : List JTree → List (Dict Val)
  | [] => []
  | t :: ts => raws u p t ++ rawsL u p ts
end

mutual
partial def optRaws (u : Bool) (p : Option JobInfo) : JTree → List (Dict Val)
  | .node _ c ch =>
    (optionJobs (rawOptions u p c)).map (fun _ => rawOptions u p plainCall) ++ optRawsL u (some (jobStep u p c)) ch
partial def optRawsL (u : Bool) (p : Option JobInfo) : List JTree → List (Dict Val)
  | [] => []
  | t :: ts => optRaws u p t ++ optRawsL u p ts
end

def parseBool : Sexp → Option Bool
  | .atom "T" => some true
  | .atom "F" => some false
  | _ => none

def answer (line : String) : String :=
  match Sexp.parseLine line with
  | some [.atom "task", t, ops] =>
    match toTask t ops with
    | some (.ok (_, var)) =>
      "(ok " ++ renderDict renderV var.base ++ " " ++ renderDict renderV var.over ++ " " ++ renderNames var.exports ++ ")"
    | some (.error e) => renderErr e
    | none => "bad-value"
  | some [.atom "tree", u, t] =>
    match parseBool u, toTree t with
    | some u, some (.ok t) =>
      match runTree u t with
      | .error .keyError => "!KeyError"
      | .ok (m, o) =>
        let main := m.zip (raws u none t)
        let opt := o.zip (optRaws u none t)
        "(ok (" ++ " ".intercalate (main.map fun ((i, j), r) => renderJob i j r) ++ ") (" ++
          " ".intercalate (opt.map fun ((i, j), r) => renderJob i j r) ++ "))"
    | some _, some (.error e) => renderErr e
    | _, _ => "bad-value"
  | some [.atom "chain", u, .list cs] =>
    match parseBool u, cs.mapM toCall with
    | some u, some cs =>
      match cs.mapM id with
      | .ok (c :: anc) =>
        let p := jobInfo u anc
        renderJob "" (jobStep u p c) (rawOptions u p c)
      | .ok [] => "N"
      | .error e => renderErr e
    | _, _ => "bad-value"
  | _ => "bad-op"

def step (_ : Unit) (line : String) : Unit × String := ((), answer line)

def main : IO Unit := do driverLoop (← IO.getStdin) () step
