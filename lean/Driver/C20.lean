import RedunModel.Proto
import RedunModel.Model.Merkle
open RedunModel RedunModel.Merkle

/- request (one line = one database history):
     (session (exec <eid> <tree> (<ev>*))*)
   tree ::= (J jid task args result prov cached listed seen fin (vtag*) (jtag*) (etag*) (ttag*) (tree*)) | (R h?)
   fin  ::= ok | fail | un | (hit h)          h ::= (C task args result h*)       h? ::= N | h
   vtag ::= (valuehash key val)   jtag/etag/ttag ::= (key val)                    ev ::= (S jid) | (F jid)
   all numbers are `i<n>` atoms, booleans T/F.
   reply: the database after each execution, ` | `-separated:
     (nodes (h task args result)*) (edges (p c n)*) (jobs (jid parent exec task call cached ended)*) (execs (e j)*) (tags (kind id key val)*)
-/

partial def toH : Sexp → Option H
  | .list (.atom "C" :: t :: a :: r :: ks) => do
    let t ← (match t with | .atom s => natOfAtom s | _ => none)
    let a ← (match a with | .atom s => natOfAtom s | _ => none)
    let r ← (match r with | .atom s => natOfAtom s | _ => none)
    let ks ← ks.mapM toH
    -- a digest denotes the pre-image whose kids are sorted: list them in the model's order
    pure (hashCallNode t a r ks)
  | _ => none

def toNat? : Sexp → Option Nat
  | .atom s => natOfAtom s
  | _ => none

def toBool? : Sexp → Option Bool
  | .atom "T" => some true
  | .atom "F" => some false
  | _ => none

def toFin : Sexp → Option Fin
  | .atom "ok" => some .ok
  | .atom "fail" => some .fail
  | .atom "un" => some .unfinished
  | .list [.atom "hit", h] => (toH h).map .hit
  | _ => none

def toPair : Sexp → Option (Nat × Nat)
  | .list [k, v] => do pure ((← toNat? k), (← toNat? v))
  | _ => none

def toTriple : Sexp → Option (Nat × Nat × Nat)
  | .list [a, k, v] => do pure ((← toNat? a), (← toNat? k), (← toNat? v))
  | _ => none

partial def toJT : Sexp → Option JT
  | .list [.atom "R", .atom "N"] => some (.ref none)
  | .list [.atom "R", h] => (toH h).map fun h => .ref (some h)
  | .list [.atom "J", jid, task, args, result, prov, cached, listed, seen, fin,
           .list vt, .list jt, .list et, .list tt, .list kids] => do
    let i : Info := {
      jid := (← toNat? jid), task := (← toNat? task), args := (← toNat? args), result := (← toNat? result),
      prov := (← toBool? prov), cached := (← toBool? cached), fin := (← toFin fin),
      vtags := (← vt.mapM toTriple), jtags := (← jt.mapM toPair), etags := (← et.mapM toPair),
      ttags := (← tt.mapM toPair) }
    let ks ← kids.mapM toJT
    pure (.job i (← toBool? listed) (← toBool? seen) ks)
  | _ => none

/-- the subtree of job `jid` and the id of the job it was created under -/
partial def findJob (jid : Nat) (parent : Option Nat) : JT → Option (JT × Option Nat)
  | .ref _ => none
  | .job i l s kids =>
    if i.jid = jid then some (.job i l s kids, parent)
    else kids.findSome? (findJob jid (some i.jid))

def toEv (eid : Nat) (tree : JT) : Sexp → Option Ev
  | .list [.atom "S", j] => do
    let (t, p) ← findJob (← toNat? j) none tree
    pure (.start eid p t)
  | .list [.atom "F", j] => do
    let (t, p) ← findJob (← toNat? j) none tree
    pure (.finish eid p t)
  | _ => none

partial def rH : H → String
  | .call t a r ks => "(C " ++ atomOfInt t ++ " " ++ atomOfInt a ++ " " ++ atomOfInt r ++
      String.join (ks.map fun k => " " ++ rH k) ++ ")"

def rOH : Option H → String
  | none => "N"
  | some h => rH h

def rON : Option Nat → String
  | none => "N"
  | some n => atomOfInt n

def rB (b : Bool) : String := if b then "T" else "F"

def rEnt : Ent → String
  | .value n => "value " ++ atomOfInt n
  | .job n => "job " ++ atomOfInt n
  | .exec n => "exec " ++ atomOfInt n
  | .task n => "task " ++ atomOfInt n

def dump (db : Db) : String :=
  "(nodes" ++ String.join (db.nodes.map fun r =>
      " (" ++ rH r.id ++ " " ++ atomOfInt r.task ++ " " ++ atomOfInt r.args ++ " " ++ atomOfInt r.result ++ ")") ++ ") " ++
  "(edges" ++ String.join (db.edges.map fun e =>
      " (" ++ rH e.1 ++ " " ++ rH e.2.1 ++ " " ++ atomOfInt e.2.2 ++ ")") ++ ") " ++
  "(jobs" ++ String.join (db.jobs.map fun j =>
      " (" ++ atomOfInt j.jid ++ " " ++ rON j.parent ++ " " ++ atomOfInt j.exec ++ " " ++ atomOfInt j.task ++ " " ++
      rOH j.call ++ " " ++ rB j.cached ++ " " ++ rB j.ended ++ ")") ++ ") " ++
  "(execs" ++ String.join (db.execs.map fun e => " (" ++ atomOfInt e.1 ++ " " ++ atomOfInt e.2 ++ ")") ++ ") " ++
  "(tags" ++ String.join (db.tags.map fun t =>
      " (" ++ rEnt t.ent ++ " " ++ atomOfInt t.key ++ " " ++ atomOfInt t.val ++ ")") ++ ")"

def doExec (db : Db) : Sexp → Option Db
  | .list [.atom "exec", eid, tree, .list evs] => do
    let eid ← toNat? eid
    let tree ← toJT tree
    let evs ← evs.mapM (toEv eid tree)
    pure (run db evs)
  | _ => none

def doSession (execs : List Sexp) : Option (List String) :=
  let rec go (db : Db) : List Sexp → Option (List String)
    | [] => some []
    | e :: es => do
      let db' ← doExec db e
      let rest ← go db' es
      pure (dump db' :: rest)
  go {} execs

def stepLine (_ : Unit) (line : String) : Unit × String :=
  match Sexp.parseLine line with
  | some [.list (.atom "session" :: execs)] =>
    match doSession execs with
    | some outs => ((), " | ".intercalate outs)
    | none => ((), "bad-value")
  | _ => ((), "bad-op")

def main : IO Unit := do driverLoop (← IO.getStdin) () stepLine
