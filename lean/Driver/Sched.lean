import RedunModel.Proto
import RedunModel.Model.SchedCore
import RedunModel.Model.ExprMemo
open RedunModel RedunModel.SchedCore

/- request (one line):
   run <T|F dryrun> (lim (r n)*) (specs spec*) (res r*) (ch choice*)
   spec   ::= (key ctx (r c)* scope cseOk prov execOk fails pre (child*))     -- atoms are i<nat>, T/F, none|cse|backend, miss|single|ultimate
   choice ::= p | c<specId>            -- pop the queue head | the in-flight job created for spec <specId> reports
   reply: one summary per choice, joined by " | ":
     u=<r:v,..>;w=<spec,..>;f=<sorted spec,..>;q=<E:spec,..>;fin=<T|F>
   memo op*      op ::= (e <parent> <hash>) | (f <parent>)     -- `_evaluate_apply` request | `_pending_expr.pop(parent)`
     reply: one `<evaluation id>:<T|F started>` per e, joined by " "
   `bad-op` / `bad-value` otherwise.  A choice that is not enabled yields `stuck` at that position. -/

def natA (s : Sexp) : Option Nat := match s with | .atom a => natOfAtom a | _ => none
def boolA (s : Sexp) : Option Bool := match s with | .atom "T" => some true | .atom "F" => some false | _ => none

def parseSpec : Sexp → Option Spec
  | .list [k, c, .list lims, .atom sc, co, pr, eo, fa, .atom pre, .list ch] => do
    let key ← natA k
    let ctx ← natA c
    let limits ← lims.mapM fun
      | .list [r, n] => do pure ((← natA r), (← natA n))
      | _ => none
    let scope ← match sc with | "none" => some Scope.none | "cse" => some .cse | "backend" => some .backend | _ => none
    let pre ← match pre with | "miss" => some Pre.miss | "single" => some .single | "ultimate" => some .ultimate | _ => none
    let children ← ch.mapM natA
    pure { key, ctx, limits, scope, cseOk := (← boolA co), prov := (← boolA pr), execOk := (← boolA eo),
           fails := (← boolA fa), pre, children }
  | _ => none

def findJobOfSpec (s : S) (sid : Nat) : Option JobId :=
  (List.range s.next).find? fun j => s.specOf j == sid && s.inflight j

def evStr (s : S) : Ev → String
  | .exec j => s!"X:{s.specOf j}"
  | .done j _ => s!"D:{s.specOf j}"
  | .reject j => s!"R:{s.specOf j}"
  | .resolve j => s!"V:{s.specOf j}"

def insertSorted (x : Nat) : List Nat → List Nat
  | [] => [x]
  | y :: ys => if x ≤ y then x :: y :: ys else y :: insertSorted x ys

def summary (s : S) (res : List Nat) : String :=
  let u := ",".intercalate (res.map fun r => s!"{r}:{s.used r}")
  let w := ",".intercalate (s.pendingLimits.map fun j => toString (s.specOf j))
  let fl := ((List.range s.next).filter fun j => s.inflight j).map s.specOf
  let f := ",".intercalate ((fl.foldr insertSorted []).map toString)
  let q := ",".intercalate (s.queue.map (evStr s))
  s!"u={u};w={w};f={f};q={q};fin={if s.finished then "T" else "F"}"

def runChoices (p : Prog) (res : List Nat) : S → List Sexp → List String → List String
  | _, [], acc => acc.reverse
  | s, c :: cs, acc =>
    match c with
    | .atom "p" =>
      if s.finished || s.queue.isEmpty then (("stuck") :: acc).reverse
      else let s' := pop p s; runChoices p res s' cs (summary s' res :: acc)
    | .atom a =>
      match a.toList with
      | 'c' :: r =>
        match (String.ofList r).toNat? with
        | some sid =>
          match findJobOfSpec s sid with
          | some j =>
            if s.finished then (("stuck") :: acc).reverse
            else let s' := complete p s j; runChoices p res s' cs (summary s' res :: acc)
          | none => (("stuck") :: acc).reverse
        | none => (("bad-value") :: acc).reverse
      | _ => (("bad-value") :: acc).reverse
    | _ => (("bad-value") :: acc).reverse

def parseMemoOp : Sexp → Option ExprMemo.Op
  | .list [.atom "e", a, b] => do pure (.eval (← natA a) (← natA b))
  | .list [.atom "f", a] => do pure (.finalize (← natA a))
  | _ => none

def step (_ : Unit) (line : String) : Unit × String :=
  match Sexp.parseLine line with
  | some (.atom "memo" :: ops) =>
    match ops.mapM parseMemoOp with
    | some ops =>
      ((), " ".intercalate ((ExprMemo.run {} ops).map fun a => toString a.out.id ++ ":" ++ (if a.out.started then "T" else "F")))
    | none => ((), "bad-value")
  | some [.atom "run", dr, .list (.atom "lim" :: lims), .list (.atom "specs" :: specs),
          .list (.atom "res" :: res), .list (.atom "ch" :: chs)] =>
    match boolA dr, lims.mapM (fun | .list [r, n] => do pure ((← natA r), (← natA n)) | _ => none),
          specs.mapM parseSpec, res.mapM natA with
    | some dryrun, some lims, some specs, some res =>
      let limit : Nat → Nat := fun r => match lims.find? (fun x => x.1 == r) with | some x => x.2 | none => 1
      let p : Prog := { specs, limit, dryrun }
      ((), " | ".intercalate (runChoices p res init chs []))
    | _, _, _, _ => ((), "bad-value")
  | _ => ((), "bad-op")

def main : IO Unit := do driverLoop (← IO.getStdin) () step
