import RedunModel.Proto
import RedunModel.Model.PreRender
import RedunModel.Model.ExprHash
open RedunModel RedunModel.Pre RedunModel.ExprHash

/- requests
     hash    <node>        → rendered pre-image of Expression.get_hash()
     hashold <node>        → SchedulerExpression._calc_hash before the proposed repair
     rt <node> N|i<callhash> N|(i*) T|F     → pickle round trip of the object: `ok <node> <callhash> <upstreams> <cached>` | !KeyError
     set <kind> (state (key value)*)        → __setstate__ of a (possibly legacy) state dict
     statekeys <kind>                       → the keys __getstate__ writes
   node ::= (lit i<n>) | (value i<n>)
          | (task|sched s<name> (<node>*) ((s<k> <node>)*) ((s<k> i<n>)*) (s<export>*) N|i<length>)
          | (simple s<func> (<node>*) ((s<k> <node>)*)) -/

def optNat : Sexp → Option (Option Nat)
  | .atom "N" => some none
  | .atom a => (natOfAtom a).map some
  | _ => none

def optsOfSx (l : List Sexp) : Option Opts :=
  l.mapM (fun x => match x with
    | Sexp.list [Sexp.atom k, Sexp.atom n] => do
      let k' ← strOfAtom k
      let n' ← natOfAtom n
      pure (k', n')
    | _ => (none : Option (String × Nat)))

def strsOf (l : List Sexp) : Option (List String) :=
  l.mapM (fun x => match x with | Sexp.atom a => strOfAtom a | _ => none)

mutual
  partial def nodeOf : Sexp → Option Node
    | .list [.atom "lit", .atom n] => (natOfAtom n).map .lit
    | .list [.atom "value", .atom n] => (natOfAtom n).map .value
    | .list [.atom "task", .atom n, .list a, .list k, .list o, .list e, l] => do
      pure (.task (← strOfAtom n) (← a.mapM nodeOf) (← kwOf k) (← optsOfSx o) (← strsOf e) (← optNat l))
    | .list [.atom "sched", .atom n, .list a, .list k, .list o, .list e, l] => do
      pure (.sched (← strOfAtom n) (← a.mapM nodeOf) (← kwOf k) (← optsOfSx o) (← strsOf e) (← optNat l))
    | .list [.atom "simple", .atom f, .list a, .list k] => do
      pure (.simple (← strOfAtom f) (← a.mapM nodeOf) (← kwOf k))
    | _ => none
  partial def kwOf : List Sexp → Option (List (String × Node))
    | [] => some []
    | .list [.atom k, v] :: t => do
      let k' ← strOfAtom k
      let v' ← nodeOf v
      let t' ← kwOf t
      pure ((k', v') :: t')
    | _ => none
end

def rOptNat : Option Nat → String
  | none => "N"
  | some n => atomOfInt n

def rOpts (o : Opts) : String := "(" ++ " ".intercalate (o.map fun kv => "(" ++ atomOfStr kv.1 ++ " " ++ atomOfInt kv.2 ++ ")") ++ ")"
def rStrs (l : List String) : String := "(" ++ " ".intercalate (l.map atomOfStr) ++ ")"

mutual
  partial def rNode : Node → String
    | .lit n => "(lit " ++ atomOfInt n ++ ")"
    | .value n => "(value " ++ atomOfInt n ++ ")"
    | .task n a k o e l => "(task " ++ atomOfStr n ++ " " ++ rNodes a ++ " " ++ rKw k ++ " " ++ rOpts o ++ " " ++ rStrs e ++ " " ++ rOptNat l ++ ")"
    | .sched n a k o e l => "(sched " ++ atomOfStr n ++ " " ++ rNodes a ++ " " ++ rKw k ++ " " ++ rOpts o ++ " " ++ rStrs e ++ " " ++ rOptNat l ++ ")"
    | .simple f a k => "(simple " ++ atomOfStr f ++ " " ++ rNodes a ++ " " ++ rKw k ++ ")"
  partial def rNodes (l : List Node) : String := "(" ++ " ".intercalate (l.map rNode) ++ ")"
  partial def rKw (l : List (String × Node)) : String :=
    "(" ++ " ".intercalate (l.map fun kv => "(" ++ atomOfStr kv.1 ++ " " ++ rNode kv.2 ++ ")") ++ ")"
end

def rObj : Except Err Obj → String
  | .ok o => "ok " ++ rNode o.node ++ " " ++ rOptNat o.callHash ++ " " ++
      (match o.upstreams with | none => "N" | some l => "(" ++ " ".intercalate (l.map fun (x : Nat) => atomOfInt x) ++ ")") ++ " " ++
      (if o.hashCached then "T" else "F")
  | .error .keyError => "!KeyError"
  | .error .notAnExpression => "!NotAnExpression"

def kindOfSx : Sexp → Option Kind
  | .atom "task" => some .task
  | .atom "sched" => some .sched
  | .atom "simple" => some .simple
  | .atom "value" => some .value
  | _ => none

/-- state dict: `(state (task_name s..) (func_name s..) (args (node*)) (kwargs ((k node)*)) (task_options (..)) (export_options (..)) (length N|i) (value i))` -/
def stateOf (items : List Sexp) : Option State :=
  items.foldlM (fun (s : State) (it : Sexp) => match it with
    | Sexp.list [Sexp.atom "task_name", Sexp.atom n] => (strOfAtom n).map fun x => { s with taskName := some x }
    | Sexp.list [Sexp.atom "func_name", Sexp.atom n] => (strOfAtom n).map fun x => { s with funcName := some x }
    | Sexp.list [Sexp.atom "args", Sexp.list a] => (a.mapM nodeOf).map fun x => { s with args := some x }
    | Sexp.list [Sexp.atom "kwargs", Sexp.list k] => (kwOf k).map fun x => { s with kwargs := some x }
    | Sexp.list [Sexp.atom "task_options", Sexp.list o] => (optsOfSx o).map fun x => { s with taskOptions := some x }
    | Sexp.list [Sexp.atom "export_options", Sexp.list e] => (strsOf e).map fun x => { s with exportOptions := some x }
    | Sexp.list [Sexp.atom "length", l] => (optNat l).map fun x => { s with length := some x }
    | Sexp.list [Sexp.atom "value", Sexp.atom n] => (natOfAtom n).map fun x => { s with value := some x }
    | _ => none) {}

/-- names of the keys the model's `getstate` writes for an object of the given kind -/
def stateKeys (k : Kind) : String :=
  let n : Node := match k with
    | .task => .task "" [] [] [] [] none
    | .sched => .sched "" [] [] [] [] none
    | .simple => .simple "" [] []
    | .value => .value 0
    | .lit => .lit 0
  let s := getstate { node := n, callHash := none, upstreams := none, hashCached := false }
  " ".intercalate ((if s.taskName.isSome then ["task_name"] else []) ++ (if s.funcName.isSome then ["func_name"] else [])
    ++ (if s.args.isSome then ["args"] else []) ++ (if s.kwargs.isSome then ["kwargs"] else [])
    ++ (if s.taskOptions.isSome then ["task_options"] else []) ++ (if s.exportOptions.isSome then ["export_options"] else [])
    ++ (if s.length.isSome then ["length"] else []) ++ (if s.value.isSome then ["value"] else []))

def step (_ : Unit) (line : String) : Unit × String :=
  match Sexp.parseLine line with
  | some [.atom "hash", n] =>
    match nodeOf n with
    | some n => ((), (hashOf n).render)
    | none => ((), "bad-value")
  | some [.atom "hashold", n] =>
    match nodeOf n with
    | some n => ((), (hashOfOld n).render)
    | none => ((), "bad-value")
  | some [.atom "rt", n, ch, ups, cached] =>
    match nodeOf n, optNat ch, (match ups with
        | .atom "N" => some none
        | .list l => (l.mapM fun x => match x with | Sexp.atom a => natOfAtom a | _ => none).map some
        | _ => none), (match cached with | .atom "T" => some true | .atom "F" => some false | _ => none) with
    | some n, some ch, some ups, some c =>
      let o : Obj := { node := n, callHash := ch, upstreams := ups, hashCached := c }
      ((), rObj (setstate (kind n) (getstate o)))
    | _, _, _, _ => ((), "bad-value")
  | some [.atom "statekeys", k] =>
    match kindOfSx k with
    | some k => ((), stateKeys k)
    | none => ((), "bad-value")
  | some [.atom "set", k, .list (.atom "state" :: items)] =>
    match kindOfSx k, stateOf items with
    | some k, some s => ((), rObj (setstate k s))
    | _, _ => ((), "bad-value")
  | _ => ((), "bad-op")

def main : IO Unit := do driverLoop (← IO.getStdin) () step
