import RedunModel.Proto
import RedunModel.Model.FileOps
import RedunModel.Model.FileSysIO
open RedunModel RedunModel.FileSys RedunModel.FileOps

/- One request per line, state threaded through.
   (init (<path>*))                  universe of file paths, resets the state          -> ok
   (new <val>) (hash i) (update i) (valid i) (write i b<hex> t) (append i b<hex> t) (open i s<mode> b<hex> t) (remove i) (touch i t)
   (copy i j T|F t) (stage i j t) (unstage i j t) (mkdir i) (rmdir i) (dcopy i j T|F t) (dstage i j t)
   (dunstage i j t) (xwrite <path> b<hex> t) (xremove <path>)                          -> ok|skipped|T|F|<H>|!Err|bad-op
   (dump)                                                                              -> ((<cached|N> <fresh>)*)
   <path> ::= (s<hex>*)   <val> ::= (file fam <path>) | (fset fam <path> T|F) | (dir fam <path>)
                                  | (staging T|F fam <path> <path>)     fam ::= plain|imm|content -/

def pOp : Sexp → Option Op
  | .list [.atom "new", v] => do pure (.new (← pVal v))
  | .list [.atom "hash", i] => do pure (.hash (← pNat i))
  | .list [.atom "update", i] => do pure (.updateHash (← pNat i))
  | .list [.atom "valid", i] => do pure (.isValid (← pNat i))
  | .list [.atom "write", i, b, t] => do pure (.write (← pNat i) (← pBytes b) (← pInt t))
  | .list [.atom "append", i, b, t] => do pure (.append (← pNat i) (← pBytes b) (← pInt t))
  | .list [.atom "open", i, .atom m, b, t] => do
    pure (.openMode (← pNat i) ((← strOfAtom m).toList) (← pBytes b) (← pInt t))
  | .list [.atom "remove", i] => do pure (.remove (← pNat i))
  | .list [.atom "touch", i, t] => do pure (.touch (← pNat i) (← pInt t))
  | .list [.atom "copy", i, j, s, t] => do pure (.copyTo (← pNat i) (← pNat j) (← pBool s) (← pInt t))
  | .list [.atom "stage", i, j, t] => do pure (.stage (← pNat i) (← pNat j) (← pInt t))
  | .list [.atom "unstage", i, j, t] => do pure (.unstage (← pNat i) (← pNat j) (← pInt t))
  | .list [.atom "mkdir", i] => do pure (.mkdir (← pNat i))
  | .list [.atom "rmdir", i] => do pure (.rmdir (← pNat i))
  | .list [.atom "dcopy", i, j, s, t] => do pure (.dirCopyTo (← pNat i) (← pNat j) (← pBool s) (← pInt t))
  | .list [.atom "dstage", i, j, t] => do pure (.stageDir (← pNat i) (← pNat j) (← pInt t))
  | .list [.atom "dunstage", i, j, t] => do pure (.unstageDir (← pNat i) (← pNat j) (← pInt t))
  | .list [.atom "xwrite", p, b, t] => do pure (.extWrite (← pPath p) (← pBytes b) (← pInt t))
  | .list [.atom "xremove", p] => do pure (.extRemove (← pPath p))
  | _ => none

def rOut : Out → String
  | .ok => "ok"
  | .skipped => "skipped"
  | .bool true => "T"
  | .bool false => "F"
  | .h h => rH h
  | .err .fileNotFound => "!FileNotFoundError"
  | .err .sameFile => "!SameFileError"
  | .err .redunNotFound => "!RedunFileNotFoundError"
  | .err .redunOS => "!RedunOSError"
  | .bad => "bad-op"

def dump (U : List Path) (s : St) : String :=
  "(" ++ " ".intercalate (s.objs.map fun o =>
    "(" ++ (match o.cached with | none => "N" | some h => rH h) ++ " " ++ rH (calcHash U s.fs o.val) ++ ")") ++ ")"

def stepLine (st : List Path × St) (line : String) : (List Path × St) × String :=
  match Sexp.parseLine line with
  | some [.list [.atom "init", .list ps]] =>
    match ps.mapM pPath with
    | some U => ((U, St.init), "ok")
    | none => (st, "bad-value")
  | some [.list [.atom "dump"]] => (st, dump st.1 st.2)
  | some [x] =>
    match pOp x with
    | some op => let r := step st.1 st.2 op; ((st.1, r.1), rOut r.2)
    | none => (st, "bad-op")
  | _ => (st, "bad-op")

def main : IO Unit := do driverLoop (← IO.getStdin) (([] : List Path), St.init) stepLine
