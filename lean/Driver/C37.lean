import RedunModel.Proto
import RedunModel.Model.Registry
open RedunModel RedunModel.Registry

/- requests (state = the registry, threaded through the session):
     reset
     def i<oid> s<ns> s<name> s<hash>                 registry.add(Task(...))
     ren s<old> s<new_ns> s<new_name>                 registry.rename(...)
     wrap s<target> s<wrapper_name> i<woid> s<wbody>  wrapper applied to the task registered as target;
                                                      wrapper hash = T(<visible fullname>|<wbody>|<hidden hash>)
     getn s<name>                                     registry.get(task_name=...)        (read-only)
     geth i<oid>|N                                    registry.get(hash=<hash of the task object oid, registered or
                                                      not any more>) ; N = a hash no task ever had   (read-only)
     iter                                             list(registry)                                  (read-only)
   reply: <status> (tasks (s<key> i<oid> s<ns> s<name> s<hash> s<wrapped>|N)*) (counts (s<hash> i<n>)*) (hashes s<hash>*)
   the three queries reply `ok (found i<oid>|N) <dump>` resp. `ok (iter i<oid>*) <dump>`
   status = ok | !AssertionError | !AttributeError | !RecursionError | !NotRegistered -/

def dump (r : Reg) : String :=
  let ts := r.tasks.map fun (k, t) =>
    "(" ++ atomOfStr k ++ " " ++ atomOfInt t.oid ++ " " ++ atomOfStr t.ns ++ " " ++ atomOfStr t.name ++ " " ++
      atomOfStr t.hash ++ " " ++ (match t.wrapped with | some w => atomOfStr w | none => "N") ++ ")"
  let cs := r.counts.map fun (h, n) => "(" ++ atomOfStr h ++ " " ++ atomOfInt n ++ ")"
  "(tasks " ++ " ".intercalate ts ++ ") (counts " ++ " ".intercalate cs ++ ") (hashes " ++
    " ".intercalate ((taskHashes r).map atomOfStr) ++ ")"

def found : Option Task → String
  | some t => atomOfInt t.oid
  | none => "N"

def errText : Err → String
  | .assertion => "!AssertionError"
  | .attribute => "!AttributeError"
  | .recursion => "!RecursionError"

def stepReg (r : Reg) (known : List (Nat × H)) (line : String) : Reg × String :=
  match Sexp.parseLine line with
  | some [.atom "reset"] => (Reg.empty, "ok " ++ dump Reg.empty)
  | some [.atom "def", .atom o, .atom ns, .atom nm, .atom h] =>
    match natOfAtom o, strOfAtom ns, strOfAtom nm, strOfAtom h with
    | some o, some ns, some nm, some h =>
      let r' := add ⟨o, ns, nm, h, none⟩ r
      (r', "ok " ++ dump r')
    | _, _, _, _ => (r, "bad-value")
  | some [.atom "ren", .atom old, .atom ns, .atom nm] =>
    match strOfAtom old, strOfAtom ns, strOfAtom nm with
    | some old, some ns, some nm =>
      match rename old ns nm r with
      | .ok (_, r') => (r', "ok " ++ dump r')
      | .error e => (r, errText e ++ " " ++ dump r)
    | _, _, _ => (r, "bad-value")
  | some [.atom "wrap", .atom target, .atom wn, .atom o, .atom wb] =>
    match strOfAtom target, strOfAtom wn, natOfAtom o, strOfAtom wb with
    | some target, some wn, some o, some wb =>
      match get target r with
      | none => (r, "!NotRegistered " ++ dump r)
      | some t =>
        let wh : H → H := fun h => "T(" ++ t.fullname ++ "|" ++ wb ++ "|" ++ h ++ ")"
        match wrap t wn o wh r with
        | (r', none) => (r', "ok " ++ dump r')
        | (r', some e) => (r', errText e ++ " " ++ dump r')
    | _, _, _, _ => (r, "bad-value")
  | some [.atom "getn", .atom n] =>
    match strOfAtom n with
    | some n => (step r (.getName n), "ok (found " ++ found (get n r) ++ ") " ++ dump (step r (.getName n)))
    | none => (r, "bad-value")
  | some [.atom "geth", .atom o] =>
    let h? : Option H := if o = "N" then some "NEVER" else (natOfAtom o).bind fun k => (known.find? (·.1 == k)).map (·.2)
    match h? with
    | some h => (step r (.getHash h), "ok (found " ++ found (getByHash h r) ++ ") " ++ dump (step r (.getHash h)))
    | none => (r, "bad-value")
  | some [.atom "iter"] =>
    (step r .iterate, "ok (iter " ++ " ".intercalate (r.tasks.map fun p => atomOfInt p.2.oid) ++ ") " ++ dump (step r .iterate))
  | _ => (r, "bad-op")

/-- driver state: the registry and, for `geth`, the hash of every task object that was ever registered -/
def stepLine (st : Reg × List (Nat × H)) (line : String) : (Reg × List (Nat × H)) × String :=
  let (r', out) := stepReg st.1 st.2 line
  let known := if line.startsWith "reset" then [] else st.2
  let known' := r'.tasks.foldl (fun acc p => if acc.any (·.1 == p.2.oid) then acc else acc ++ [(p.2.oid, p.2.hash)]) known
  ((r', known'), out)

def main : IO Unit := do driverLoop (← IO.getStdin) (Reg.empty, []) stepLine
