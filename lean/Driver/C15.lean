import RedunModel.Proto
import RedunModel.Model.PreRender
import RedunModel.Model.Keys
open RedunModel RedunModel.Pre RedunModel.Keys

/- requests
     key    <task-hash pre> (cfg s<name>*) (sig (s<name> <kind> <default>)*) (args (i<h> T|F)*) (kw (s<name> i<h> T|F)*)
     keyold … same …          (the code before the proposed repair)
     defaults (sig …) i<nargs> (kw …)        → the dict returned by get_arg_defaults
     slot (sig …) i<index>                    → s<name of the parameter positional argument i binds to> | N
     tags                                     → the record tag table
   kind ::= PO | PK | VP | KO | VK       default ::= N | (i<h> T|F)
   reply: `<eval pre-image> <args pre-image>` rendered as in Model/PreRender.lean -/

def boolOf : Sexp → Option Bool
  | .atom "T" => some true
  | .atom "F" => some false
  | _ => none

def argOf : List Sexp → Option Arg
  | [.atom h, j] => do
    let h' ← natOfAtom h
    let j' ← boolOf j
    pure ⟨h', j'⟩
  | _ => none

def kindOf : Sexp → Option Kind
  | .atom "PO" => some .posOnly
  | .atom "PK" => some .posOrKw
  | .atom "VP" => some .varPos
  | .atom "KO" => some .kwOnly
  | .atom "VK" => some .varKw
  | _ => none

def paramOf : Sexp → Option Param
  | .list [.atom n, k, d] => do
    let n' ← strOfAtom n
    let k' ← kindOf k
    let d' ← match d with
      | .atom "N" => some none
      | .list l => (argOf l).map some
      | _ => none
    pure ⟨n', k', d'⟩
  | _ => none

def kwOf : Sexp → Option (String × Arg)
  | .list (.atom n :: rest) => do
    let n' ← strOfAtom n
    let a ← argOf rest
    pure (n', a)
  | _ => none

def argSx : Sexp → Option Arg
  | .list l => argOf l
  | _ => none

def renderKw (kw : Kwargs) : String :=
  "(" ++ " ".intercalate (kw.map fun ka => "(" ++ atomOfStr ka.1 ++ " " ++ atomOfInt ka.2.h ++ " " ++ (if ka.2.ji then "T" else "F") ++ ")") ++ ")"

def step (_ : Unit) (line : String) : Unit × String :=
  match Sexp.parseLine line with
  | some [.atom op, th, .list (.atom "cfg" :: cfg), .list (.atom "sig" :: sig), .list (.atom "args" :: args),
          .list (.atom "kw" :: kw)] =>
    if op ≠ "key" ∧ op ≠ "keyold" then ((), "bad-op") else
    match Pre.ofSexp th, cfg.mapM (fun c => match c with | .atom a => strOfAtom a | _ => none),
          sig.mapM paramOf, args.mapM argSx, kw.mapM kwOf with
    | some th, some cfg, some sig, some args, some kw =>
      let r := if op = "key" then callKey th cfg sig args kw else callKeyOld th cfg sig args kw
      ((), r.1.render ++ " " ++ r.2.render)
    | _, _, _, _, _ => ((), "bad-value")
  | some [.atom "defaults", .list (.atom "sig" :: sig), .atom n, .list (.atom "kw" :: kw)] =>
    match sig.mapM paramOf, natOfAtom n, kw.mapM kwOf with
    | some sig, some n, some kw => ((), renderKw (getArgDefaults sig n kw))
    | _, _, _ => ((), "bad-value")
  | some [.atom "defaultsold", .list (.atom "sig" :: sig), .atom n, .list (.atom "kw" :: kw)] =>
    match sig.mapM paramOf, natOfAtom n, kw.mapM kwOf with
    | some sig, some n, some kw => ((), renderKw (getArgDefaultsOld sig n kw))
    | _, _, _ => ((), "bad-value")
  | some [.atom "slot", .list (.atom "sig" :: sig), .atom i] =>
    match sig.mapM paramOf, natOfAtom i with
    | some sig, some i => ((), match slotOfPos sig i with | some n => atomOfStr n | none => "N")
    | _, _ => ((), "bad-value")
  | some [.atom "tags"] => ((), " ".intercalate (recordTags.map atomOfStr))
  | _ => ((), "bad-op")

def main : IO Unit := do driverLoop (← IO.getStdin) () step
