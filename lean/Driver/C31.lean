import RedunModel.Proto
import RedunModel.Model.ValueStore
open RedunModel RedunModel.ValueStore

/- One request per line, state threaded through.
   (init T|F)                                 fresh backend with / without a value store           -> ok
   (name b<payload> b<fname>)                 one point of the FileCache naming function `fn`      -> ok
   (record <val> i<min> i<max>)               <val> ::= (plain b<pickle>) | (fc b<payload>)        -> (ok <key>) | !RedunDatabaseError
   (recordwatch <val> i<min> i<max>)          record while another backend reads the value inside the store write window
                                              -> <record reply> <read reply | - (no existing object)>
   (faultfc b<payload>)                       record of a FileCache value failing inside the write of its file -> !OSError
   (getaway <key>)                            get while the store directory is moved away (state unchanged)  -> as get
   (get <key>)                                <key> ::= (T|F b<data>)                              -> absent | <val> | !AssertionError
   (dropstore <key>) (dropfc b<fname>) (attach)                                                     -> ok
   (dump)        -> ((db (<key> inline|placeholder)*) (store <key>*) (fc b<fname>*)), each part sorted as text -/

structure DSt where
  names : List (Bytes × Bytes)
  s : St

def fnOf (names : List (Bytes × Bytes)) (p : Bytes) : Bytes := (lookup p names).getD []

def pB : Sexp → Option Bytes
  | .atom a => bytesOfAtom a
  | _ => none
def pN : Sexp → Option Nat
  | .atom a => natOfAtom a
  | _ => none

def pVal : Sexp → Option Val
  | .list [.atom "plain", b] => (pB b).map .plain
  | .list [.atom "fc", b] => (pB b).map .fcache
  | _ => none

def pKey : Sexp → Option Key
  | .list [.atom "T", b] => (pB b).map fun d => (true, d)
  | .list [.atom "F", b] => (pB b).map fun d => (false, d)
  | _ => none

def rKey (k : Key) : String := "(" ++ (if k.1 then "T " else "F ") ++ atomOfBytes k.2 ++ ")"
def rVal : Val → String
  | .plain d => "(plain " ++ atomOfBytes d ++ ")"
  | .fcache p => "(fc " ++ atomOfBytes p ++ ")"

def sorted (l : List String) : List String := l.mergeSort (fun a b => decide (a ≤ b))

def dump (s : St) : String :=
  let db := sorted (s.db.map fun (k, d) => "(" ++ rKey k ++ (if d = [] then " placeholder)" else " inline)"))
  let st := sorted ((s.store.getD []).map fun (k, _) => rKey k)
  let fc := sorted (s.fc.map fun (f, _) => atomOfBytes f)
  "((db" ++ String.join (db.map (" " ++ ·)) ++ ") (store" ++ String.join (st.map (" " ++ ·)) ++ ") (fc" ++
    String.join (fc.map (" " ++ ·)) ++ "))"

def stepLine (st : DSt) (line : String) : DSt × String :=
  match Sexp.parseLine line with
  | some [.list [.atom "init", .atom "T"]] => ({ st with s := St.init true }, "ok")
  | some [.list [.atom "init", .atom "F"]] => ({ st with s := St.init false }, "ok")
  | some [.list [.atom "name", p, f]] =>
    match pB p, pB f with
    | some p, some f => ({ st with names := (p, f) :: st.names }, "ok")
    | _, _ => (st, "bad-value")
  | some [.list [.atom "record", v, mn, mx]] =>
    match pVal v, pN mn, pN mx with
    | some v, some mn, some mx =>
      let unnamed := match v with
        | .fcache p => (lookup p st.names).isNone
        | _ => false
      if unnamed then (st, "bad-value")
      else
        let r := record (fnOf st.names) v ⟨mn, mx⟩ st.s
        ({ st with s := r.1 }, match r.2 with
          | .ok k => "(ok " ++ rKey k ++ ")"
          | .error .tooLarge => "!RedunDatabaseError"
          | .error .noStore => "!AssertionError")
    | _, _, _ => (st, "bad-value")
  | some [.list [.atom "recordwatch", v, mn, mx]] =>
    match pVal v, pN mn, pN mx with
    | some v, some mn, some mx =>
      let unnamed := match v with
        | .fcache p => (lookup p st.names).isNone
        | _ => false
      if unnamed then (st, "bad-value")
      else
        let r := recordWatch (fnOf st.names) v ⟨mn, mx⟩ st.s
        let rec1 := match r.1.2 with
          | .ok k => "(ok " ++ rKey k ++ ")"
          | .error .tooLarge => "!RedunDatabaseError"
          | .error .noStore => "!AssertionError"
        let rd := match r.2 with
          | none => "-"
          | some (.ok none) => "absent"
          | some (.ok (some v)) => rVal v
          | some (.error .noStore) => "!AssertionError"
          | some (.error .tooLarge) => "!RedunDatabaseError"
        ({ st with s := r.1.1 }, rec1 ++ " " ++ rd)
    | _, _, _ => (st, "bad-value")
  | some [.list [.atom "get", k]] =>
    match pKey k with
    | some k => (st, match get k st.s with
      | .ok none => "absent"
      | .ok (some v) => rVal v
      | .error .noStore => "!AssertionError"
      | .error .tooLarge => "!RedunDatabaseError")
    | none => (st, "bad-value")
  | some [.list [.atom "getaway", k]] =>
    match pKey k with
    | some k => (st, match getAway k st.s with
      | .ok none => "absent"
      | .ok (some v) => rVal v
      | .error .noStore => "!AssertionError"
      | .error .tooLarge => "!RedunDatabaseError")
    | none => (st, "bad-value")
  | some [.list [.atom "dropstore", k]] =>
    match pKey k with
    | some k => ({ st with s := dropStore k st.s }, "ok")
    | none => (st, "bad-value")
  | some [.list [.atom "faultfc", b]] =>
    match pB b with
    | some p => if (lookup p st.names).isNone then (st, "bad-value")
                else ({ st with s := faultFc (fnOf st.names) p st.s }, "!OSError")
    | none => (st, "bad-value")
  | some [.list [.atom "dropfc", f]] =>
    match pB f with
    | some f => ({ st with s := dropFc f st.s }, "ok")
    | none => (st, "bad-value")
  | some [.list [.atom "attach"]] => ({ st with s := attachStore st.s }, "ok")
  | some [.list [.atom "dump"]] => (st, dump st.s)
  | _ => (st, "bad-op")

def main : IO Unit := do driverLoop (← IO.getStdin) (⟨[], St.init false⟩ : DSt) stepLine
