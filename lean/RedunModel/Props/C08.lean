/-
C08 — Resource limits are never exceeded.

Model: `RedunModel.Model.SchedCore` (the scheduler's job bookkeeping as a transition system; mirrors
/repo after the `fix:` commit "release a job's resource limits exactly once").  Every theorem
quantifies over ALL programs (`p : Prog`: any finite forest of job specifications, any limit
configuration, list- or dict-form demands, failing jobs, cache hits, duplicates, unknown executors)
and ALL schedules (`Reachable p s`: any interleaving of queue processing and executor reports).
Helper lemmas: `RedunModel.Lemmas.SchedCore`.
-/
import RedunModel.Lemmas.SchedCore
namespace RedunModel.C08
open RedunModel.SchedCore

/-- `limits_used` is exactly the sum of the demands of the jobs that currently hold limits
(consumed and not yet released): nothing is released twice, nothing is forgotten. -/
theorem used_eq_held (p : Prog) (s : S) (h : Reachable p s) (r : Res) : s.used r = held p s r :=
  (reachable_inv p s h).core.used_eq r

/-- A job in the hands of an executor holds its limits. -/
theorem inflight_holds (p : Prog) (s : S) (h : Reachable p s) (j : JobId) (hj : s.inflight j = true) :
    s.holds j = true := (reachable_inv p s h).core.infl_holds j hj

/-- At every moment, for every resource, the units held by the jobs that were submitted and have not
yet been reported done or failed never exceed the configured limit. -/
theorem never_exceeded (p : Prog) (s : S) (h : Reachable p s) (r : Res) : heldInflight p s r ≤ p.limit r := by
  have inv := (reachable_inv p s h).core
  calc heldInflight p s r ≤ held p s r := by
        unfold heldInflight held
        apply sumTo_le
        intro i
        by_cases hi : s.inflight i = true
        · simp [hi, inv.infl_holds i hi]
        · have : s.inflight i = false := by simpa using hi
          simp only [this, Bool.false_eq_true, if_false]
          split
          · simp [demOf]
          · exact Int.le_refl 0
    _ = s.used r := (inv.used_eq r).symm
    _ ≤ p.limit r := inv.le_limit r

/-- The same bound for all holders (including jobs whose report is queued but not yet processed). -/
theorem holders_within_limit (p : Prog) (s : S) (h : Reachable p s) (r : Res) : held p s r ≤ p.limit r := by
  have inv := (reachable_inv p s h).core
  rw [← inv.used_eq r]; exact inv.le_limit r

/-- Jobs served from the cache or by deduplication hold no units. -/
theorem cached_hold_nothing (p : Prog) (s : S) (h : Reachable p s) (j : JobId)
    (hc : (s.jobs j).wasCached = true) : s.holds j = false :=
  holds_false_of_occA ((reachable_inv p s h).core.cached_quiet j hc)

/-- Units are returned: a holder is in flight or its completion/rejection event is queued … -/
theorem holder_is_live (p : Prog) (s : S) (h : Reachable p s) (j : JobId) (hj : s.holds j = true) :
    s.inflight j = true ∨ C s j := (reachable_inv p s h).core.holds_wit j (by simp) hj

/-- … so when nothing is queued and nothing is in flight, every unit has been returned
(`limits_used` is all zero at the end of a run; with `used_eq_held` this is "exactly once"). -/
theorem all_released_at_quiescence (p : Prog) (s : S) (h : Reachable p s) (hq : s.queue = [])
    (hi : ∀ j, s.inflight j = false) (r : Res) : s.used r = 0 := by
  have inv := (reachable_inv p s h).core
  rw [inv.used_eq r]
  unfold held
  have : ∀ j, s.holds j = false := by
    intro j
    by_cases hj : s.holds j = true
    · rcases inv.holds_wit j (by simp) hj with a | a
      · rw [hi j] at a; exact absurd a (by simp)
      · unfold C at a; rw [hq] at a; simp at a
    · simpa using hj
  have hz : (fun j => if s.holds j = true then demOf p s j r else 0) = fun _ => (0 : Int) := by
    funext j; simp [this j]
  rw [hz]
  generalize s.next = n
  induction n with
  | zero => rfl
  | succ n ih => simp [sumTo, ih]

/-- A dry run never consumes a unit. -/
theorem dryrun_consumes_nothing (p : Prog) (s : S) (h : Reachable p s) (hd : p.dryrun = true) (j : JobId) :
    s.holds j = false := ((reachable_inv p s h).core.dry hd).2 j

/-- every executable run of the model is a reachable state -/
theorem run_reachable (p : Prog) (cs : List Choice) : Reachable p (run p cs) := by
  unfold run
  suffices ∀ s, Reachable p s → Reachable p (cs.foldl (runChoice p) s) from this init Reachable.init
  induction cs with
  | nil => intro s hs; exact hs
  | cons c cs ih =>
    intro s hs
    apply ih
    cases c with
    | pop =>
      unfold runChoice
      by_cases hc : (s.finished || s.queue.isEmpty) = true
      · simp only [hc, if_true]; exact hs
      · simp only [hc, Bool.false_eq_true, if_false]
        simp only [Bool.or_eq_true, not_or, Bool.not_eq_true, List.isEmpty_eq_false_iff] at hc
        exact Reachable.step hs (Step.pop s hc.1 hc.2)
    | complete j =>
      unfold runChoice
      by_cases hc : (s.finished || !s.inflight j) = true
      · simp only [hc, if_true]; exact hs
      · simp only [hc, Bool.false_eq_true, if_false]
        simp only [Bool.or_eq_true, not_or, Bool.not_eq_true, Bool.not_eq_true', Bool.not_eq_false] at hc
        exact Reachable.step hs (Step.complete s j hc.1 hc.2)

/-! non-vacuity: a limited parent with two limited children under limit 1; after the parent is done one
child is in flight holding the unit and the other waits -/
def demoProg : Prog :=
  { specs := [ { key := 0, ctx := 0, limits := [], scope := .backend, cseOk := true, prov := true, execOk := true,
                 fails := false, pre := .miss, children := [1, 2] },
               { key := 1, ctx := 0, limits := [(0, 1)], scope := .backend, cseOk := true, prov := true, execOk := true,
                 fails := false, pre := .miss, children := [] },
               { key := 2, ctx := 0, limits := [(0, 1)], scope := .backend, cseOk := true, prov := true, execOk := true,
                 fails := false, pre := .miss, children := [] } ],
    limit := fun _ => 1, dryrun := false }

def demoState : S := run demoProg [.pop, .complete 0, .pop, .pop, .pop]

example : demoState.inflight 1 = true ∧ demoState.pendingLimits = [2] ∧ demoState.used 0 = 1 := by decide
example : heldInflight demoProg demoState 0 ≤ 1 := never_exceeded demoProg demoState (run_reachable _ _) 0

end RedunModel.C08
