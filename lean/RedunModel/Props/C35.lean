/-
C35 — Configuration survives conversion to a dictionary and back.

Model: `RedunModel.Model.Config` (`getConfigDict` = `Config.get_config_dict` WITH the proposed repair: `$` in
an effective value is written `$$`, and the root of the nested walk is `None` instead of `""`; `readDict` =
`Config(config_dict=…)`; `loop`/`getItem` = `ExtendedInterpolation` as subclassed by redun; `beforeSetOk` =
`ExtendedInterpolation.before_set`).  Helper lemmas: `RedunModel.Lemmas.Config`.
-/
import RedunModel.Lemmas.ConfigTrie
namespace RedunModel.C35
open RedunModel.Config

/-- Interpolating an escaped text gives the text back — in every configuration, section, environment and at
every depth: an escaped value never looks anything up. -/
theorem interp_escape (cfg : Cfg) (d : Nat) (sect : Str) (map : Str → Option Str) (s : Str) :
    loop cfg d (escape s) sect map = .ok s := loop_escape cfg d sect map s

/-- `read_dict` accepts every escaped text (`before_set` finds no stray `$`). -/
theorem beforeSet_escape (s : Str) : beforeSetOk (escape s) = true := beforeSetOk_escape s

/-- Reading an escaped two-level dictionary (distinct section names other than `""`/`DEFAULT`, distinct option
names, names that nest) succeeds, and every section's effective items are exactly the dictionary's — in any
environment. -/
theorem readDict_escaped (D : List (Str × Opts)) (hg : GoodDict D) (t : List (Str × Node))
    (hparse : parseSections (D.map (·.1)) [] = .ok t) :
    readDict (escD D) = .ok ⟨[], escD D⟩ ∧
    ∀ (env : Opts), ∀ s ∈ D, sectionItems ⟨[], escD D⟩ env s.1 = .ok s.2 :=
  readDict_escaped_aux D hg t hparse

/-- **Round trip of effective values** (every configuration that converts at all, any values — `$`, references,
environment variables — any environment `env'` on the reading side): the re-read configuration has one section
per leaf of the nested sections, no DEFAULT section, and each section's effective items equal the original's.
`GoodPaths` (the dotted paths rebuilt by the walk are distinct, not `""`/`DEFAULT`, and nest again) holds for
distinct prefix-free section names. -/
theorem roundtrip_values (cfg : Cfg) (env env' : Opts) (localDir : Str) (trie : List (Str × Node))
    (D' : List (Str × Opts)) (hwf : CfgWF cfg)
    (hp : parseSections (cfg.sections.map (·.1)) [] = .ok trie)
    (hflat : GoodPaths (flattenKids none trie))
    (hd : getConfigDict cfg env localDir none = .ok D') :
    ∃ cfg', readDict D' = .ok cfg' ∧ cfg'.defaults = [] ∧
      cfg'.sections.map (·.1) = (flattenKids none trie).map (·.1) ∧
      ∀ pf ∈ flattenKids none trie, sectionItems cfg' env' pf.1 = sectionItems cfg env pf.2 :=
  getConfigDict_roundtrip cfg env env' localDir trie D' hwf hp hflat hd

/-- **Round trip, full strength**: for every configuration with distinct prefix-free section names (none `""` /
`DEFAULT`; `CfgWF` = option names unique per section, a dict invariant) whose options all interpolate in the
environment `env`: the conversion succeeds, the re-read configuration (read in ANY environment `env'`) has the
same sections (up to order), no DEFAULT section, and in every section exactly the original effective items —
whatever the values contain (`$`, references, environment variables, the config dir). -/
theorem roundtrip (cfg : Cfg) (env env' : Opts) (localDir : Str) (E : List (Str × Opts))
    (hwf : CfgWF cfg) (hpf : PrefixFree (cfg.sections.map (·.1))) (h1 : [] ∉ cfg.sections.map (·.1))
    (h2 : defaultSect ∉ cfg.sections.map (·.1)) (he : effective cfg env = .ok E) :
    ∃ D' cfg', getConfigDict cfg env localDir none = .ok D' ∧ readDict D' = .ok cfg' ∧ cfg'.defaults = [] ∧
      (cfg'.sections.map (·.1)).Perm (cfg.sections.map (·.1)) ∧
      ∀ n ∈ cfg.sections.map (·.1), sectionItems cfg' env' n = sectionItems cfg env n := by
  obtain ⟨D', hd⟩ := getConfigDict_ok cfg env localDir E hpf h1 h2 he
  obtain ⟨cfg', h⟩ := getConfigDict_roundtrip_names cfg env env' localDir D' hwf hpf h1 h2 hd
  exact ⟨D', cfg', hd, h⟩

/-- Same nesting: the nested sections built from a permutation of prefix-free names have the same leaf paths
(with `roundtrip`: the re-read configuration nests like the original). -/
theorem nesting_preserved (a b : List Str) (hp : a.Perm b) (hpf : PrefixFree b) :
    ∃ ta tb, parseSections a [] = .ok ta ∧ parseSections b [] = .ok tb ∧ (pathsKids ta).Perm (pathsKids tb) :=
  nesting_perm a b hp hpf

/-- The walk of `get_config_dict` over the nested sections rebuilds exactly the section names. -/
theorem walk_rebuilds_names (names : List Str) (hpf : PrefixFree names) (h1 : [] ∉ names) (h2 : defaultSect ∉ names) :
    ∃ trie, parseSections names [] = .ok trie ∧ GoodPaths (flattenKids none trie) ∧
      (flattenKids none trie).Perm (names.map fun n => (n, n)) := goodPaths_of_prefixFree names hpf h1 h2

/-- `replace_config_dir` only rewrites values that contain the local config dir. -/
theorem replace_only_containing (pat rep s : Str) (hp : pat ≠ []) (h : ¬ pat <:+: s) :
    replaceAll pat rep s = s := replaceAll_no_infix pat rep s hp h

/-- Without the escaping (the code before the repair) the F13 input is rejected when read back:
`pa$$word` has the effective value `pa$word`, which `read_dict` refuses. -/
theorem refuted_dollar_unescaped :
    (∀ cfg d sect map, loop cfg d "pa$$word".toList sect map = .ok "pa$word".toList) ∧
    readDict [(['a'], [(['x'], "pa$word".toList)])] = .error .valueError := by
  constructor
  · intro cfg d sect map
    exact loop_escape cfg d sect map "pa$word".toList
  · rfl

/-- non-vacuity of `roundtrip_values`' hypotheses and of `readDict_escaped`: a two-section dictionary with a `$` -/
example : readDict (escD [(['a', '.', 'b'], [(['x'], ['p', '$', 'w'])]), (['c'], [])]) =
    .ok ⟨[], [(['a', '.', 'b'], [(['x'], ['p', '$', '$', 'w'])]), (['c'], [])]⟩ := by
  have hg : GoodDict [(['a', '.', 'b'], [(['x'], ['p', '$', 'w'])]), (['c'], [])] :=
    ⟨by decide, by decide, by decide, by decide⟩
  exact (readDict_escaped _ hg _ rfl).1

/-- non-vacuity of `roundtrip`: `[a.b] x = p$$w` and `[a.c] y = ${a.b:x}` — prefix-free, every option interpolates -/
example : PrefixFree [['a', '.', 'b'], ['a', '.', 'c']] ∧ CfgWF ⟨[], [(['a', '.', 'b'], [(['x'], ['p', '$', '$', 'w'])]),
    (['a', '.', 'c'], [(['y'], "${a.b:x}".toList)])]⟩ := by
  constructor
  · simp [PrefixFree, splitOn, List.cons_prefix_cons]
  · constructor
    · simp
    · intro s hs; simp at hs; rcases hs with e | e <;> subst e <;> simp

example : effective ⟨[], [(['a', '.', 'b'], [(['x'], ['p', '$', '$', 'w'])]),
      (['a', '.', 'c'], [(['y'], ['$', '{', 'a', '.', 'b', ':', 'x', '}'])])]⟩ []
    = .ok [(['a', '.', 'b'], [(['x'], ['p', '$', 'w'])]), (['a', '.', 'c'], [(['y'], ['p', '$', 'w'])])] := by
  simp [effective, mapMExcept, sectionItems, sectionKeys, getItem, rawGet, sectionOpts, defaultSect, orElse, List.lookup,
    loop, takeRef, spanBrace, splitOn, resolve]

end RedunModel.C35
