/-
C03 — Shallow (ultimate-reduction) cache hits respect code changes in the subtree.

Model: `RedunModel.Model.Db` (`_get_call_node`, `record_call_node` statement by statement with its commit points,
`put_records`, the scheduler's `calc_subtree_tasks` / `_get_subtree_tasks` bookkeeping).  Hashes are symbolic.

Full-strength statement (`history_shallow_sound`): in every database state reachable by ANY history of recording
operations, process deaths at ANY commit point, restarts, cache hits and record imports, a shallow hit on call node
`n` implies that every call node reachable from `n` through recorded child edges has a task hash that is in the
current registry.  Jobs that record no provenance (prov=False, `no_prov`) are part of the histories
(`Hist.resolveNoProv`): they write nothing but hand their subtree set to their parent.  It is proved for every `Variant` with `cseSubtreeFromDb` and `emptyNotCurrent` — atomicity of
`record_call_node` is NOT needed: the two-commit code can leave a node with an EMPTY set behind, which is never served.  For `Variant.current` (the unrepaired tree) the statement is false: four closed witnesses
(`refuted_crash`, `refuted_retry`, `refuted_transfer`, `refuted_cse_twin`).
-/
import RedunModel.Lemmas.Db
namespace RedunModel.C03
open RedunModel.Db

theorem C03_hasNode_ext {db d : Db} {ns : List NodeRow} (hn : d.nodes = db.nodes ++ ns) {c : H}
    (h : hasNode db c = true) : hasNode d c = true := by
  simp only [hasNode, hn, List.any_append, Bool.or_eq_true]; exact Or.inl h

/-- referential closure of the call-graph tables + "a non-empty recorded subtree set is complete" -/
structure GraphInv (db : Db) : Prop where
  inv : SubtreeInv db
  edges : EdgesClosed db
  subs : SubClosed db

/-- `S` contains the task of every call node recorded at or beneath `c` -/
def Covers (db : Db) (c : H) (S : List H) : Prop :=
  ∀ d m, Reach db c d → m ∈ db.nodes → m.call = d → m.task ∈ S

theorem subtreeOf_append {db d : Db} {c : H} {S : List H}
    (hs : d.subtree = db.subtree ++ S.map (fun t => ⟨c, t⟩)) : subtreeOf d c = subtreeOf db c ++ S := by
  simp only [subtreeOf, hs, List.filter_append, List.map_append, List.filter_map, List.map_map]
  congr 1
  simp [Function.comp_def]

theorem graphInv_empty : GraphInv {} :=
  ⟨fun c _ _ h => by simp [subtreeOf] at h, fun e h => by simp at h, fun r h => by simp at h⟩

/-- **Soundness of the shallow lookup** on any database satisfying the invariant: a hit on `n` means every task
recorded at or beneath `n` is in the registry (i.e. has an unchanged code hash). -/
theorem shallow_sound (v : Variant) (db : Db) (t a : H) (reg : List H) (n : NodeRow)
    (hinv : SubtreeInv db) (hne : v.emptyNotCurrent = true ∨ ∀ n ∈ db.nodes, subtreeOf db n.call ≠ [])
    (h : getCallNode v db t a reg = some n) : Covers db n.call reg := by
  obtain ⟨hn, _, _, hcur⟩ := getCallNode_spec h
  intro d m hr hm hmd
  simp only [nodeCurrent, Bool.and_eq_true, Bool.or_eq_true, Bool.not_eq_true', List.all_eq_true] at hcur
  have hnonempty : subtreeOf db n.call ≠ [] := by
    rcases hne with he | hc
    · rcases hcur.1 with h1 | h1
      · simp [he] at h1
      · intro h2; simp [h2] at h1
    · exact hc n hn
  have := hcur.2 _ (hinv n.call d m hnonempty hr hm hmd)
  simpa using this

/-- and the hit itself is on the requested task / arguments -/
theorem shallow_hit_matches (v : Variant) (db : Db) (t a : H) (reg : List H) (n : NodeRow)
    (h : getCallNode v db t a reg = some n) : n ∈ db.nodes ∧ n.task = t ∧ n.args = a :=
  ⟨(getCallNode_spec h).1, (getCallNode_spec h).2.1, (getCallNode_spec h).2.2.1⟩

/-! ### one `record_call_node`, interrupted anywhere -/

theorem graphInv_of_snap {v : Variant} {a : CallArgs} {db0 d : Db} (hI : GraphInv db0)
    (hown : a.node.task ∈ a.subtree) (hacyc : a.node.call ∉ a.children)
    (hch : ∀ ch ∈ a.children, hasNode db0 ch = true → Covers db0 ch a.subtree)
    (hself : hasNode db0 a.node.call = true → Covers db0 a.node.call a.subtree)
    (h : CallNodeSnap v a db0 d) : GraphInv d := by
  rcases h with h | h | h
  · have hg := G_eq h
    have := inv_frame hg.1 hg.2.1 hg.2.2
    exact ⟨this.1 hI.inv, this.2.1 hI.edges, this.2.2 hI.subs⟩
  · obtain ⟨hnew, hn, he, hs⟩ := h
    have hes : ∀ e ∈ edgeRows (applyOp db0 (.node a.node)) a.node.call a.children,
        e.parent = a.node.call ∧ hasNode db0 e.child = true := by
      intro e hmem
      have := mem_edgeRows hmem
      refine ⟨this.1, ?_⟩
      have h3 := this.2.2
      simp only [hasNode, applyOp, List.any_append, List.any_cons, List.any_nil, Bool.or_false, Bool.or_eq_true,
        beq_iff_eq] at h3
      rcases h3 with h3 | h3
      · exact h3
      · exact absurd (h3 ▸ this.2.1) hacyc
    have := inv_record hn he hs hnew hes hI.edges hI.subs hI.inv hown
      (fun e hmem d m hr hm hmd => hch e.child (mem_edgeRows hmem).2.1 (hes e hmem).2 d m hr hm hmd)
    exact ⟨this.1, this.2.1, this.2.2⟩
  · obtain ⟨_, hnode, hempty, hn, he, hs⟩ := h
    have := inv_heal hn he hs hnode hempty hI.edges hI.subs hI.inv (hself hnode)
    exact ⟨this.1, this.2.1, this.2.2⟩

theorem snap_of_final {v : Variant} {a : CallArgs} {db0 d : Db} (h : CallNodeFinal v a db0 d) :
    CallNodeSnap v a db0 d := by
  obtain ⟨h1, h2, h3⟩ := h
  cases hn : hasNode db0 a.node.call with
  | false => exact Or.inr (Or.inl ⟨hn, h1 hn⟩)
  | true =>
    by_cases hh : v.healSubtree = true ∧ subtreeOf db0 a.node.call = []
    · exact Or.inr (Or.inr ⟨hh.1, hn, hh.2, h2 hn hh⟩)
    · exact Or.inl (by rw [h3 hn hh])

/-- the unrepaired code's intermediate state (node and edges durable, subtree rows not yet): the node has an EMPTY
recorded set, so the invariant holds vacuously for it -/
theorem graphInv_of_bare {a : CallArgs} {db0 d : Db} (hI : GraphInv db0) (hacyc : a.node.call ∉ a.children)
    (h : CallNodeBare a db0 d) : GraphInv d := by
  obtain ⟨hnew, hn, he, hs⟩ := h
  have hes : ∀ e ∈ edgeRows (applyOp db0 (.node a.node)) a.node.call a.children,
      e.parent = a.node.call ∧ hasNode db0 e.child = true := by
    intro e hmem
    have := mem_edgeRows hmem
    refine ⟨this.1, ?_⟩
    have h3 := this.2.2
    simp only [hasNode, applyOp, List.any_append, List.any_cons, List.any_nil, Bool.or_false, Bool.or_eq_true,
      beq_iff_eq] at h3
    rcases h3 with h3 | h3
    · exact h3
    · exact absurd (h3 ▸ this.2.1) hacyc
  have himp := inv_import (ns := [a.node]) hn he hs (by simpa using hnew)
    (fun e hm => by rw [(hes e hm).1]; exact hnew) hI.edges hI.subs hI.inv
  have hnode' : ∀ c, hasNode db0 c = true → hasNode d c = true := fun c hc => C03_hasNode_ext hn hc
  refine ⟨himp.1, ?_, himp.2⟩
  intro e hmem
  rw [he, List.mem_append] at hmem
  rcases hmem with hold | hnw
  · exact ⟨hnode' _ (hI.edges e hold).1, hnode' _ (hI.edges e hold).2⟩
  · refine ⟨?_, hnode' _ (hes e hnw).2⟩
    rw [(hes e hnw).1]; simp [hasNode, hn]

/-- **Crash safety of `record_call_node`, repaired or not**: whatever commit the process dies at, the durable state
satisfies the invariant — the new call node is absent, or present with its complete subtree set, or (unrepaired
two-commit code only) present with an EMPTY set, which the repaired `_get_call_node` never serves. -/
theorem record_crash_safe (v : Variant) (a : CallArgs) (s : Sess)
    (hp : s.pend = []) (hI : GraphInv s.db)
    (hown : a.node.task ∈ a.subtree) (hacyc : a.node.call ∉ a.children)
    (hch : ∀ ch ∈ a.children, hasNode s.db ch = true → Covers s.db ch a.subtree)
    (hself : hasNode s.db a.node.call = true → Covers s.db a.node.call a.subtree) :
    (∀ snap ∈ (recordCallNode v a s).log, snap ∈ s.log ∨ GraphInv snap.db) ∧
    GraphInv (recordCallNode v a s).db := by
  have h := recordCallNode_shapes v a s hp
  refine ⟨fun snap hmem => ?_, graphInv_of_snap hI hown hacyc hch hself (snap_of_final h.2.2)⟩
  rcases h.2.1 snap hmem with h' | h' | h'
  · exact Or.inl h'
  · exact Or.inr (graphInv_of_snap hI hown hacyc hch hself h')
  · exact Or.inr (graphInv_of_bare hI hacyc h')

/-! ### the scheduler's bookkeeping -/

/-- what the parent may assume about a finished child job: IF its call hash names a recorded call node (a job that
records no provenance has a call hash but no node), its set covers everything recorded at or beneath that node -/
def GoodRes (db : Db) (r : JobRes) : Prop :=
  ∀ c, r.call = some c → hasNode db c = true → Covers db c r.sub

/-- collision freedom of `hash_call_node`, as far as it is needed: an already recorded node with this call hash
has this task and only child edges to this job's children -/
def MerkleOK (db : Db) (c task : H) (children : List H) : Prop :=
  (∀ m ∈ db.nodes, m.call = c → m.task = task) ∧ (∀ e ∈ db.edges, e.parent = c → e.child ∈ children)

theorem mem_execSubtree {task : H} {children : List JobRes} {r : JobRes} {t : H} (hr : r ∈ children)
    (hc : r.call.isSome = true) (ht : t ∈ r.sub) : t ∈ execSubtree task children := by
  simp only [execSubtree, List.mem_cons, List.mem_flatMap]
  exact Or.inr ⟨r, hr, by simp [hc, ht]⟩

/-- `calc_subtree_tasks` covers every recorded child -/
theorem exec_covers_children (db : Db) (task : H) (children : List JobRes) (hgood : ∀ r ∈ children, GoodRes db r) :
    ∀ ch ∈ children.filterMap (·.call), hasNode db ch = true → Covers db ch (execSubtree task children) := by
  intro ch hmem hnd d m hr hm hmd
  simp only [List.mem_filterMap] at hmem
  obtain ⟨r, hrmem, hrc⟩ := hmem
  exact mem_execSubtree hrmem (by simp [hrc]) (hgood r hrmem ch hrc hnd d m hr hm hmd)

/-- ... and, if the node is already recorded, the node itself (needs `MerkleOK`) -/
theorem exec_covers_self (db : Db) (c task : H) (children : List JobRes) (hgood : ∀ r ∈ children, GoodRes db r)
    (hec : EdgesClosed db)
    (hm : MerkleOK db c task (children.filterMap (·.call))) : Covers db c (execSubtree task children) := by
  intro d m hr hmn hmd
  cases hr with
  | refl _ => rw [hm.1 m hmn hmd]; simp [execSubtree]
  | step e he hp hc hr' =>
    have := hm.2 e he hp
    exact exec_covers_children db task children hgood e.child this (hec e he).2 d m (hc ▸ hr') hmn hmd

/-- extensions that add new nodes and edges leaving new nodes keep what is known about old nodes -/
theorem covers_ext {db d : Db} {ns : List NodeRow} {es : List EdgeRow} {c : H} {S : List H}
    (hn : d.nodes = db.nodes ++ ns) (he : d.edges = db.edges ++ es)
    (hnew : ∀ n ∈ ns, hasNode db n.call = false) (hes : ∀ e ∈ es, hasNode db e.parent = false)
    (hec : EdgesClosed db) (hc : hasNode db c = true) (h : Covers db c S) : Covers d c S := by
  intro x m hr hm hmx
  have hro := reach_old he hes hec hc hr
  rw [hn, List.mem_append] at hm
  rcases hm with hm | hm
  · exact h x m hro.1 hm hmx
  · have := hnew m hm; rw [hmx, hro.2] at this; cases this

theorem hasNode_ext {db d : Db} {ns : List NodeRow} (hn : d.nodes = db.nodes ++ ns) {c : H}
    (h : hasNode db c = true) : hasNode d c = true := by
  simp only [hasNode, hn, List.any_append, Bool.or_eq_true]; exact Or.inl h

theorem goodRes_ext {db d : Db} {ns : List NodeRow} {es : List EdgeRow} {r : JobRes}
    (hn : d.nodes = db.nodes ++ ns) (he : d.edges = db.edges ++ es)
    (hnew : ∀ n ∈ ns, hasNode db n.call = false) (hes : ∀ e ∈ es, hasNode db e.parent = false)
    (hec : EdgesClosed db) (hfresh : ∀ n ∈ ns, r.call ≠ some n.call) (h : GoodRes db r) : GoodRes d r := by
  intro c hc hnd
  have hold : hasNode db c = true := by
    simp only [hasNode, hn, List.any_append, Bool.or_eq_true, List.any_eq_true, beq_iff_eq] at hnd
    rcases hnd with h1 | ⟨n, hmem, hcn⟩
    · simpa [hasNode] using h1
    · exact absurd (hcn ▸ hc) (hfresh n hmem)
  exact covers_ext hn he hnew hes hec hold (h c hc hold)

theorem goodRes_of_snap {v : Variant} {a : CallArgs} {db0 d : Db} {r : JobRes} (hI : GraphInv db0)
    (_hacyc : a.node.call ∉ a.children) (hfr : hasNode db0 a.node.call = false → r.call ≠ some a.node.call)
    (h : CallNodeSnap v a db0 d) (hg : GoodRes db0 r) : GoodRes d r := by
  rcases h with h | h | h
  · have hg' := G_eq h
    exact goodRes_ext (ns := []) (es := []) (by simp [hg'.1]) (by simp [hg'.2.1]) (by simp) (by simp) hI.edges
      (by simp) hg
  · obtain ⟨hnew, hn, he, _⟩ := h
    refine goodRes_ext hn he (by simpa using hnew) ?_ hI.edges (by simpa using hfr hnew) hg
    intro e hmem
    rw [(mem_edgeRows hmem).1]; exact hnew
  · obtain ⟨_, _, _, hn, he, _⟩ := h
    exact goodRes_ext (ns := []) (es := []) (by simp [hn]) (by simp [he]) (by simp) (by simp) hI.edges (by simp) hg

theorem goodRes_of_bare {a : CallArgs} {db0 d : Db} {r : JobRes} (hI : GraphInv db0)
    (hfr : hasNode db0 a.node.call = false → r.call ≠ some a.node.call)
    (h : CallNodeBare a db0 d) (hg : GoodRes db0 r) : GoodRes d r := by
  obtain ⟨hnew, hn, he, _⟩ := h
  refine goodRes_ext hn he (by simpa using hnew) ?_ hI.edges (by simpa using hfr hnew) hg
  intro e hmem
  rw [(mem_edgeRows hmem).1]; exact hnew

/-! ### histories -/

/-- the durable states an operation can leave behind: its final state or any crash point -/
def crashStates (s' : Sess) : List Db := s'.log.map (·.db)

/-- Histories of one repository: any interleaving of recording operations of (possibly many) scheduler
processes, process deaths at any commit, restarts, cache hits and imports.  `res` are the finished jobs the
running scheduler process remembers (`Job.subtree_tasks`, `Job.call_hash`). -/
inductive Hist (v : Variant) : Db → List JobRes → Prop
  | init : Hist v {} []
  /-- the scheduler process ends (normally or not); a new one starts with no jobs -/
  | restart {db res} : Hist v db res → Hist v db []
  | value {db res} (r : ValueSpec) (d : Db) : Hist v db res →
      (d = (recordValue v r (.ofDb db)).db ∨ d ∈ crashStates (recordValue v r (.ofDb db))) → Hist v d res
  | evalCache {db res} (e : EvalRow) (val : ValueSpec) (d : Db) : Hist v db res →
      (d = (setEvalCache v e val (.ofDb db)).db ∨ d ∈ crashStates (setEvalCache v e val (.ofDb db))) → Hist v d res
  | jobStart {db res} (j : JobRow) (root : Bool) (execs : List H) (s' : Sess) (d : Db) : Hist v db res →
      recordJobStart v j root { db := db, pendingExecs := execs } = .ok s' →
      (d = s'.db ∨ d ∈ crashStates s') → Hist v d res
  | jobEnd {db res} (id : H) (call : Option H) (cached : Bool) (d : Db) : Hist v db res →
      (d = (recordJobEnd id call cached (.ofDb db)).db ∨ d ∈ crashStates (recordJobEnd id call cached (.ofDb db))) →
      Hist v d res
  /-- a job that was evaluated resolves: `calc_subtree_tasks` over finished children, then `record_call_node` -/
  | resolve {db res} (node : NodeRow) (children : List JobRes) (args : List ArgSpec) : Hist v db res →
      (∀ r ∈ children, r ∈ res) →
      node.call ∉ children.filterMap (·.call) →
      (hasNode db node.call = true → MerkleOK db node.call node.task (children.filterMap (·.call))) →
      -- a call hash this process already handed to a parent (by a job that records no provenance) is not recorded
      -- as a NEW node afterwards
      (hasNode db node.call = false → ∀ r ∈ res, r.call ≠ some node.call) →
      Hist v (recordCallNode v ⟨node, children.filterMap (·.call), args, execSubtree node.task children⟩ (.ofDb db)).db
        (res ++ [⟨some node.call, execSubtree node.task children⟩])
  /-- a job that records NO provenance (prov=False, `no_prov`) resolves: nothing is written, but it has a call
  hash and hands `calc_subtree_tasks` over its finished children to its parent like any other job -/
  | resolveNoProv {db res} (task c : H) (children : List JobRes) : Hist v db res →
      (∀ r ∈ children, r ∈ res) →
      (hasNode db c = true → MerkleOK db c task (children.filterMap (·.call))) →
      Hist v db (res ++ [⟨some c, execSubtree task children⟩])
  /-- ... or the process dies at one of its commits -/
  | resolveCrash {db res} (node : NodeRow) (children : List JobRes) (args : List ArgSpec) (d : Db) : Hist v db res →
      (∀ r ∈ children, r ∈ res) →
      node.call ∉ children.filterMap (·.call) →
      (hasNode db node.call = true → MerkleOK db node.call node.task (children.filterMap (·.call))) →
      d ∈ crashStates (recordCallNode v ⟨node, children.filterMap (·.call), args, execSubtree node.task children⟩ (.ofDb db)) →
      Hist v d []
  /-- a job served by an ultimate-reduction hit (registry `reg` = the code as it is now) -/
  | ultimateHit {db res} (reg : List H) (task args : H) (n : NodeRow) : Hist v db res →
      getCallNode v db task args reg = some n →
      Hist v db (res ++ [⟨some n.call, cachedSubtree v db reg task true n.call⟩])
  /-- a job served by CSE from a call node recorded by this execution (its tasks are registered) -/
  | cseHit {db res} (reg : List H) (task : H) (shallow : Bool) (c : H) : Hist v db res →
      hasNode db c = true → subtreeOf db c ≠ [] → (∀ t ∈ subtreeOf db c, t ∈ reg) →
      Hist v db (res ++ [⟨some c, cachedSubtree v db reg task shallow c⟩])
  /-- push / pull / import of a child-closed set of records -/
  | imp {db res} (rs : List Rec) : Hist v db res → EdgesClosed (putRecords rs (.ofDb db)).db →
      Hist v (putRecords rs (.ofDb db)).db []

theorem frame_step {db d : Db} {res : List JobRes} {s' : Sess} (hI : GraphInv db ∧ ∀ r ∈ res, GoodRes db r)
    (hg : G s'.view = G db) (hlog : ∀ snap ∈ s'.log, snap ∈ ([] : List Snap) ∨ G snap.db = G db) (hp : s'.pend = [])
    (hd : d = s'.db ∨ d ∈ crashStates s') : GraphInv d ∧ ∀ r ∈ res, GoodRes d r := by
  have hgd : G d = G db := by
    rcases hd with hd | hd
    · rw [hd, ← view_of_pend_nil s' hp]; exact hg
    · simp only [crashStates, List.mem_map] at hd
      obtain ⟨snap, hs, rfl⟩ := hd
      rcases hlog snap hs with h | h
      · cases h
      · exact h
  have hg' := G_eq hgd
  have := inv_frame hg'.1 hg'.2.1 hg'.2.2
  refine ⟨⟨this.1 hI.1.inv, this.2.1 hI.1.edges, this.2.2 hI.1.subs⟩, fun r hr => ?_⟩
  exact goodRes_ext (ns := []) (es := []) (by simp [hg'.1]) (by simp [hg'.2.1]) (by simp) (by simp) hI.1.edges
    (by simp) (hI.2 r hr)

theorem cached_good {v : Variant} {db : Db} {reg : List H} {task c : H} {shallow : Bool}
    (hv : v.cseSubtreeFromDb = true) (hI : GraphInv db) (_hn : hasNode db c = true) (hne : subtreeOf db c ≠ [])
    (hreg : ∀ t ∈ subtreeOf db c, t ∈ reg) : GoodRes db ⟨some c, cachedSubtree v db reg task shallow c⟩ := by
  intro c' hc' _ d m hr hm hmd
  simp only [Option.some.injEq] at hc'
  subst hc'
  have := hI.inv c d m hne hr hm hmd
  simp only [cachedSubtree, hv, if_true, List.mem_cons, List.mem_filter]
  exact Or.inr ⟨this, by simpa using hreg _ this⟩

/-- **Invariant of all histories** of the repaired recording code. -/
theorem hist_inv (v : Variant) (hc : v.cseSubtreeFromDb = true)
    (he : v.emptyNotCurrent = true) {db : Db} {res : List JobRes} (h : Hist v db res) :
    GraphInv db ∧ ∀ r ∈ res, GoodRes db r := by
  induction h with
  | init => exact ⟨graphInv_empty, fun r h => by cases h⟩
  | restart _ ih => exact ⟨ih.1, fun r h => by cases h⟩
  | @value db res r d _ hd ih =>
    have h := recordValue_graph v r (.ofDb db)
    exact frame_step ih h.1 (fun snap hs => h.2.1 snap hs) (h.2.2 rfl) hd
  | @evalCache db res e val d _ hd ih =>
    have h := setEvalCache_graph v e val (.ofDb db)
    exact frame_step ih h.1 (fun snap hs => h.2.1 snap hs) (h.2.2 rfl) hd
  | @jobStart db res j root execs s' d _ hok hd ih =>
    have h := recordJobStart_graph v j root { db := db, pendingExecs := execs } s' hok
    exact frame_step ih h.1 (fun snap hs => h.2.1 snap hs) h.2.2 hd
  | @jobEnd db res id call cached d _ hd ih =>
    have h := recordJobEnd_graph id call cached (.ofDb db)
    exact frame_step ih h.1 (fun snap hs => h.2.1 snap hs) h.2.2 hd
  | @resolve db res node children args _ hch hacyc hmerkle hfresh ih =>
    have hgood : ∀ r ∈ children, GoodRes db r := fun r hr => ih.2 r (hch r hr)
    have hat := recordCallNode_shapes v ⟨node, children.filterMap (·.call), args, execSubtree node.task children⟩
      (.ofDb db) rfl
    have hsnap := snap_of_final hat.2.2
    have hown : node.task ∈ execSubtree node.task children := by simp [execSubtree]
    have hI' := graphInv_of_snap (a := ⟨node, children.filterMap (·.call), args, execSubtree node.task children⟩)
      ih.1 hown hacyc
      (fun ch hmem hnd => exec_covers_children db node.task children hgood ch hmem hnd)
      (fun hn => exec_covers_self db node.call node.task children hgood ih.1.edges (hmerkle hn)) hsnap
    refine ⟨hI', fun r hr => ?_⟩
    rw [List.mem_append, List.mem_singleton] at hr
    rcases hr with hr | hr
    · exact goodRes_of_snap ih.1 hacyc (fun hn => hfresh hn r hr) hsnap (ih.2 r hr)
    · subst hr
      intro c hcc _
      simp only [Option.some.injEq] at hcc
      subst hcc
      -- the node exists afterwards, and the set just computed covers it
      obtain ⟨h1, h2, h3⟩ := hat.2.2
      cases hn : hasNode db node.call with
      | false =>
        have hs := h1 hn
        have hnode' : hasNode (recordCallNode v ⟨node, children.filterMap (·.call), args, execSubtree node.task children⟩ (.ofDb db)).db node.call = true := by
          simp [hasNode, hs.1]
        intro d m hr hm hmd
        have hrows : subtreeOf (recordCallNode v ⟨node, children.filterMap (·.call), args, execSubtree node.task children⟩ (.ofDb db)).db node.call
            = execSubtree node.task children := by
          have h0 : subtreeOf db node.call = [] := subtreeOf_nil_of_not_node ih.1.subs hn
          rw [subtreeOf_append (db := db) (c := node.call) hs.2.2, h0]; rfl
        have := hI'.inv node.call d m (by rw [hrows]; simp [execSubtree]) hr hm hmd
        rw [hrows] at this; exact this
      | true =>
        have hcov := exec_covers_self db node.call node.task children hgood ih.1.edges (hmerkle hn)
        have hg : GoodRes db ⟨some node.call, execSubtree node.task children⟩ := by
          intro c hcc _; simp only [Option.some.injEq] at hcc; subst hcc; exact hcov
        exact goodRes_of_snap ih.1 hacyc (fun h0 => by rw [hn] at h0; cases h0) hsnap hg node.call rfl
          (by rename_i hx; exact hx)
  | @resolveCrash db res node children args d _ hch hacyc hmerkle hd ih =>
    have hgood : ∀ r ∈ children, GoodRes db r := fun r hr => ih.2 r (hch r hr)
    have hat := recordCallNode_shapes v ⟨node, children.filterMap (·.call), args, execSubtree node.task children⟩
      (.ofDb db) rfl
    simp only [crashStates, List.mem_map] at hd
    obtain ⟨snap, hs, rfl⟩ := hd
    have hown : node.task ∈ execSubtree node.task children := by simp [execSubtree]
    rcases hat.2.1 snap hs with h | h | h
    · cases h
    rotate_left
    · exact ⟨graphInv_of_bare (a := ⟨node, children.filterMap (·.call), args, execSubtree node.task children⟩)
        ih.1 hacyc h, fun r hr => by cases hr⟩
    · exact ⟨graphInv_of_snap (a := ⟨node, children.filterMap (·.call), args, execSubtree node.task children⟩)
        ih.1 hown hacyc
        (fun ch hmem hnd => exec_covers_children db node.task children hgood ch hmem hnd)
        (fun hn => exec_covers_self db node.call node.task children hgood ih.1.edges (hmerkle hn)) h, fun r hr => by cases hr⟩
  | @resolveNoProv db res task c children _ hch hmerkle ih =>
    have hgood : ∀ r ∈ children, GoodRes db r := fun r hr => ih.2 r (hch r hr)
    refine ⟨ih.1, fun r hr => ?_⟩
    rw [List.mem_append, List.mem_singleton] at hr
    rcases hr with hr | hr
    · exact ih.2 r hr
    · subst hr
      intro c' hcc hnd
      simp only [Option.some.injEq] at hcc
      subst hcc
      exact exec_covers_self db c task children hgood ih.1.edges (hmerkle hnd)
  | @ultimateHit db res reg task args n _ hhit ih =>
    refine ⟨ih.1, fun r hr => ?_⟩
    rw [List.mem_append, List.mem_singleton] at hr
    rcases hr with hr | hr
    · exact ih.2 r hr
    · subst hr
      obtain ⟨hn, _, _, hcur⟩ := getCallNode_spec hhit
      simp only [nodeCurrent, Bool.and_eq_true, Bool.or_eq_true, Bool.not_eq_true', List.all_eq_true] at hcur
      have hne : subtreeOf db n.call ≠ [] := by
        rcases hcur.1 with h1 | h1
        · simp [he] at h1
        · intro h2; simp [h2] at h1
      exact cached_good hc ih.1 (hasNode_iff.mpr ⟨n, hn, rfl⟩) hne (fun t ht => by simpa using hcur.2 t ht)
  | @cseHit db res reg task shallow c _ hn hne hreg ih =>
    refine ⟨ih.1, fun r hr => ?_⟩
    rw [List.mem_append, List.mem_singleton] at hr
    rcases hr with hr | hr
    · exact ih.2 r hr
    · subst hr; exact cached_good hc ih.1 hn hne hreg
  | @imp db res rs _ hclosed ih =>
    obtain ⟨ns, es, hn, hee, hs, hnew, hes, _, _⟩ := putRecords_graph rs (.ofDb db) rfl
    have := inv_import hn hee hs hnew hes ih.1.edges ih.1.subs ih.1.inv
    exact ⟨⟨this.1, hclosed, this.2⟩, fun r hr => by cases hr⟩

/-- **C03, full strength, for the repaired code**: after ANY history (runs, edits — the registry is arbitrary —,
process deaths at any commit, restarts, retries seen as death + re-run, record imports), a shallow hit implies
that every task recorded at or beneath the hit call node is in the current registry. -/
theorem history_shallow_sound (v : Variant) (hc : v.cseSubtreeFromDb = true)
    (he : v.emptyNotCurrent = true) {db : Db} {res : List JobRes} (h : Hist v db res)
    (t a : H) (reg : List H) (n : NodeRow) (hit : getCallNode v db t a reg = some n) :
    Covers db n.call reg :=
  shallow_sound v db t a reg n (hist_inv v hc he h).1.inv (Or.inl he) hit

/-- instance: `Variant.repaired` -/
theorem history_shallow_sound_repaired {db : Db} {res : List JobRes} (h : Hist Variant.repaired db res)
    (t a : H) (reg : List H) (n : NodeRow) (hit : getCallNode Variant.repaired db t a reg = some n) :
    Covers db n.call reg :=
  history_shallow_sound Variant.repaired rfl rfl h t a reg n hit

/-- instance: the tree with the proposed small fixes (two-commit `record_call_node` kept) -/
theorem history_shallow_sound_proposed {db : Db} {res : List JobRes} (h : Hist Variant.proposed db res)
    (t a : H) (reg : List H) (n : NodeRow) (hit : getCallNode Variant.proposed db t a reg = some n) :
    Covers db n.call reg :=
  history_shallow_sound Variant.proposed rfl rfl h t a reg n hit

/-- Uninterrupted, import-free part that also holds for the CURRENT code (`_partial`): a single complete
`record_call_node` of a new node whose `subtree_tasks` cover its recorded children keeps the invariant.
Missing for the full statement on the current code: crash points / retries inside `record_call_node`,
imports, CSE-collapsed children (see the four `refuted_*` witnesses). -/
theorem record_complete_partial (a : CallArgs) (db d : Db) (hI : GraphInv db)
    (hshape : hasNode db a.node.call = false ∧ d.nodes = db.nodes ++ [a.node] ∧
      d.edges = db.edges ++ edgeRows (applyOp db (.node a.node)) a.node.call a.children ∧
      d.subtree = db.subtree ++ a.subtree.map (fun t => ⟨a.node.call, t⟩))
    (hown : a.node.task ∈ a.subtree) (hacyc : a.node.call ∉ a.children)
    (hch : ∀ ch ∈ a.children, hasNode db ch = true → Covers db ch a.subtree) : GraphInv d :=
  graphInv_of_snap (v := Variant.current) hI hown hacyc hch (fun h => by rw [hshape.1] at h; cases h)
    (Or.inr (Or.inl hshape))

/-! ### closed witnesses on the CURRENT code -/

/-- task hashes: A = 10 (shallow parent), g = 11 (child), g edited = 12; values 1 (argument), 100 (result) -/
def db0 : Db :=
  { values := [⟨10, .task⟩, ⟨11, .task⟩, ⟨1, .plain⟩, ⟨100, .plain⟩], tasks := [10, 11],
    nodes := [⟨20, 11, 1, 100, 0⟩], subtree := [⟨20, 11⟩] }

def callA : CallArgs := ⟨⟨21, 10, 1, 100, 1⟩, [20], [⟨0, ⟨⟨1, .plain⟩, []⟩, []⟩], [10, 11]⟩

/-- the child `g` was edited: its old hash 11 is no longer registered -/
def regEdited : List H := [10, 12]

/-- what the full-strength statement forbids: a hit although a task beneath the node is not registered -/
def StaleHit (v : Variant) (db : Db) (task args : H) (reg : List H) : Prop :=
  ∃ n, getCallNode v db task args reg = some n ∧ ∃ m ∈ db.nodes, Reach db n.call m.call ∧ m.task ∉ reg

theorem reach_edge {db : Db} {a b : H} (e : EdgeRow) (he : e ∈ db.edges) (hp : e.parent = a) (hc : e.child = b) :
    Reach db a b := Reach.step e he hp hc (Reach.refl b)

/-- `record_call_node` (current code) commits the CallNode before its subtree rows: dying between the two
commits leaves a node with an empty set, which is "current" for every registry. -/
theorem refuted_crash :
    newCommits (.ofDb db0) (recordCallNode .current callA (.ofDb db0)) = 2 ∧
    StaleHit .current (crashDb (.ofDb db0) (recordCallNode .current callA (.ofDb db0)) 1) 10 1 regEdited := by
  refine ⟨by decide, ⟨21, 10, 1, 100, 1⟩, by decide, ⟨20, 11, 1, 100, 0⟩, by decide, ?_, by decide⟩
  exact reach_edge ⟨21, 20, 0⟩ (by decide) rfl rfl

/-- a transient error at the second commit: `db_retry` rolls back and re-runs, the re-run returns early because
the CallNode exists, the subtree rows are never written. -/
theorem refuted_retry :
    StaleHit .current
      (recordCallNode .current callA (retryState (.ofDb db0) (recordCallNode .current callA (.ofDb db0)) 1)).db
      10 1 regEdited := by
  refine ⟨⟨21, 10, 1, 100, 1⟩, by decide, ⟨20, 11, 1, 100, 0⟩, by decide, ?_, by decide⟩
  exact reach_edge ⟨21, 20, 0⟩ (by decide) rfl rfl

/-- the source repository after the complete recording -/
def dbSrc : Db := (recordCallNode .current callA (.ofDb db0)).db

/-- `CallNodeSerializer` carries no subtree rows: after push/pull/import the destination serves the stale hit
that the source refuses. -/
theorem refuted_transfer :
    getCallNode .current dbSrc 10 1 regEdited = none ∧
    StaleHit .current (transfer dbSrc [21] (.ofDb {})).db 10 1 regEdited := by
  refine ⟨by decide, ⟨21, 10, 1, 100, 1⟩, by decide, ⟨20, 11, 1, 100, 0⟩, by decide, ?_, by decide⟩
  exact reach_edge ⟨21, 20, 0⟩ (by decide) rfl rfl

/-- CSE twin (no interruption, no transfer): `B` (task 13, shallow) calls `f` (task 14), which was already run in
this execution under another parent (call node 22 with child `g` = node 20).  The CSE-served job contributes only
`{f}`; `B`'s recorded set `{B, f}` misses `g`. -/
def dbTwin : Db :=
  { values := [⟨11, .task⟩, ⟨13, .task⟩, ⟨14, .task⟩, ⟨1, .plain⟩, ⟨100, .plain⟩], tasks := [11, 13, 14],
    nodes := [⟨20, 11, 1, 100, 0⟩, ⟨22, 14, 1, 100, 1⟩], edges := [⟨22, 20, 0⟩],
    subtree := [⟨20, 11⟩, ⟨22, 14⟩, ⟨22, 11⟩] }

def twinRes : JobRes := ⟨some 22, cachedSubtree .current dbTwin [11, 13, 14] 14 false 22⟩

def callB : CallArgs := ⟨⟨23, 13, 1, 100, 2⟩, [22], [⟨0, ⟨⟨1, .plain⟩, []⟩, []⟩], execSubtree 13 [twinRes]⟩

theorem refuted_cse_twin :
    twinRes.sub = [14] ∧
    StaleHit .current (recordCallNode .current callB (.ofDb dbTwin)).db 13 1 [13, 14, 12] := by
  refine ⟨by decide, ⟨23, 13, 1, 100, 2⟩, by decide, ⟨20, 11, 1, 100, 0⟩, by decide, ?_, by decide⟩
  exact Reach.step ⟨23, 22, 0⟩ (by decide) rfl rfl (reach_edge ⟨22, 20, 0⟩ (by decide) rfl rfl)

/-! ### non-vacuity: the same scenarios on the repaired code -/

/-- the repaired code reaches `dbSrc`-like states through `Hist`, and there the edited registry misses -/
example : Hist .repaired (recordCallNode .repaired ⟨⟨21, 10, 1, 100, 1⟩, [], [⟨0, ⟨⟨1, .plain⟩, []⟩, []⟩], execSubtree 10 []⟩ (.ofDb {})).db
    ([] ++ [⟨some 21, execSubtree 10 []⟩]) :=
  Hist.resolve ⟨21, 10, 1, 100, 1⟩ [] [⟨0, ⟨⟨1, .plain⟩, []⟩, []⟩] Hist.init (by simp) (by simp) (by intro h; cases h) (by simp)

example : ∀ snap ∈ (recordCallNode .repaired callA (.ofDb db0)).log, getCallNode .repaired snap.db 10 1 regEdited = none := by
  decide

example : getCallNode .repaired (transfer (recordCallNode .repaired callA (.ofDb db0)).db [21] (.ofDb {})).db 10 1 regEdited = none := by
  decide

example : getCallNode .repaired (recordCallNode .repaired callA (.ofDb db0)).db 10 1 [10, 11] = some ⟨21, 10, 1, 100, 1⟩ := by
  decide

/-- the two-commit code with the proposed fixes: no crash point of the recording serves the edited registry -/
example : ∀ snap ∈ (recordCallNode .proposed callA (.ofDb db0)).log, getCallNode .proposed snap.db 10 1 regEdited = none := by
  decide
example : (recordCallNode .proposed callA (.ofDb db0)).log.length = 2 := by decide

/-- non-vacuity of `resolveNoProv`: report(10, records) -> stage(14, records nothing, call hash 30) -> fetch(11,
node 20): the recording ancestor's set contains the task beneath the non-recording job -/
example : Hist .proposed {} ([] ++ [⟨some 30, execSubtree 14 []⟩]) :=
  Hist.resolveNoProv 14 30 [] Hist.init (by simp) (by intro h; cases h)
example : (11 : H) ∈ execSubtree 10 [⟨some 30, execSubtree 14 [⟨some 20, [11]⟩]⟩] := by decide

end RedunModel.C03
