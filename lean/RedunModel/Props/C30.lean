/-
C30 — File value hashes track the filesystem.

Model: `Model/FileSys.lean` (classes, symbolic hashes, filesystem) and `Model/FileOps.lean` (python objects
with their cached `_hash`, operated on through redun's methods).  The model mirrors /repo with the two
repairs proposed in harness/findings_proposed/C30-*.fix.diff (ContentFile of a missing path hashes
deterministically; `Dir.copy_to` refreshes the destination's hash).

Statement, clause by clause:
 (a) after a File / Dir is written, copied or staged through redun, its hash equals a freshly computed hash
     of the current filesystem state                     → `fresh_after_op`, `fresh_after_ops`
 (b) a file value is valid exactly when its recorded hash equals the current one
                                                         → `valid_iff`, `valid_after_fresh`,
                                                           `immutable_always_valid`, `idir_valid`
 (c) content-hashed files change hash only when their bytes change
                                                         → `content_only`, `content_ignores_mtime`,
                                                           `content_set_only` (remark: `content_dir_by_stat_note`)
 (d) hashing a missing path yields a deterministic hash instead of an error
                                                         → `missing_deterministic` (`calcHash` is a total function)
 plus what "tracks the filesystem" means for the stat-hashed classes: `file_hash_eq_iff`,
 `dir_hash_changes_on_add`, `dir_hash_changes_on_remove`, `dir_hash_local`.
-/
import RedunModel.Lemmas.FileSys
namespace RedunModel.C30
open RedunModel.FileSys RedunModel.FileOps

/-- (a) For every universe, state and operation: if the operation is a redun-mediated write / append /
copy_to / stage / unstage / mkdir / rmdir / Dir.copy_to / StagingDir.stage / unstage, or a `File.open(mode)` stream whose
mode string permits writing — `open_hook_iff_writable` — (`target op = some k`)
and it reports success (not skipped, no error), then the cached hash of the object operated on equals the
hash recomputed from the resulting filesystem. -/
theorem fresh_after_op (U : List Path) (s : St) (op : Op) (k : Nat) (hk : target op = some k)
    (h : (step U s op).2 = .ok) : Fresh U (step U s op).1 k := by
  cases op <;> simp only [target, Option.some.injEq, reduceCtorEq] at hk <;> try subst hk
  case write i data t =>
    simp only [step] at h ⊢
    split at h
    · rename_i fam p c hi
      exact ⟨_, getElem?_set_of_some _ _ _ _ hi, by simp [Obj.updateHash]⟩
    · cases h
  case append i data t =>
    simp only [step] at h ⊢
    split at h
    · rename_i fam p c hi
      exact ⟨_, getElem?_set_of_some _ _ _ _ hi, by simp [Obj.updateHash]⟩
    · cases h
  case openMode i mode data t =>
    split at hk
    · rename_i hhook
      simp only [Option.some.injEq] at hk
      subst hk
      simp only [step] at h ⊢
      split at h
      · rename_i fam p c base plus hi hm
        split at h
        · cases h
        · rename_i fs' hr
          simp only [hhook, if_true]
          exact ⟨_, getElem?_set_of_some _ _ _ _ hi, by simp [Obj.updateHash]⟩
      · cases h
    · cases hk
  case copyTo i j skip t => exact copyFile_fresh U s i j skip t h
  case stage i j t =>
    simp only [step] at h ⊢
    split at h
    · split at h
      · cases h
      · rename_i hne
        simp only [hne, if_false]
        exact copyFile_fresh U s j i false t h
    · cases h
  case unstage i j t =>
    simp only [step] at h ⊢
    split at h
    · split at h
      · cases h
      · rename_i hne
        simp only [hne, if_false]
        exact copyFile_fresh U s i j false t h
    · cases h
  case mkdir i =>
    simp only [step] at h ⊢
    split at h
    · rename_i fam p c hi
      simp only [St.setObj]
      exact ⟨_, getElem?_set_of_some _ _ _ _ hi, by simp [Obj.updateHash]⟩
    · cases h
  case rmdir i =>
    simp only [step] at h ⊢
    split at h
    · rename_i fam p c hi
      exact ⟨_, getElem?_set_of_some _ _ _ _ hi, by simp [Obj.updateHash]⟩
    · cases h
  case dirCopyTo i j skip t => exact copyDir_fresh U s i j skip t h
  case stageDir i j t =>
    simp only [step] at h ⊢
    split at h
    · split at h
      · cases h
      · rename_i hne
        simp only [hne, if_false]
        exact copyDir_fresh U s j i false t h
    · cases h
  case unstageDir i j t =>
    simp only [step] at h ⊢
    split at h
    · split at h
      · cases h
      · rename_i hne
        simp only [hne, if_false]
        exact copyDir_fresh U s i j false t h
    · cases h


/-- For every mode string Python accepts: the close hook is installed exactly when the stream permits writing
(`w`, `a`, `x` in any spelling, and every `+` mode including `r+`, `r+b`, `rb+`). -/
theorem open_hook_iff_writable (mode : List Char) (m : Base × Bool) (h : parseMode mode = some m) :
    hookInstalled mode = canWrite m := by
  unfold parseMode at h
  simp only at h
  split at h
  · rename_i b hb
    split at h
    · simp only [Option.some.injEq] at h
      subst h
      have hmem : ∀ b', b' ∈ mode.filterMap (fun c =>
          if c == 'r' then some Base.r else if c == 'w' then some Base.w else if c == 'a' then some Base.a
          else if c == 'x' then some Base.x else none) ↔ b' = b := by
        intro b'; rw [hb]; simp
      rw [Bool.eq_iff_iff]
      simp only [hookInstalled, List.any_eq_true, canWrite, Bool.or_eq_true, bne_iff_ne, ne_eq, beq_iff_eq,
        List.contains_iff_mem]
      constructor
      · rintro ⟨c, hc, hcw⟩
        rcases hcw with ((hcw | hcw) | hcw) | hcw
        · left; intro hbr
          have : Base.w = b := (hmem _).1 (List.mem_filterMap.2 ⟨c, hc, by simp [hcw]⟩)
          rw [hbr] at this; cases this
        · left; intro hbr
          have : Base.a = b := (hmem _).1 (List.mem_filterMap.2 ⟨c, hc, by simp [hcw]⟩)
          rw [hbr] at this; cases this
        · left; intro hbr
          have : Base.x = b := (hmem _).1 (List.mem_filterMap.2 ⟨c, hc, by simp [hcw]⟩)
          rw [hbr] at this; cases this
        · right; rw [← hcw]; exact hc
      · rintro (hb' | hp)
        · obtain ⟨c, hc, hf⟩ := List.mem_filterMap.1 ((hmem b).2 rfl)
          refine ⟨c, hc, ?_⟩
          by_cases h1 : c = 'r'
          · simp [h1] at hf; exact absurd hf.symm hb'
          · by_cases h2 : c = 'w'
            · simp [h2]
            · by_cases h3 : c = 'a'
              · simp [h3]
              · by_cases h4 : c = 'x'
                · simp [h4]
                · simp [h1, h2, h3, h4] at hf
        · exact ⟨'+', hp, by simp⟩
    · cases h
  · cases h

/-- all spellings of the update and write modes get the hook, the read modes do not (a finite table, by evaluation) -/
theorem open_mode_table :
    (["r+", "r+b", "rb+", "w", "wb", "w+", "wb+", "a", "ab", "a+", "x", "xb", "x+"].all fun m => hookInstalled m.toList) = true ∧
    (["r", "rb", "rt"].all fun m => !hookInstalled m.toList) = true := by decide

theorem run_append (U : List Path) (s : St) (ops : List Op) (op : Op) :
    run U s (ops ++ [op]) = (step U (run U s ops) op).1 := by
  induction ops generalizing s with
  | nil => rfl
  | cons o os ih => simp only [List.cons_append, run]; exact ih _

/-- (a) over histories: after any sequence of operations (redun-mediated or external) followed by a
successful redun-mediated write/copy/stage, the target is fresh. -/
theorem fresh_after_ops (U : List Path) (s : St) (ops : List Op) (op : Op) (k : Nat) (hk : target op = some k)
    (h : (step U (run U s ops) op).2 = .ok) : Fresh U (run U s (ops ++ [op])) k := by
  rw [run_append]; exact fresh_after_op U _ op k hk h

/-- `is_valid()` of an object with a recorded hash, for every class whose `is_valid` compares hashes
(File, ContentFile, FileSet, ContentFileSet, Dir, ContentDir, IDir): valid exactly when the recorded hash
equals the current one. -/
theorem valid_iff (U : List Path) (fs : FS) (o : Obj) (h : H) (hc : o.cached = some h)
    (hn : alwaysValid o.val = false) : (o.isValid U fs).1 = true ↔ h = calcHash U fs o.val := by
  simp [Obj.isValid, hn, hc]

theorem valid_after_fresh (U : List Path) (fs : FS) (o : Obj) (hc : o.cached = some (calcHash U fs o.val)) :
    (o.isValid U fs).1 = true := by
  unfold Obj.isValid
  split
  · rfl
  · simp [hc]

/-- IFile, IFileSet and Staging values: always valid, whatever the filesystem and the cached hash; and their
hash does not depend on the filesystem. -/
theorem immutable_always_valid (U : List Path) (fs fs' : FS) (o : Obj) (h : alwaysValid o.val = true) :
    (o.isValid U fs).1 = true ∧ calcHash U fs o.val = calcHash U fs' o.val := by
  refine ⟨by simp [Obj.isValid, h], ?_⟩
  cases hv : o.val with
  | file fam p => cases fam <;> simp_all [alwaysValid, calcHash]
  | fset fam d r => cases fam <;> simp_all [alwaysValid, calcHash]
  | dir fam p => simp_all [alwaysValid]
  | staging d fam l r => simp [calcHash]

/-- IDir inherits the comparing `is_valid`, but its hash is path-only, so a hash recorded in any filesystem
state stays valid in every other. -/
theorem idir_valid (U : List Path) (fs0 fs : FS) (p : Path) (c : Option H)
    (hc : c = none ∨ c = some (calcHash U fs0 (.dir .imm p))) :
    (Obj.isValid U fs ⟨.dir .imm p, c⟩).1 = true := by
  rcases hc with hc | hc <;> subst hc <;> simp [Obj.isValid, alwaysValid, calcHash]

def statOf (fs : FS) (p : Path) : Option (Nat × Int) := (fs p).map fun n => (n.bytes.length, n.mtime)

/-- plain `File`: two filesystem states give the same hash iff the path has the same existence, size and mtime -/
theorem file_hash_eq_iff (U : List Path) (fs fs' : FS) (p : Path) :
    calcHash U fs (.file .plain p) = calcHash U fs' (.file .plain p) ↔ statOf fs p = statOf fs' p := by
  simp only [calcHash, statH, statOf]
  cases h1 : fs p <;> cases h2 : fs' p <;> simp <;> omega

/-- `ContentFile`: the hash changes exactly when the bytes (or the existence) of the file change -/
theorem content_only (U : List Path) (fs fs' : FS) (p : Path) :
    calcHash U fs (.file .content p) = calcHash U fs' (.file .content p) ↔
      (fs p).map (·.bytes) = (fs' p).map (·.bytes) := by
  simp [calcHash, contentH]

theorem content_ignores_mtime (U : List Path) (fs : FS) (p : Path) (n : Node) (t : Int) (h : fs p = some n) :
    calcHash U (fs.touch p t) (.file .content p) = calcHash U fs (.file .content p) := by
  simp [calcHash, contentH, FS.touch, FS.set, h]

/-- `ContentFileSet`: equal hashes iff the same member paths with the same bytes -/
theorem content_set_only (U : List Path) (fs fs' : FS) (d : Path) (r : Bool) :
    calcHash U fs (.fset .content d r) = calcHash U fs' (.fset .content d r) ↔
      (members U fs (sel d r)).map (fun p => (p, (fs p).map (·.bytes))) =
      (members U fs' (sel d r)).map (fun p => (p, (fs' p).map (·.bytes))) := by
  simp only [calcHash, H.coll.injEq, true_and]
  apply map_eq_map_iff_of
  intro a b
  simp [contentH]

/-- hashing a missing path is total and gives a fixed value per class -/
theorem missing_deterministic (U : List Path) (fs : FS) (p : Path) (h : fs p = none) :
    calcHash U fs (.file .plain p) = .f (.stat p (-1) (-1)) ∧
    calcHash U fs (.file .content p) = .f (.content p none) ∧
    calcHash U fs (.file .imm p) = .imm "IFile" p := by
  simp [calcHash, statH, contentH, h]

/-- a Dir / ContentDir hash changes when a file appears below it -/
theorem dir_hash_changes_on_add (U : List Path) (fs : FS) (fam : Fam) (hf : fam ≠ .imm) (d p : Path) (n : Node)
    (hp : p ∈ U) (hu : under d p = true) (hm : fs p = none) :
    calcHash U (fs.set p (some n)) (.dir fam d) ≠ calcHash U fs (.dir fam d) := by
  have := members_set_some_length U fs (under d) p n hp hu hm
  intro h
  cases fam <;> simp only [calcHash, H.coll.injEq, true_and, ne_eq, not_true_eq_false] at h hf <;>
    · have := congrArg List.length h
      simp at this
      omega

theorem dir_hash_changes_on_remove (U : List Path) (fs : FS) (fam : Fam) (hf : fam ≠ .imm) (d p : Path) (n : Node)
    (hp : p ∈ U) (hu : under d p = true) (hm : fs p = some n) :
    calcHash U (fs.set p none) (.dir fam d) ≠ calcHash U fs (.dir fam d) := by
  have := members_set_none_length U fs (under d) p n hp hu hm
  intro h
  cases fam <;> simp only [calcHash, H.coll.injEq, true_and, ne_eq, not_true_eq_false] at h hf <;>
    · have := congrArg List.length h
      simp at this
      omega

/-- a Dir hash depends only on the files below the directory -/
theorem dir_hash_local (U : List Path) (fs fs' : FS) (fam : Fam) (d : Path)
    (h : ∀ q, under d q = true → fs q = fs' q) :
    calcHash U fs (.dir fam d) = calcHash U fs' (.dir fam d) := by
  have hm : members U fs (under d) = members U fs' (under d) := by
    unfold members
    apply List.filter_congr
    intro x _
    cases hu : under d x
    · simp
    · simp [h x hu]
  have hs : (members U fs' (under d)).map (statH fs) = (members U fs' (under d)).map (statH fs') := by
    apply List.map_congr_left
    intro x hx
    have : under d x = true := by
      simp only [members, List.mem_filter, Bool.and_eq_true] at hx
      exact hx.2.1
    simp [statH, h x this]
  cases fam <;> simp [calcHash, hm, hs]

/-- Remark (not a claim of the property): a ContentDir hashes its members by size/mtime, so touching a member
changes its hash although no byte changed. -/
theorem content_dir_by_stat_note (U : List Path) (fs : FS) (d p : Path) (n : Node) (t : Int)
    (hp : p ∈ U) (hu : under d p = true) (hm : fs p = some n) (ht : t ≠ n.mtime) :
    calcHash U (fs.touch p t) (.dir .content d) ≠ calcHash U fs (.dir .content d) := by
  have hmem : members U (fs.touch p t) (under d) = members U fs (under d) := by
    unfold members
    apply List.filter_congr
    intro x _
    simp only [FS.touch, FS.set]
    split
    · rename_i hx; subst hx; simp [hm]
    · rfl
  intro h
  simp only [calcHash, H.coll.injEq, true_and, hmem] at h
  have hpm : p ∈ members U fs (under d) := by simp [members, hp, hu, hm]
  have := List.map_inj_left.1 h p hpm
  simp [statH, FS.touch, FS.set, hm] at this
  exact ht this


/-! ### non-vacuity: the F23 history (destination Dir hashed, then copied into) on the model -/
section Examples
def exU : List Path := [["d1", "a"], ["d2", "a"]]
def exOps : List Op := [.new (.dir .plain ["d1"]), .new (.dir .plain ["d2"]), .extWrite ["d1", "a"] [97] 1001, .hash 1]

example : (step exU (run exU St.init exOps) (.dirCopyTo 0 1 false 1002)).2 = .ok := by decide
example : ((run exU St.init (exOps ++ [.dirCopyTo 0 1 false 1002])).objs[1]?).map (·.cached) =
    some (some (.coll "Dir" ["d2"] [.stat ["d2", "a"] 1 1002])) := by decide
/-- the hash cached before the copy was the hash of the empty directory: it did change -/
example : ((run exU St.init exOps).objs[1]?).map (·.cached) = some (some (.coll "Dir" ["d2"] [])) := by decide
/-- a deleted ContentFile: invalid, no error -/
example : (Obj.isValid exU FS.empty ⟨.file .content ["d1", "a"], some (.f (.content ["d1", "a"] (some [97])))⟩).1 = false := by
  decide
example : (Obj.isValid exU (FS.empty.write ["d1", "a"] [97] 5) ⟨.file .content ["d1", "a"], some (.f (.content ["d1", "a"] (some [97])))⟩).1
    = true := by decide
/-- in-place update through `open("r+b")`: the already cached hash is refreshed -/
example : ((run exU St.init [.new (.file .content ["d1", "a"]), .extWrite ["d1", "a"] [97, 98, 99] 1, .hash 0,
      .openMode 0 "r+b".toList [120] 2]).objs[0]?).map (·.cached) =
    some (some (.f (.content ["d1", "a"] (some [120, 98, 99])))) := by decide
end Examples

end RedunModel.C30
