/-
C21 — Upstream dataflow of arguments is recorded.

Property theorems only; model `RedunModel.Model.Upstreams`, lemmas `RedunModel.Lemmas.Upstreams`.

Reading guide.  `Src` is the expression a task body returned (one evaluation scope); `evalE legacy st s`
evaluates one occurrence against the scope's `_pending_expr` table `st` and returns the new table, the
expression object's final bookkeeping (`Obj`: `call_hash` of task calls, `_upstreams` of everything else) and
the `Argument`/`ArgumentResult` rows recorded for the calls evaluated on the way; `findUps` is
`_find_arg_upstreams`; `producers` / `argSpecs` are the specification.  `legacy = false` is the code as
repaired (default expressions handed to the recorder; duplicate scheduler expressions inherit the
`_upstreams` of the evaluated one), `legacy = true` the code before — kept for the refutation witnesses.
-/
import RedunModel.Lemmas.Upstreams
namespace RedunModel.C21
open RedunModel.Upstreams List

/-- `_find_arg_upstreams` yields exactly the call nodes reachable through containers and through the
`_upstreams` of non-task expressions (never looking inside a task call). -/
theorem findUps_reach (o : Obj) (k : Nat) : k ∈ findUps o ↔ Reach o k :=
  ⟨findUps_sound o k, findUps_complete⟩

/-- **Full strength (repaired code).** For every expression, evaluated against any table whose entries
are right (in particular the empty table at the start of a scope), the recorded upstream set of the
expression is the set of task calls that produced its value: those reachable through lazy operators,
containers and scheduler tasks (`cond`: condition and branch taken; `catch`: the recovery call when the
error was caught) — with duplicates of every kind, defaults, calls without provenance. The table stays
right, so the statement composes over all expressions of the scope. -/
theorem upstreams (s : Src) (st : St) (g : Good st) :
    SetEq (findUps (evalE false st s).2.1) (producers s) ∧ Good (evalE false st s).1 :=
  let ⟨g1, u, _⟩ := evalE_ok s st g
  ⟨u, g1⟩

/-- Every `Argument` row recorded while evaluating the expression belongs to a call of the expression
that is evaluated and records provenance, sits at one of its parameters (position / keyword / defaulted
parameter as keyword) and links exactly the producers of that parameter's expression. -/
theorem rows_upstreams (s : Src) (st : St) (g : Good st) :
    ∀ r ∈ (evalE false st s).2.2, ∃ q ∈ argSpecs s, q.1 = r.call ∧ q.2.1 = r.slot ∧ SetEq r.ups q.2.2 :=
  (evalE_ok s st g).2.2

/-- … and a call that is actually run (not served by an equal expression of the scope) records a row for
each of its parameters: positional ones by position, explicit keywords and **defaulted parameters as
keyword arguments**, each linked to the producers of its (default) expression. -/
theorem defaults_as_kwargs (key : Nat) (args : List Src) (kwnames : List Nat) (kwargs : List Src)
    (defnames : List Nat) (defs : List Src) (st : St) (g : Good st)
    (hnew : lookup st (.call key true args kwnames kwargs defnames defs) = none) :
    ∀ q ∈ posSpecs key args ++ keySpecs key kwnames kwargs ++ keySpecs key defnames defs,
      ∃ r ∈ (evalE false st (.call key true args kwnames kwargs defnames defs)).2.2,
        r.call = q.1 ∧ r.slot = q.2.1 ∧ SetEq r.ups q.2.2 := by
  intro q hq
  obtain ⟨g1, a1, _⟩ := evalL_ok args st g
  obtain ⟨_, a2, _⟩ := evalL_ok kwargs _ g1
  obtain ⟨_, a3, _⟩ := evalL_ok defs [] good_nil
  simp only [evalE, hnew, if_true, Bool.false_eq_true, if_false]
  simp only [mem_append] at hq ⊢
  rcases hq with (hq | hq) | hq
  · obtain ⟨r, hr, h⟩ := posRows_complete_aux key _ _ 0 a1 q hq
    exact ⟨r, .inr (.inl (.inl hr)), h⟩
  · obtain ⟨r, hr, h⟩ := keyRows_complete key kwnames _ _ a2 q hq
    exact ⟨r, .inr (.inl (.inr hr)), h⟩
  · obtain ⟨r, hr, h⟩ := keyRows_complete key defnames _ _ a3 q hq
    exact ⟨r, .inr (.inr hr), h⟩

/-- An expression object that is never evaluated contributes no upstream (the branch of a `cond` that is
not taken; before the repair: the sub-expressions of a duplicated scheduler expression). -/
theorem unevaluated_no_upstream (s : Src) : findUps (unev s) = [] := findUps_unev s

/-! ### the code before the repairs (`legacy = true`) -/

private def f2 : Src := .call 2 true [.lit 2] [] [] [] []
private def c1 : Src := .cond (.lit 1) true f2 (.lit 0)
/-- `h(9, cond(1, f(2), 0), cond(1, f(2), 0))` -/
private def dupProg : Src := .call 9 true [.lit 9, c1, c1] [] [] [] []
/-- `g(5, f(2))` with `def g(tag, x, y=src(900))` -/
private def defProg : Src := .call 5 true [.lit 5, f2] [] [] [3] [.call 900 true [.lit 900] [] [] [] []]

/-- **Refuted (old code): duplicated scheduler expression.** The third argument of `dupProg` is produced by
call 2, but the old code recorded no upstream for it; the repaired code records `[2]` for both. -/
theorem legacy_refuted_duplicate_scheduler_expr :
    producers c1 = [2] ∧
    (⟨9, .pos 2, []⟩ : Row) ∈ (evalE true [] dupProg).2.2 ∧
    (⟨9, .pos 1, [2]⟩ : Row) ∈ (evalE true [] dupProg).2.2 ∧
    (⟨9, .pos 2, [2]⟩ : Row) ∈ (evalE false [] dupProg).2.2 := by decide

/-- **Refuted (old code): expression-valued default.** `y` of `defProg` is produced by call 900; the old
code recorded the keyword argument `y` without upstream, the repaired code links it to 900. -/
theorem legacy_refuted_default_expr :
    (⟨5, .key 3, []⟩ : Row) ∈ (evalE true [] defProg).2.2 ∧
    (⟨5, .key 3, [900]⟩ : Row) ∈ (evalE false [] defProg).2.2 ∧
    (⟨5, .pos 1, [2]⟩ : Row) ∈ (evalE true [] defProg).2.2 := by decide

/-- **Partial (old code).** For expressions built from task calls, lazy operators and containers only (no
scheduler tasks), the old code computed the same objects and tables as the repaired code, hence the right
upstream sets for every explicitly passed argument; only rows of defaulted parameters differed. -/
theorem legacy_partial (s : Src) (st : St) (g : Good st) (h : schedFree s = true) :
    SetEq (findUps (evalE true st s).2.1) (producers s) ∧ (evalE true st s).1 = (evalE false st s).1 := by
  have hs := legacy_same s st h
  rw [hs.2]
  exact ⟨(upstreams s st g).1, hs.1⟩

/-! ### non-vacuity -/
example : Good [] := good_nil
example : SetEq (findUps (evalE false [] dupProg).2.1) [9] := (upstreams dupProg [] good_nil).1
example : schedFree defProg = true := by decide
example : lookup [] defProg = none := rfl
example : argSpecs defProg =
    [(2, .pos 0, []), (900, .pos 0, []), (5, .pos 0, []), (5, .pos 1, [2]), (5, .key 3, [900])] := by decide

end RedunModel.C21
