/-
C01 — Scheduler evaluation agrees with the graph-reduction semantics.

Model: `Model/EvalCore` (expression language, big-step relation `Eval`, evaluator `evalAll`/`evalFuel`).
All statements quantify over every task table `lib` (task bodies are arbitrary deterministic functions),
every expression and every amount of fuel.

Full strength for the modelled fragment: `evalAll_sound`, `evalFuel_sound`, `evalAll_complete`,
`evalAll_exact`, `evalFuel_unique`, `value_fixed`, `result_is_value`, `reevaluation_identity`, `never_unknown`.
NOT proved here (see LEVEL_NOTE of harness/props/C01.py): soundness of the event-loop machine for every
completion order — the machine is not part of this model; schedules are covered by the correspondence runs.
-/
import RedunModel.Lemmas.EvalCore
import RedunModel.Model.EvalLib
namespace RedunModel.C01
open RedunModel.EvalCore

/-- every outcome the executable evaluator reports (other than "unknown") is prescribed by the reduction rules -/
theorem evalAll_sound (lib : Lib) (n : Nat) (c : Ctx) (e : Expr) (r : Out) (h : r ∈ evalAll lib n c e) (hk : r ≠ .unk) :
    Eval lib c e r :=
  EvalCore.evalAll_sound n c e r h hk

theorem evalFuel_sound (lib : Lib) (n : Nat) (c : Ctx) (e : Expr) (r : Out) (h : evalFuel lib n c e = some r) :
    Eval lib c e r :=
  EvalCore.evalFuel_sound h

/-- when the evaluator reports no "unknown", every outcome the rules allow is in its set -/
theorem evalAll_complete (lib : Lib) (n : Nat) (c : Ctx) (e : Expr) (hn : Out.unk ∉ evalAll lib n c e) (r : Out)
    (h : Eval lib c e r) : r ∈ evalAll lib n c e :=
  EvalCore.evalAll_complete n c e r hn h

/-- ... so in that case the computed set is exactly the denotation -/
theorem evalAll_exact (lib : Lib) (n : Nat) (c : Ctx) (e : Expr) (hn : Out.unk ∉ evalAll lib n c e) (r : Out) :
    Eval lib c e r ↔ r ∈ evalAll lib n c e :=
  ⟨evalAll_complete lib n c e hn r, fun h => evalAll_sound lib n c e r h (fun hu => hn (hu ▸ h))⟩

/-- determinism wherever `evalFuel` answers: the value (or error) is the only outcome the rules allow -/
theorem evalFuel_unique (lib : Lib) (n : Nat) (c : Ctx) (e : Expr) (r : Out) (h : evalFuel lib n c e = some r) (r' : Out)
    (h' : Eval lib c e r') : r' = r :=
  EvalCore.evalFuel_unique h r' h'

/-- concrete values evaluate to themselves and to nothing else, in every context -/
theorem value_fixed (lib : Lib) (c : Ctx) (v : Expr) (hv : isValue v = true) (r : Out) : Eval lib c v r ↔ r = .ok v :=
  ⟨value_unique v hv r, fun h => h ▸ value_self v hv⟩

/-- what an evaluation returns is a concrete value (no expression is left inside) -/
theorem result_is_value (lib : Lib) (c : Ctx) (e v : Expr) (h : Eval lib c e (.ok v)) : isValue v = true :=
  result_isValue h v rfl

/-- evaluating a result again (done_job after a CSE hit, the outer scheduler after `subrun`) changes nothing -/
theorem reevaluation_identity (lib : Lib) (c c' : Ctx) (e v : Expr) (h : Eval lib c e (.ok v)) (r : Out) :
    Eval lib c' v r ↔ r = .ok v :=
  value_fixed lib c' v (result_is_value lib c e v h) r

theorem never_unknown (lib : Lib) (c : Ctx) (e : Expr) : ¬ Eval lib c e .unk := fun h => h.ne_unk rfl

/-! Non-vacuity, on the library the correspondence runs use. -/
open RedunModel.EvalLib

/-- `map_(addx.partial(), [catch(raiser("V", 1), ValueError, rec_zero), 2])`: catch inside map_ inside a partial
task whose second parameter has the expression default `inc(1)`. -/
def ex1 : Expr :=
  .map_ (.partialv "ev.addx" [] [] [])
    (L [.catch (tcall "ev.raiser" [.str "V", .int 1]) [.cls "ValueError"] [.taskv "ev.rec_zero"], .int 2])

example : evalFuel lib 40 Ctx.empty ex1 = some (.ok (L [.int 2, .int 4])) := by rfl
example : Eval lib Ctx.empty ex1 (.ok (L [.int 2, .int 4])) := evalFuel_sound lib 40 _ ex1 _ (by rfl)
example (r : Out) (h : Eval lib Ctx.empty ex1 r) : r = .ok (L [.int 2, .int 4]) :=
  evalFuel_unique lib 40 _ ex1 _ (by rfl) r h

/-- two failing siblings: both errors are admissible, nothing else is -/
def ex2 : Expr := L [tcall "ev.raiser" [.str "V", .int 1], tcall "ev.raiser" [.str "K", .int 2]]

example : evalAll lib 10 Ctx.empty ex2 = [.err ⟨"ValueError", "V-1"⟩, .err ⟨"KeyError", "K-2"⟩] := by rfl
example (r : Out) : Eval lib Ctx.empty ex2 r ↔ r = .err ⟨"ValueError", "V-1"⟩ ∨ r = .err ⟨"KeyError", "K-2"⟩ := by
  have hs : evalAll lib 10 Ctx.empty ex2 = [.err ⟨"ValueError", "V-1"⟩, .err ⟨"KeyError", "K-2"⟩] := by rfl
  rw [evalAll_exact lib 10 Ctx.empty ex2 (by rw [hs]; simp) r, hs]
  simp

/-- ... whereas `catch_all` over the same two terms waits for all of them and re-raises the first error in TERM order:
exactly one outcome, whatever the completion order (`wait_promises`, not `Promise.all`) -/
def ex3 : Expr := .catchAll ex2 .none .none

example : evalAll lib 10 Ctx.empty ex3 = [.err ⟨"ValueError", "V-1"⟩] := by rfl
example (r : Out) : Eval lib Ctx.empty ex3 r ↔ r = .err ⟨"ValueError", "V-1"⟩ := by
  have hs : evalAll lib 10 Ctx.empty ex3 = [.err ⟨"ValueError", "V-1"⟩] := by rfl
  rw [evalAll_exact lib 10 Ctx.empty ex3 (by rw [hs]; simp) r, hs]
  simp

/-- with a recover task and an error class that does not cover them: the first NON-MATCHING error in term order -/
def ex4 : Expr :=
  .catchAll (L [tcall "ev.raiser" [.str "K", .int 1], tcall "ev.raiser" [.str "V", .int 2], tcall "ev.raiser" [.str "L", .int 3]])
    (.cls "ValueError") (.taskv "ev.rec_count")

example : evalFuel lib 10 Ctx.empty ex4 = some (.err ⟨"KeyError", "K-1"⟩) := by rfl

/-- an untaken `cond` branch is not demanded -/
example : evalFuel lib 10 Ctx.empty (.cond [.bool true, .int 1, tcall "ev.raiser" [.str "V", .int 2]]) = some (.ok (.int 1)) := by rfl

/-- context: `ctx_flow(5)` = `[ctx_offset(ctx_scale(5)), ctx_scale(6)]` under `{k: 3, j: 7}`; an `update_context(k=9)` on an inner
call overrides `k` for that call only -/
def exCtx : Ctx := fun k => if k = "k" then some (.int 3) else if k = "j" then some (.int 7) else none

example : evalFuel lib 20 exCtx (tcall "ev.ctx_flow" [.int 5]) = some (.ok (L [.int 22, .int 18])) := by rfl
example : evalFuel lib 20 Ctx.empty (tcall "ev.ctx_flow" [.int 5]) = some (.ok (L [.int 5, .int 6])) := by rfl
example : evalFuel lib 20 exCtx (tcall "ev.ctx_inner_override" [.int 1]) = some (.ok (L [.int 9, .int 3])) := by rfl

end RedunModel.C01
