/-
C04 — Cached results with external values are replayed only while still valid.

Model: `Model/FileSys.lean` (file value classes, symbolic hashes, `validRec` = `is_valid` of an unpickled value)
and `Model/ExtCache.lean` (`run` = one `scheduler.run` of a task against the same backend: the
`_get_cache` validity branch, re-execution, `set_eval_cache`).  The task body is a parameter: every theorem
holds for every body.  The model mirrors /repo with the repair of `ContentFile._calc_hash` proposed in
harness/findings_proposed/C04-contentfile-missing.fix.diff (a missing file has a hash instead of raising), so
`calcHash` / `validRec` are total functions: that totality is the content of `no_raise`.

Statement, clause by clause:
 * "replayed only if every such value is still valid, meaning its current hash equals the recorded one;
   immutable file types are always valid"       → `replay_iff_valid`, `valid_means_hashes_equal`,
                                                  `replay_only_if_valid`, `immutable_never_invalidates`
 * "when a recorded output was deleted or altered the task re-executes without raising"
                                                → `invalid_reexecutes_once`, `no_raise`,
                                                  `deleted_file_invalidates`, `deleted_member_invalidates`
 * "the new result reflects the current external state"
                                                → `reexec_reflects_state`, `returned_is_current`,
                                                  `full_cache_is_returned`, `run_again_replays`,
                                                  `history_returned_is_current`, and downstream of the task:
                                                  `chain_answer_current`, `cinv_runChain`, `chain_consumer_runs_iff_new`
 `shallow : Bool` is `check_valid="shallow"` (newest CallNode instead of the Evaluation row); every theorem holds for both
 modes unless it says `false`; `shallow_rerun_remark` records why `run_again_replays` is stated for the default mode.
-/
import RedunModel.Lemmas.FileSys
import RedunModel.Model.ExtCache
namespace RedunModel.C04
open RedunModel.FileSys RedunModel.ExtCache

variable {ε : Type} (U : List Path) (shallow : Bool) (body : Body ε)

theorem execute_not_replay (s : St) : (execute U body s).2.isReplay = false := by
  unfold execute; split <;> rfl

theorem record_allValid (fs : FS) (outs : List (Option Val)) : allValid U fs (record U fs outs) = true := by
  simp only [allValid, record, List.all_map, List.all_eq_true]
  intro o _
  cases o <;> simp [leafValid, validRec]

/-- A cached result is replayed iff `is_valid_nested` holds for it in the current filesystem. -/
theorem replay_iff_valid (s : St) (ls : List Leaf) (hc : cached shallow s = some ls) :
    (run U shallow body s).2.isReplay = true ↔ allValid U s.fs ls = true := by
  unfold run
  simp only [hc]
  split
  · rename_i hv; simp [Outcome.isReplay, hv]
  · rename_i hv; simp [execute_not_replay, hv]

/-- … and `is_valid_nested` means: every external leaf is of an always-valid (immutable / staging) class or its
recorded hash equals its current hash. -/
theorem valid_means_hashes_equal (fs : FS) (ls : List Leaf) :
    allValid U fs ls = true ↔ ∀ v h, Leaf.ext v h ∈ ls → alwaysValid v = true ∨ h = calcHash U fs v := by
  simp only [allValid, List.all_eq_true]
  constructor
  · intro hall v h hm
    have := hall _ hm
    simpa [leafValid, validRec] using this
  · intro hall l hm
    cases l with
    | plain => rfl
    | ext v h => simpa [leafValid, validRec] using hall v h hm

theorem replay_only_if_valid (s : St) (ls : List Leaf) (h : (run U shallow body s).2 = .replay ls) :
    cached shallow s = some ls ∧ allValid U s.fs ls = true := by
  unfold run at h
  split at h
  · rename_i ls0 hc
    split at h
    · rename_i hv
      cases h
      exact ⟨hc, hv⟩
    · have := execute_not_replay U body s; rw [h] at this; cases this
  · have := execute_not_replay U body s; rw [h] at this; cases this

theorem replay_changes_nothing (s : St) (h : (run U shallow body s).2.isReplay = true) : (run U shallow body s).1 = s := by
  unfold run at h ⊢
  split at h
  · split at h
    · rename_i hv; rw [if_pos hv]
    · simp [execute_not_replay] at h
  · simp [execute_not_replay] at h

/-- A recorded result with an invalid leaf: the task body runs exactly once (the counter goes up by one), no
error arises from the validity check, and the entry is overwritten by the new result. -/
theorem invalid_reexecutes_once (s : St) (ls : List Leaf) (hc : cached shallow s = some ls) (hv : allValid U s.fs ls = false)
    (fs' : FS) (outs : List (Option Val)) (hb : body s.fs = .ok (fs', outs)) :
    (run U shallow body s).2 = .exec (record U fs' outs) ∧ (run U shallow body s).1.execs = s.execs + 1 ∧
    (run U shallow body s).1.fs = fs' ∧ (run U shallow body s).1.cache = some (record U fs' outs) := by
  simp [run, hc, hv, execute, hb]

/-- `run` fails only if the task body itself fails: checking validity never raises, on any filesystem state. -/
theorem no_raise (s : St) (e : ε) (h : (run U shallow body s).2 = .failed e) : body s.fs = .error e := by
  have hex : ∀ e, (execute U body s).2 = .failed e → body s.fs = .error e := by
    intro e h
    unfold execute at h
    split at h
    · rename_i e' hb; cases h; exact hb
    · cases h
  unfold run at h
  split at h
  · split at h
    · cases h
    · exact hex e h
  · exact hex e h

/-- After a (re-)execution the returned values carry the hashes of the filesystem state the task left behind,
and that result is what the cache now holds. -/
theorem reexec_reflects_state (s : St) (ls : List Leaf) (h : (run U shallow body s).2 = .exec ls) :
    (∀ v hh, Leaf.ext v hh ∈ ls → hh = calcHash U (run U shallow body s).1.fs v) ∧ (run U shallow body s).1.cache = some ls := by
  have hex : ∀ ls, (execute U body s).2 = .exec ls →
      (∀ v hh, Leaf.ext v hh ∈ ls → hh = calcHash U (execute U body s).1.fs v) ∧ (execute U body s).1.cache = some ls := by
    intro ls h
    unfold execute at h ⊢
    split at h
    · cases h
    · rename_i fs' outs hb
      cases h
      refine ⟨?_, rfl⟩
      intro v hh hm
      simp only [record, List.mem_map] at hm
      obtain ⟨o, _, ho⟩ := hm
      cases o with
      | none => cases ho
      | some v' => simp at ho; rw [← ho.1, ← ho.2]
  unfold run at h ⊢
  split at h
  · split at h
    · cases h
    · rename_i hv; simp only [hv]; exact hex ls h
  · exact hex ls h

/-- Whatever `run` hands back — replayed or freshly computed — is valid in the filesystem it leaves behind. -/
theorem returned_is_current (s : St) (ls : List Leaf) (h : (run U shallow body s).2.leaves = some ls) :
    allValid U (run U shallow body s).1.fs ls = true := by
  have hex : (execute U body s).2.leaves = some ls → allValid U (execute U body s).1.fs ls = true := by
    intro h
    unfold execute at h ⊢
    split at h
    · cases h
    · simp only [Outcome.leaves, Option.some.injEq] at h
      subst h
      exact record_allValid U _ _
  unfold run at h ⊢
  split at h
  · rename_i ls0 hc
    split at h
    · rename_i hv
      simp only [Outcome.leaves, Option.some.injEq] at h
      subst h
      rw [if_pos hv]
      exact hv
    · rename_i hv; rw [if_neg hv]; exact hex h
  · exact hex h

/-- Default (full) validity checking: what `run` hands back is what the Evaluation row now holds … -/
theorem full_cache_is_returned (s : St) (ls : List Leaf) (h : (run U false body s).2.leaves = some ls) :
    (run U false body s).1.cache = some ls := by
  have hex : (execute U body s).2.leaves = some ls → (execute U body s).1.cache = some ls := by
    intro h
    unfold execute at h ⊢
    split at h
    · cases h
    · simp only [Outcome.leaves, Option.some.injEq] at h
      subst h
      rfl
  unfold run at h ⊢
  split at h
  · rename_i ls0 hc
    split at h
    · rename_i hv
      simp only [Outcome.leaves, Option.some.injEq] at h
      subst h
      rw [if_pos hv]
      simpa [cached] using hc
    · rename_i hv; rw [if_neg hv]; exact hex h
  · exact hex h

/-- … so running again straight away (no external change in between) replays the same result, whatever the body. -/
theorem run_again_replays (body' : Body ε) (s : St) (ls : List Leaf) (h : (run U false body s).2.leaves = some ls) :
    run U false body' (run U false body s).1 = ((run U false body s).1, .replay ls) := by
  have hv := returned_is_current U false body s ls h
  have hc := full_cache_is_returned U body s ls h
  clear h
  generalize run U false body s = r at hv hc ⊢
  obtain ⟨s1, o1⟩ := r
  simp only at hv hc
  simp [run, cached, hc, hv]

/-- Over all histories of external filesystem mutations and runs (of any bodies), starting anywhere: the result
of a run is valid in the state it leaves behind. -/
theorem history_returned_is_current (s0 : St) (ops : List (HOp ε)) (ls : List Leaf)
    (h : (run U shallow body (hrun U s0 ops)).2.leaves = some ls) :
    allValid U (run U shallow body (hrun U s0 ops)).1.fs ls = true :=
  returned_is_current U shallow body _ ls h

/-- A recorded File / ContentFile whose file has since been deleted is invalid (so the task re-executes: see
`invalid_reexecutes_once`), for every recorded state in which the file existed. -/
theorem deleted_file_invalidates (fs0 fs : FS) (fam : Fam) (hf : fam ≠ .imm) (p : Path) (n : Node)
    (h0 : fs0 p = some n) (h1 : fs p = none) (ls : List Leaf)
    (hm : Leaf.ext (.file fam p) (calcHash U fs0 (.file fam p)) ∈ ls) : allValid U fs ls = false := by
  rw [Bool.eq_false_iff]
  intro hall
  rcases (valid_means_hashes_equal U fs ls).1 hall _ _ hm with h | h
  · cases fam <;> simp_all [alwaysValid]
  · cases fam <;> simp_all [calcHash, statH, contentH]

/-- A recorded Dir / ContentDir one of whose member files has since been deleted is invalid. -/
theorem deleted_member_invalidates (fs0 : FS) (fam : Fam) (hf : fam ≠ .imm) (d p : Path) (n : Node)
    (hp : p ∈ U) (hu : under d p = true) (h0 : fs0 p = some n) (ls : List Leaf)
    (hm : Leaf.ext (.dir fam d) (calcHash U fs0 (.dir fam d)) ∈ ls) : allValid U (fs0.set p none) ls = false := by
  rw [Bool.eq_false_iff]
  intro hall
  have hlen := members_set_none_length U fs0 (under d) p n hp hu h0
  rcases (valid_means_hashes_equal U _ ls).1 hall _ _ hm with h | h
  · cases fam <;> simp_all [alwaysValid]
  · cases fam <;> simp only [calcHash, H.coll.injEq, true_and, ne_eq, not_true_eq_false] at h hf <;>
      · have := congrArg List.length h
        simp at this
        omega

/-- Immutable classes (IFile, IFileSet, IDir) recorded in any state stay valid in every state. -/
theorem immutable_never_invalidates (fs0 fs : FS) (v : Val)
    (hv : (∃ p, v = .file .imm p) ∨ (∃ d r, v = .fset .imm d r) ∨ (∃ p, v = .dir .imm p)) :
    leafValid U fs (.ext v (calcHash U fs0 v)) = true := by
  rcases hv with ⟨p, rfl⟩ | ⟨d, r, rfl⟩ | ⟨p, rfl⟩ <;> simp [leafValid, validRec, alwaysValid, calcHash]


/-! ### downstream: a consumer task called on the result (`consume(make())`) -/

/-- what the consumer's observation is according to the recorded hash alone -/
def summHF : HF → Int
  | .stat _ sz _ => sz
  | .content _ none => -1
  | .content _ (some b) => b.length
def summH : H → Int
  | .f h => summHF h
  | .coll _ _ ms => ms.length
  | _ => 0
def summLeaf : Leaf → Int
  | .ext (.file .imm _) _ => 0
  | .ext (.fset .imm _ _) _ => 0
  | .ext (.dir .imm _) _ => 0
  | .ext (.staging ..) _ => 0
  | .ext _ h => summH h
  | .plain => 0

/-- a valid leaf's observation is determined by its recorded hash -/
theorem observe_of_valid (fs : FS) (l : Leaf) (hv : leafValid U fs l = true) : observeLeaf U fs l = summLeaf l := by
  cases l with
  | plain => rfl
  | ext v h =>
    simp only [leafValid, validRec, Bool.or_eq_true, beq_iff_eq] at hv
    cases v with
    | file fam p =>
      cases fam <;> simp only [alwaysValid, Bool.false_eq_true, false_or] at hv <;> try subst hv
      · simp only [observeLeaf, observe, summLeaf, summH, calcHash, statH]
        cases fs p <;> simp [summHF]
      · rfl
      · simp only [observeLeaf, observe, summLeaf, summH, calcHash, contentH]
        cases fs p <;> simp [summHF]
    | fset fam d r =>
      cases fam <;> simp only [alwaysValid, Bool.false_eq_true, false_or] at hv <;> try subst hv
      · simp [observeLeaf, observe, summLeaf, summH, calcHash]
      · rfl
      · simp [observeLeaf, observe, summLeaf, summH, calcHash]
    | dir fam p =>
      cases fam <;> simp only [alwaysValid, Bool.false_eq_true, false_or] at hv <;> try subst hv
      · simp [observeLeaf, observe, summLeaf, summH, calcHash]
      · rfl
      · simp [observeLeaf, observe, summLeaf, summH, calcHash]
    | staging d fam l r => rfl

theorem observe_map_of_valid (fs : FS) (ls : List Leaf) (hv : allValid U fs ls = true) :
    ls.map (observeLeaf U fs) = ls.map summLeaf := by
  apply List.map_congr_left
  intro l hl
  exact observe_of_valid U fs l (by simpa [allValid, List.all_eq_true] using (List.all_eq_true.1 hv) l hl)

/-- invariant of the consumer's cache: every stored answer is the one determined by its key -/
def CInv (c : CSt) : Prop := ∀ ls sm, lookupL ls c.ccache = some sm → sm = ls.map summLeaf

theorem lookupL_cons_self (k : List Leaf) (b : List Int) (t) : lookupL k ((k, b) :: t) = some b := by simp [lookupL]

theorem cinv_runChain (c : CSt) (h : CInv c) : CInv (runChain U shallow body c).1 := by
  unfold runChain
  simp only
  split
  · exact h
  · rename_i ls hls
    split
    · exact h
    · intro ls' sm' hl
      simp only [lookupL] at hl
      split at hl
      · rename_i heq
        subst heq
        cases hl
        exact observe_map_of_valid U _ _ (returned_is_current U shallow body c.base _ hls)
      · exact h ls' sm' hl

theorem runChain_upstream (c : CSt) :
    (runChain U shallow body c).2.1 = (run U shallow body c.base).2 ∧ (runChain U shallow body c).1.base = (run U shallow body c.base).1 := by
  unfold runChain
  simp only
  split
  · exact ⟨rfl, rfl⟩
  · split <;> exact ⟨rfl, rfl⟩

/-- **The downstream answer is current.** Whether the consumer ran or was replayed from its own cache, the answer
handed back equals what the consumer would compute now from the filesystem the run leaves behind. -/
theorem chain_answer_current (c : CSt) (h : CInv c) (ran : Bool) (sm : List Int) (ls : List Leaf)
    (hl : (runChain U shallow body c).2.1.leaves = some ls) (hr : (runChain U shallow body c).2.2 = some (ran, sm)) :
    sm = ls.map (observeLeaf U (runChain U shallow body c).1.base.fs) := by
  rw [(runChain_upstream U shallow body c).1] at hl
  rw [(runChain_upstream U shallow body c).2]
  have hv := returned_is_current U shallow body c.base _ hl
  unfold runChain at hr
  simp only [hl] at hr
  split at hr
  · rename_i sm0 hlk
    simp only [Option.some.injEq, Prod.mk.injEq] at hr
    obtain ⟨_, rfl⟩ := hr
    rw [h _ _ hlk, observe_map_of_valid U _ _ hv]
  · simp only [Option.some.injEq, Prod.mk.injEq] at hr
    obtain ⟨_, rfl⟩ := hr
    rfl

/-- the consumer re-executes exactly when it has not yet seen this argument (these recorded hashes) -/
theorem chain_consumer_runs_iff_new (c : CSt) (ls : List Leaf) (hl : (run U shallow body c.base).2.leaves = some ls) :
    (∃ sm, (runChain U shallow body c).2.2 = some (true, sm)) ↔ lookupL ls c.ccache = none := by
  unfold runChain
  simp only [hl]
  cases hk : lookupL ls c.ccache <;> simp


/-! ### non-vacuity: the F3 history on the model (content-hashed output deleted between two runs) -/
section Examples
def exU : List Path := [["f"], ["d", "a"]]
def exBody (t : Int) : Body Empty := writerBody [(["f"], [97, 98])] [some (.file .content ["f"]), none, some (.dir .plain ["d"])] t
def exS1 : St := (run exU false (exBody 5) ⟨FS.empty, none, [], 0⟩).1

example : exS1.execs = 1 := by decide
example : (run exU false (exBody 6) exS1).2.isReplay = true := by decide
/-- delete the output: the next run re-executes (no failure), the file is back, and a further run replays -/
def exS2 : St := (run exU false (exBody 7) { exS1 with fs := exS1.fs.remove ["f"] }).1
example : allValid exU (exS1.fs.remove ["f"]) (exS1.cache.getD []) = false := by decide
example : exS2.execs = 2 ∧ (exS2.fs ["f"]).isSome = true := by decide
example : (run exU false (exBody 8) exS2).2.isReplay = true := by decide
/-- a new member below the returned Dir invalidates, too -/
example : (run exU false (exBody 8) { exS2 with fs := exS2.fs.write ["d", "a"] [] 3 }).2.isReplay = false := by decide

/-- Remark (not demanded by the property, which only forbids replaying an *invalid* result): with
`check_valid="shallow"` the lookup takes the CallNode created last, and re-creating an *older* result refreshes no
timestamp — after  run; add a member; run; remove it; run  every further run re-executes although nothing changes.
`run_again_replays` is therefore stated for the default mode only. -/
def exDirBody : Body Empty := writerBody [] [some (.dir .plain ["d"])] 0
def exT0 : St := (run exU true exDirBody ⟨FS.empty, none, [], 0⟩).1
def exT1 : St := (run exU true exDirBody { exT0 with fs := exT0.fs.write ["d", "a"] [] 3 }).1
def exT2 : St := (run exU true exDirBody { exT1 with fs := exT1.fs.remove ["d", "a"] }).1
theorem shallow_rerun_remark :
    exT2.execs = 3 ∧ (run exU true exDirBody exT2).2.isReplay = false ∧
    (run exU true exDirBody (run exU true exDirBody exT2).1).1.execs = 5 := by decide
/-- chain: the consumer's answer follows the re-executed upstream result -/
def exC1 : CSt := (runChain exU false (exBody 5) ⟨⟨FS.empty, none, [], 0⟩, [], 0⟩).1
example : (runChain exU false (exBody 6) exC1).2.2 = some (false, [2, 0, 0]) := by decide
example : (runChain exU false (exBody 6) { exC1 with base := { exC1.base with fs := exC1.base.fs.write ["d", "a"] [] 3 } }).2.2
    = some (true, [2, 0, 1]) := by decide
end Examples

end RedunModel.C04
