/-
C34 — Tag values survive display and re-parsing.

Model: `RedunModel.Model.TagValue` (`parse` = `parse_tag_value`, `format` = `format_tag_value` with the
proposed repair, `formatOld` = the code before the repair, `parseKeyValue` = `parse_tag_key_value`).
`int()`, `float()`, `json.loads`, `json.dumps` are parameters; `LexLaws` lists what is assumed of them (each law
is exercised against the real functions by the harness on every run).
-/
import RedunModel.Model.TagValue
namespace RedunModel.C34
open RedunModel.TagValue

variable {F C : Type}

/-- What the proofs assume of Python's `int`, `float` and `json` on JSON-compatible values. -/
structure LexLaws (L : Lex F C) : Prop where
  dumps_null : L.dumps .null = sNull
  dumps_true : L.dumps (.bool true) = sTrue
  dumps_false : L.dumps (.bool false) = sFalse
  /-- `int("null")`, `float("true")`, … raise `ValueError` -/
  null_not_int : L.pyInt sNull = none
  true_not_int : L.pyInt sTrue = none
  false_not_int : L.pyInt sFalse = none
  null_not_float : L.pyFloat sNull = none
  true_not_float : L.pyFloat sTrue = none
  false_not_float : L.pyFloat sFalse = none
  /-- `json.dumps(z)` is a non-empty text not starting with `[`, `{`, `"` which `int()` reads back -/
  dumps_int : ∀ z : Int, L.dumps (.int z) ≠ [] ∧ startsBracket (L.dumps (.int z)) = false ∧
    L.pyInt (L.dumps (.int z)) = some z
  /-- `json.dumps(f)` (= `repr(f)`) is rejected by `int()` and read back by `float()` -/
  dumps_float : ∀ f : F, L.dumps (.float f) ≠ [] ∧ startsBracket (L.dumps (.float f)) = false ∧
    L.pyInt (L.dumps (.float f)) = none ∧ L.pyFloat (L.dumps (.float f)) = some f
  /-- `json.dumps(str)` starts with `"` and `json.loads` reads it back -/
  dumps_str : ∀ s : Str, startsBracket (L.dumps (.str s)) = true ∧ L.loads (L.dumps (.str s)) = some (.str s)
  /-- `json.dumps(list | dict, sort_keys=True)` starts with `[` / `{` and `json.loads` reads it back (`==`) -/
  dumps_compound : ∀ c : C, startsBracket (L.dumps (.compound c)) = true ∧
    L.loads (L.dumps (.compound c)) = some (.compound c)

theorem startsBracket_ne_nil {s : Str} (h : startsBracket s = true) : s ≠ [] := by
  intro e; subst e; simp [startsBracket] at h

/-- Text that does not start with `[`, `{`, `"` always parses (no `ValueError`). -/
theorem parse_total_nonbracket (L : Lex F C) (s : Str) (h : startsBracket s = false) :
    ∃ p, parse L s = .ok p := by
  unfold parse
  by_cases e : s = []
  · simp [e]
  · simp only [e, if_false, h]
    cases L.pyInt s with
    | some z => exact ⟨_, rfl⟩
    | none =>
      cases L.pyFloat s with
      | some f => exact ⟨_, rfl⟩
      | none =>
        cases (str2literal s : Option (JV F C)) with
        | some v => exact ⟨_, rfl⟩
        | none => exact ⟨_, rfl⟩

theorem str2literal_not_str (s : Str) (p : JV F C) (h : str2literal s = some p) : isStr p = false := by
  unfold str2literal at h
  split at h
  · cases h; rfl
  · split at h
    · cases h; rfl
    · split at h
      · cases h; rfl
      · cases h

/-- If un-bracketed text parses to a string, that string is the text itself. -/
theorem parse_isStr (L : Lex F C) (s : Str) (p : JV F C) (hb : startsBracket s = false)
    (hp : parse L s = .ok p) (hs : isStr p = true) : p = .str s := by
  unfold parse at hp
  by_cases e : s = []
  · simp [e] at hp; subst hp; simp [isStr] at hs
  · simp only [e, if_false, hb] at hp
    cases hi : L.pyInt s with
    | some z => simp [hi] at hp; subst hp; simp [isStr] at hs
    | none =>
      cases hf : L.pyFloat s with
      | some f => simp [hi, hf] at hp; subst hp; simp [isStr] at hs
      | none =>
        cases hl : (str2literal s : Option (JV F C)) with
        | some v =>
          simp [hi, hf, hl] at hp; subst hp
          rw [str2literal_not_str s v hl] at hs; cases hs
        | none => simp [hi, hf, hl] at hp; exact hp.symm

/-- The string branch of `parse_tag_value` is the identity: a non-empty text that does not start with `[`, `{`, `"` and
is rejected by `int()`, `float()` and the literal table is returned unchanged — code point by code point (the model text
is the list of code points; no normalisation, folding or stripping).  The harness checks the same statement on the real
function for every generated text. -/
theorem parse_string_identity (L : Lex F C) (s : Str) (h0 : s ≠ []) (hb : startsBracket s = false)
    (hi : L.pyInt s = none) (hf : L.pyFloat s = none) (hl : (str2literal s : Option (JV F C)) = none) :
    parse L s = .ok (.str s) := by
  simp [parse, h0, hb, hi, hf, hl]

/-- non-vacuity: a decomposed `é` after `caf` in the toy-free setting of any `L` rejecting it -/
example (L : Lex F C) (hi : L.pyInt ['e', '\u0301'] = none) (hf : L.pyFloat ['e', '\u0301'] = none) :
    parse L ['e', '\u0301'] = .ok (.str ['e', '\u0301']) :=
  parse_string_identity L _ (by simp) (by simp [startsBracket]) hi hf (by simp [str2literal, sTrue, sFalse, sNull])

/-- JSON display of any value parses back to the value. -/
theorem parse_dumps (L : Lex F C) (h : LexLaws L) (v : JV F C) : parse L (L.dumps v) = .ok v := by
  cases v with
  | null =>
    rw [h.dumps_null]; unfold parse
    have e1 : sNull ≠ [] := by decide
    have e2 : startsBracket sNull = false := by decide
    have e3 : (str2literal sNull : Option (JV F C)) = some .null := by simp [str2literal, sNull, sTrue, sFalse]
    simp only [e1, e2, if_false, h.null_not_int, h.null_not_float, e3, Bool.false_eq_true]
  | bool b =>
    cases b
    · rw [h.dumps_false]; unfold parse
      have e1 : sFalse ≠ [] := by decide
      have e2 : startsBracket sFalse = false := by decide
      have e3 : (str2literal sFalse : Option (JV F C)) = some (.bool false) := by simp [str2literal, sTrue, sFalse]
      simp only [e1, e2, if_false, h.false_not_int, h.false_not_float, e3, Bool.false_eq_true]
    · rw [h.dumps_true]; unfold parse
      have e1 : sTrue ≠ [] := by decide
      have e2 : startsBracket sTrue = false := by decide
      have e3 : (str2literal sTrue : Option (JV F C)) = some (.bool true) := by simp [str2literal]
      simp only [e1, e2, if_false, h.true_not_int, h.true_not_float, e3, Bool.false_eq_true]
  | int z =>
    have ⟨h1, h2, h3⟩ := h.dumps_int z
    simp [parse, h1, h2, h3]
  | float f =>
    have ⟨h1, h2, h3, h4⟩ := h.dumps_float f
    simp [parse, h1, h2, h3, h4]
  | str s =>
    have ⟨h1, h2⟩ := h.dumps_str s
    simp [parse, startsBracket_ne_nil h1, h1, h2]
  | compound c =>
    have ⟨h1, h2⟩ := h.dumps_compound c
    simp [parse, startsBracket_ne_nil h1, h1, h2]

/-- **Display never fails** (full strength: every JSON-compatible value; no law needed). -/
theorem total (L : Lex F C) (v : JV F C) : ∃ t, format L v = .ok t := by
  cases v with
  | str s =>
    unfold format
    by_cases h1 : hasSpaceComma s = true
    · exact ⟨L.dumps (.str s), by simp [h1]⟩
    · by_cases h2 : startsBracket s = true
      · exact ⟨L.dumps (.str s), by simp [h1, h2]⟩
      · simp only [h1, h2, if_false, Bool.false_eq_true]
        have ⟨p, hp⟩ := parse_total_nonbracket L s (by simpa using h2)
        rw [hp]
        by_cases h3 : isStr p = true
        · exact ⟨s, by simp [h3]⟩
        · exact ⟨L.dumps (.str s), by simp [h3]⟩
  | null => exact ⟨_, rfl⟩
  | bool b => exact ⟨_, rfl⟩
  | int z => exact ⟨_, rfl⟩
  | float f => exact ⟨_, rfl⟩
  | compound c => exact ⟨_, rfl⟩

/-- **Round trip** (full strength): the displayed text parses back to the original value — for every value,
in particular for strings that look like numbers, literals or JSON. -/
theorem roundtrip (L : Lex F C) (h : LexLaws L) (v : JV F C) :
    ∃ t, format L v = .ok t ∧ parse L t = .ok v := by
  cases v with
  | str s =>
    unfold format
    by_cases h1 : hasSpaceComma s = true
    · exact ⟨L.dumps (.str s), by simp [h1], parse_dumps L h _⟩
    · by_cases h2 : startsBracket s = true
      · exact ⟨L.dumps (.str s), by simp [h1, h2], parse_dumps L h _⟩
      · simp only [h1, h2, if_false, Bool.false_eq_true]
        have hb : startsBracket s = false := by simpa using h2
        have ⟨p, hp⟩ := parse_total_nonbracket L s hb
        rw [hp]
        by_cases h3 : isStr p = true
        · refine ⟨s, by simp [h3], ?_⟩
          rw [hp, parse_isStr L s p hb hp h3]
        · exact ⟨L.dumps (.str s), by simp [h3], parse_dumps L h _⟩
  | null => exact ⟨_, rfl, parse_dumps L h _⟩
  | bool b => exact ⟨_, rfl, parse_dumps L h _⟩
  | int z => exact ⟨_, rfl, parse_dumps L h _⟩
  | float f => exact ⟨_, rfl, parse_dumps L h _⟩
  | compound c => exact ⟨_, rfl, parse_dumps L h _⟩

/-- Strings stay strings, whatever they look like. -/
theorem strings_stay_strings (L : Lex F C) (h : LexLaws L) (s : Str) :
    ∃ t, format L (.str s) = .ok t ∧ parse L t = .ok (.str s) := roundtrip L h (.str s)

/-! ### `key=value` -/

theorem splitEq_append (k v : Str) (hk : '=' ∉ k) : splitEq (k ++ '=' :: v) = some (k, v) := by
  induction k with
  | nil => simp [splitEq]
  | cons c t ih =>
    have hc : (c == '=') = false := by
      simp only [List.mem_cons, not_or] at hk
      simp [Ne.symm hk.1]
    simp only [List.mem_cons, not_or] at hk
    simp [splitEq, hc, ih hk.2]

/-- A displayed `key=value` pair parses back to the key and the value (key non-empty, without `=`). -/
theorem key_value_roundtrip (L : Lex F C) (h : LexLaws L) (k : Str) (v : JV F C) (req : Bool)
    (hk : k ≠ []) (he : '=' ∉ k) :
    ∃ t, format L v = .ok t ∧ parseKeyValue L (k ++ '=' :: t) req = .ok (k, some v) := by
  have ⟨t, ht, hp⟩ := roundtrip L h v
  refine ⟨t, ht, ?_⟩
  unfold parseKeyValue
  have : k ++ '=' :: t ≠ [] := by cases k <;> simp at hk ⊢
  simp [this, splitEq_append k t he, hk, hp]

/-! ### the code before the repair -/

/-- `format_tag_value('[abc')` raises (before the repair): `parse_tag_value` is called on the raw string,
and `[abc` is not valid JSON. -/
theorem formatOld_refuted_raises (L : Lex F C) (hl : L.loads ['[', 'a', 'b', 'c'] = none) :
    formatOld L (.str ['[', 'a', 'b', 'c']) = .error .valueError := by
  simp [formatOld, hasSpaceComma, parse, startsBracket, hl]

/-- `'"abc"'` is displayed raw (before the repair) and read back as `abc`. -/
theorem formatOld_refuted_quoted (L : Lex F C)
    (hl : L.loads ['"', 'a', 'b', 'c', '"'] = some (.str ['a', 'b', 'c'])) :
    formatOld L (.str ['"', 'a', 'b', 'c', '"']) = .ok ['"', 'a', 'b', 'c', '"'] ∧
    parse L ['"', 'a', 'b', 'c', '"'] = .ok (.str ['a', 'b', 'c']) ∧
    (JV.str ['a', 'b', 'c'] : JV F C) ≠ .str ['"', 'a', 'b', 'c', '"'] := by
  refine ⟨?_, ?_, ?_⟩
  · simp [formatOld, hasSpaceComma, parse, startsBracket, hl, isStr]
  · simp [parse, startsBracket, hl]
  · simp

/-- Before the repair the round trip holds for every value that is not a string starting with `[`, `{`, `"`. -/
theorem formatOld_partial (L : Lex F C) (h : LexLaws L) (v : JV F C)
    (hv : ∀ s, v = .str s → startsBracket s = false) :
    ∃ t, formatOld L v = .ok t ∧ parse L t = .ok v := by
  have : formatOld L v = format L v := by
    cases v with
    | str s => simp [formatOld, format, hv s rfl]
    | _ => rfl
  rw [this]; exact roundtrip L h v

/-! ### the laws are consistent: a toy instance (no floats, no compounds; ints in sign-unary) -/

def toyL : Lex Empty Empty where
  pyInt := fun s => match s with
    | '+' :: r => if r.all (· == '1') then some (r.length : Int) else none
    | '-' :: r => if r.all (· == '1') && r ≠ [] then some (-(r.length : Int)) else none
    | _ => none
  pyFloat := fun _ => none
  loads := fun s => match s with
    | '"' :: r => some (.str r)
    | _ => none
  dumps := fun v => match v with
    | .null => sNull
    | .bool true => sTrue
    | .bool false => sFalse
    | .int z => if z ≥ 0 then '+' :: List.replicate z.toNat '1' else '-' :: List.replicate (-z).toNat '1'
    | .str s => '"' :: s

theorem toyLaws : LexLaws toyL where
  dumps_null := rfl
  dumps_true := rfl
  dumps_false := rfl
  null_not_int := by decide
  true_not_int := by decide
  false_not_int := by decide
  null_not_float := rfl
  true_not_float := rfl
  false_not_float := rfl
  dumps_int := by
    intro z
    by_cases hz : z ≥ 0
    · simp only [toyL, hz, if_true]
      refine ⟨by simp, by simp [startsBracket], ?_⟩
      simp
      omega
    · simp only [toyL, hz, if_false]
      refine ⟨by simp, by simp [startsBracket], ?_⟩
      have : (-z).toNat ≠ 0 := by omega
      simp [this]
      omega
  dumps_float := fun f => nomatch f
  dumps_str := by intro s; simp [toyL, startsBracket]
  dumps_compound := fun c => nomatch c

/-- non-vacuity: the round trip instantiated — `"12"` (a string that looks like a number) is displayed quoted. -/
example : ∃ t, format toyL (.str ['+', '1', '1']) = .ok t ∧ parse toyL t = .ok (.str ['+', '1', '1']) :=
  roundtrip toyL toyLaws _

end RedunModel.C34
