/-
C26 — Context is inherited and overridden as documented.

Property theorems only; helper lemmas live in `RedunModel.Lemmas.Context`.
Model: `RedunModel.Model.Context` (`mergeDicts` = `redun.utils.merge_dicts` as written, `jobContext` =
`Job.get_context`, `execContext` = the root context built in `Scheduler.run`, `updateContext` =
`Task.update_context`, `getPath`/`getContextValue` = `redun.context.get_context_value`).
`deepMerge` is the specification "later keys win, nested mappings merged".
`Ctx.WF` (keys unique at every level) is what a Python `dict` guarantees; it is not a restriction.
-/
import RedunModel.Lemmas.Context
namespace RedunModel.C26
open RedunModel.Context

/-- The code's n-ary grouping algorithm, on two arguments, is the binary deep merge. Full strength:
all contexts of any depth and width, non-mappings anywhere. -/
theorem binary_is_deepMerge (a b : Ctx) (ha : a.WF) (hb : b.WF) : mergeDicts [a, b] = deepMerge a b :=
  mergeDicts_binary a b ha hb

/-- Merging keeps keys unique (so the induction down the job tree goes through). -/
theorem deepMerge_wf (a b : Ctx) (ha : a.WF) (hb : b.WF) : (deepMerge a b).WF :=
  Context.deepMerge_wf a b ha hb

/-- The merged mapping as a finite map — independent of the key order of either side:
a key present on both sides gets the recursively merged value, otherwise the side that has it. -/
theorem merge_lookup (da db : List (String × Ctx)) (k : String) :
    (items (deepMerge (.obj da) (.obj db))).lookup k =
      match da.lookup k, db.lookup k with
      | some v, some w => some (deepMerge v w)
      | some v, none => some v
      | none, some w => some w
      | none, none => none := lookup_deepMerge da db k

/-- "Later wins" for anything that is not a pair of mappings. -/
theorem merge_nonmapping_right (a : Ctx) (w : String) : deepMerge a (.leaf w) = .leaf w := by
  cases a <;> simp [deepMerge]
theorem merge_nonmapping_left (v : String) (b : Ctx) : deepMerge (.leaf v) b = b := by
  simp [deepMerge]

/-- The root (execution) context is the configured context deep-merged with the context passed to `run`. -/
theorem root_context (config run : Ctx) (hc : config.WF) (hr : run.WF) :
    execContext config run = deepMerge config run := mergeDicts_binary config run hc hr

theorem execContext_wf (config run : Ctx) (hc : config.WF) (hr : run.WF) : (execContext config run).WF := by
  rw [root_context config run hc hr]; exact Context.deepMerge_wf _ _ hc hr

/-- A job's context is the fold of `deepMerge` over the overrides on its ancestor chain (the list holds the
job's own override first, the root job's last), starting from the execution context.  Induction over the
chain: any depth of the job tree. -/
theorem job_context (execCtx : Ctx) (chain : List Ctx) (he : execCtx.WF) (hc : ∀ o ∈ chain, o.WF) :
    jobContext execCtx chain = chain.foldr (fun o acc => deepMerge acc o) execCtx ∧
    (jobContext execCtx chain).WF := by
  induction chain with
  | nil => exact ⟨rfl, he⟩
  | cons o t ih =>
    have ⟨e, w⟩ := ih (fun x hx => hc x (List.mem_cons_of_mem _ hx))
    have ho := hc o (by simp)
    simp only [jobContext, List.foldr_cons]
    rw [mergeDicts_binary _ _ w ho, e]
    exact ⟨rfl, e ▸ Context.deepMerge_wf _ _ w ho⟩

/-- One step: a job's context is its parent's context deep-merged with the override of that call. -/
theorem job_context_step (execCtx o : Ctx) (ancestors : List Ctx) (he : execCtx.WF)
    (hc : ∀ x ∈ o :: ancestors, x.WF) :
    jobContext execCtx (o :: ancestors) = deepMerge (jobContext execCtx ancestors) o := by
  have ⟨_, w⟩ := job_context execCtx ancestors he (fun x hx => hc x (List.mem_cons_of_mem _ hx))
  simp only [jobContext]
  exact mergeDicts_binary _ _ w (hc o (by simp))

/-- A call without `update_context` (override `{}`) inherits the parent's context unchanged. -/
theorem job_context_no_override (kvs : List (String × Ctx)) (h : (Ctx.obj kvs).WF) :
    mergeDicts [.obj kvs, .obj []] = .obj kvs := by
  rw [mergeDicts_binary _ _ h (by simp [Ctx.WF, wfKvs]), deepMerge, mergeKvs_eq_map]
  simp only [List.lookup, List.filter_nil, List.append_nil]
  simp

/-! ### key order is irrelevant: contexts as finite maps from paths to values -/

/-- The merged context, read as a function from dotted paths to values (`sem`: nothing / a mapping / the
non-mapping value), is a function (`mergeSem`) of the two contexts read the same way.  No hypothesis. -/
theorem merge_as_path_function (a b : Ctx) (ps : List String) :
    sem (deepMerge a b) ps = mergeSem (sem a) (sem b) ps := sem_deepMerge ps a b

/-- Hence contexts that agree on every path merge to contexts that agree on every path: the key order of
either side, at any depth, is irrelevant. -/
theorem key_order_irrelevant (a a' b b' : Ctx) (ha : ExtEq a a') (hb : ExtEq b b') :
    ExtEq (deepMerge a b) (deepMerge a' b') := deepMerge_extEq a a' b b' ha hb

/-- Reordering the keys of a mapping gives a context that agrees on every path … -/
theorem reorder_extEq (kvs kvs' : List (String × Ctx)) (hn : (kvs.map (·.1)).Nodup) (hp : kvs.Perm kvs') :
    ExtEq (.obj kvs) (.obj kvs') := extEq_of_perm kvs kvs' hn hp

/-- … and `get_context_value` on agreeing contexts finds agreeing values / the default in the same cases. -/
theorem lookup_respects_extEq (a b : Ctx) (h : ExtEq a b) (ps : List String) :
    match getPath a ps, getPath b ps with
    | some x, some y => ExtEq x y
    | none, none => True
    | _, _ => False := extEq_getPath a b h ps

/-- non-vacuity: `{a:1, b:{x:2}}` and `{b:{x:2}, a:1}` agree on every path -/
example : ExtEq (.obj [("a", .leaf "1"), ("b", .obj [("x", .leaf "2")])])
    (.obj [("b", .obj [("x", .leaf "2")]), ("a", .leaf "1")]) :=
  reorder_extEq _ _ (by simp) (List.Perm.swap _ _ _)

/-! ### `Task.update_context(context, **kwargs)` -/

theorem mergeDicts_three_left_empty (c k : List (String × Ctx)) :
    mergeDicts [.obj [], .obj c, .obj k] = mergeDicts [.obj c, .obj k] := by
  rw [mergeDicts_pair_obj, mergeDicts]; simp [isObj, items]

theorem mergeDicts_three_right_empty (p c : List (String × Ctx)) :
    mergeDicts [.obj p, .obj c, .obj []] = mergeDicts [.obj p, .obj c] := by
  rw [mergeDicts_pair_obj, mergeDicts]; simp [isObj, items]

/-- First `update_context(ctx, **kw)` on a task (no previous override): the stored override is
`ctx` deep-merged with the keyword arguments. -/
theorem update_context_first (c k : List (String × Ctx)) (hc : (Ctx.obj c).WF) (hk : (Ctx.obj k).WF) :
    updateContext (.obj []) (.obj c) (.obj k) = deepMerge (.obj c) (.obj k) := by
  rw [updateContext, mergeDicts_three_left_empty, mergeDicts_binary _ _ hc hk]

/-- Chained `update_context(ctx)` (no keyword arguments): previous override deep-merged with `ctx`. -/
theorem update_context_chained (p c : List (String × Ctx)) (hp : (Ctx.obj p).WF) (hc : (Ctx.obj c).WF) :
    updateContext (.obj p) (.obj c) (.obj []) = deepMerge (.obj p) (.obj c) := by
  rw [updateContext, mergeDicts_three_right_empty, mergeDicts_binary _ _ hp hc]

/-! chains of `update_context` / `partial` / `options` on the called task -/

theorem deepMerge_obj_obj (p c : List (String × Ctx)) : ∃ m, deepMerge (.obj p) (.obj c) = .obj m := by
  simp [deepMerge]

theorem chain_aux (cs : List (List (String × Ctx))) : ∀ p : List (String × Ctx), (Ctx.obj p).WF →
    (∀ c ∈ cs, (Ctx.obj c).WF) →
    (cs.map fun c => ((Ctx.obj c, Ctx.obj []) : Ctx × Ctx)).foldl (fun prev s => updateContext prev s.1 s.2) (.obj p)
      = cs.foldl (fun acc c => deepMerge acc (.obj c)) (.obj p) := by
  induction cs with
  | nil => intro p _ _; rfl
  | cons c t ih =>
    intro p hp hc
    have hcw := hc c (by simp)
    simp only [List.map_cons, List.foldl_cons]
    rw [update_context_chained p c hp hcw]
    obtain ⟨m, hm⟩ := deepMerge_obj_obj p c
    rw [hm]
    exact ih m (hm ▸ Context.deepMerge_wf _ _ hp hcw) (fun x hx => hc x (List.mem_cons_of_mem _ hx))

/-- The override a call carries after a chain of `update_context(c₁)…update_context(cₙ)` (with `partial` / `options`
anywhere in between) is the deep merge of ALL the overrides, in order: no earlier override is dropped. -/
theorem override_of_chain (cs : List (List (String × Ctx))) (hc : ∀ c ∈ cs, (Ctx.obj c).WF) :
    overrideOfChain (cs.map fun c => (Ctx.obj c, Ctx.obj [])) = cs.foldl (fun acc c => deepMerge acc (.obj c)) (.obj []) :=
  chain_aux cs [] (by simp [Ctx.WF, wfKvs]) hc

/-- the regression input: `update_context(p=1)`, then (after `.partial()`) `update_context(q=2)` keeps `p` -/
example : overrideOfChain [(.obj [("p", .leaf "1")], .obj []), (.obj [("q", .leaf "2")], .obj [])]
    = .obj [("p", .leaf "1"), ("q", .leaf "2")] := by
  rw [show [(Ctx.obj [("p", .leaf "1")], Ctx.obj []), (Ctx.obj [("q", .leaf "2")], Ctx.obj [])]
      = [[("p", Ctx.leaf "1")], [("q", Ctx.leaf "2")]].map (fun c => (Ctx.obj c, Ctx.obj [])) from rfl,
    override_of_chain _ (by intro c hc; simp at hc; rcases hc with e | e <;> subst e <;> simp [Ctx.WF, wfKvs])]
  simp [deepMerge, mergeKvs, List.lookup]

/-- Remark (not part of the property statement): with three arguments `merge_dicts` is *not* the left fold
of the binary merge when a non-mapping sits between mappings — `[{k:5}, {k:{x:1}}, {k:{y:2}}]` gives
`{k:{y:2}}`, the fold gives `{k:{x:1,y:2}}`.  Reachable only through a single
`update_context(ctx, **kwargs)` call that has a previous override, `ctx` and `kwargs` all defining `k`. -/
theorem nary_note :
    mergeDicts [.obj [("k", .leaf "5")], .obj [("k", .obj [("x", .leaf "1")])], .obj [("k", .obj [("y", .leaf "2")])]]
      = .obj [("k", .obj [("y", .leaf "2")])] ∧
    deepMerge (deepMerge (.obj [("k", .leaf "5")]) (.obj [("k", .obj [("x", .leaf "1")])]))
        (.obj [("k", .obj [("y", .leaf "2")])])
      = .obj [("k", .obj [("x", .leaf "1"), ("y", .leaf "2")])] := by
  constructor
  · rw [mergeDicts]; simp [isObj, items, keyOrder, valuesFor]; rw [mergeDicts]; simp [isObj]
  · simp [deepMerge, mergeKvs, List.lookup]

/-! ### `get_context_value` -/

/-- What "the value at the dotted path" means: a chain of mappings, each containing the next segment. -/
inductive PathTo : Ctx → List String → Ctx → Prop
  | here (c : Ctx) : PathTo c [] c
  | step {kvs : List (String × Ctx)} {k : String} {v r : Ctx} {ps : List String} :
      (k, v) ∈ kvs → PathTo v ps r → PathTo (.obj kvs) (k :: ps) r

/-- `get_context_value` finds exactly the value at the path (every segment — including an empty one —
must be a key of a mapping; a non-mapping in the middle ends the search). -/
theorem lookup_spec (c : Ctx) (hc : c.WF) (ps : List String) (r : Ctx) :
    getPath c ps = some r ↔ PathTo c ps r := by
  induction ps generalizing c with
  | nil =>
    simp only [getPath, Option.some.injEq]
    constructor
    · intro h; subst h; exact .here c
    · intro h; cases h; rfl
  | cons p ps ih =>
    cases c with
    | leaf v =>
      simp only [getPath]
      constructor
      · intro h; cases h
      · intro h; cases h
    | obj kvs =>
      simp only [Ctx.WF] at hc
      simp only [getPath]
      constructor
      · intro h
        cases hl : kvs.lookup p with
        | none => simp [hl] at h
        | some v =>
          simp only [hl] at h
          have hm := mem_of_lookup hl
          exact .step hm ((ih v (wf_of_mem hc.1 hm)).mp h)
      · intro h
        cases h with
        | step hm hr =>
          rename_i v
          have := lookup_of_mem_nodup kvs hc.2 (p, v) hm
          simp only [] at this
          rw [this]
          exact (ih v (wf_of_mem hc.1 hm)).mpr hr

/-- … and otherwise the default: a missing segment or a non-mapping on the way. -/
theorem lookup_default (c : Ctx) (hc : c.WF) (path : String) (d : Ctx)
    (h : ¬ ∃ r, PathTo c (path.splitOn ".") r) : getContextValue c path d = d := by
  unfold getContextValue
  cases hg : getPath c (path.splitOn ".") with
  | none => rfl
  | some r => exact absurd ⟨r, (lookup_spec c hc _ r).mp hg⟩ h

theorem lookup_found (c : Ctx) (hc : c.WF) (path : String) (d r : Ctx)
    (h : PathTo c (path.splitOn ".") r) : getContextValue c path d = r := by
  unfold getContextValue
  rw [(lookup_spec c hc _ r).mpr h]

/-- The two ways a lookup fails, spelled out. -/
theorem lookup_fails_nonmapping (v : String) (p : String) (ps : List String) : getPath (.leaf v) (p :: ps) = none := rfl
theorem lookup_fails_missing (kvs : List (String × Ctx)) (p : String) (ps : List String)
    (h : p ∉ kvs.map (·.1)) : getPath (.obj kvs) (p :: ps) = none := by
  simp [getPath, (lookup_none_iff p kvs).mpr h]

/-- A value stored under a falsy-looking leaf is still found (the default is not substituted);
an empty path segment is an ordinary key. -/
example : getPath (.obj [("a", .obj [("b", .leaf "0")])]) ["a", "b"] = some (.leaf "0") := by
  simp [getPath, List.lookup]
example : getPath (.obj [("a", .obj [("", .leaf "false")])]) ["a", ""] = some (.leaf "false") := by
  simp [getPath, List.lookup]
example : PathTo (.obj [("a", .obj [("b", .leaf "0")])]) ["a", "b"] (.leaf "0") :=
  .step (v := .obj [("b", .leaf "0")]) (by simp) (.step (v := .leaf "0") (by simp) (.here _))

/-- non-vacuity of the well-formedness hypotheses: a nested override over a nested context -/
example : mergeDicts [.obj [("a", .obj [("x", .leaf "1"), ("y", .leaf "2")]), ("b", .leaf "3")],
                      .obj [("c", .leaf "4"), ("a", .obj [("y", .leaf "5")])]]
    = .obj [("a", .obj [("x", .leaf "1"), ("y", .leaf "5")]), ("b", .leaf "3"), ("c", .leaf "4")] := by
  rw [binary_is_deepMerge _ _ (by simp [Ctx.WF, wfKvs]) (by simp [Ctx.WF, wfKvs])]
  simp [deepMerge, mergeKvs, List.lookup]

end RedunModel.C26
