/-
C25 — Handle lineage and rollback follow the state model; an invalidated state is never replayed.

Property theorems only; helper lemmas live in `RedunModel.Lemmas.Handles` (and `…HandlesChain`).
Model: `RedunModel.Model.Handles`.  `fixed = true` is the backend repaired by
harness/findings_proposed/C25-*.fix.diff, `fixed = false` the backend as it was.

Full-strength statement (the property text): for ANY sequence of advances and rollbacks a state is valid
exactly when the reference lineage model says so — `matches_spec`, proved for the repaired backend.  For the
backend as it was the statement is false: `current_refuted_raw`, `current_refuted_fork_edge` are closed
counter-examples (both replayed on the real code by the check), and `current_matches_spec_partial` is what
remains true of it.
-/
import RedunModel.Lemmas.HandlesChain
namespace RedunModel.C25
open RedunModel.Handles

set_option linter.unusedSectionVars false
variable {H : Type} [DecidableEq H]

/-- `rollback_handle`'s descendant search always ends within its fuel — for both variants, from any state. -/
theorem run_total (fixed : Bool) (st : St H) (ops : List (Op H)) : ∃ st', run fixed st ops = .ok st' := by
  induction ops generalizing st with
  | nil => exact ⟨st, rfl⟩
  | cons op ops ih =>
    cases op with
    | advance ps c =>
      obtain ⟨st', h⟩ := ih (st.advance fixed ps c)
      exact ⟨st', by simp only [run, St.step, h]⟩
    | rollback h =>
      obtain ⟨res, hrb, _⟩ := rollback_spec fixed st h
      obtain ⟨st', h'⟩ := ih { st with rows := st.rows.map fun r => if r.hash ∈ res then { r with valid := false } else r }
      exact ⟨st', by simp only [run, St.step, hrb]; exact h'⟩

/-- **The property, full strength (repaired backend).**  For every history of `advance_handle` (any number of
parents, unrecorded fork chains) and `rollback_handle` calls whose handles carry the fullname their hash
determines and relate handles of one fullname per call, the run succeeds and a state is valid — as answered by
`is_valid_handle` — exactly when the reference lineage model says so. -/
theorem matches_spec (nm : H → String) (ops : List (Op H)) (hwf : ∀ op ∈ ops, WFOp nm op) :
    ∃ st, run true ({} : St H) ops = .ok st ∧ ∀ x, st.isValid x = true ↔ (Spec.run Spec.init ops).valid x := by
  obtain ⟨st, h, hi⟩ := run_refines nm {} Spec.init ops (ri_init nm) hwf
  exact ⟨st, h, hi.valid⟩

theorem run_append (fixed : Bool) (st : St H) (ops1 ops2 : List (Op H)) :
    run fixed st (ops1 ++ ops2) = (match run fixed st ops1 with | .ok st1 => run fixed st1 ops2 | .error e => .error e) := by
  induction ops1 generalizing st with
  | nil => simp [run]
  | cons op ops ih =>
    simp only [List.cons_append, run]
    cases st.step fixed op with
    | ok st1 => exact ih st1
    | error e => rfl

theorem spec_run_append (sp : Spec H) (ops1 ops2 : List (Op H)) :
    Spec.run sp (ops1 ++ ops2) = Spec.run (Spec.run sp ops1) ops2 := by
  induction ops1 generalizing sp with
  | nil => rfl
  | cons op ops ih => simp only [List.cons_append, Spec.run]; exact ih _

/-- Rolling back to a state invalidates every state derived from it — through any chain of recorded lineage
edges, whatever the validity of the states in between — and nothing else. -/
theorem rollback_invalidates_descendants (nm : H → String) (ops : List (Op H)) (h : HRef H)
    (hwf : ∀ op ∈ ops, WFOp nm op) (hh : h.name = nm h.hash) (st st' : St H)
    (h1 : run true ({} : St H) ops = .ok st) (h2 : run true ({} : St H) (ops ++ [.rollback h]) = .ok st') (y : H) :
    st'.isValid y = true ↔ st.isValid y = true ∧ ¬ Desc (Spec.run Spec.init ops).edges h.hash y := by
  obtain ⟨sa, ha, hia⟩ := run_refines nm {} Spec.init ops (ri_init nm) hwf
  obtain ⟨sb, hb, hib⟩ := run_refines nm {} Spec.init (ops ++ [.rollback h]) (ri_init nm) (by
    intro op hop
    rcases List.mem_append.1 hop with h' | h'
    · exact hwf op h'
    · simp at h'; subst h'; exact hh)
  rw [h1] at ha; cases ha
  rw [h2] at hb; cases hb
  rw [hib.valid y, hia.valid y, spec_run_append]
  simp [Spec.run, Spec.step]

/-- Deriving a state again makes it (and the parents it is derived from) valid again — both variants. -/
theorem rederive_revalidates (fixed : Bool) (st : St H) (ps : List (Parent H)) (c : HRef H) :
    (st.advance fixed ps c).isValid c.hash = true ∧ ∀ p ∈ ps, (st.advance fixed ps c).isValid p.ref.hash = true := by
  simp only [isValid_eq, St.advance, validIn_foldl_touch, touchedRefs, List.map_append, List.map_cons, List.mem_append,
    List.mem_cons, List.map_map, List.mem_map]
  refine ⟨Or.inr (Or.inr (Or.inl trivial)), fun p hp => Or.inr (Or.inr (Or.inr ⟨p, hp, rfl⟩))⟩

/-- A state that was never recorded is not valid. -/
theorem unrecorded_invalid (st : St H) (x : H) (h : st.isValid x = true) : ∃ r ∈ st.rows, r.hash = x := by
  unfold St.isValid at h
  cases hf : st.rows.find? (fun r => decide (r.hash = x)) with
  | none => simp [hf] at h
  | some r =>
    have := List.find?_some hf
    exact ⟨r, List.mem_of_find?_eq_some hf, by simpa using this⟩

/-! ### the backend as it was: closed counter-examples (handle states named 0, 1, 2, …) -/

def ref (n : Nat) : HRef Nat := ⟨n, "h"⟩
def par (n : Nat) : Parent Nat := ⟨ref n, true, []⟩

/-- F18: `a→b→c→d`, rollback `a`, re-derive `d` from `c`, rollback `a` again. -/
def witnessRaw : List (Op Nat) :=
  [.advance [par 0] (ref 1), .advance [par 1] (ref 2), .advance [par 2] (ref 3), .rollback (ref 0),
   .advance [par 2] (ref 3), .rollback (ref 0)]

/-- `rollback_handle` only follows edges that leave a currently valid state: after the second rollback of `a`
the states `c`, `d` are still valid although the reference says they are derived from the rolled-back `a`. -/
theorem current_refuted_raw :
    (∃ st, run false ({} : St Nat) witnessRaw = .ok st ∧ st.isValid 2 = true ∧ st.isValid 3 = true) ∧
    ¬ (Spec.run Spec.init witnessRaw).valid 2 ∧ ¬ (Spec.run Spec.init witnessRaw).valid 3 ∧
    (∃ st, run true ({} : St Nat) witnessRaw = .ok st ∧ st.isValid 2 = false ∧ st.isValid 3 = false) := by
  refine ⟨⟨_, rfl, by decide, by decide⟩, ?_, ?_, ⟨_, rfl, by decide, by decide⟩⟩
  · intro h
    simp only [witnessRaw, Spec.run, Spec.step] at h
    apply h.2
    exact .step (b := 1) (.edge (by decide)) (by decide)
  · intro h
    simp only [witnessRaw, Spec.run, Spec.step] at h
    apply h.2
    exact .step (b := 2) (.step (b := 1) (.edge (by decide)) (by decide)) (by decide)

/-- A task forks its handle itself (`g = f.fork "x"`) and passes the fork on: `advance_handle([g], g')` records
the skipped fork parent `f` but not the edge `f → g`; rolling back `f` then leaves everything below `g` valid. -/
def witnessFork : List (Op Nat) :=
  [.advance [par 0] (ref 1),                                   -- a → f            (scheduler forks the argument)
   .advance [⟨ref 2, false, [ref 1, ref 0]⟩] (ref 3),          -- g → g'           (g = f.fork "x", unrecorded)
   .advance [par 3] (ref 4),                                   -- g' → r           (result of the inner task)
   .rollback (ref 1)]                                          -- the outer task is re-run: rollback f

theorem current_refuted_fork_edge :
    (∃ st, run false ({} : St Nat) witnessFork = .ok st ∧ st.isValid 4 = true) ∧
    ¬ (Spec.run Spec.init witnessFork).valid 4 ∧
    (∃ st, run true ({} : St Nat) witnessFork = .ok st ∧ st.isValid 4 = false) := by
  refine ⟨⟨_, rfl, by decide⟩, ?_, ⟨_, rfl, by decide⟩⟩
  intro h
  simp only [witnessFork, Spec.run, Spec.step] at h
  apply h.2
  exact .step (b := 3) (.step (b := 2) (.edge (by decide)) (by decide)) (by decide)

/-- non-vacuity of `matches_spec`: the two witnesses are well-formed histories -/
example : ∀ op ∈ witnessRaw ++ witnessFork, WFOp (fun _ : Nat => "h") op := by
  intro op hop
  simp only [witnessRaw, witnessFork, List.cons_append, List.nil_append, List.mem_cons, List.not_mem_nil, or_false] at hop
  rcases hop with rfl | rfl | rfl | rfl | rfl | rfl | rfl | rfl | rfl | rfl <;> simp [WFOp, ref, par]

/-- **Partial result for the backend as it was** (the full-strength statement is `matches_spec`; it is false of
this variant, see the two `current_refuted_*`): on every ancestor-closed state — a valid state's recorded parents
are valid — whose rows carry the fullname of their hash, the unrepaired `rollback_handle` leaves exactly the valid
set (and edges) the repaired one leaves, i.e. the reference's.  What is missing: states that are not
ancestor-closed (raw histories can produce them, `current_refuted_raw`) and unrecorded fork links. -/
theorem current_matches_spec_partial (nm : H → String) (st : St H) (hn : ∀ r ∈ st.rows, r.name = nm r.hash)
    (hc : Closed st) (h : HRef H) :
    ∃ s1 s2, st.rollback false h = .ok s1 ∧ st.rollback true h = .ok s2 ∧ s1.edges = s2.edges ∧
      ∀ x, s1.isValid x = s2.isValid x :=
  rollback_current_eq_fixed_of_closed nm st hn hc h

/-! ### the scheduler driving the backend -/

theorem closed_of_J {name k : String} {st : St HT} {cur : List String} (h : J name k st cur) : Closed st := by
  intro a b hab hb
  rcases h.edgeShape a b hab with ⟨p, rfl, rfl⟩ | ⟨p, t, rfl, rfl⟩
  · exact (h.parentFk p hb).1
  · exact (h.parentNode p t hb).1

/-- The way the scheduler calls the backend for chains of handle-writing tasks keeps every state ancestor-closed
(so `current_matches_spec_partial` applies to it) — after any history of executions, either variant. -/
theorem sched_preserves_closed (fixed : Bool) (name : String) (history : List (List String)) :
    ∃ w, runWorkflows fixed name {} history = .ok w ∧ Closed w.st := by
  obtain ⟨w, hw, hj⟩ := runWorkflows_spec fixed name history {} (J_init name "1")
  exact ⟨w, hw, closed_of_J hj⟩

/-- **No invalidated handle state is ever replayed.**  After any history of executions of chain workflows on
`Handle(name)` (any task lists: edits, reverts, shorter and longer chains), one more execution of the chain `ts`
succeeds, its result is a valid state, and the external system reflects exactly the requested chain `ts`: every
task whose cached result had been superseded was re-executed.  Holds for the repaired and for the unrepaired
backend. -/
theorem chain_no_stale_replay (fixed : Bool) (name : String) (history : List (List String)) (ts : List String) :
    ∃ w w' final ran, runWorkflows fixed name {} history = .ok w ∧
      runWorkflow fixed w name ts = .ok (w', final, ran) ∧ ts <+: w'.ext ∧ (ts = [] ∨ w'.st.isValid final = true) := by
  obtain ⟨w, hw, hj⟩ := runWorkflows_spec fixed name history {} (J_init name "1")
  obtain ⟨w', ran, hrc, _, hp, hv⟩ := runChain_spec name "1" fixed ts w [] [] hj List.nil_prefix (Or.inl rfl)
  simp only [List.length_nil, node_nil, List.nil_append] at hrc hp hv
  exact ⟨w, w', _, ran, hw, hrc, hp, hv⟩

/-- non-vacuity: run `[a, b]`, edit the second task (`[a, c]`), revert (`[a, b]`): the reverted task runs again -/
example : (match runWorkflows false "h" {} [["a", "b"], ["a", "c"]] with
    | .ok w => (match runWorkflow false w "h" ["a", "b"] with
      | .ok (w', _, ran) => (ran, w'.ext)
      | .error _ => ([], []))
    | .error _ => ([], [])) = (["b"], ["a", "b"]) := by decide

/-! ### durability of the rollback (process death)

`rollback_handle` does not commit.  `enterTask … early` models `_exec_job_main_thread` from the cache miss to the entry
of the task function; `early = true` is the code's order (`_perform_rollbacks`, then `record_job_start`, which
commits), `early = false` the order in which the rollback is still pending when the task starts. -/

/-- **At the moment a handle-writing task function is entered nothing is pending**: every state the scheduler
rolled back for it — for each of the handle states among its arguments — is invalid for a fresh connection (and
for the next process, should this one die). -/
theorem task_start_rollback_durable (fixed : Bool) (d d' : DB) (fs : List (HRef HT)) (h : enterTask fixed true d fs = .ok d') :
    d'.ses = d'.dur := enterTask_early_durable fixed d d' fs h

/-- **Every handle-valued argument is rolled back**: when the task function is entered (code's order, repaired
backend), for every handle state `f` among the job's arguments — also several states of one handle name — every
state derived from `f` is invalid, durably. -/
theorem task_start_all_arguments_rolled_back (d d' : DB) (fs : List (HRef HT)) (h : enterTask true true d fs = .ok d')
    (f : HRef HT) (hf : f ∈ fs) (y : HT) (hy : Desc (d.ses.joined true f.name) f.hash y) :
    d'.dur.isValid y = false := by
  unfold enterTask at h
  simp only [if_true] at h
  cases hr : d.rollbackAll true fs with
  | error e => simp [hr] at h
  | ok s =>
    simp [hr] at h; subst h
    exact rollbackAll_invalidates fs d s hr f hf y hy

/-- **No invalidated state is replayed, also across process deaths.**  After any history of executions, each of
which either completes or is killed right after one of its tasks started writing, one more (complete) execution of
the chain `ts` returns a valid state and the external system reflects exactly `ts`. -/
theorem crash_no_stale_replay (fixed : Bool) (name : String) (history : List Exec) (ts : List String) :
    ∃ w w' final ran, runExecs fixed true name {} history = .ok w ∧
      runWorkflow fixed w name ts = .ok (w', final, ran) ∧ ts <+: w'.ext ∧ (ts = [] ∨ w'.st.isValid final = true) := by
  obtain ⟨w, hw, hj⟩ := runExecs_spec fixed name history {} (J_init name "1")
  obtain ⟨w', ran, hrc, _, hp, hv⟩ := runChain_spec name "1" fixed ts w [] [] hj List.nil_prefix (Or.inl rfl)
  simp only [List.length_nil, node_nil, List.nil_append] at hrc hp hv
  exact ⟨w, w', _, ran, hw, hrc, hp, hv⟩

/-- With the rollback issued only after `record_job_start` the statement is false: run `[a]`; the edited chain `[b]`
is killed right after `b` started writing — its rollback is lost —; the reverted chain `[a]` then replays the
rolled-back state, runs nothing, and the external system holds `b`.  In the code's order the same history re-runs
`a`. -/
theorem late_rollback_refuted :
    (match runExecs true false "h" {} [.ok ["a"], .killed ["b"] 0] with
      | .ok w => (match runWorkflow true w "h" ["a"] with
        | .ok (w', _, ran) => (ran, w'.ext)
        | .error _ => ([], []))
      | .error _ => ([], [])) = ([], ["b"]) ∧
    (match runExecs true true "h" {} [.ok ["a"], .killed ["b"] 0] with
      | .ok w => (match runWorkflow true w "h" ["a"] with
        | .ok (w', _, ran) => (ran, w'.ext)
        | .error _ => ([], []))
      | .error _ => ([], [])) = (["a"], ["a"]) := by
  constructor <;> decide

end RedunModel.C25
