/-
C37 — The task registry stays consistent.

Model: `RedunModel.Model.Registry` (`TaskRegistry.add/rename/_decrement_hash_count/task_hashes/get`,
`wraps_task.create_tasks/recursive_rename`). Helper lemmas: `RedunModel.Lemmas.Registry` (the invariant
`Inv` and its preservation by every registry operation).
All theorems quantify over every history (`List Op`) of definitions / redefinitions / renames / wraps
with arbitrary names, hashes and wrapper names, starting from the empty registry.
-/
import RedunModel.Lemmas.Registry
namespace RedunModel.C37
open RedunModel.Registry

/-- The count kept for every hash is exactly the number of registered tasks with that hash. -/
theorem counts_exact (ops : List Op) (h : H) : cnt h (run ops).counts = occ h (run ops).tasks :=
  (run_inv ops).exact h

/-- "All entries have positive non-zero counts" (the assertion inside `task_hashes` never fires). -/
theorem counts_positive (ops : List Op) : ∀ p ∈ (run ops).counts, 1 ≤ p.2 := (run_inv ops).pos

/-- `task_hashes` = the set of hashes of the tasks the registry holds. -/
theorem task_hashes_eq (ops : List Op) (h : H) :
    h ∈ taskHashes (run ops) ↔ ∃ p ∈ (run ops).tasks, p.2.hash = h := by
  have hi := run_inv ops
  have hex := hi.exact h
  constructor
  · intro hm
    simp only [taskHashes, List.mem_map, List.mem_filter] at hm
    obtain ⟨⟨h', n⟩, ⟨hm, _⟩, e⟩ := hm
    simp only at e; subst e
    -- the key is present, so the lookup succeeds with a positive value
    have hk : h' ∈ (run ops).counts.map (·.1) := List.mem_map.mpr ⟨(h', n), hm, rfl⟩
    cases hl : lookup h' (run ops).counts with
    | none => exact absurd hk (lookup_none_iff.mp hl)
    | some m =>
      have hp := hi.pos _ (lookup_mem hl)
      simp only [cnt, hl, Option.getD_some] at hex
      have : 0 < occ h' (run ops).tasks := by simp only at hp; omega
      simp only [occ, List.length_pos_iff_exists_mem] at this
      obtain ⟨p, hp⟩ := this
      simp only [List.mem_filter, decide_eq_true_eq] at hp
      exact ⟨p, hp.1, hp.2⟩
  · rintro ⟨p, hp, e⟩
    have : 0 < occ h (run ops).tasks := by
      simp only [occ, List.length_pos_iff_exists_mem]
      exact ⟨p, by simp [List.mem_filter, hp, e]⟩
    cases hl : lookup h (run ops).counts with
    | none => simp only [cnt, hl, Option.getD_none] at hex; omega
    | some m =>
      have hm := lookup_mem hl
      have hpos := hi.pos _ hm
      simp only [taskHashes, List.mem_map, List.mem_filter]
      exact ⟨(h, m), ⟨hm, by simp only [gt_iff_lt, decide_eq_true_eq]; simp only at hpos; omega⟩, rfl⟩

/-- Every registered task is stored under, and found by, its current full name; names are unique keys. -/
theorem lookup_current_name (ops : List Op) : ∀ p ∈ (run ops).tasks,
    p.1 = p.2.fullname ∧ get p.2.fullname (run ops) = some p.2 := by
  intro p hp
  have hi := run_inv ops
  have hk := hi.keyFull p hp
  refine ⟨hk, ?_⟩
  obtain ⟨k, t⟩ := p
  simp only at hk ⊢
  subst hk
  exact lookup_of_mem hi.keysNodup hp

/-- Read-only queries are pure: `get(task_name=)`, `get(hash=)` and iteration leave the registry — names, counts,
`task_hashes` — exactly as it was, whatever is asked for (registered, formerly registered or unknown). -/
theorem lookup_pure (r : Reg) (n : String) (h : H) :
    step r (.getName n) = r ∧ step r (.getHash h) = r ∧ step r .iterate = r := ⟨rfl, rfl, rfl⟩

/-- so interleaving any number of queries into a history changes nothing -/
theorem queries_do_not_matter (ops : List Op) (q : Op) (hq : (∃ n, q = .getName n) ∨ (∃ h, q = .getHash h) ∨ q = .iterate)
    (ops' : List Op) : run (ops ++ q :: ops') = run (ops ++ ops') := by
  have hs : ∀ r, step r q = r := by
    intro r
    rcases hq with ⟨n, rfl⟩ | ⟨h, rfl⟩ | rfl <;> rfl
  simp [run, List.foldl_append, List.foldl_cons, hs]

/-- The by-hash lookup finds a task exactly for the hashes with a non-zero count (the fact a count-based fast path
would rely on), and what it finds is a registered task with that hash. -/
theorem get_hash_none_iff_count_zero (ops : List Op) (h : H) :
    getByHash h (run ops) = none ↔ cnt h (run ops).counts = 0 := getByHash_none_iff _ (run_inv ops) h

theorem get_hash_finds_registered (ops : List Op) (h : H) (t : Registry.Task) (hs : getByHash h (run ops) = some t) :
    t.hash = h ∧ ∃ k, (k, t) ∈ (run ops).tasks := getByHash_some _ h t hs

theorem names_unique (ops : List Op) : ((run ops).tasks.map (·.1)).Nodup := (run_inv ops).keysNodup

/-- Wrapping a registered plain task with a wrapper named `w`: the wrapper is registered under the
visible name (same name and namespace, pointing at the hidden task), and the original task is found at
`namespace.w.name` (`w.name` for an empty namespace), unchanged apart from its namespace. -/
theorem wrap_names (r : Reg) (t : Task) (w : String) (woid : Nat) (wh : H → H)
    (hreg : get t.fullname r = some t) (hplain : t.wrapped = none) (hw : w ≠ "") :
    let hidden : Task := { t with ns := sfx t.ns w }
    (wrap t w woid wh r).2 = none ∧
    get t.fullname (wrap t w woid wh r).1 = some ⟨woid, t.ns, t.name, wh t.hash, some hidden.fullname⟩ ∧
    get hidden.fullname (wrap t w woid wh r).1 = some hidden := by
  intro hidden
  have hne : hidden.fullname ≠ t.fullname := hidden_ne_visible t.ns t.name w hw
  have hrr : recursiveRename (r.tasks.length + 1) t w r =
      (add hidden ⟨erase t.fullname r.tasks, decr t.hash r.counts⟩, .ok hidden.fullname) := by
    simp only [Registry.get] at hreg
    simp only [recursiveRename, hplain, rename, hreg, hidden, sfx]
  simp only [wrap, hrr]
  refine ⟨trivial, ?_, ?_⟩
  · exact get_add_self ⟨woid, t.ns, t.name, wh t.hash, some hidden.fullname⟩ _
  · rw [get_add_ne _ _ _ (by exact hne)]
    exact get_add_self hidden _


/-- Stacked wrappers: `t` is a wrapper registered at the visible name whose hidden task `it` (plain)
lives at `namespace.w1.name` (the state `wrap_names` produces). Wrapping again with `w2` keeps the
visible name for the new wrapper, moves `t` to `namespace.w2.name` with its pointer updated, and moves
`it` to `namespace.w1.w2.name`. -/
theorem wrap_names_stacked (r : Reg) (t it : Task) (w1 w2 : String) (woid : Nat) (wh : H → H)
    (hreg : get t.fullname r = some t) (hw : t.wrapped = some it.fullname)
    (hit : get it.fullname r = some it) (hplain : it.wrapped = none)
    (hns : it.ns = sfx t.ns w1) (hname : it.name = t.name) (hoid : it.oid ≠ t.oid)
    (hw1 : w1 ≠ "") (hw2 : w2 ≠ "") :
    let itNew : Task := { it with ns := sfx it.ns w2 }
    let tNew : Task := { t with ns := sfx t.ns w2, wrapped := some itNew.fullname }
    (wrap t w2 woid wh r).2 = none ∧
    get t.fullname (wrap t w2 woid wh r).1 = some ⟨woid, t.ns, t.name, wh t.hash, some tNew.fullname⟩ ∧
    get tNew.fullname (wrap t w2 woid wh r).1 = some tNew ∧
    get itNew.fullname (wrap t w2 woid wh r).1 = some itNew := by
  intro itNew tNew
  -- name arithmetic (all four names have different lengths)
  have Lit : it.fullname.length = t.fullname.length + w1.length + 1 := by
    simp only [Task.fullname, hns, hname]; exact fullname_sfx_length _ _ _ hw1
  have LitNew : itNew.fullname.length = it.fullname.length + w2.length + 1 := by
    simp only [itNew, Task.fullname]; exact fullname_sfx_length _ _ _ hw2
  have LtNew : tNew.fullname.length = t.fullname.length + w2.length + 1 := by
    simp only [tNew, Task.fullname]; exact fullname_sfx_length _ _ _ hw2
  have n1 : t.fullname ≠ it.fullname := fun h => by have := congrArg String.length h; omega
  have n2 : t.fullname ≠ itNew.fullname := fun h => by have := congrArg String.length h; omega
  have n3 : tNew.fullname ≠ itNew.fullname := fun h => by have := congrArg String.length h; omega
  have n4 : tNew.fullname ≠ t.fullname := fun h => by have := congrArg String.length h; omega
  have n5 : itNew.fullname ≠ t.fullname := fun h => n2 h.symm
  obtain ⟨m, hm⟩ : ∃ m, r.tasks.length = m + 1 := by
    cases hl : r.tasks with
    | nil => simp [Registry.get, hl, lookup] at hreg
    | cons a b => exact ⟨b.length, rfl⟩
  -- inner rename
  have hin := recursiveRename_plain m r it w2 hit hplain
  let rA : Reg := add itNew ⟨erase it.fullname r.tasks, decr it.hash r.counts⟩
  have hgA : get t.fullname rA = some t := by
    show get t.fullname (add itNew _) = some t
    rw [get_add_ne _ _ _ n2, get_erase_ne _ _ _ _ n1]; exact hreg
  let rB : Reg := setWrapped t.oid itNew.fullname rA
  have hgB : get t.fullname rB = some { t with wrapped := some itNew.fullname } := by
    show get t.fullname (setWrapped _ _ rA) = _
    rw [get_setWrapped, hgA]; simp
  have hgBi : get itNew.fullname rB = some itNew := by
    show get itNew.fullname (setWrapped _ _ rA) = _
    rw [get_setWrapped]
    have : get itNew.fullname rA = some itNew := get_add_self itNew _
    rw [this]; simp [itNew, hoid]
  have hrr : recursiveRename (r.tasks.length + 1) t w2 r =
      (add tNew ⟨erase t.fullname rB.tasks, decr t.hash rB.counts⟩, .ok tNew.fullname) := by
    rw [hm, recursiveRename_wrapped (m + 1) r rA t it w2 it.fullname itNew.fullname hw hit hin]
    simp only [Registry.get] at hgB
    show (match rename t.fullname (sfx t.ns w2) t.name rB with | .error e => _ | .ok (t', r2) => _) = _
    simp only [rename, hgB]
    rfl
  simp only [wrap, hrr]
  refine ⟨trivial, ?_, ?_, ?_⟩
  · exact get_add_self ⟨woid, t.ns, t.name, wh t.hash, some tNew.fullname⟩ _
  · rw [get_add_ne _ _ _ (by exact n4)]
    exact get_add_self tNew _
  · rw [get_add_ne _ _ _ (by exact n5), get_add_ne _ _ _ (by exact n3.symm), get_erase_ne _ _ _ _ n5]
    exact hgBi


/-! non-vacuity: a definition wrapped twice (closed instance of both theorems' hypotheses and conclusions) -/
def exampleOps : List Op :=
  [.define ⟨0, "ns", "a", "h0", none⟩, .define ⟨3, "", "b", "h0", none⟩,
   .wrap "ns.a" "w" 1 (fun h => "W(" ++ h ++ ")"), .wrap "ns.a" "v" 2 (fun h => "V(" ++ h ++ ")")]
example : get "ns.a" (run exampleOps) = some ⟨2, "ns", "a", "V(W(h0))", some "ns.v.a"⟩ := by decide
example : get "ns.v.a" (run exampleOps) = some ⟨1, "ns.v", "a", "W(h0)", some "ns.w.v.a"⟩ := by decide
example : get "ns.w.v.a" (run exampleOps) = some ⟨0, "ns.w.v", "a", "h0", none⟩ := by decide
example : cnt "h0" (run exampleOps).counts = 2 ∧ taskHashes (run exampleOps) = ["h0", "W(h0)", "V(W(h0))"] := by decide

end RedunModel.C37
