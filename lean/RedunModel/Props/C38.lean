/-
C38 — Sub-scheduler runs are equivalent to direct evaluation.

`subrun_equiv` (full strength, every task table, every expression, both `new_execution` settings): through
`subrun` an expression has exactly the outcomes it has when evaluated directly.  The model of `subrun`
(`Eval.subrun*` in Model/EvalCore) is not "evaluate e": a value the inner scheduler produced is packed into the
record `_subrun_root_task` returns (`{"result": v, ...}`), the OUTER scheduler evaluates that record like any task
result, and `subrun.then` unwraps it; the theorem needs `result_isValue` + `value_unique` (results contain no
expression, evaluating a value again is the identity).  An inner error makes the `_subrun_root_task` job fail
(new execution: `run` raises; extended execution: the error returned by `extend_run` is re-raised inside the task —
the model mirrors the repaired code, see findings_proposed/C12-subrun-error-recorded-as-success.fix.diff; before
the repair the error travelled back inside a *successful* result record, with the same outcome for the caller
but with a CallNode recorded as a success, which `subrun_shallow_replays_ultimate` then replays in a later
execution without running the failed call again — the C12 finding).
`subrun_never_single`, `subrun_full_check_runs_again`, `subrun_shallow_replays_ultimate`: the cache options
`subrun` gives `_subrun_root_task` (`allowed_cache_results = {CSE, ULTIMATE}`) on the lookup model
`Model/CacheLookup` — no step serves the subrun from the Evaluation (single reduction) table.
Not a theorem (tie only): the Job rows of an extended execution hang under the calling job.
-/
import RedunModel.Lemmas.EvalCore
import RedunModel.Model.EvalLib
import RedunModel.Model.CacheLookup
import RedunModel.Model.SubrunModules
namespace RedunModel.C38
open RedunModel.EvalCore

/-- the context the sub-scheduler evaluates under: `run_config["context"]` is the calling job's context `c`; a new
execution is started with `run(context=c)` on top of the (forwarded) config context, an extended one hangs the inner
jobs under a dummy parent job whose only context override is `c` -/
def innerCtx (lib : Lib) (c : Ctx) (ne : Bool) : Ctx := if ne then lib.config.over c else Ctx.empty.over c

/-- What is forwarded (no assumption on the context): through `subrun` an expression has exactly the outcomes it has
when evaluated directly under `innerCtx`. -/
theorem subrun_inner (lib : Lib) (c : Ctx) (e : Expr) (ne : Bool) (r : Out) :
    Eval lib c (.subrun e ne) r ↔ Eval lib (innerCtx lib c ne) e r := by
  unfold innerCtx
  constructor
  · intro h
    cases h with
    | leaf h => simp [isLeaf] at h
    | subrunOk h1 h2 =>
      rename_i v k v'
      have hv := result_isValue h1 _ rfl
      have hd : isValue (.dict [.str "result"] [v]) = true := by
        simp [isValue, allValues, hv, keysOk, simpleKeys, simpleKey, nodupKeys]
      have := value_unique _ hd _ h2
      injection this with this
      injection this with hk hvv
      injection hvv with hvv _
      subst hvv
      exact h1
    | subrunOkErr h1 h2 =>
      rename_i v x
      have hv := result_isValue h1 _ rfl
      have hd : isValue (.dict [.str "result"] [v]) = true := by
        simp [isValue, allValues, hv, keysOk, simpleKeys, simpleKey, nodupKeys]
      exact absurd (value_unique _ hd _ h2) (by simp)
    | subrunErr h1 => exact h1
  · intro h
    cases r with
    | ok v =>
      have hv := result_isValue h _ rfl
      have hd : isValue (.dict [.str "result"] [v]) = true := by
        simp [isValue, allValues, hv, keysOk, simpleKeys, simpleKey, nodupKeys]
      exact Eval.subrunOk h (value_self _ hd)
    | err x => exact Eval.subrunErr h
    | unk => exact absurd rfl h.ne_unk

/-- every variable of the configuration context is defined in `c` -/
def Covers (cfg c : Ctx) : Prop := ∀ k, cfg k ≠ none → c k ≠ none

/-- the context of every job of a run covers the config context: the root context is config + run context ... -/
theorem covers_root (cfg run : Ctx) : Covers cfg (cfg.over run) := by
  intro k hk
  unfold Ctx.over
  cases h : run k with
  | some v => simp
  | none => simpa using hk

/-- ... and `update_context` overrides on the way down only add or replace variables -/
theorem covers_override (cfg c : Ctx) (ovn : List String) (ovv : List Expr) (h : Covers cfg c) :
    Covers cfg (c.override ovn ovv) := by
  intro k hk
  unfold Ctx.override
  cases h' : kvLookup ovn ovv k with
  | some v => simp
  | none => simpa using h k hk

theorem innerCtx_eq (lib : Lib) (c : Ctx) (ne : Bool) (h : Covers lib.config c) : innerCtx lib c ne = c := by
  funext k
  unfold innerCtx
  cases ne with
  | false =>
    simp only [Bool.false_eq_true, if_false, Ctx.over, Ctx.empty]
    cases c k <;> rfl
  | true =>
    simp only [if_true, Ctx.over]
    cases hc : c k with
    | some v => rfl
    | none =>
      cases hl : lib.config k with
      | none => rfl
      | some w => exact absurd hc (h k (by simp [hl]))

/-- Full strength: in every context a job of the run can have, through `subrun` (new or extended execution) an expression
has exactly the outcomes (value, or error re-raised) it has when evaluated directly in that context. -/
theorem subrun_equiv (lib : Lib) (c : Ctx) (hc : Covers lib.config c) (e : Expr) (ne : Bool) (r : Out) :
    Eval lib c (.subrun e ne) r ↔ Eval lib c e r := by
  rw [subrun_inner, innerCtx_eq lib c ne hc]

/-- an extended execution needs no assumption at all -/
theorem subrun_equiv_extend (lib : Lib) (c : Ctx) (e : Expr) (r : Out) :
    Eval lib c (.subrun e false) r ↔ Eval lib c e r := by
  rw [subrun_inner]
  have : innerCtx lib c false = c := by
    funext k
    simp only [innerCtx, Bool.false_eq_true, if_false, Ctx.over, Ctx.empty]
    cases c k <;> rfl
  rw [this]

/-- values come back unchanged ... -/
theorem subrun_value (lib : Lib) (c : Ctx) (hc : Covers lib.config c) (e : Expr) (ne : Bool) (v : Expr)
    (h : Eval lib c e (.ok v)) : Eval lib c (.subrun e ne) (.ok v) := (subrun_equiv lib c hc e ne _).mpr h

/-- ... errors are re-raised with the same class and message ... -/
theorem subrun_error (lib : Lib) (c : Ctx) (hc : Covers lib.config c) (e : Expr) (ne : Bool) (x : Err)
    (h : Eval lib c e (.err x)) : Eval lib c (.subrun e ne) (.err x) := (subrun_equiv lib c hc e ne _).mpr h

/-- ... and nothing else can come out; also through nested subruns, with any mix of settings -/
theorem subrun_nested (lib : Lib) (c : Ctx) (hc : Covers lib.config c) (e : Expr) (ne1 ne2 : Bool) (r : Out) :
    Eval lib c (.subrun (.subrun e ne1) ne2) r ↔ Eval lib c e r := by
  rw [subrun_equiv lib c hc, subrun_equiv lib c hc]

open RedunModel.CacheLookup

/-- a lookup that does not allow SINGLE never returns SINGLE -/
theorem no_single_unless_allowed (s : Scope) (cv : CheckValid) (al : Allowed) (f : Facts) (h : al.single = false) :
    (checkCache s cv al f).1 ≠ .single := by
  unfold checkCache
  split
  · simp
  · split
    · simp
    · split
      · simp [h]
        split <;> simp
      · simp [h]

/-- whatever the backend holds and whatever scope / validity check the caller chose, the lookup for
`_subrun_root_task` is never answered from the Evaluation (single reduction) table -/
theorem subrun_never_single (s : Scope) (cv : CheckValid) (f : Facts) : (checkCache s cv subrunAllowed f).1 ≠ .single :=
  no_single_unless_allowed s cv subrunAllowed f rfl

/-- with full validity checking (`subrun.options(check_valid="full")`) a later execution finds nothing usable
and starts the sub-scheduler again, which then does its own (single-reduction) caching inside -/
theorem subrun_full_check_runs_again (s : Scope) (f : Facts) (hc : f.cse = none) :
    checkCache s .full subrunAllowed f = (.miss, none) := by
  unfold checkCache subrunAllowed
  cases s <;> simp [hc]

/-- with the default shallow check, a recorded call node whose subtree tasks are current answers the lookup
(ultimate reduction): the sub-scheduler is not started -/
theorem subrun_shallow_replays_ultimate (f : Facts) (b : Bool) (hc : f.cse = none) (hu : f.ultimate = some b) :
    checkCache .backend .shallow subrunAllowed f = (.ultimate, some b) := by
  unfold checkCache subrunAllowed
  simp [hc, hu]

/-- In a no-cache run nothing is served from the backend: whatever scope the task or the call asked for, whatever the
validity option, the allowed results and the backend content, a lookup is answered by the same-execution (CSE) query or
not at all. -/
theorem no_cache_run_only_cse (scope : Scope) (cv : CheckValid) (al : Allowed) (f : Facts) :
    (checkCache (runScope false scope) cv al f).1 = .cse ∨ (checkCache (runScope false scope) cv al f).1 = .miss := by
  unfold runScope checkCache
  simp only [Bool.false_eq_true, if_false]
  split
  · simp
  · split
    · simp
    · simp

/-- ... in particular a `subrun` whose call node was recorded by an earlier execution starts its sub-scheduler again
(in a cached run the same lookup replays it: `subrun_shallow_replays_ultimate`) -/
theorem no_cache_run_restarts_subrun (scope : Scope) (cv : CheckValid) (f : Facts) (hc : f.cse = none) :
    checkCache (runScope false scope) cv subrunAllowed f = (.miss, none) := by
  unfold runScope checkCache subrunAllowed
  simp [hc]

/-! ### what `subrun` ships to the sub-scheduler -/
section modules
open RedunModel.SubrunModules

theorem mem_loadModules (reg : List Mod) (m : Mod) : m ∈ loadModules reg ↔ m ∈ reg ∧ own m = false := by
  induction reg with
  | nil => simp [loadModules]
  | cons x xs ih =>
    unfold loadModules
    by_cases hx : own x = true
    · simp only [hx, Bool.true_or, if_true, ih]
      constructor
      · rintro ⟨h1, h2⟩; exact ⟨List.mem_cons_of_mem _ h1, h2⟩
      · rintro ⟨h1, h2⟩
        rcases List.mem_cons.mp h1 with rfl | h1
        · rw [hx] at h2; cases h2
        · exact ⟨h1, h2⟩
    · have hx' : own x = false := by simpa using hx
      by_cases hc : (loadModules xs).contains x = true
      · simp only [hx', Bool.false_or, hc, if_true, ih]
        constructor
        · rintro ⟨h1, h2⟩; exact ⟨List.mem_cons_of_mem _ h1, h2⟩
        · rintro ⟨h1, h2⟩
          rcases List.mem_cons.mp h1 with rfl | h1
          · have := (ih).mp (by simpa using hc)
            exact this
          · exact ⟨h1, h2⟩
      · simp only [hx', Bool.false_or, hc]
        simp only [Bool.false_eq_true, if_false, List.mem_cons, ih]
        constructor
        · rintro (rfl | ⟨h1, h2⟩)
          · exact ⟨Or.inl rfl, hx'⟩
          · exact ⟨Or.inr h1, h2⟩
        · rintro ⟨h1 | h1, h2⟩
          · exact Or.inl h1
          · exact Or.inr ⟨h1, h2⟩

/-- a user module is never taken for one of redun's own -/
theorem user_not_own (m : Mod) (h : user m = true) : own m = false := by
  unfold user at h
  unfold own
  split <;> simp_all

/-- Every module that defines a registered user task — whatever it is called: `redunflows`, `redun_workflows`, `redun`
itself, a nested package, `__main__` — is shipped to the sub-scheduler, so a sub-scheduler started in a fresh interpreter
can find every task the expression needs. -/
theorem load_modules_cover_tasks (reg : List Mod) (m : Mod) (hm : m ∈ reg) (hu : user m = true) : m ∈ loadModules reg :=
  (mem_loadModules reg m).mpr ⟨hm, user_not_own m hu⟩

/-- ... and nothing but registered modules outside redun proper (or its test modules) is shipped -/
theorem load_modules_only_registered (reg : List Mod) (m : Mod) (h : m ∈ loadModules reg) : m ∈ reg ∧ own m = false :=
  (mem_loadModules reg m).mp h

example : loadModules [["redun", "scheduler"], ["redunflows_1"], ["redun"], ["redun", "tests", "x"], ["redun", "tests"],
    ["pkg", "wf"], ["redunflows_1"]] = [["redun"], ["redun", "tests", "x"], ["pkg", "wf"], ["redunflows_1"]] := by decide

end modules

/-! Non-vacuity. -/
open RedunModel.EvalLib

theorem covers_lib (c : Ctx) : Covers lib.config c := by intro k hk; exact absurd rfl hk

example : checkCache (runScope true .backend) .shallow subrunAllowed ⟨none, some false, none⟩ = (.ultimate, some false) := by decide
example : checkCache (runScope false .backend) .shallow subrunAllowed ⟨none, some false, none⟩ = (.miss, none) := by decide

example : evalFuel lib 30 Ctx.empty (.subrun (tcall "ev.twice" [.int 3]) false) = some (.ok (.int 5)) := by rfl
example : evalFuel lib 30 Ctx.empty (.subrun (tcall "ev.fail_after" [.int 1, .str "K"]) false)
    = some (.err ⟨"KeyError", "K-deep"⟩) := by rfl
example : evalFuel lib 30 Ctx.empty (.subrun (tcall "ev.fail_after" [.int 1, .str "K"]) true)
    = some (.err ⟨"KeyError", "K-deep"⟩) := by rfl
example : Eval lib Ctx.empty (.subrun (tcall "ev.twice" [.int 3]) true) (.ok (.int 5)) :=
  subrun_value lib _ (covers_lib _) _ true _ (evalFuel_sound (n := 20) (by rfl))

/-- the caller's context reaches the sub-workflow in both modes: `ctx_flow(5)` under `{k: 3, j: 7}` -/
def exCtx : Ctx := fun k => if k = "k" then some (.int 3) else if k = "j" then some (.int 7) else none

example : evalFuel lib 30 exCtx (.subrun (tcall "ev.ctx_flow" [.int 5]) true) = some (.ok (L [.int 22, .int 18])) := by rfl
example : evalFuel lib 30 exCtx (.subrun (tcall "ev.ctx_flow" [.int 5]) false) = some (.ok (L [.int 22, .int 18])) := by rfl
/-- ... whereas a sub-scheduler started WITHOUT the forwarded context (only its config context) would return something else -/
example : evalFuel lib 30 lib.config (tcall "ev.ctx_flow" [.int 5]) = some (.ok (L [.int 5, .int 6])) := by rfl

end RedunModel.C38
