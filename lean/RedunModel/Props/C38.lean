/-
C38 — Sub-scheduler runs are equivalent to direct evaluation.

`subrun_equiv` (full strength, every task table, every expression, both `new_execution` settings): through
`subrun` an expression has exactly the outcomes it has when evaluated directly.  The model of `subrun`
(`Eval.subrun*` in Model/EvalCore) is not "evaluate e": a value the inner scheduler produced is packed into the
record `_subrun_root_task` returns (`{"result": v, ...}`), the OUTER scheduler evaluates that record like any task
result, and `subrun.then` unwraps it; the theorem needs `result_isValue` + `value_unique` (results contain no
expression, evaluating a value again is the identity).  An inner error makes the `_subrun_root_task` job fail
(new execution: `run` raises; extended execution: the error returned by `extend_run` is re-raised inside the task —
the model mirrors the repaired code, see findings_proposed/C12-subrun-error-recorded-as-success.fix.diff; before
the repair the error travelled back inside a *successful* result record, with the same outcome for the caller
but with a CallNode recorded as a success, which `subrun_shallow_replays_ultimate` then replays in a later
execution without running the failed call again — the C12 finding).
`subrun_never_single`, `subrun_full_check_runs_again`, `subrun_shallow_replays_ultimate`: the cache options
`subrun` gives `_subrun_root_task` (`allowed_cache_results = {CSE, ULTIMATE}`) on the lookup model
`Model/CacheLookup` — no step serves the subrun from the Evaluation (single reduction) table.
Not a theorem (tie only): the Job rows of an extended execution hang under the calling job.
-/
import RedunModel.Lemmas.EvalCore
import RedunModel.Model.EvalLib
import RedunModel.Model.CacheLookup
namespace RedunModel.C38
open RedunModel.EvalCore

/-- Full strength: through `subrun` (new or extended execution) an expression has exactly the outcomes
(value, or error re-raised) it has when evaluated directly. -/
theorem subrun_equiv (lib : Lib) (e : Expr) (ne : Bool) (r : Out) :
    Eval lib (.subrun e ne) r ↔ Eval lib e r := by
  constructor
  · intro h
    cases h with
    | leaf h => simp [isLeaf] at h
    | subrunOk h1 h2 =>
      rename_i v k v'
      have hv := result_isValue h1 _ rfl
      have hd : isValue (.dict [.str "result"] [v]) = true := by
        simp [isValue, allValues, hv, keysOk, simpleKeys, simpleKey, nodupKeys]
      have := value_unique _ hd _ h2
      injection this with this
      injection this with hk hvv
      injection hvv with hvv _
      subst hvv
      exact h1
    | subrunOkErr h1 h2 =>
      rename_i v x
      have hv := result_isValue h1 _ rfl
      have hd : isValue (.dict [.str "result"] [v]) = true := by
        simp [isValue, allValues, hv, keysOk, simpleKeys, simpleKey, nodupKeys]
      exact absurd (value_unique _ hd _ h2) (by simp)
    | subrunErr h1 => exact h1
  · intro h
    cases r with
    | ok v =>
      have hv := result_isValue h _ rfl
      have hd : isValue (.dict [.str "result"] [v]) = true := by
        simp [isValue, allValues, hv, keysOk, simpleKeys, simpleKey, nodupKeys]
      exact Eval.subrunOk h (value_self _ hd)
    | err x => exact Eval.subrunErr h
    | unk => exact absurd rfl h.ne_unk


/-- values come back unchanged ... -/
theorem subrun_value (lib : Lib) (e : Expr) (ne : Bool) (v : Expr) (h : Eval lib e (.ok v)) :
    Eval lib (.subrun e ne) (.ok v) := (subrun_equiv lib e ne _).mpr h

/-- ... errors are re-raised with the same class and message ... -/
theorem subrun_error (lib : Lib) (e : Expr) (ne : Bool) (x : Err) (h : Eval lib e (.err x)) :
    Eval lib (.subrun e ne) (.err x) := (subrun_equiv lib e ne _).mpr h

/-- ... and nothing else can come out; also through nested subruns, with any mix of settings -/
theorem subrun_nested (lib : Lib) (e : Expr) (ne1 ne2 : Bool) (r : Out) :
    Eval lib (.subrun (.subrun e ne1) ne2) r ↔ Eval lib e r := by
  rw [subrun_equiv, subrun_equiv]

open RedunModel.CacheLookup

/-- a lookup that does not allow SINGLE never returns SINGLE -/
theorem no_single_unless_allowed (s : Scope) (cv : CheckValid) (al : Allowed) (f : Facts) (h : al.single = false) :
    (checkCache s cv al f).1 ≠ .single := by
  unfold checkCache
  split
  · simp
  · split
    · simp
    · split
      · simp [h]
        split <;> simp
      · simp [h]

/-- whatever the backend holds and whatever scope / validity check the caller chose, the lookup for
`_subrun_root_task` is never answered from the Evaluation (single reduction) table -/
theorem subrun_never_single (s : Scope) (cv : CheckValid) (f : Facts) : (checkCache s cv subrunAllowed f).1 ≠ .single :=
  no_single_unless_allowed s cv subrunAllowed f rfl

/-- with full validity checking (`subrun.options(check_valid="full")`) a later execution finds nothing usable
and starts the sub-scheduler again, which then does its own (single-reduction) caching inside -/
theorem subrun_full_check_runs_again (s : Scope) (f : Facts) (hc : f.cse = none) :
    checkCache s .full subrunAllowed f = (.miss, none) := by
  unfold checkCache subrunAllowed
  cases s <;> simp [hc]

/-- with the default shallow check, a recorded call node whose subtree tasks are current answers the lookup
(ultimate reduction): the sub-scheduler is not started -/
theorem subrun_shallow_replays_ultimate (f : Facts) (b : Bool) (hc : f.cse = none) (hu : f.ultimate = some b) :
    checkCache .backend .shallow subrunAllowed f = (.ultimate, some b) := by
  unfold checkCache subrunAllowed
  simp [hc, hu]

/-! Non-vacuity. -/
open RedunModel.EvalLib

example : evalFuel lib 30 (.subrun (tcall "ev.twice" [.int 3]) false) = some (.ok (.int 5)) := by rfl
example : evalFuel lib 30 (.subrun (tcall "ev.fail_after" [.int 1, .str "K"]) false)
    = some (.err ⟨"KeyError", "K-deep"⟩) := by rfl
example : evalFuel lib 30 (.subrun (tcall "ev.fail_after" [.int 1, .str "K"]) true)
    = some (.err ⟨"KeyError", "K-deep"⟩) := by rfl
example : Eval lib (.subrun (tcall "ev.twice" [.int 3]) true) (.ok (.int 5)) :=
  subrun_value lib _ true _ (evalFuel_sound (n := 20) (by rfl))

end RedunModel.C38
