/-
C36 — Schema migrations preserve recorded data.

The list of alembic revisions and their `upgrade()` operations is REGENERATED from /repo into
`RedunModel.Generated.Migrations` on every run; `RedunModel.Model.Migrate` gives the operations their meaning on
an abstract database; `RedunModel.Lemmas.Migrate` has the preservation lemmas.
`Pres R db db'`: every cell (table, row number, column) of `db` exists in `db'` with an `R`-related value —
i.e. every row of every table is kept, with related values in the columns both versions share.
-/
import RedunModel.Lemmas.Migrate
namespace RedunModel.C36
open RedunModel.MigrateOps RedunModel.Generated.Migrations RedunModel.Migrate

/-- The revisions form one chain: it is exactly the library's version table `REDUN_DB_VERSIONS` (same ids, same
order, every file used once), versions increase strictly along it, and its head lies in the range the library requires. -/
theorem chain_linear :
    chainIds = dbVersions.map (·.1) ∧ chainIds.length = revisions.length ∧ chainIds.Nodup ∧
    (dbVersions.map fun v => v.2.1 * 1000 + v.2.2).Pairwise (· < ·) ∧
    (dbVersions.getLast?.map fun v => decide (minVersion.1 * 1000 + minVersion.2 ≤ v.2.1 * 1000 + v.2.2 ∧
        v.2.1 * 1000 + v.2.2 ≤ maxVersion.1 * 1000 + maxVersion.2)) = some true := by decide

/-- Every operation of every revision that runs on sqlite is structural or one of the data migrations whose
meaning is given in `Model/Migrate.dataSem` (a changed SQL text / Python block has an unknown hash). -/
theorem chain_classified :
    (revisions.all fun r => r.ops.all fun g => !appliesSqlite g.guard || isKnown g.op) = true := by decide

/-- FULL STRENGTH, generic: any structural operation (create table / index / foreign key, add column, alter column),
whatever its arguments, keeps every cell of every row with an EQUAL value. -/
theorem structural_preserve (db db' : Db) (op : Op) (hs : isStructural op = true) (h : applyOp db op = .ok db') :
    Pres REq db db' := applyOp_pres_structural db db' op hs h

/-- PARTIAL: any operation at all (structural or one of the data migrations) keeps every cell of every row; values
are equal except that `job.start_time` / `job.end_time` may have lost their fractional seconds (`dtUtc`) and
`job.execution_id` is recomputed. The full-strength statement (`Pres REq`) is refuted below. -/
theorem data_ops_preserve_partial (db db' : Db) (op : Op) (h : applyOp db op = .ok db') :
    Pres RPartial db db' := applyOp_pres_partial db db' op h

/-- PARTIAL, whole upgrade: `migrate` from ANY revision of the regenerated chain to its head. -/
theorem migrate_preserve_partial (start : String) (db db' : Db) (h : migrate start db = .ok db') :
    Pres RPartial db db' := migrate_pres_partial start db db' h

/-- the witness database of DESIGN §9 F17: schema 3.3, one job started at 03:04:05.678901 -/
def witness : Db :=
  [⟨"job", ["id", "start_time", "end_time"],
     [[("id", .text "j"), ("start_time", .ts 1704164645 ".678901"), ("end_time", .null)]]⟩,
   ⟨"execution", ["id", "args", "job_id"], []⟩,
   ⟨"redun_version", ["id", "version", "timestamp"], []⟩]

/-- REFUTED full-strength statement: upgrading the witness from 3.3 (`f68b3aaee9cc`) succeeds and the job's
start time comes out without its fractional seconds (03:04:05.678901, epoch 1704164645, becomes 03:04:05). -/
theorem refuted_subsecond :
    (match migrate "f68b3aaee9cc" witness with
     | .ok db' => cell db' "job" 0 "start_time"
     | .error _ => none) = some (.ts 1704164645 "") ∧
    cell witness "job" 0 "start_time" = some (.ts 1704164645 ".678901") := by decide

/-- ... and it is not always a truncation: sqlite rounds to milliseconds first, so a fraction of .9995 or more
moves the timestamp to the NEXT second (found by the correspondence check: 20:33:25.999612 -> 20:33:26). -/
theorem refuted_subsecond_rounds_up : dtUtc (.ts 1709152405 ".999612") = .ts 1709152406 "" := by decide

/-! non-vacuity of the implications: upgrades that succeed -/
def tiny : Db :=
  [⟨"task", ["hash", "name", "namespace", "source"], [[("hash", .text "t"), ("name", .text "f"), ("namespace", .text ""), ("source", .text "")]]⟩,
   ⟨"value", ["value_hash", "type", "format", "value"], []⟩,
   ⟨"job", ["id", "start_time", "end_time", "task_hash", "cached", "call_hash", "parent_id"],
     [[("id", .text "j0"), ("start_time", .ts 1577836800 ".5"), ("end_time", .null), ("task_hash", .text "t"),
       ("cached", .int 0), ("call_hash", .null), ("parent_id", .null)],
      [("id", .text "j1"), ("start_time", .ts 1577836801 ""), ("end_time", .null), ("task_hash", .text "t"),
       ("cached", .int 0), ("call_hash", .null), ("parent_id", .text "j0")]]⟩,
   ⟨"execution", ["id", "args", "job_id"], []⟩,
   ⟨"redun_version", ["id", "version", "timestamp"], []⟩]
example : (match migrate "806f5dcb11bf" tiny with
    | .ok db' => (cell db' "job" 1 "execution_id", cell db' "value" 0 "type", (rowsOf "execution" db').length)
    | .error _ => (none, none, 0)) = (some (.text "stub:j0"), some (.text "redun.Task"), 1) := by decide
example : isStructural (.addColumn "job" ⟨"execution_id", "String", true⟩) = true := rfl

end RedunModel.C36
