/-
C17 — Task hashes track code identity.

Model: `RedunModel.Model.TaskHash` (`calcHash` = `Task._calc_hash`, `funcSource` = `get_func_source`
with the repair of findings_proposed/C17-async-def-source.fix.diff, `withOptions` = `Task.options` with
the repair of findings_proposed/C17-options-keep-hash-includes.fix.diff, `partialHash`, `wrapTask`).
Hashes are symbolic pre-images; `hash_includes` digests are sorted by an externally supplied rank
(the digest order), and the theorems hold for every rank assignment.
All theorems about `calcHash` assume `compat = []` (with `compat` the code returns `compat[0]`).
-/
import RedunModel.Lemmas.TaskHash
namespace RedunModel.C17
open RedunModel.Pre RedunModel.TaskHash List

/-! ### the hash changes when it must -/

/-- The pre-image of an ordinary task hash is exactly this list. -/
theorem calcHash_eq (t : TaskDef) (hc : t.compat = []) :
    calcHash t = .hash (.list ([.str "Task", .str (fullname t)] ++ codeId taskSource t ++ inclHashes t ++ optsHash t)) := by
  simp [calcHash, calcHashWith, hc]

theorem codeId_length (t : TaskDef) : (codeId taskSource t).length = 2 := by
  unfold codeId; split <;> rfl

/-- Central lemma: equal task hashes force equal full names, equal code identity (source or version)
and equal `includes ++ options` tails. -/
theorem calcHash_inj (t t' : TaskDef) (hc : t.compat = []) (hc' : t'.compat = []) (h : calcHash t = calcHash t') :
    fullname t = fullname t' ∧ codeId taskSource t = codeId taskSource t' ∧
      inclHashes t ++ optsHash t = inclHashes t' ++ optsHash t' := by
  rw [calcHash_eq t hc, calcHash_eq t' hc'] at h
  simp only [Pre.hash.injEq, Pre.list.injEq, cons_append, nil_append, cons.injEq, Pre.str.injEq, true_and,
    append_assoc] at h
  obtain ⟨hn, hrest⟩ := h
  have := append_inj hrest (by rw [codeId_length, codeId_length])
  exact ⟨hn, this.1, this.2⟩

/-- A different full name gives a different hash (whatever else changes). -/
theorem hash_changes_fullname (t t' : TaskDef) (hc : t.compat = []) (hc' : t'.compat = [])
    (h : fullname t ≠ fullname t') : calcHash t ≠ calcHash t' :=
  fun e => h (calcHash_inj t t' hc hc' e).1

/-! name and namespace -/

theorem split_last_dot (l1 l2 r1 r2 : List Char) (h1 : '.' ∉ r1) (h2 : '.' ∉ r2)
    (h : l1 ++ '.' :: r1 = l2 ++ '.' :: r2) : l1 = l2 ∧ r1 = r2 := by
  induction l1 generalizing l2 with
  | nil =>
    cases l2 with
    | nil => simpa using h
    | cons c t =>
      simp only [nil_append, cons_append, cons.injEq] at h
      exact absurd (h.2 ▸ (by simp : '.' ∈ t ++ '.' :: r2)) h1
  | cons a t ih =>
    cases l2 with
    | nil =>
      simp only [nil_append, cons_append, cons.injEq] at h
      exact absurd (h.2 ▸ (by simp : '.' ∈ t ++ '.' :: r1)) h2
    | cons b u =>
      simp only [cons_append, cons.injEq] at h
      obtain ⟨e1, e2⟩ := ih u h.2
      exact ⟨by rw [h.1, e1], e2⟩

/-- `_validate` only admits names without a dot; then the full name determines namespace and name,
so a change of the name or of the namespace is a change of the full name. -/
theorem fullname_injective (t t' : TaskDef) (h1 : '.' ∉ t.name.toList) (h2 : '.' ∉ t'.name.toList)
    (h : fullname t = fullname t') : t.ns = t'.ns ∧ t.name = t'.name := by
  unfold fullname at h
  by_cases e1 : t.ns = "" <;> by_cases e2 : t'.ns = "" <;> simp only [e1, e2, ne_eq, not_true_eq_false, not_false_eq_true, if_true, if_false] at h
  · exact ⟨by rw [e1, e2], h⟩
  · have := congrArg String.toList h
    simp only [String.toList_append] at this
    exact absurd (this ▸ (by simp : '.' ∈ (t'.ns.toList ++ ".".toList) ++ t'.name.toList)) h1
  · have := congrArg String.toList h
    simp only [String.toList_append] at this
    exact absurd (this.symm ▸ (by simp : '.' ∈ (t.ns.toList ++ ".".toList) ++ t.name.toList)) h2
  · have := congrArg String.toList h
    simp only [String.toList_append, append_assoc] at this
    have hd : ".".toList = ['.'] := rfl
    rw [hd] at this
    obtain ⟨a, b⟩ := split_last_dot _ _ _ _ h1 h2 this
    exact ⟨String.ext a, String.ext b⟩

/-- Unversioned tasks: a different source gives a different hash (whatever else changes). -/
theorem hash_changes_source (t t' : TaskDef) (hc : t.compat = []) (hc' : t'.compat = [])
    (hv : t.version = none) (hv' : t'.version = none) (h : taskSource t ≠ taskSource t') :
    calcHash t ≠ calcHash t' := by
  intro e
  have := (calcHash_inj t t' hc hc' e).2.1
  simp [codeId, hv, hv'] at this
  exact h this

/-- Versioned tasks: a different version gives a different hash; a versioned and an unversioned task
never share a hash. -/
theorem hash_changes_version (t t' : TaskDef) (hc : t.compat = []) (hc' : t'.compat = [])
    (h : t.version ≠ t'.version) : calcHash t ≠ calcHash t' := by
  intro e
  have := (calcHash_inj t t' hc hc' e).2.1
  unfold codeId at this
  cases h1 : t.version <;> cases h2 : t'.version <;> simp_all

/-- Versioned tasks ignore the source. -/
theorem hash_versioned_ignores_source (t : TaskDef) (lines : List String) (s : Option String)
    (hv : t.version ≠ none) : calcHash { t with srcLines := lines, srcGiven := s } = calcHash t := by
  cases h : t.version with
  | none => exact absurd h hv
  | some v => simp [calcHash, calcHashWith, codeId, h, fullname, inclHashes, optsHash]

/-- `hash_includes`: with the same option overrides, equal hashes force the included data to be the
same multiset of hashes.  (Contrapositive: changing the included data changes the hash.) -/
theorem hash_changes_includes (t t' : TaskDef) (hc : t.compat = []) (hc' : t'.compat = [])
    (ho : t.override = t'.override) (h : calcHash t = calcHash t') :
    ((t.includes.getD []).map (·.2)).Perm ((t'.includes.getD []).map (·.2)) := by
  have h3 := (calcHash_inj t t' hc hc' h).2.2
  have ho' : optsHash t = optsHash t' := by simp [optsHash, ho]
  rw [ho'] at h3
  have h4 : inclHashes t = inclHashes t' := append_cancel_right h3
  have e1 : ∀ u : TaskDef, (inclHashes u).Perm ((u.includes.getD []).map (·.2)) := by
    intro u
    unfold inclHashes
    cases u.includes with
    | none => simp
    | some l => exact (sortR_perm l).map _
  exact (e1 t).symm.trans (h4 ▸ e1 t')

/-- Call-time option overrides: with the same included data (up to order), equal hashes force equal
overrides.  (Contrapositive: changing the overrides changes the hash.) -/
theorem hash_changes_override (t t' : TaskDef) (hc : t.compat = []) (hc' : t'.compat = [])
    (hi : (t.includes.getD []).Perm (t'.includes.getD [])) (h : calcHash t = calcHash t') :
    t.override = t'.override := by
  have h3 := (calcHash_inj t t' hc hc' h).2.2
  have hl : (inclHashes t).length = (inclHashes t').length := by
    have e1 : ∀ u : TaskDef, (inclHashes u).length = (u.includes.getD []).length := by
      intro u
      unfold inclHashes
      cases u.includes with
      | none => simp
      | some l => simp [(sortR_perm l).length_eq]
    rw [e1, e1, hi.length_eq]
  have := (append_inj h3 hl).2
  unfold optsHash at this
  cases h1 : t.override <;> cases h2 : t'.override <;> simp_all

/-! ### the hash stays the same when it may -/

/-- Definition-time options are not hashed. -/
theorem hash_ignores_base (t : TaskDef) (b : Nat) : calcHash { t with base := b } = calcHash t := rfl

/-- The order of `hash_includes` is irrelevant. -/
theorem hash_ignores_include_order (t : TaskDef) (l l' : List Inc) (hp : l.Perm l') (hr : RankOK l) :
    calcHash { t with includes := some l } = calcHash { t with includes := some l' } := by
  simp [calcHash, calcHashWith, inclHashes, sortR_eq_of_perm hp hr, fullname, codeId, taskSource, optsHash]

/-- `hash_includes=None` and `hash_includes=[]` are the same. -/
theorem hash_ignores_empty_includes (t : TaskDef) :
    calcHash { t with includes := some [] } = calcHash { t with includes := none } := rfl

theorem cutAt_append (p : List Char → Bool) (ds rest : List String) (hd : ∀ d ∈ ds, p d.toList = false) :
    cutAt p (ds ++ rest) = cutAt p rest := by
  induction ds with
  | nil => rfl
  | cons d t ih =>
    have h1 : p d.toList = false := hd d (by simp)
    simp only [cons_append, cutAt, h1, Bool.false_eq_true, if_false]
    exact ih (fun x hx => hd x (by simp [hx]))

/-- Decorator lines are cut away: whatever lines precede the `def`/`async def` line (none of them a
def line themselves), the source is the text from the def line on. -/
theorem funcSource_ignores_decorators (ds : List String) (defLine : String) (body : List String)
    (hd : ∀ d ∈ ds, isDefLine d.toList = false) (h : isDefLine defLine.toList = true) :
    funcSource (ds ++ defLine :: body) = "\n".intercalate (defLine :: body) := by
  simp [funcSource, funcSourceWith, cutAt_append isDefLine ds _ hd, cutAt, h]

/-- …hence the task hash does not depend on the decorator lines. -/
theorem hash_ignores_decorators (t : TaskDef) (ds ds' : List String) (defLine : String) (body : List String)
    (hd : ∀ d ∈ ds, isDefLine d.toList = false) (hd' : ∀ d ∈ ds', isDefLine d.toList = false)
    (h : isDefLine defLine.toList = true) (hs : t.srcGiven = none) :
    calcHash { t with srcLines := ds ++ defLine :: body } = calcHash { t with srcLines := ds' ++ defLine :: body } := by
  simp [calcHash, calcHashWith, codeId, taskSource, hs, fullname, inclHashes, optsHash,
    funcSource_ignores_decorators ds defLine body hd h, funcSource_ignores_decorators ds' defLine body hd' h]

/-- `def`, `async def`, tab-indented and nested definitions are recognised; decorator lines are not. -/
theorem isDefLine_table :
    isDefLine "def f(x):".toList = true ∧ isDefLine "    def f(x):".toList = true ∧
    isDefLine "async def f(x):".toList = true ∧ isDefLine "    async  def f(x):".toList = true ∧
    isDefLine "\tdef f(x):".toList = true ∧
    isDefLine "@task(memory=1)".toList = false ∧ isDefLine "    default=3,".toList = false ∧
    isDefLine "asyncdef f".toList = false ∧ isDefLine "define(x)".toList = false ∧ isDefLine ")".toList = false := by
  decide

/-! ### call-time options -/

theorem taskSource_withOptions (t : TaskDef) (n : Nat) : taskSource (withOptions t n) = taskSource t := by
  unfold taskSource withOptions selfSource
  cases h : t.srcGiven with
  | none => simp only []; split <;> simp_all
  | some s => simp

/-- `Task.options` only replaces the override hash: name, code identity and `hash_includes` stay in
the hash (so the "changes when" theorems above apply to tasks with call-time options as well). -/
theorem withOptions_hash (t : TaskDef) (n : Nat) :
    calcHash (withOptions t n) = calcHash { t with override := some n } := by
  have h := taskSource_withOptions t n
  unfold calcHash calcHashWith
  have h2 : codeId taskSource (withOptions t n) = codeId taskSource { t with override := some n } := by
    unfold codeId
    cases hv : t.version with
    | none =>
      have e1 : (withOptions t n).version = none := hv
      have e2 : ({ t with override := some n } : TaskDef).version = none := hv
      simp only [e1, h]
      rfl
    | some v =>
      have e1 : (withOptions t n).version = some v := hv
      have e2 : ({ t with override := some n } : TaskDef).version = some v := hv
      simp only [e1]
  simp only [h2]
  rfl

/-- A task with call-time options still changes its hash when its `hash_includes` data change. -/
theorem options_keep_includes (t t' : TaskDef) (n : Nat) (hc : t.compat = []) (hc' : t'.compat = [])
    (h : calcHash (withOptions t n) = calcHash (withOptions t' n)) :
    ((t.includes.getD []).map (·.2)).Perm ((t'.includes.getD []).map (·.2)) := by
  rw [withOptions_hash, withOptions_hash] at h
  exact hash_changes_includes { t with override := some n } { t' with override := some n } hc hc' rfl h

/-- Before the repair `Task.options` dropped `hash_includes`: whatever the included data, the hash
after `.options(...)` is the same. -/
theorem refuted_old_options_drop_includes (t : TaskDef) (l l' : Option (List Inc)) (n : Nat) :
    calcHash (withOptionsOld { t with includes := l } n) = calcHash (withOptionsOld { t with includes := l' } n) := rfl

/-! ### wrapped and partial tasks -/

/-- A wrapped task's hash changes when the task it wraps changes (same wrapper). -/
theorem wrapped_changes (w : Wrapper) (r r' : Nat) (inner inner' : TaskDef)
    (h : calcHash inner ≠ calcHash inner') : calcHash (wrapTask w r inner) ≠ calcHash (wrapTask w r' inner') := by
  intro e
  have := hash_changes_includes (wrapTask w r inner) (wrapTask w r' inner') rfl rfl rfl e
  simp only [wrapTask, Option.getD_some, map_append, map_cons, map_nil] at this
  have := (perm_append_left_iff _).mp this
  exact h (by simpa using this)

/-- …and when the wrapper's own included data change. -/
theorem wrapped_changes_wrapper_includes (w w' : Wrapper) (r : Nat) (inner : TaskDef)
    (h : calcHash (wrapTask w r inner) = calcHash (wrapTask w' r inner)) :
    (w.includes.map (·.2)).Perm (w'.includes.map (·.2)) := by
  have := hash_changes_includes (wrapTask w r inner) (wrapTask w' r inner) rfl rfl rfl h
  simp only [wrapTask, Option.getD_some, map_append, map_cons, map_nil] at this
  exact (perm_append_right_iff _).mp this

/-- A partial task's hash reflects the task and the bound arguments: equal hashes ⇒ same inner task
hash, same positional argument hashes, same keyword arguments (as a dict). -/
theorem partial_reflects_args (i i' : Pre) (a a' : List Pre) (k k' : List (String × Pre))
    (h : partialHash i a k = partialHash i' a' k') : i = i' ∧ a = a' ∧ k.Perm k' := by
  simp only [partialHash, taskArguments, Pre.hash.injEq, Pre.list.injEq, cons.injEq, Pre.dict.injEq,
    true_and, and_true] at h
  exact ⟨h.1, h.2.1, perm_of_sortKw_eq h.2.2⟩

/-- …and is insensitive to keyword order. -/
theorem partial_ignores_keyword_order (i : Pre) (a : List Pre) (k k' : List (String × Pre))
    (hp : k.Perm k') (hn : (keys k).Nodup) : partialHash i a k = partialHash i a k' := by
  simp [partialHash, taskArguments, sortKw_eq_of_perm hp hn]

theorem partial_ne_task (i : Pre) (a : List Pre) (k : List (String × Pre)) (t : TaskDef) :
    partialHash i a k ≠ calcHash t := by
  unfold calcHash calcHashWith partialHash
  split <;> simp

/-! ### noted, not claimed as a defect: includes and options share one flat list -/

/-- `@task(hash_includes=[d])` without overrides and no includes with `.options(**d)` collide when the
included value is the override dict itself (both changed at once; the one-dimension theorems above are
not contradicted). -/
theorem flat_list_collision_note (t : TaskDef) (hc : t.compat = []) (n r : Nat) :
    calcHash { t with includes := some [(r, .val n)], override := none }
      = calcHash { t with includes := none, override := some n } := by
  simp [calcHash, calcHashWith, hc, inclHashes, optsHash, sortR, insertR, fullname, codeId, taskSource]

/-! ### the code before the repair (finding F22) -/

def asyncSrc (mem : String) : List String :=
  ["@task(cache=False, memory=" ++ mem ++ ")", "async def f(x):", "    return x", ""]

/-- Before the repair the decorator line of an `async def` task stays in the hashed source, so two
definitions that differ only in a decorator argument hash differently. -/
theorem refuted_old_async_decorator : funcSourceOld (asyncSrc "1") ≠ funcSourceOld (asyncSrc "2") := by
  decide

/-- …with the repair they hash the same (instance of `funcSource_ignores_decorators`). -/
theorem fixed_async_decorator : funcSource (asyncSrc "1") = funcSource (asyncSrc "2") := by
  have h := fun m => funcSource_ignores_decorators ["@task(cache=False, memory=" ++ m ++ ")"] "async def f(x):"
    ["    return x", ""]
  rw [show asyncSrc "1" = ["@task(cache=False, memory=" ++ "1" ++ ")"] ++ "async def f(x):" :: ["    return x", ""] from rfl,
    show asyncSrc "2" = ["@task(cache=False, memory=" ++ "2" ++ ")"] ++ "async def f(x):" :: ["    return x", ""] from rfl,
    h "1" (by decide) (by decide), h "2" (by decide) (by decide)]

/-! ### non-vacuity -/

def tdef : TaskDef :=
  { name := "f", ns := "ns", srcLines := ["@task()", "def f(x):", "    return x", ""], srcGiven := none,
    version := none, compat := [], includes := some [(2, .val 7), (1, .val 9)], base := 0, override := some 5 }

example : calcHash tdef ≠ calcHash { tdef with name := "g" } :=
  hash_changes_fullname _ _ rfl rfl (by decide)
example : calcHash tdef ≠ calcHash { tdef with srcLines := ["@task()", "def f(x):", "    return x + 1", ""] } :=
  hash_changes_source _ _ rfl rfl rfl rfl (by decide)
example : calcHash { tdef with version := some "1" } ≠ calcHash { tdef with version := some "2" } :=
  hash_changes_version _ _ rfl rfl (by simp)
example : calcHash tdef ≠ calcHash { tdef with includes := some [(2, .val 7)] } := fun e => by
  have := (hash_changes_includes tdef { tdef with includes := some [(2, .val 7)] } rfl rfl rfl e).length_eq
  simp [tdef] at this
example : calcHash tdef ≠ calcHash { tdef with override := some 6 } := fun e => by
  have := hash_changes_override tdef { tdef with override := some 6 } rfl rfl (Perm.refl _) e
  simp [tdef] at this
example : calcHash tdef = calcHash { tdef with includes := some [(1, .val 9), (2, .val 7)] } :=
  hash_ignores_include_order tdef _ _ (Perm.swap _ _ _) (by
    intro a ha b hb; simp at ha hb; rcases ha with rfl | rfl <;> rcases hb with rfl | rfl <;> simp)
example : calcHash (withOptions tdef 3) ≠ calcHash (withOptions { tdef with includes := some [(2, .val 7)] } 3) :=
  fun e => by
    have := (options_keep_includes tdef { tdef with includes := some [(2, .val 7)] } 3 rfl rfl e).length_eq
    simp [tdef] at this
example : calcHash (wrapTask ⟨["def w():", ""], [], none, 0⟩ 0 tdef)
    ≠ calcHash (wrapTask ⟨["def w():", ""], [], none, 0⟩ 0 { tdef with override := some 6 }) :=
  wrapped_changes _ _ _ _ _ (fun e => by
    have := hash_changes_override tdef { tdef with override := some 6 } rfl rfl (Perm.refl _) e
    simp [tdef] at this)

example : fullname { tdef with ns := "a.b", name := "c" } ≠ fullname { tdef with ns := "a", name := "c" } := fun h => by
  have := (fullname_injective _ _ (by decide) (by decide) h).1
  simp at this

end RedunModel.C17
