/-
C07 - results and recorded call graph do not depend on timing.

Model: `RedunModel/Model/Timing.lean`.  A call hash is the pre-image `[CallNode, task, args, result, sorted kids]`;
`sorted` sorts by the hex digests, an order the model does not know: everything is stated for **every** total order
`le` (`structuralOrder` shows there is one, the driver sorts with it).

Full strength for programs without handles and without `fork_thread`:
* `sorted_children_perm_invariant`  the call hash does not depend on the order in which the children are listed;
* `value_and_graph_independent`     two evaluations of the same expression that list the children of every job in
                                    arbitrary (different) orders - i.e. under any two completion orders and limit
                                    configurations - end with the same value, the same child call hashes and the same
                                    recorded CallNode / Argument / CallEdge rows (up to order);
* `root_call_independent`           ... hence the same root call hash; `agrees_with_canonical`: every admissible run
                                    agrees with the depth-first run the driver prints (`canonical_is_admissible`).
Handles (fork key = counter of the entries of sibling jobs into `_exec_job_main_thread`):
* `forkKey_reentry_invariant` (F)   after the committed repair the keys depend only on the siblings' FIRST entries:
                                    re-entries after waiting for a resource limit change nothing;
* `forkKey_linear_independent` (F)  handles that are not shared by siblings get the same keys under every entry order;
  `forkKey_prekeyed` (F)            a handle forked explicitly (`h.fork("k")`) keeps its key whatever the counter;
* `refuted_handles_order`           closed witness, current code: two siblings sharing a handle get swapped keys when
                                    they reach execution in the other order -> different argument hashes (known finding);
* `refuted_handles_reentry`         closed witness on the model of the code as found (`recount = true`), repaired;
* `refuted_fork_thread`             for every job tree: a `fork_thread` child that has not ended when its parent
                                    resolves changes the parent's call hash (known finding).
-/
import RedunModel.Lemmas.Timing
import RedunModel.Lemmas.TimingOrder
namespace RedunModel.C07
open RedunModel.Timing

/-- there is a total order on call hashes (the theorems below are not vacuous) -/
theorem structuralOrder : TotalOrder H.le := Timing.structuralOrder

/-- `hash_call_node` sorts the child call hashes: listing the children in another order gives the same hash -/
theorem sorted_children_perm_invariant {le : H → H → Bool} (hle : TotalOrder le) {t : Nat} {a : List HV} {r : HV}
    {k1 k2 : List H} (h : k1.Perm k2) : hashCallNode le t a r k1 = hashCallNode le t a r k2 :=
  hashCallNode_perm hle h

/-- ... and only then (the pre-image determines task, arguments, result and the multiset of children) -/
theorem callHash_injective {le : H → H → Bool} {t t' : Nat} {a a' : List HV} {r r' : HV} {k k' : List H}
    (h : hashCallNode le t a r k = hashCallNode le t' a' r' k') : t = t' ∧ a = a' ∧ r = r' ∧ k.Perm k' :=
  hashCallNode_inj h

/-- **C07 for handle-free, fork_thread-free programs.**  `Ev P e v ks` allows the children of every job to be listed in
any order whatsoever (any completion order, any limit configuration).  Any two such runs agree on the value, on the
call hashes of the children and on all recorded rows. -/
theorem value_and_graph_independent {le : H → H → Bool} (hle : TotalOrder le) {P : Prog} {e : Expr} {v v' : HV}
    {ks ks' : List JT} (h : Ev P e v ks) (h' : Ev P e v' ks') :
    v = v' ∧ (kidHashes le ks).Perm (kidHashes le ks') ∧ (rowsL le ks).Perm (rowsL le ks') := by
  obtain ⟨hv, hs⟩ := ev_det hle h h'
  exact ⟨hv, hs.1, hs.2⟩

/-- the root job of an execution: same call hash, same rows -/
theorem root_call_independent {le : H → H → Bool} (hle : TotalOrder le) {P : Prog} {n : Nat} {a v v' : HV}
    {k k' : JT} (h : Ev P (.call n (.lit a)) v [k]) (h' : Ev P (.call n (.lit a)) v' [k']) (hs : k.seen = true)
    (hs' : k'.seen = true) : v = v' ∧ callHash le k = callHash le k' ∧ (rows le k).Perm (rows le k') := by
  obtain ⟨hv, hk, hr⟩ := value_and_graph_independent hle h h'
  simp only [kidHashes, hs, hs', if_true, List.append_nil, List.perm_singleton, List.cons.injEq, and_true] at hk
  simp only [rowsL, hs, hs', if_true, List.append_nil] at hr
  exact ⟨hv, hk.symm ▸ rfl, hr⟩

/-- the depth-first run (what the driver prints) is one of the admissible runs -/
theorem canonical_is_admissible {P : Prog} (n : Nat) {e : Expr} {v : HV} {ks : List JT}
    (h : evalC P n e = some (v, ks)) : Ev P e v ks := evalC_ev n h

/-- every admissible run agrees with it -/
theorem agrees_with_canonical {le : H → H → Bool} (hle : TotalOrder le) {P : Prog} (n : Nat) {e : Expr} {v v' : HV}
    {ks ks' : List JT} (h : evalC P n e = some (v, ks)) (h' : Ev P e v' ks') :
    v' = v ∧ (kidHashes le ks').Perm (kidHashes le ks) ∧ (rowsL le ks').Perm (rowsL le ks) :=
  value_and_graph_independent hle h' (evalC_ev n h)

/-! ### handles -/

/-- after the repair, the fork keys depend only on the order of the siblings' first entries -/
theorem forkKey_reentry_invariant (es : List Entry) (s : Nat) :
    callOrder false es s = callOrder false (firstEntries es) s := by
  unfold callOrder; rw [reentry_invariant]

/-- handles that no two siblings share: same fork keys under every entry order (with or without the repair) -/
theorem forkKey_linear_independent (recount : Bool) {es es' : List Entry} (hp : es.Perm es') (hl : Linear es) (s : Nat) :
    callOrder recount es s = callOrder recount es' s := callOrder_linear_perm recount hp hl s

theorem forkKey_prekeyed {h : HV} (hk : h.key ≠ 0) (n m : Nat) : forkArg h n = forkArg h m := forkArg_prekeyed hk n m

/-- what the driver computes for a handle workflow from the observed order of entries is `enterAll` (the function
the theorems above are about) on the entries of exactly those jobs, in that order -/
theorem driver_replay_is_enterAll (recount : Bool) (lanes : List Lane) (js : List Nat) :
    (replay recount lanes js {} []).1 = enterAll recount (replayEntries recount lanes js {}) ∧
    (replayEntries recount lanes js {}).map (·.sib) = js := replay_enterAll recount lanes js

/-- the handle `H("db")` created in the parent -/
def h0 : HV := .hinit 1 0

/-- **refuted (current code, DESIGN F5 ii)**: `[use(h, slow(1)), use(h, slow(2))]` - sibling 0 enters first in one
schedule, second in the other: it is handed fork `1` resp. `2` of the handle, so the argument hash pre-images (and
with them eval hash, call hash and everything downstream) differ.  Holds with and without the re-entry repair. -/
theorem refuted_handles_order (recount : Bool) :
    callOrder recount [⟨0, h0⟩, ⟨1, h0⟩] 0 = some 1 ∧ callOrder recount [⟨1, h0⟩, ⟨0, h0⟩] 0 = some 2 ∧
    forkArg h0 1 ≠ forkArg h0 2 := by
  cases recount <;> decide

/-- **refuted on the code as found (DESIGN F5 i; repaired)**: three siblings, limit 1: siblings 1 and 2 wait and
re-enter - they are handed forks 4 and 5 instead of 2 and 3. -/
theorem refuted_handles_reentry :
    (callOrder true [⟨0, h0⟩, ⟨1, h0⟩, ⟨2, h0⟩] 1, callOrder true [⟨0, h0⟩, ⟨1, h0⟩, ⟨2, h0⟩] 2) = (some 2, some 3) ∧
    (callOrder true [⟨0, h0⟩, ⟨1, h0⟩, ⟨2, h0⟩, ⟨1, h0⟩, ⟨2, h0⟩] 1,
     callOrder true [⟨0, h0⟩, ⟨1, h0⟩, ⟨2, h0⟩, ⟨1, h0⟩, ⟨2, h0⟩] 2) = (some 4, some 5) := by
  decide

/-- the same two entry sequences on the repaired code (an instance of `forkKey_reentry_invariant`) -/
example : callOrder false [⟨0, h0⟩, ⟨1, h0⟩, ⟨2, h0⟩, ⟨1, h0⟩, ⟨2, h0⟩] 2 = callOrder false [⟨0, h0⟩, ⟨1, h0⟩, ⟨2, h0⟩] 2 := by
  decide

/-- non-vacuity of `forkKey_linear_independent`: two siblings with different handles, both orders -/
example : Linear [⟨0, .hinit 1 0⟩, ⟨1, .hinit 2 0⟩] ∧ [Entry.mk 0 (.hinit 1 0), ⟨1, .hinit 2 0⟩].Perm [⟨1, .hinit 2 0⟩, ⟨0, .hinit 1 0⟩] := by
  constructor
  · simp [Linear]
  · exact List.Perm.swap _ _ _

/-! ### fork_thread -/

/-- **refuted (current code, DESIGN F16)**: whatever the job tree, a child that is not yet finished when its parent
resolves (only possible for a `fork_thread` child) is missing from the parent's child call hashes, which changes the
parent's call hash. -/
theorem refuted_fork_thread (le : H → H → Bool) (t : Nat) (a ea : List HV) (r : HV) (s : Bool) (pre post : List JT) (k : JT) :
    callHash le (.node t a ea r s (pre ++ k.setSeen true :: post)) ≠
    callHash le (.node t a ea r s (pre ++ k.setSeen false :: post)) := callHash_unseen_ne le t a ea r s pre post k

/-! ### a concrete instance of the main theorem -/

/-- t0(x) = cond(t1(x), t2(x), 0) + cond(t1(x+1), t2(x+1), 0); t1(x) = x; t2(x) = x + 10 -/
def exProg : Prog where
  body n x :=
    match n with
    | 0 => .add (.cond (.call 1 (.lit x)) (.call 2 (.lit x)) (.lit (.int 0)))
                (.cond (.call 1 (.lit (addV x (.int 1)))) (.call 2 (.lit (addV x (.int 1)))) (.lit (.int 0)))
    | 1 => .lit x
    | _ => .lit (addV x (.int 10))

example : (evalC exProg 10 (.call 0 (.lit (.int 1)))).map (·.1) = some (.int 23) := by decide

/-- two admissible runs of the same expression that list the two children in opposite orders ... -/
def n1 : JT := .node 1 [.int 1] [.int 1] (.int 1) true []
def n2 : JT := .node 2 [.int 1] [.int 1] (.int 11) true []
def e12 : Expr := .add (.call 1 (.lit (.int 1))) (.call 2 (.lit (.int 1)))

theorem evn1 : Ev exProg (.call 1 (.lit (.int 1))) (.int 1) [n1] :=
  .call (ka := []) (kids := []) (.lit _) (show Ev exProg (exProg.body 1 (.int 1)) (.int 1) [] from .lit _) (.refl _)
theorem evn2 : Ev exProg (.call 2 (.lit (.int 1))) (.int 11) [n2] :=
  .call (ka := []) (kids := []) (.lit _) (show Ev exProg (exProg.body 2 (.int 1)) (.int 11) [] from .lit _) (.refl _)
theorem ev12 : Ev exProg e12 (.int 12) [n1, n2] := .add evn1 evn2 (.refl _)
theorem ev21 : Ev exProg e12 (.int 12) [n2, n1] := .add evn1 evn2 (List.Perm.swap _ _ _)

/-- ... to which `value_and_graph_independent` applies (its hypotheses are satisfiable with different listings) -/
example : (kidHashes H.le [n1, n2]).Perm (kidHashes H.le [n2, n1]) :=
  (value_and_graph_independent C07.structuralOrder ev12 ev21).2.1

end RedunModel.C07
