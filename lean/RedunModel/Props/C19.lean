/-
C19 — Nested values are traversed and rebuilt faithfully.

Property theorems only.  Models: `RedunModel.Model.Nested` (`NV`, `mapNV`, `leaves`, the explicit-stack
iterator `iterNested`, the visiting order `visited` of `map_nested_value`) and
`RedunModel.Model.NestedMap` (`mapPy` = `map_nested_value` of the repaired code written over the Python
attribute primitives that can raise; `mapOld` = the same before the repair).
Helper lemmas: `RedunModel.Lemmas.Nested`, `RedunModel.Lemmas.NestedMap`.
-/
import RedunModel.Lemmas.Nested
import RedunModel.Lemmas.NestedMap
namespace RedunModel.C19
open RedunModel.Nested RedunModel.Nested.NV RedunModel.NestedMap
variable {α β γ : Type}

/-! ## `map_nested_value` never raises and is the structural map (totality, full strength) -/

/-- For every function and every nested value of the grammar (lists, tuples, named tuples, sets, dicts
with nested keys, dataclasses with init and non-init fields, frozen or not, with or without `__dict__`)
the repaired `map_nested_value` returns, and what it returns is the structural map. -/
theorem total (f : α → β) (v : NV α) : mapPy f v = .ok (mapNV f v) := mapWith_new f v

/-! ## same types and shape, every leaf replaced -/

/-- The container skeleton (types, class names, arities, dict layout, dataclass field layout) is unchanged. -/
theorem shape_preserved (f : α → β) (v : NV α) : shape (mapNV f v) = shape v := shape_mapNV f v

/-- The leaves of the result, in iterator order, are the images of the leaves of the argument. -/
theorem leaves_map (f : α → β) (v : NV α) : leaves (mapNV f v) = (leaves v).map f := leaves_mapNV f v

/-- … so every leaf of the result is `f` of a leaf of the argument: an expression nested anywhere is replaced. -/
theorem every_leaf_replaced (f : α → β) (v : NV α) (b : β) (hb : b ∈ leaves (mapNV f v)) :
    ∃ a ∈ leaves v, b = f a := by
  rw [leaves_map] at hb
  obtain ⟨a, ha, rfl⟩ := List.mem_map.1 hb
  exact ⟨a, ha, rfl⟩

/-- Shape and leaves determine a nested value: the result of `map_nested_value` is the *only* value
with the argument's shape whose leaves are the mapped leaves. -/
theorem rebuild_unique (f : α → β) (v : NV α) (r : NV β) (hs : shape r = shape v)
    (hl : leaves r = (leaves v).map f) : r = mapNV f v := by
  apply eq_of_shape_leavesDfs
  · rw [hs, shape_preserved]
  · have := congrArg List.reverse hl
    simpa [leaves, leavesDfs_mapNV] using this

/-- Well-formedness (dict keys/values paired, one value per dataclass field) is preserved. -/
theorem wf_preserved (f : α → β) (v : NV α) (h : WF v) : WF (mapNV f v) := by
  induction v using NV.ind <;> simp_all [WF, mapNV, mapNVs_eq, WFs_iff]

theorem functor_id (v : NV α) : mapNV id v = v := mapNV_id v
theorem functor_comp (g : β → γ) (f : α → β) (v : NV α) : mapNV g (mapNV f v) = mapNV (g ∘ f) v := mapNV_comp g f v

/-! ## the leaf iterator -/

/-- The explicit-stack loop of `iter_nested_value` yields the mirror image of depth-first order. -/
theorem iter_eq_leaves (v : NV α) : iterNested v = leaves v := by
  simp [iterNested, iterLoop_eq]

/-- The stack-based iterator yields a permutation of the recursive left-to-right traversal. -/
theorem iter_perm_dfs (v : NV α) : (iterNested v).Perm (leavesDfs v) := by
  rw [iter_eq_leaves]; exact List.reverse_perm _

/-- The leaves `map_nested_value` applies `func` to are exactly (as a multiset) the ones the iterator yields. -/
theorem visited_perm_iter (v : NV α) : (visited v).Perm (iterNested v) := by
  rw [iter_eq_leaves]; exact visited_perm_leaves v

/-- The visiting order of the result is the image of the visiting order of the argument. -/
theorem visited_map (f : α → β) (v : NV α) : visited (mapNV f v) = (visited v).map f := visited_mapNV f v

/-! ## the code before the repair (finding F20): totality refuted, partial version -/

/-- frozen dataclass with a non-init field: `setattr` raises `FrozenInstanceError`. -/
theorem old_refuted_frozen_noninit :
    mapOld (fun n : Nat => n + 10)
      (.dcls { name := "FN", fields := [("a", true), ("b", false)], frozen := true } [.leaf 1, .leaf 7])
      = .error .frozenInstanceError := by rfl

/-- `slots=True` dataclass: `value.__dict__` raises `AttributeError`. -/
theorem old_refuted_slots :
    mapOld (fun n : Nat => n + 10)
      (.dcls { name := "SL", fields := [("a", true)], hasDict := false } [.leaf 1])
      = .error .attributeError := by rfl

/-- The same two inputs on the repaired code. -/
example : mapPy (fun n : Nat => n + 10)
      (.dcls { name := "FN", fields := [("a", true), ("b", false)], frozen := true } [.leaf 1, .leaf 7])
      = .ok (.dcls { name := "FN", fields := [("a", true), ("b", false)], frozen := true } [.leaf 11, .leaf 17]) := by
  rfl
example : mapPy (fun n : Nat => n + 10) (.dcls { name := "SL", fields := [("a", true)], hasDict := false } [.leaf 1])
      = .ok (.dcls { name := "SL", fields := [("a", true)], hasDict := false } [.leaf 11]) := by rfl

/-- Partial totality of the old code: fine when every dataclass has a `__dict__` and no frozen one has a
non-init field. -/
theorem old_partial (f : α → β) (v : NV α) (h : OldOk v) : mapOld f v = .ok (mapNV f v) := mapWith_old_ok f v h

/-- … and that condition is exact: everywhere else the old code raises. -/
theorem old_fails_iff (f : α → β) (v : NV α) : (∃ e, mapOld f v = .error e) ↔ ¬ OldOk v := by
  constructor
  · rintro ⟨e, he⟩ hok
    rw [old_partial f v hok] at he
    cases he
  · exact mapWith_old_err f v

/-! ## non-vacuity: a concrete nesting through every container type -/
private def ex : NV Nat :=
  .list [.dict [.tuple [.leaf 1, .leaf 2], .leaf 3] [.set [.leaf 4, .leaf 5], .ntuple "P" [.leaf 6, .leaf 7]],
         .dcls { name := "D", fields := [("n", false), ("x", true), ("y", true)] } [.leaf 8, .list [.leaf 9], .leaf 10]]

example : iterNested ex = [10, 9, 8, 7, 6, 5, 4, 3, 2, 1] := by rw [iter_eq_leaves]; decide
example : leavesDfs ex = [1, 2, 3, 4, 5, 6, 7, 8, 9, 10] := by decide
/-- dict items interleaved; the non-init field `n` (declared first) is visited last -/
example : visited ex = [1, 2, 4, 5, 3, 6, 7, 9, 10, 8] := by decide
example : WF ex := by simp [ex, WF, WFs]
example : OldOk ex := by simp [ex, OldOk, OldOks]
example : leaves (mapNV (· * 2) ex) = [20, 18, 16, 14, 12, 10, 8, 6, 4, 2] := by decide

end RedunModel.C19
