/-
C24 — Tag history behaves like a key-value multiset; the tag edit graph stays acyclic.

Property theorems only; helper lemmas live in `RedunModel.Lemmas.Tags`.
Model: `RedunModel.Model.Tags` (`record_tags` / `delete_tags` as called by `redun tag add | update | rm`,
hashes symbolic).  All theorems quantify over every command sequence, of any length, on any entities, keys
and values; none needs a well-formedness hypothesis on the commands.  The refinement is stated for real
entities (`e ≠ ""`; the empty entity id is the one delete markers are filed under).
-/
import RedunModel.Lemmas.Tags
namespace RedunModel.C24
open RedunModel.Tags

theorem inv_init : Inv init := by
  constructor
  · constructor <;> simp [init]
  all_goals simp [init]

theorem agree_init : Agree init [] := by
  intro e k v _; simp [init, St.current]

theorem step_spec (st : St) (sp : Spec) (op : Op) (hi : Inv st) (ha : Agree st sp) :
    ∃ st', st.step op = .ok st' ∧ Inv st' ∧ Agree st' (sp.step op) := by
  cases op with
  | add e kvs => obtain ⟨st', h1, h2, h3, _⟩ := step_add st sp e kvs hi ha; exact ⟨st', h1, h2, h3⟩
  | update e kvs => exact step_update st sp e kvs hi ha
  | rm e pairs keys => exact step_rm st sp e pairs keys hi ha

theorem run_spec (st : St) (sp : Spec) (ops : List Op) (hi : Inv st) (ha : Agree st sp) :
    ∃ st', run st ops = .ok st' ∧ Inv st' ∧ Agree st' (Spec.run sp ops) := by
  induction ops generalizing st sp with
  | nil => exact ⟨st, rfl, hi, ha⟩
  | cons op ops ih =>
    obtain ⟨st1, h1, hi1, ha1⟩ := step_spec st sp op hi ha
    obtain ⟨st2, h2, hi2, ha2⟩ := ih st1 (sp.step op) hi1 ha1
    exact ⟨st2, by simp only [run, h1, h2], hi2, by simpa [Spec.run] using ha2⟩

/-- `C24_walk_terminates`: no command sequence makes the walk down the edit graph run out of fuel
(the only error of the model), i.e. `record_tags`'s recursion always ends. -/
theorem run_total (ops : List Op) : ∃ st, run init ops = .ok st := by
  obtain ⟨st, h, _⟩ := run_spec init [] ops inv_init agree_init
  exact ⟨st, h⟩

/-- The table invariant holds after every command sequence: unique ids and pre-images, parents are older
tags, `tag_edit` is exactly the "is listed as parent of" relation, and a tag is current iff it has no
outgoing edit. -/
theorem inv_run (ops : List Op) (st : St) (h : run init ops = .ok st) : Inv st := by
  obtain ⟨st', h', hi, _⟩ := run_spec init [] ops inv_init agree_init
  rw [h] at h'; cases h'; exact hi

/-- a non-empty chain of edits -/
inductive Path (E : List (Nat × Nat)) : Nat → Nat → Prop where
  | edge {a b : Nat} : (a, b) ∈ E → Path E a b
  | cons {a b c : Nat} : (a, b) ∈ E → Path E b c → Path E a c

theorem path_lt {st : St} (hi : Inv st) {a b : Nat} (hp : Path st.edges a b) : a < b := by
  induction hp with
  | edge h => exact (edge_lt_next hi h).2.1
  | cons h _ ih => have := (edge_lt_next hi h).2.1; omega

/-- The tag edit graph stays acyclic. -/
theorem acyclic (ops : List Op) (st : St) (h : run init ops = .ok st) (x : Nat) : ¬ Path st.edges x x := by
  intro hp
  have := path_lt (inv_run ops st h) hp
  omega

/-- I1: a tag is current exactly when nothing supersedes it. -/
theorem current_iff_leaf (ops : List Op) (st : St) (h : run init ops = .ok st) (r : Row) (hr : r ∈ st.rows) :
    r.cur = true ↔ st.hasChild r.id = false :=
  (inv_run ops st h).curIff r hr

/-- I2: every edit goes from a tag to a tag that lists it among its hashed parents (so the child's hash
pre-image contains the parent's hash). -/
theorem edit_iff_parent (ops : List Op) (st : St) (h : run init ops = .ok st) (p c : Nat) :
    (p, c) ∈ st.edges ↔ ∃ r ∈ st.rows, r.id = c ∧ p ∈ r.pre.parents :=
  (inv_run ops st h).edgeIff p c

/-- A tag proposed with a non-empty set of current parents never pre-exists: "invalidate the parents" and
"insert the tag and its edits" always happen together, so the `UPDATE` that `record_tags` leaves
uncommitted when there is nothing to insert is unreachable. -/
theorem fresh_with_parents (ops : List Op) (st : St) (h : run init ops = .ok st) (p : Pre)
    (hne : p.parents ≠ []) (hcur : ∀ par ∈ p.parents, ∃ r ∈ st.rows, r.id = par ∧ r.cur = true) :
    st.lookup p = none :=
  lookup_none_of_current_parents (inv_run ops st h) hne hcur

/-- Refinement: after any command sequence the current pairs of every real entity are exactly those of the
key-value reference (add inserts, update replaces all values of the given keys, rm removes the given
pairs / keys). -/
theorem refines_spec (ops : List Op) (st : St) (h : run init ops = .ok st) (e k v : String) (he : e ≠ "") :
    (k, v) ∈ st.current e ↔ (e, k, v) ∈ Spec.run [] ops := by
  obtain ⟨st', h', _, ha⟩ := run_spec init [] ops inv_init agree_init
  rw [h] at h'; cases h'; exact ha e k v he

theorem run_append (st : St) (ops1 ops2 : List Op) :
    run st (ops1 ++ ops2) = (match run st ops1 with | .ok st1 => run st1 ops2 | .error e => .error e) := by
  induction ops1 generalizing st with
  | nil => simp [run]
  | cons op ops ih =>
    simp only [List.cons_append, run]
    cases st.step op with
    | ok st1 => exact ih st1
    | error e => rfl

/-- Re-adding makes a pair current again, whatever happened before (in particular after it was removed
or superseded). -/
theorem readd_current (ops : List Op) (e : String) (kvs : List (String × String)) (st : St)
    (h : run init (ops ++ [.add e kvs]) = .ok st) (kv : String × String) (hkv : kv ∈ kvs) :
    (kv.1, kv.2) ∈ st.current e := by
  obtain ⟨st1, h1, hi1, ha1⟩ := run_spec init [] ops inv_init agree_init
  obtain ⟨st2, h2, _, _, hcov⟩ := step_add st1 (Spec.run [] ops) e kvs hi1 ha1
  rw [run_append, h1] at h
  simp only [run, h2] at h
  cases h
  exact hcov kv hkv

/-! non-vacuity: the two sequences named in the design -/
example : (match run init [.add "e" [("k", "1")], .rm "e" [("k", "1")] [], .add "e" [("k", "1")],
    .rm "e" [("k", "1")] [], .add "e" [("k", "1")]] with
    | .ok st => (st.current "e", st.rows.length, st.edges.length) | .error _ => ([], 0, 0))
    = ([("k", "1")], 5, 4) := by decide

example : (match run init [.add "e" [("k", "1")], .update "e" [("k", "1")], .rm "e" [("k", "1")] []] with
    | .ok st => (st.current "e", st.rows.length, st.edges.length) | .error _ => ([("", "")], 0, 0))
    = ([], 3, 2) := by decide

/-- the implementation can hold the same pair twice (root tag re-added next to an updated copy): the
reference is compared on supports -/
example : (match run init [.add "e" [("k", "1")], .add "e" [("k", "2")], .update "e" [("k", "1")],
    .add "e" [("k", "1")]] with
    | .ok st => st.current "e" | .error _ => []) = [("k", "1"), ("k", "1")] := by decide

end RedunModel.C24
