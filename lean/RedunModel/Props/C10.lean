/-
C10 — Remote-executor monitors never lose a submitted job.

Property theorems only.  Models: `RedunModel.Model.Monitor` (the five executors as found: line-level
transition system, five `Variant` values) and `RedunModel.Model.MonitorLocked` (the hand-off done
under one lock: specification of the repair).  Lemmas: `RedunModel.Lemmas.Monitor*`.

Target (full strength):  `no_lost_job` — in every reachable state of every interleaving in which no
thread can take a step, nothing is left in the pending map or the queue:

    ∀ V jobs s, Reachable V jobs s → lost s = []

* It is FALSE for each of the five executors as found: `refuted_docker`, `refuted_aws_batch`,
  `refuted_k8s`, `refuted_gcp_batch`, `refuted_glue` (a job recorded while the monitor is between its
  loop test and the end of `stop()`), `refuted_glue_in_hand` (no second submission needed: the Glue
  monitor leaves while the submission thread holds the only job).  Closed traces, checked by `decide`.
* What does hold of the code as found, for EVERY variant (any line structure), every job stream and
  every interleaving: `conservation`, `reported_at_most_once` (a lost job is never dropped or reported
  twice — it stays recorded in the pending map / queue, which is why a later submission recovers it).
* `no_lost_job_partial`: for Docker, AWS Batch, K8S and GCP Batch (every variant whose exit path is
  well formed, `WF`) the window is the ONLY way to lose a job: in every interleaving in which no job is
  recorded while a monitor is between its failed loop test and the point where `_start` would start a
  new thread (`hit = false`), nothing is lost, and no monitor crashes.  Missing for the full statement:
  exactly the interleavings with `hit = true` (refuted above), and AWS Glue (second loss mode).
* `locked_no_lost_job`: the target holds, for all interleavings, of the protocol in which the
  monitor's exit decision + flag clearing and the submitter's flag test + set + thread start are
  critical sections of one lock.
-/
import RedunModel.Lemmas.MonitorPartialC
import RedunModel.Lemmas.MonitorFault
import RedunModel.Lemmas.MonitorLockedC
namespace RedunModel.C10
open RedunModel.Monitor

/-! ## the code as found: what holds -/

/-- **Conservation.** Whatever the executor variant and the interleaving, every job of the input
stream is in exactly one place (with multiplicity): not yet recorded by `_submit`, in the queue
(arrayer / Glue pending queue), in the pending map the monitor polls, in the hands of a Glue
submission thread, reported to the scheduler, or `dropped`: removed from the pending map by a
status-processing step that then hit an injected cloud error (see `fault_is_reported`). -/
theorem conservation (V : Variant) (jobs : List Job) (s : State) (h : Reachable V jobs s) (j : Job) :
    jobs.count j = (rest s).count j + s.queue.count j + s.pending.count j + (inHand s).count j
      + s.reported.count j + s.dropped.count j := by
  have hC := reachable_invC h
  have h1 := hC.cons j
  have h2 := congrArg (List.count j) hC.prog
  simp only [List.count_append] at h2
  omega

/-- **Reported at most once**, and a reported job is no longer pending or queued. -/
theorem reported_at_most_once (V : Variant) (jobs : List Job) (s : State) (h : Reachable V jobs s)
    (hd : jobs.Nodup) : s.reported.Nodup ∧ ∀ j ∈ s.reported, j ∉ s.pending ∧ j ∉ s.queue := by
  have key : ∀ j, s.queue.count j + s.pending.count j + s.reported.count j ≤ 1 := by
    intro j
    have := conservation V jobs s h j
    have := List.nodup_iff_count.1 hd j
    omega
  refine ⟨List.nodup_iff_count.2 (fun j => by have := key j; omega), ?_⟩
  intro j hj
  have h1 : 0 < s.reported.count j := List.count_pos_iff.2 hj
  constructor
  · intro hp; have : 0 < s.pending.count j := List.count_pos_iff.2 hp; have := key j; omega
  · intro hq; have : 0 < s.queue.count j := List.count_pos_iff.2 hq; have := key j; omega

/-- **Partial: the exit window is the only way to lose a job** (Docker, AWS Batch, K8S, GCP Batch and
every other variant with a well-formed exit path).  For distinct jobs and every interleaving in which
no job was recorded while a monitor thread was on its way out (`hit = false`): when no thread can
take a step any more, the pending map and the queue are empty (`faulted = false`: no cloud error was
injected by the environment; with faults see `fault_is_reported`). -/
theorem no_lost_job_partial (V : Variant) (hW : WF V) (jobs : List Job) (hd : jobs.Nodup) (s : State)
    (h : Reachable V jobs s) (hh : s.hit = false) (hf : s.faulted = false) : lost s = [] := by
  unfold lost
  split
  · rename_i hq
    have hI := reachable_invP hW hd h hh hf
    simp only [quiescent, Bool.and_eq_true, beq_iff_eq, List.all_eq_true] at hq
    obtain ⟨⟨⟨hdone, hmons⟩, _⟩, _⟩ := hq
    have hboth : s.pending = [] ∧ s.queue = [] := by
      apply Classical.byContradiction
      intro hne
      have hne' : s.pending ≠ [] ∨ s.queue ≠ [] := by
        by_cases hp : s.pending = []
        · right; intro hq'; exact hne ⟨hp, hq'⟩
        · left; exact hp
      rcases hI.cover hne' with ⟨_, hpre⟩ | hc
      · -- the thread `self._thread` refers to would have to be running its loop
        unfold lph at hpre
        cases hm : s.mon with
        | none => simp [hm, preExit] at hpre
        | some m =>
          simp only [hm] at hpre
          have hal := hmons m (by simp [State.mons, hm])
          have hu := hI.unst
          simp only [lph, hm] at hu
          simp only [monAlive, Bool.not_and, Bool.or_eq_true, Bool.not_eq_true', bne_eq_false_iff_eq] at hal
          rcases hal with hal | hal
          · have := hu hal; rw [hdone] at this; cases this
          · rw [hal] at hpre; simp [preExit] at hpre
      · rw [hdone] at hc; simp [sCover] at hc
    rw [hboth.1, hboth.2]; rfl
  · rfl

/-- and in those interleavings no monitor thread fails (`_process_job_status` always finds its job) -/
theorem no_monitor_crash_partial (V : Variant) (hW : WF V) (jobs : List Job) (hd : jobs.Nodup) (s : State)
    (h : Reachable V jobs s) (hh : s.hit = false) (hf : s.faulted = false) : ∀ m, s.mon = some m → ∀ r, m.ph ≠ .exc r := by
  intro m hm r
  have := (reachable_invP hW hd h hh hf).noExc r
  simpa [lph, hm] using this

/-- **An injected cloud error is never silent** (all five executors, every variant whose `except` path is
not empty): whenever a status-processing step has removed a job from the pending map and then failed
(throttling, any exception), a scheduler-level error has been raised (`reject_job(None, error)`) or a
monitor thread is on its `except` path about to raise it; so once all threads have ended, dropped jobs
imply a workflow error. -/
theorem fault_is_reported (V : Variant) (hE : V.mExc ≠ []) (jobs : List Job) (s : State)
    (h : Reachable V jobs s) (hq : quiescent s = true) (hd : s.dropped ≠ []) : 0 < s.crashes := by
  have hQ := (reachable_invQ hE h).q
  simp only [quiescent, Bool.and_eq_true, beq_iff_eq, List.all_eq_true] at hq
  obtain ⟨⟨⟨_, hmons⟩, _⟩, _⟩ := hq
  have hz : ∀ l : List Mon, (∀ m ∈ l, (!monAlive m) = true) → excCountL l = 0 := by
    intro l hl
    induction l with
    | nil => rfl
    | cons x r ih =>
      have hx := hl x (by simp)
      have hr := ih (fun m hm => hl m (by simp [hm]))
      simp only [excCountL, List.map_cons, List.sum_cons] at hr ⊢
      rw [hr]
      simp only [monAlive, Bool.not_and, Bool.or_eq_true, Bool.not_eq_true', bne_eq_false_iff_eq] at hx
      rcases hx with hx | hx <;> simp [excOf, hx]
  have h1 := hz s.old (fun m hm => hmons m (by simp [State.mons, hm]))
  have h2 := hz s.mon.toList (fun m hm => hmons m (by simp [State.mons]; right; simpa using hm))
  have hl : 0 < s.dropped.length := List.length_pos_iff.2 hd
  simp only [excCount, h1, h2] at hQ
  omega

/-- all five executors have a non-empty `except` path -/
theorem exc_paths : docker.mExc ≠ [] ∧ awsBatch.mExc ≠ [] ∧ k8s.mExc ≠ [] ∧ gcpBatch.mExc ≠ [] ∧ glue.mExc ≠ [] := by
  decide

/-- **`_submit` tracks the job** (every variant, with or without the reunite path): the step that records a
job puts it into the pending map (directly, or under the id of the in-flight cloud job it is reunited
with) or hands it to the queue (arrayer / Glue pending queue) — never neither; together with
`conservation` it stays in one of the containers until it is reported. -/
theorem submit_tracks_job (V : Variant) (s s' : State) (hph : s.sph = .ins) (hs : stepS V s = some s') :
    s.cur ∈ s'.pending ∨ s.cur ∈ s'.queue := by
  simp only [stepS, hph] at hs
  (repeat' split at hs) <;> (simp only [Option.some.injEq] at hs; subst hs; simp)

/-- the four executors the partial theorem applies to -/
theorem wf_variants : WF docker ∧ WF awsBatch ∧ WF k8s ∧ WF gcpBatch :=
  ⟨wf_docker, wf_awsBatch, wf_k8s, wf_gcpBatch⟩

/-! ## the code as found: the target is refuted -/

theorem reachable_run (V : Variant) (jobs : List Job) (sched : List Ev) :
    ∀ s, Reachable V jobs s → Reachable V jobs (run V s sched) := by
  induction sched with
  | nil => intro s h; exact h
  | cons e es ih =>
    intro s h
    simp only [run]
    split
    · rename_i s' hs; exact ih s' (Reachable.step e h hs)
    · exact ih s h

def rep (n : Nat) (e : Ev) : List Ev := List.replicate n e

/-- job 0 submitted and completed; the monitor's loop test fails (nothing pending); job 1 is recorded and
`_start` sees `is_running == True`; the monitor runs `stop()` and ends. -/
def schedDocker : List Ev := rep 7 .S ++ rep 9 (.M 0) ++ rep 4 .S ++ rep 6 (.M 0)
def schedBatch : List Ev := rep 7 .S ++ [.A] ++ rep 18 (.M 0) ++ rep 3 .S ++ rep 8 (.M 0)
def schedK8s : List Ev := rep 8 .S ++ [.A] ++ rep 20 (.M 0) ++ rep 4 .S ++ rep 4 (.M 0)
def schedGcp : List Ev := rep 6 .S ++ [.A] ++ rep 13 (.M 0) ++ rep 3 .S ++ rep 8 (.M 0)
def schedGlue : List Ev := rep 10 .S ++ rep 13 (.U 0) ++ rep 14 (.M 0) ++ rep 7 .S ++ rep 2 (.M 0) ++ rep 3 (.U 1)
/-- one job: the submission thread has popped it; the monitor's first loop test sees both containers
empty, calls `stop()`; the submission thread then registers the job and ends. -/
def schedGlueInHand : List Ev := rep 10 .S ++ rep 6 (.U 0) ++ rep 6 (.M 0) ++ rep 7 (.U 0)

/-- non-vacuity of `fault_is_reported`: Docker, one job, the fault armed before its status is processed:
the job is popped and not reported, and the monitor raises the scheduler-level error -/
example : ∃ s, Reachable docker [0] s ∧ quiescent s = true ∧ s.dropped = [0] ∧ s.reported = [] ∧ s.crashes = 1 :=
  ⟨run docker (init [0]) (rep 7 .S ++ [.F] ++ rep 30 (.M 0)), reachable_run _ _ _ _ Reachable.init, by decide⟩

/-- non-vacuity of the reunite path: the listing names an in-flight cloud job for job 1; job 0 goes to the
arrayer, job 1 joins the pending map directly -/
example : ∃ s, Reachable awsBatch [0, 1] s ∧ s.pending = [1] ∧ s.queue = [0] ∧ s.pre = [] :=
  ⟨run awsBatch (init [0, 1]) ([.L 1] ++ rep 8 .S), reachable_run _ _ _ _ Reachable.init, by decide⟩

theorem refuted_docker :
    ∃ s, Reachable docker [0, 1] s ∧ quiescent s = true ∧ lost s = [1] ∧ s.reported = [0] ∧ s.flag = false :=
  ⟨run docker (init [0, 1]) schedDocker, reachable_run _ _ _ _ Reachable.init, by decide⟩

theorem refuted_aws_batch :
    ∃ s, Reachable awsBatch [0, 1] s ∧ quiescent s = true ∧ lost s = [1] ∧ s.reported = [0] ∧ s.flag = false :=
  ⟨run awsBatch (init [0, 1]) schedBatch, reachable_run _ _ _ _ Reachable.init, by decide⟩

theorem refuted_k8s :
    ∃ s, Reachable k8s [0, 1] s ∧ quiescent s = true ∧ lost s = [1] ∧ s.reported = [0] ∧ s.flag = false :=
  ⟨run k8s (init [0, 1]) schedK8s, reachable_run _ _ _ _ Reachable.init, by decide⟩

theorem refuted_gcp_batch :
    ∃ s, Reachable gcpBatch [0, 1] s ∧ quiescent s = true ∧ lost s = [1] ∧ s.reported = [0] ∧ s.flag = false :=
  ⟨run gcpBatch (init [0, 1]) schedGcp, reachable_run _ _ _ _ Reachable.init, by decide⟩

theorem refuted_glue :
    ∃ s, Reachable glue [0, 1] s ∧ quiescent s = true ∧ lost s = [1] ∧ s.reported = [0] ∧ s.flag = false :=
  ⟨run glue (init [0, 1]) schedGlue, reachable_run _ _ _ _ Reachable.init, by decide⟩

theorem refuted_glue_in_hand :
    ∃ s, Reachable glue [0] s ∧ quiescent s = true ∧ lost s = [0] ∧ s.reported = [] ∧ s.hit = false :=
  ⟨run glue (init [0]) schedGlueInHand, reachable_run _ _ _ _ Reachable.init, by decide⟩

/-- non-vacuity of the model and of `no_lost_job_partial`: without the unlucky interleaving (`hit = false`)
both jobs are reported and nothing is lost -/
example : ∃ s, Reachable docker [0, 1] s ∧ quiescent s = true ∧ s.hit = false ∧ lost s = [] ∧ s.reported = [0, 1] :=
  ⟨run docker (init [0, 1]) (rep 11 .S ++ rep 30 (.M 0)), reachable_run _ _ _ _ Reachable.init, by decide⟩

/-! ## the repair's specification -/
open RedunModel.MonitorLocked in
/-- **No lost job under the locked hand-off.** For every job stream and every interleaving of the
submitter with all monitor threads ever created: when the submitter has finished and no monitor
thread is left, the pending map is empty and every submitted job has been reported exactly as often
as it was submitted. -/
theorem locked_no_lost_job (jobs : List MonitorLocked.Job) (s : MonitorLocked.State)
    (h : MonitorLocked.Reachable jobs s) (hq : MonitorLocked.quiescent s) :
    s.pending = [] ∧ ∀ j, s.reported.count j = jobs.count j := by
  have hI := MonitorLocked.reachable_inv h
  have hC := MonitorLocked.reachable_invC h
  obtain ⟨hdone, hmon, _⟩ := hq
  have hp : s.pending = [] := by
    apply Classical.byContradiction
    intro hne
    rcases hI.cover hne with hf | hl | hl | hl
    · rcases hI.flagT hf with hn | ha
      · rw [hdone] at hn; cases hn
      · rcases hmon with hd | hu
        · rw [hd] at ha; simp [MonitorLocked.active] at ha
        · have := hI.unst hu; rw [hdone] at this; cases this
    · rw [hdone] at hl; cases hl
    · rw [hdone] at hl; cases hl
    · rw [hdone] at hl; cases hl
  refine ⟨hp, ?_⟩
  intro j
  have h1 := hC.cons j
  have h2 := congrArg (List.count j) hC.prog
  have htodo : MonitorLocked.rest s = [] := by
    have hI' := hC.prog
    simp only [MonitorLocked.rest, hdone]
    -- the submitter is done only when its to-do list is empty
    exact MonitorLocked.todo_nil_of_done h hdone
  rw [hp] at h1
  simp only [List.count_append, htodo, List.count_nil, Nat.add_zero, Nat.zero_add] at h1 h2
  omega

/-- non-vacuity: a reachable quiescent state of the locked protocol in which two jobs were handled -/
example : ∃ s, MonitorLocked.Reachable [0, 1] s ∧ MonitorLocked.quiescent s ∧ s.reported = [0, 1] :=
  ⟨MonitorLocked.run (MonitorLocked.init [0, 1])
      (List.replicate 12 .S ++ List.replicate 40 .M),
    MonitorLocked.reachable_run _ _ _ MonitorLocked.Reachable.init,
    by unfold MonitorLocked.quiescent; decide, by decide⟩

end RedunModel.C10
