/-
C09 — Executions terminate with every job settled (no job waits for resources forever).

Model: `RedunModel.Model.SchedCore`, mirroring /repo after the `fix:` commit "wake jobs waiting for
resource limits when a nominated job is served by CSE or the cache".
-/
import RedunModel.Lemmas.SchedCore
namespace RedunModel.C09
open RedunModel.SchedCore

/-- In every reachable state a non-empty waiting list is justified: some job holds resources (its
completion will release them and re-check the list) or a (re-)execution is queued. -/
theorem waiting_is_justified (p : Prog) (hf : Feasible p) (s : S) (h : Reachable p s)
    (hne : s.pendingLimits ≠ []) : (∃ j, s.holds j = true) ∨ (∃ j, Ev.exec j ∈ s.queue) :=
  (reachable_inv p s h).pend hf hne

/-- No lost wake-up: for every program in which no job demands more than its limit and for every
schedule, when the scheduler is idle (no queued event, no job in flight) no job is left waiting for
resources. -/
theorem no_stuck (p : Prog) (hf : Feasible p) (s : S) (h : Reachable p s) (hq : s.queue = [])
    (hi : ∀ j, s.inflight j = false) : s.pendingLimits = [] := by
  have inv := reachable_inv p s h
  by_cases hne : s.pendingLimits = []
  · exact hne
  · exfalso
    rcases inv.pend hf hne with ⟨j, hj⟩ | ⟨j, hj⟩
    · rcases inv.core.holds_wit j (by simp) hj with a | a
      · rw [hi j] at a; exact absurd a (by simp)
      · unfold C at a; rw [hq] at a; simp at a
    · rw [hq] at hj; simp at hj

/-- A job waiting for limits is never also queued for execution or holding limits, and is queued at
most once: nothing is dropped or duplicated by the re-nomination. -/
theorem waiting_once (p : Prog) (s : S) (h : Reachable p s) (j : JobId) :
    s.queue.count (Ev.exec j) + s.pendingLimits.count j + (if s.holds j then 1 else 0) ≤ 1 :=
  (reachable_inv p s h).core.occ_le j

/-! non-vacuity: the schedule that used to hang (DESIGN §9, found while attempting this proof):
`h` holds r; `f(1)` with limits r and `k` wait; a twin `f(1)` without limits runs and finishes; when `h`
finishes the first waiting job is nominated, then served by CSE.  With the re-check `k` is nominated too. -/
def hangProg : Prog :=
  { specs := [ { key := 0, ctx := 0, limits := [], scope := .backend, cseOk := true, prov := true, execOk := true,
                 fails := false, pre := .miss, children := [1, 2, 3, 4] },
               { key := 1, ctx := 0, limits := [(0, 1)], scope := .backend, cseOk := true, prov := true, execOk := true,
                 fails := false, pre := .miss, children := [] },     -- h
               { key := 2, ctx := 0, limits := [(0, 1)], scope := .backend, cseOk := true, prov := true, execOk := true,
                 fails := false, pre := .miss, children := [] },     -- f(1) with limits
               { key := 3, ctx := 0, limits := [(0, 1)], scope := .backend, cseOk := true, prov := true, execOk := true,
                 fails := false, pre := .miss, children := [] },     -- k
               { key := 2, ctx := 0, limits := [], scope := .backend, cseOk := true, prov := true, execOk := true,
                 fails := false, pre := .miss, children := [] } ],   -- f(1) without limits
    limit := fun _ => 1, dryrun := false }

def hangSchedule : List Choice :=
  [.pop, .complete 0, .pop, .pop, .pop, .pop, .pop,      -- root done; h runs; f', k wait; f runs
   .complete 4, .pop, .pop,                               -- f reports, resolves (recorded for CSE)
   .complete 1, .pop, .pop]                               -- h reports: release, nominate f'; f' is served by CSE

/-- a decidable check that implies feasibility -/
theorem feasible_of_check (p : Prog)
    (h : (p.specs.all fun sp => sp.limits.all fun e => decide (dem sp.limits e.1 ≤ p.limit e.1)) = true) :
    Feasible p := by
  intro i r
  unfold Prog.specAt
  by_cases hi : i < p.specs.length
  · have hmem : p.specs.getD i default ∈ p.specs := by
      rw [List.getD_eq_getElem?_getD, List.getElem?_eq_getElem hi]; exact List.getElem_mem hi
    have hsp := List.all_eq_true.mp h _ hmem
    by_cases hk : r ∈ keysOf (p.specs.getD i default).limits
    · obtain ⟨e, he, hr⟩ := List.mem_map.mp hk
      have := List.all_eq_true.mp hsp e he
      simp only [decide_eq_true_eq] at this
      rw [← hr]; exact this
    · rw [dem_zero_of_not_key _ r hk]; exact Nat.zero_le _
  · have : p.specs.getD i default = default := by
      rw [List.getD_eq_getElem?_getD, List.getElem?_eq_none (Nat.le_of_not_lt hi)]; rfl
    rw [this]
    show dem [] r ≤ _
    exact Nat.zero_le _

example : Feasible hangProg := feasible_of_check _ (by decide)
example : (run hangProg hangSchedule).pendingLimits = [] := by decide

end RedunModel.C09
