/-
C09 — Executions terminate with every job settled (no job waits for resources forever).

Model: `RedunModel.Model.SchedCore`, mirroring /repo after the `fix:` commit "wake jobs waiting for
resource limits when a nominated job is served by CSE or the cache".
-/
import RedunModel.Lemmas.SchedLive
namespace RedunModel.C09
open RedunModel.SchedCore

/-- In every reachable state a non-empty waiting list is justified: some job holds resources (its
completion will release them and re-check the list) or a (re-)execution is queued. -/
theorem waiting_is_justified (p : Prog) (hf : Feasible p) (s : S) (h : Reachable p s)
    (hne : s.pendingLimits ≠ []) : (∃ j, s.holds j = true) ∨ (∃ j, Ev.exec j ∈ s.queue) :=
  (reachable_inv p s h).pend hf hne

/-- No lost wake-up: for every program in which no job demands more than its limit and for every
schedule, when the scheduler is idle (no queued event, no job in flight) no job is left waiting for
resources. -/
theorem no_stuck (p : Prog) (hf : Feasible p) (s : S) (h : Reachable p s) (hq : s.queue = [])
    (hi : ∀ j, s.inflight j = false) : s.pendingLimits = [] := by
  have inv := reachable_inv p s h
  by_cases hne : s.pendingLimits = []
  · exact hne
  · exfalso
    rcases inv.pend hf hne with ⟨j, hj⟩ | ⟨j, hj⟩
    · rcases inv.core.holds_wit j (by simp) hj with a | a
      · rw [hi j] at a; exact absurd a (by simp)
      · unfold C at a; rw [hq] at a; simp at a
    · rw [hq] at hj; simp at hj

/-- A job waiting for limits is never also queued for execution or holding limits, and is queued at
most once: nothing is dropped or duplicated by the re-nomination. -/
theorem waiting_once (p : Prog) (s : S) (h : Reachable p s) (j : JobId) :
    s.queue.count (Ev.exec j) + s.pendingLimits.count j + (if s.holds j then 1 else 0) ≤ 1 :=
  (reachable_inv p s h).core.occ_le j

/-! non-vacuity: the schedule that used to hang (DESIGN §9, found while attempting this proof):
`h` holds r; `f(1)` with limits r and `k` wait; a twin `f(1)` without limits runs and finishes; when `h`
finishes the first waiting job is nominated, then served by CSE.  With the re-check `k` is nominated too. -/
def hangProg : Prog :=
  { specs := [ { key := 0, ctx := 0, limits := [], scope := .backend, cseOk := true, prov := true, execOk := true,
                 fails := false, pre := .miss, children := [1, 2, 3, 4] },
               { key := 1, ctx := 0, limits := [(0, 1)], scope := .backend, cseOk := true, prov := true, execOk := true,
                 fails := false, pre := .miss, children := [] },     -- h
               { key := 2, ctx := 0, limits := [(0, 1)], scope := .backend, cseOk := true, prov := true, execOk := true,
                 fails := false, pre := .miss, children := [] },     -- f(1) with limits
               { key := 3, ctx := 0, limits := [(0, 1)], scope := .backend, cseOk := true, prov := true, execOk := true,
                 fails := false, pre := .miss, children := [] },     -- k
               { key := 2, ctx := 0, limits := [], scope := .backend, cseOk := true, prov := true, execOk := true,
                 fails := false, pre := .miss, children := [] } ],   -- f(1) without limits
    limit := fun _ => 1, dryrun := false }

def hangSchedule : List Choice :=
  [.pop, .complete 0, .pop, .pop, .pop, .pop, .pop,      -- root done; h runs; f', k wait; f runs
   .complete 4, .pop, .pop,                               -- f reports, resolves (recorded for CSE)
   .complete 1, .pop, .pop]                               -- h reports: release, nominate f'; f' is served by CSE

/-- a decidable check that implies feasibility -/
theorem feasible_of_check (p : Prog)
    (h : (p.specs.all fun sp => sp.limits.all fun e => decide (dem sp.limits e.1 ≤ p.limit e.1)) = true) :
    Feasible p := by
  intro i r
  unfold Prog.specAt
  by_cases hi : i < p.specs.length
  · have hmem : p.specs.getD i default ∈ p.specs := by
      rw [List.getD_eq_getElem?_getD, List.getElem?_eq_getElem hi]; exact List.getElem_mem hi
    have hsp := List.all_eq_true.mp h _ hmem
    by_cases hk : r ∈ keysOf (p.specs.getD i default).limits
    · obtain ⟨e, he, hr⟩ := List.mem_map.mp hk
      have := List.all_eq_true.mp hsp e he
      simp only [decide_eq_true_eq] at this
      rw [← hr]; exact this
    · rw [dem_zero_of_not_key _ r hk]; exact Nat.zero_le _
  · have : p.specs.getD i default = default := by
      rw [List.getD_eq_getElem?_getD, List.getElem?_eq_none (Nat.le_of_not_lt hi)]; rfl
    rw [this]
    show dem [] r ≤ _
    exact Nat.zero_le _

example : Feasible hangProg := feasible_of_check _ (by decide)
example : (run hangProg hangSchedule).pendingLimits = [] := by decide


/-! ### deadlock freedom (the liveness half) -/

/-- Deadlock freedom: for every real (non-dry) run of a program in which no job demands more than its
limit and no job (transitively) calls a job with its own cache key (`Ranked`), and for every schedule,
a state in which the scheduler is idle (no queued event, no job in flight) has settled the workflow
promise.  With `waiting_once`/`no_stuck` this is "every maximal run ends with the root settled": a run can
only stop in an idle state, and an idle state is a finished one.
(`ProvScope p` is not needed for this direction; it is listed in `deadlock_without_rank_refuted` to show
that the rank hypothesis is the one that cannot be dropped.) -/
theorem no_deadlock (p : Prog) (hd : p.dryrun = false) (hf : Feasible p) (hr : Ranked p) (s : S)
    (h : Reachable p s) (hq : s.queue = []) (hi : ∀ j, s.inflight j = false) : s.finished = true :=
  idle_finished (reachable_live p hd s h) ⟨hq, no_stuck p hf s h hq hi, hi⟩ hr

/-- the lifecycle behind it: in every reachable state of a real run every pending job is queued for
execution / waiting for limits, in flight, has a completion event queued, waits for at least one pending
child, or is collapsed onto a pending non-collapsed job with the same cache key. -/
theorem pending_job_has_activity (p : Prog) (hd : p.dryrun = false) (s : S) (h : Reachable p s) (j : JobId)
    (hj : j < s.next) (hp : (s.jobs j).status = Status.pending) :
    1 ≤ EW s j ∨ s.inflight j = true ∨ Q s j ∨
      ((s.jobs j).evalFailed = false ∧ ∃ c, c < s.next ∧ (s.jobs c).parent = some j ∧ (s.jobs c).status = Status.pending) ∨
      (∃ X, j ∈ (s.jobs X).twins ∧ (s.jobs X).status = Status.pending ∧ X < s.next ∧
        (∀ Y, X ∉ (s.jobs Y).twins) ∧ (spec p s X).key = (spec p s j).key) := by
  have hl := reachable_live p hd s h
  rcases hl.ph j hj hp (by simp) with a | a | a | a | ⟨X, a1, a2, a3, a4, a5⟩
  · exact Or.inl a
  · exact Or.inr (Or.inl a)
  · exact Or.inr (Or.inr (Or.inl a))
  · refine Or.inr (Or.inr (Or.inr (Or.inl ⟨a.1, ?_⟩)))
    have hpos : 0 < cntPend s j := Nat.lt_of_lt_of_le a.2 (hl.cnt j a.1)
    obtain ⟨c, hlt, hk⟩ := cntTo_pos_exists hpos
    unfold kidPend at hk
    simp only [Bool.and_eq_true, decide_eq_true_eq] at hk
    exact ⟨c, hlt, hk.1, hk.2⟩
  · refine Or.inr (Or.inr (Or.inr (Or.inr ⟨X, a1, ?_, a3, fun Y hY => a4 ⟨Y, hY⟩, a5⟩)))
    rcases a2 with b | b
    · exact b
    · simp at b

/-! non-vacuity of `no_deadlock`: `hangProg` satisfies the hypotheses, and the completed former hanging
schedule reaches an idle state -/
def hangScheduleRest : List Choice := [.pop, .pop, .pop, .pop, .complete 3, .pop, .pop, .pop]

example : Ranked hangProg := ranked_of_check _ (fun k => if k = 0 then 1 else 0) (by decide)
example : (run hangProg (hangSchedule ++ hangScheduleRest)).queue = [] ∧
    (∀ j, j < (run hangProg (hangSchedule ++ hangScheduleRest)).next →
      (run hangProg (hangSchedule ++ hangScheduleRest)).inflight j = false) ∧
    (run hangProg (hangSchedule ++ hangScheduleRest)).finished = true := by decide
example : (run hangProg (hangSchedule ++ hangScheduleRest)).finished = true :=
  no_deadlock hangProg rfl (feasible_of_check _ (by decide))
    (ranked_of_check _ (fun k => if k = 0 then 1 else 0) (by decide)) _ (reachable_run _ _) (by decide)
    (inflight_none_of_bounded _ _ (reachable_run _ _) (by decide))

/-! the rank hypothesis cannot be dropped: `f(x) → g(x) → f(x)` (the inner `f(x)` has the cache key of the
root) collapses the inner call onto the root job, which waits for it: an idle, unfinished state. -/
def cycProg : Prog :=
  { specs := [ { key := 0, ctx := 0, limits := [], scope := .backend, cseOk := true, prov := true, execOk := true,
                 fails := false, pre := .miss, children := [1] },     -- f(x)
               { key := 1, ctx := 0, limits := [], scope := .backend, cseOk := true, prov := true, execOk := true,
                 fails := false, pre := .miss, children := [2] },     -- g(x)
               { key := 0, ctx := 0, limits := [], scope := .backend, cseOk := true, prov := true, execOk := true,
                 fails := false, pre := .miss, children := [] } ],    -- f(x) again
    limit := fun _ => 1, dryrun := false }

def cycSchedule : List Choice := [.pop, .complete 0, .pop, .pop, .complete 1, .pop, .pop]

/-- REFUTED without the rank hypothesis: every other hypothesis of `no_deadlock` (and `ProvScope`) holds
for `cycProg`, yet a reachable idle state is not finished (job 2 is collapsed onto job 0, its ancestor). -/
theorem deadlock_without_rank_refuted :
    ∃ p s, p.dryrun = false ∧ Feasible p ∧ ProvScope p ∧ Reachable p s ∧ s.queue = [] ∧
      (∀ j, s.inflight j = false) ∧ s.finished = false ∧ 2 ∈ (s.jobs 0).twins :=
  ⟨cycProg, run cycProg cycSchedule, rfl, feasible_of_check _ (by decide), provScope_of_check _ (by decide),
    reachable_run _ _, by decide, inflight_none_of_bounded _ _ (reachable_run _ _) (by decide), by decide, by decide⟩

/-- …and consequently `cycProg` has no rank function. -/
theorem cycProg_not_ranked : ¬ Ranked cycProg := by
  intro hr
  obtain ⟨p, s, _⟩ := deadlock_without_rank_refuted
  have h1 := no_deadlock cycProg rfl (feasible_of_check _ (by decide)) hr (run cycProg cycSchedule)
    (reachable_run _ _) (by decide) (inflight_none_of_bounded _ _ (reachable_run _ _) (by decide))
  have h2 : (run cycProg cycSchedule).finished = false := by decide
  rw [h2] at h1; exact absurd h1 (by simp)

end RedunModel.C09
