/-
C22 — Interrupted or retried recording never corrupts later runs.

Model: `RedunModel.Model.Db` — every recording operation statement by statement with its commit points
(`Sess.log` = the durable states, i.e. all crash points), NO foreign-key enforcement in the model.
`Cons db` = referential closure (`fkOk`, the schema's foreign keys) ∧ every Task-typed Value has its Task row
(`taskComplete`: what `record_value`'s early exit relies on, and what keeps `record_job_start` — which switches
foreign keys off — from committing dangling rows).

Full strength for every variant with the repaired `record_value` (`atomicValue`; `record_call_node` may still
commit twice): `hist_cons` — after any history of
recording operations and process deaths at any commit, the database is consistent; `*_prefix_consistent` — every
prefix of the commit sequence of each operation.  For the CURRENT code three closed witnesses:
`refuted_task_gap`, `refuted_retry_loses_rows`, `refuted_retry_keyerror`.
The clause "a later execution returns what a fresh run returns" is C03's `history_shallow_sound` (cache soundness
on exactly these histories) + the result oracle of the harness; `_partial` here.
-/
import RedunModel.Lemmas.DbFk
namespace RedunModel.C22
open RedunModel.Db

/-! ### every prefix of the commit sequence of every recording operation is consistent (repaired code) -/

theorem recordValue_prefix_consistent (v : Variant) (hv : v.atomicValue = true) (x : ValueSpec) (s : Sess)
    (hp : s.pend = []) (h : Cons s.db) : OpOK Cons s (recordValue v x s) := recordValue_cons v hv x s hp h

theorem setEvalCache_prefix_consistent (v : Variant) (hv : v.atomicValue = true) (e : EvalRow) (val : ValueSpec)
    (s : Sess) (hp : s.pend = []) (h : Cons s.db) (he : e.value = val.row.hash)
    (ht : s.db.tasks.contains e.task = true) : OpOK Cons s (setEvalCache v e val s) :=
  setEvalCache_cons v hv e val s hp h he ht

theorem recordJobStart_prefix_consistent (v : Variant) (hv : v.atomicValue = true) (j : JobRow) (root : Bool)
    (s s' : Sess) (hp : s.pend = []) (h : Cons s.db)
    (hkind : ∀ r ∈ s.db.values, r.hash = j.task → r.kind = .task) (hcall : j.call = none)
    (hparent : ∀ p, j.parent = some p → hasJob s.db p = true) (hexec : root = false → hasExec s.db j.exec = true)
    (hok : recordJobStart v j root s = .ok s') : OpOK Cons s s' :=
  recordJobStart_cons v hv j root s s' hp h hkind hcall hparent hexec hok

theorem recordJobEnd_prefix_consistent (id : H) (call : Option H) (cached : Bool) (s : Sess) (hp : s.pend = [])
    (h : Cons s.db) (hc : ∀ c, call = some c → hasNode s.db c = true) :
    OpOK Cons s (recordJobEnd id call cached s) := recordJobEnd_cons id call cached s hp h hc

theorem recordCallNode_prefix_consistent (v : Variant) (hv1 : v.atomicValue = true)
    (a : CallArgs) (s : Sess) (hp : s.pend = []) (h : Cons s.db)
    (htask : s.db.tasks.contains a.node.task = true) (hval : hasValue s.db a.node.value = true)
    (hups : ∀ x ∈ a.args, ∀ u ∈ x.upstream, hasNode s.db u = true)
    (hsub : ∀ t ∈ a.subtree, s.db.tasks.contains t = true) : OpOK Cons s (recordCallNode v a s) :=
  recordCallNode_cons_any v hv1 a s hp h htask hval hups hsub

/-! ### histories -/

/-- the durable states an operation can leave behind: final state or any crash point -/
def after (s' : Sess) (d : Db) : Prop := d = s'.db ∨ d ∈ s'.log.map (·.db)

theorem cons_after {s s' : Sess} {d : Db} (hs : s.log = []) (h : OpOK Cons s s') (hd : after s' d) : Cons d := by
  rcases hd with hd | hd
  · rw [hd]; exact h.2.1
  · simp only [List.mem_map] at hd
    obtain ⟨snap, hsn, rfl⟩ := hd
    rcases h.2.2 snap hsn with h' | h'
    · rw [hs] at h'; cases h'
    · exact h'

/-- Histories of one repository under the scheduler's calling discipline (what each operation may assume about
what was recorded before it), with a process death possible at every commit of every operation. -/
inductive Hist (v : Variant) : Db → Prop
  | init : Hist v {}
  | value {db} (x : ValueSpec) (d : Db) : Hist v db → after (recordValue v x (.ofDb db)) d → Hist v d
  | evalCache {db} (e : EvalRow) (val : ValueSpec) (d : Db) : Hist v db → e.value = val.row.hash →
      db.tasks.contains e.task = true → after (setEvalCache v e val (.ofDb db)) d → Hist v d
  | jobStart {db} (j : JobRow) (root : Bool) (execs : List H) (s' : Sess) (d : Db) : Hist v db →
      (∀ r ∈ db.values, r.hash = j.task → r.kind = .task) → j.call = none →
      (∀ p, j.parent = some p → hasJob db p = true) → (root = false → hasExec db j.exec = true) →
      recordJobStart v j root { db := db, pendingExecs := execs } = .ok s' → after s' d → Hist v d
  | jobEnd {db} (id : H) (call : Option H) (cached : Bool) (d : Db) : Hist v db →
      (∀ c, call = some c → hasNode db c = true) → after (recordJobEnd id call cached (.ofDb db)) d → Hist v d
  | callNode {db} (a : CallArgs) (d : Db) : Hist v db →
      db.tasks.contains a.node.task = true → hasValue db a.node.value = true →
      (∀ x ∈ a.args, ∀ u ∈ x.upstream, hasNode db u = true) → (∀ t ∈ a.subtree, db.tasks.contains t = true) →
      after (recordCallNode v a (.ofDb db)) d → Hist v d

/-- **C22 (first clause), full strength for the repaired code**: whatever the history and wherever the process
died, the database is referentially closed and every Task value has its Task row. -/
theorem hist_cons (v : Variant) (hv1 : v.atomicValue = true) {db : Db}
    (h : Hist v db) : Cons db := by
  induction h with
  | init => exact ⟨by decide, by decide⟩
  | @value db x d _ hd ih => exact cons_after rfl (recordValue_cons v hv1 x (.ofDb db) rfl ih) hd
  | @evalCache db e val d _ he ht hd ih => exact cons_after rfl (setEvalCache_cons v hv1 e val (.ofDb db) rfl ih he ht) hd
  | @jobStart db j root execs s' d _ hk hc hpar hex hok hd ih =>
    exact cons_after (s := { db := db, pendingExecs := execs }) rfl
      (recordJobStart_cons v hv1 j root _ s' rfl ih hk hc hpar hex hok) hd
  | @jobEnd db id call cached d _ hc hd ih => exact cons_after rfl (recordJobEnd_cons id call cached (.ofDb db) rfl ih hc) hd
  | @callNode db a d _ ht hval hups hsub hd ih =>
    exact cons_after rfl (recordCallNode_cons_any v hv1 a (.ofDb db) rfl ih ht hval hups hsub) hd

theorem hist_cons_repaired {db : Db} (h : Hist Variant.repaired db) : fkOk db = true ∧ taskComplete db = true :=
  hist_cons Variant.repaired rfl h

/-- the tree with the proposed small fixes (`record_call_node` still commits twice) -/
theorem hist_cons_proposed {db : Db} (h : Hist Variant.proposed db) : fkOk db = true ∧ taskComplete db = true :=
  hist_cons Variant.proposed rfl h

/-! ### an operation that has returned leaves nothing pending -/

/-- **Every recording operation ends with its commit**: started on a session with nothing pending, it returns a
session with nothing pending (any variant).  So the rows of an operation that has returned are durable. -/
theorem returned_op_leaves_nothing_pending (v : Variant) (s : Sess) (hp : s.pend = []) :
    (∀ x, (recordValue v x s).pend = []) ∧
    (∀ e val, (setEvalCache v e val s).pend = []) ∧
    (∀ j root s', recordJobStart v j root s = .ok s' → s'.pend = []) ∧
    (∀ id call cached, (recordJobEnd id call cached s).pend = []) ∧
    (∀ a, (recordCallNode v a s).pend = []) ∧
    (∀ tags, (recordTags true tags s).pend = []) ∧
    (∀ rs, (putRecords rs s).pend = []) :=
  ⟨fun x => (recordValue_graph v x s).2.2 hp,
   fun e val => (setEvalCache_graph v e val s).2.2 hp,
   fun j root s' h => (recordJobStart_graph v j root s s' h).2.2,
   fun id call cached => (recordJobEnd_graph id call cached s).2.2,
   fun a => (recordCallNode_shapes v a s hp).1,
   fun tags => by simp [recordTags],
   fun rs => (putRecords_graph rs s hp).choose_spec.choose_spec.2.2.2.2.2.1⟩

/-- ... hence the `session.rollback()` of a LATER operation's `db_retry` cannot touch them: rolling back a session
with nothing pending changes nothing, and the state the retry starts from (`retryState` at its first commit) has
exactly the durable tables the operation started with. -/
theorem retry_rollback_keeps_returned_rows (s s' : Sess) (hp : s.pend = []) :
    s.rollback = s ∧ (retryState s s' 0).db = s.db := by
  constructor
  · cases s; simp_all [Sess.rollback]
  · rfl

/-- the seeded design (tags left pending for `record_job_end`'s commit): one transient failure of that commit
loses the tags of an operation that had already returned -/
theorem pending_tags_lost_on_retry :
    let s0 : Sess := .ofDb { jobs := [⟨1, 7, none, 2, none, false, false⟩] }
    let sp := recordTags false [⟨50, 1, 1, 60, 61, true⟩] s0          -- record_tags(commit=False) has returned
    (recordJobEnd 1 none false sp).db.tags.length = 1 ∧               -- no fault: the job end commits the tag too
    (recordJobEnd 1 none false (retryState sp (recordJobEnd 1 none false sp) 0)).db.tags.length = 0 ∧
    -- the real code (commit = true): the same fault loses nothing
    (recordJobEnd 1 none false (retryState (recordTags true [⟨50, 1, 1, 60, 61, true⟩] s0)
      (recordJobEnd 1 none false (recordTags true [⟨50, 1, 1, 60, 61, true⟩] s0)) 0)).db.tags.length = 1 := by
  decide

/-! ### only the outermost `db_retry` call retries -/

/-- **However many decorated calls an operation makes, none of them retries on its own** (fixed wrapper): inside an
outermost call the flag is set and every nested call leaves it set. -/
theorem only_outermost_retries (n : Nat) : nestedRetriers retryWrapper n true = List.replicate n false := by
  induction n with
  | zero => rfl
  | succ k ih => simp [nestedRetriers, retryWrapper, ih, List.replicate_succ]

/-- ... and the outermost call itself does, and leaves the flag cleared for the next operation -/
theorem outermost_retries : retryWrapper false = (true, false) := rfl

/-- the seeded merged try/finally: the first nested call clears the flag, every later nested call acts as an
outermost retrier (its rollback then drops the caller's pending rows: `known_nested_retry_drops_pending`) -/
theorem merged_wrapper_later_nested_calls_retry (n : Nat) :
    nestedRetriers retryWrapperMerged (n + 2) true = false :: List.replicate (n + 1) true := by
  have h : ∀ k, nestedRetriers retryWrapperMerged k false = List.replicate k true := by
    intro k
    induction k with
    | zero => rfl
    | succ k ih => simp [nestedRetriers, retryWrapperMerged, ih, List.replicate_succ]
  simp [nestedRetriers, retryWrapperMerged, h, List.replicate_succ]

/-! ### closed witnesses on the CURRENT code -/

def okDb : Except Err Sess → Option Db
  | .ok s => some s.db
  | .error _ => none

def isKeyError : Except Err Sess → Bool
  | .error .keyError => true
  | .ok _ => false

/-- run `record_job_start`, let its `k`-th commit fail transiently, and run it again (`db_retry`) -/
def jobStartRetried (v : Variant) (j : JobRow) (root : Bool) (s : Sess) (k : Nat) : Except Err Sess :=
  match recordJobStart v j root s with
  | .ok s' => recordJobStart v j root (retryState s s' k)
  | .error e => .error e

/-- the Value row of a task, then (second commit) its Task row -/
def taskVal : ValueSpec := ⟨⟨7, .task⟩, []⟩

/-- `record_value` (current) commits the Value row of a Task before its Task row.  A process death in between
leaves a Task value without Task row; the next run's `record_value` returns early, and `record_job_start`
(foreign keys switched off) commits a Job row whose `task_hash` dangles. -/
theorem refuted_task_gap :
    newCommits (.ofDb {}) (recordValue .current taskVal (.ofDb {})) = 2 ∧
    taskComplete (crashDb (.ofDb {}) (recordValue .current taskVal (.ofDb {})) 1) = false ∧
    (okDb (recordJobStart .current ⟨1, 7, none, 2, none, false, false⟩ true
        { db := crashDb (.ofDb {}) (recordValue .current taskVal (.ofDb {})) 1, pendingExecs := [2] })).map fkOk
      = some false := by
  refine ⟨by decide, by decide, by decide⟩

/-- the same crash point on the repaired code is harmless -/
example : ∀ snap ∈ (recordValue .repaired taskVal (.ofDb {})).log, taskComplete snap.db = true := by decide

def dbA : Db :=
  { values := [⟨10, .task⟩, ⟨11, .task⟩, ⟨1, .plain⟩, ⟨100, .plain⟩], tasks := [10, 11],
    nodes := [⟨20, 11, 1, 100, 0⟩], subtree := [⟨20, 11⟩] }

def callA : CallArgs := ⟨⟨21, 10, 1, 100, 1⟩, [20], [⟨0, ⟨⟨1, .plain⟩, []⟩, []⟩], [10, 11]⟩

/-- a single transient failure of the last commit of `record_call_node` (current): `db_retry` re-runs the
operation, which returns early; the CallSubtreeTask rows of the uninterrupted run are lost for good. -/
theorem refuted_retry_loses_rows :
    (recordCallNode .current callA (.ofDb dbA)).db.subtree.length = 3 ∧
    (recordCallNode .current callA (retryState (.ofDb dbA) (recordCallNode .current callA (.ofDb dbA)) 1)).db.subtree.length = 1 := by
  decide

/-- repaired: the retried operation ends in the same state as the uninterrupted one -/
example : ∀ k < 3, (recordCallNode .repaired callA (retryState (.ofDb dbA) (recordCallNode .repaired callA (.ofDb dbA)) k)).db
    = (recordCallNode .repaired callA (.ofDb dbA)).db := by decide

/-- `record_job_start` (current) pops the pending Execution before its commit: a transient failure of that commit
makes the retry raise KeyError (the run fails although the failure was transient). -/
theorem refuted_retry_keyerror :
    isKeyError (jobStartRetried .current ⟨1, 7, none, 2, none, false, false⟩ true { db := {}, pendingExecs := [2] } 2)
      = true := by
  decide

example : ∀ k < 2,
    okDb (jobStartRetried .repaired ⟨1, 7, none, 2, none, false, false⟩ true { db := {}, pendingExecs := [2] } k)
      = okDb (recordJobStart .repaired ⟨1, 7, none, 2, none, false, false⟩ true { db := {}, pendingExecs := [2] }) := by
  decide

/-! ### known findings that remain with the proposed small fixes (`Variant.proposed`: two-commit `record_call_node`) -/

/-- value 2 is new, value 1 is recorded: the nested `record_value(2)` commits the CallNode and its edge (no
Argument yet); `_record_args` then commits both Arguments; the last commit carries the subtree rows -/
def callA2 : CallArgs :=
  ⟨⟨21, 10, 1, 100, 1⟩, [20], [⟨0, ⟨⟨2, .plain⟩, []⟩, []⟩, ⟨1, ⟨⟨1, .plain⟩, []⟩, []⟩], [10, 11]⟩

/-- KNOWN (C22-retry-loses-records): one transient failure of the second commit; the retry finds the CallNode,
records the missing subtree rows (fix (c)) and returns: the Argument rows of the undisturbed run are lost. -/
theorem known_retry_loses_argument_rows :
    newCommits (.ofDb dbA) (recordCallNode .proposed callA2 (.ofDb dbA)) = 3 ∧
    (recordCallNode .proposed callA2 (.ofDb dbA)).db.args.length = 2 ∧
    (recordCallNode .proposed callA2 (retryState (.ofDb dbA) (recordCallNode .proposed callA2 (.ofDb dbA)) 1)).db.args.length = 0 ∧
    (recordCallNode .proposed callA2 (retryState (.ofDb dbA) (recordCallNode .proposed callA2 (.ofDb dbA)) 1)).db.subtree.length = 3 := by
  decide

/-- ... and still every durable state of that history is consistent (instance of `hist_cons`) -/
example : ∀ snap ∈ (recordCallNode .proposed callA2 (.ofDb dbA)).log, fkOk snap.db = true := by decide

/-- KNOWN (C22-retry-integrityerror): what the nested `db_retry` of `record_value` does to its caller: the rollback
drops the pending CallNode, the caller goes on adding the Argument, and the next flush has a dangling reference
(sqlite raises IntegrityError there; nothing is committed). -/
theorem known_nested_retry_drops_pending :
    let s1 := (Sess.ofDb dbA).add (.node callA2.node)        -- record_call_node: CallNode pending
    let s2 := s1.rollback                                    -- record_value's db_retry after the injected error
    let s3 := (recordValue .proposed ⟨⟨2, .plain⟩, []⟩ s2).add (.arg ⟨21, 0, 2⟩)   -- retry succeeds, caller continues
    fkOk s3.view = false ∧ fkOk s3.db = true := by
  decide

end RedunModel.C22
