/-
C13 — Promises settle once and notify every callback exactly once.

Property theorems only; the model is `RedunModel.Model.Promise` (a small-step machine of `redun/promise.py`
with an explicit frame stack, so that re-entrant `then`/`do_resolve`/`do_reject` calls made from inside
callbacks are ordinary interleavings of steps), the invariant proofs are in `RedunModel.Lemmas.Promise`.

Vocabulary.  `Reach s`: `s` is reached from the empty world by any sequence of top-level operations and machine
steps (`Reach.execAll`: everything the driver computes is such a state).  `s.stack = []`: nothing is running
(Python has returned to the caller).  `s.regs[rid]? = some p`: the `rid`-th `then()` call of the history was made
on promise `p` — it put one callback on `p._resolvers` (branch `.res`) and one on `p._rejectors` (`.rej`).
`calls rid b s.log`: how often the branch-`b` callback of that `then()` call has been invoked so far.
-/
import RedunModel.Lemmas.PromiseSpec
import RedunModel.Lemmas.PromiseOrder
namespace RedunModel.C13
open RedunModel.Promise

/-! ## settle once, first settlement wins -/

/-- A settled promise keeps its outcome (branch and value) forever — through any further operations, including
re-entrant `do_resolve`/`do_reject` from inside callbacks.  No hypothesis on the starting state. -/
theorem settle_once {s s' : State} (h : Evolves s s') {p : Nat} {b : Br} {v : Val}
    (hs : status s p = some (.settled b v)) : status s' p = some (.settled b v) :=
  h.ext.2 p b v hs

/-- First settlement wins: `do_resolve`/`do_reject` on a settled promise changes nothing at all (no state
change, no notification). -/
theorem first_wins (s : State) {q : Nat} {b : Br} {v : Val} (hs : status s q = some (.settled b v))
    (b' : Br) (v' : Val) : settle b' q v' s = s := by
  unfold status at hs
  unfold settle
  cases hq : s.heap[q]? with
  | none => rfl
  | some pr =>
    simp only [hq, Option.map_some, Option.some.injEq] at hs
    simp [hs]

/-- ... and on a pending promise it takes effect: the promise is settled with exactly that branch and value. -/
theorem settle_pending (s : State) {q : Nat} (hs : status s q = some .pending) (b : Br) (v : Val) :
    status (settle b q v s) q = some (.settled b v) := by
  unfold status at hs
  cases hq : s.heap[q]? with
  | none => simp [hq] at hs
  | some pr =>
    simp only [hq, Option.map_some, Option.some.injEq] at hs
    have hlt : q < s.heap.length := (List.getElem?_eq_some_iff.mp hq).1
    unfold settle
    rw [hq]
    simp only [hs, status, List.getElem?_set, hlt, if_true, Option.map_some]

/-- The same for a whole top-level (or scripted) `do_resolve(v')`/`do_reject(v')` statement on a settled promise:
no promise, no list, no running frame changes (only the ghost log records that the call was made). -/
theorem first_wins_op (s : State) {q : Nat} {b : Br} {v : Val} (hs : status s q = some (.settled b v))
    (arg : Val) (b' : Br) (v' : Val) :
    (act arg (.settle b' q v') s).heap = s.heap ∧ (act arg (.settle b' q v') s).stack = s.stack := by
  have hlt : q < s.heap.length := by
    unfold status at hs
    cases hq : s.heap[q]? with
    | none => simp [hq] at hs
    | some pr => exact (List.getElem?_eq_some_iff.mp hq).1
  have h := first_wins (emit (.direct q) s) (q := q) (b := b) (v := v) hs b' v'
  simp only [act, hlt, if_true, h]
  exact ⟨rfl, rfl⟩

/-- non-vacuity: resolve 1 then reject/resolve again -/
example : status (execAll 50 [.new, .settle .res 0 (.int 1)] init) 0 = some (.settled .res (.int 1)) := by rfl

/-! ## every registered callback of the matching branch runs exactly once, after settlement -/

/-- `then()` registers: on an existing promise it is recorded as the next registration, on that promise. -/
theorem then_registers (s : State) (p : Nat) (r j : Option Fn) (hp : p < s.heap.length) :
    (thenOp p r j s).regs = s.regs ++ [p] := by
  rcases thenOp_cases p r j s with ⟨h, _⟩ | ⟨pr, _, ⟨_, h⟩ | ⟨b, v, _, h⟩⟩
  · rw [List.getElem?_eq_none_iff] at h; omega
  · rw [h]
  · rw [h]

/-- A callback is only ever invoked when its promise is settled, on the branch the promise was settled on, and
with the promise's value ("after settlement", "the matching branch", right argument). -/
theorem invoked_only_as_settled {s : State} (h : Reach s) {rid : Nat} {b : Br} {v : Val}
    (hi : Event.invoke rid b v ∈ s.log) :
    ∃ p, s.regs[rid]? = some p ∧ status s p = some (.settled b v) := by
  obtain ⟨p, pr, h1, h2, h3⟩ := h.inv.logs rid b v hi
  exact ⟨p, h1, by simp [status, h2, h3]⟩

/-- While the promise is pending none of its callbacks has run. -/
theorem not_before_settlement {s : State} (h : Reach s) {rid p : Nat} (hr : s.regs[rid]? = some p)
    (hp : status s p = some .pending) (b : Br) : calls rid b s.log = 0 := by
  unfold status at hp
  cases hq : s.heap[p]? with
  | none => simp [hq] at hp
  | some pr =>
    simp only [hq, Option.map_some, Option.some.injEq] at hp
    exact (h.inv.stack_zero hr hq (by simp [hp])).2

/-- The callback of the other branch never runs. -/
theorem other_branch_never {s : State} (h : Reach s) {rid p : Nat} (hr : s.regs[rid]? = some p)
    {b : Br} {v : Val} (hp : status s p = some (.settled b v)) {b' : Br} (hb : b' ≠ b) :
    calls rid b' s.log = 0 := by
  unfold status at hp
  cases hq : s.heap[p]? with
  | none => simp [hq] at hp
  | some pr =>
    simp only [hq, Option.map_some, Option.some.injEq] at hp
    refine (h.inv.stack_zero hr hq ?_).2
    intro v' h'; rw [hp] at h'; cases h'; exact hb rfl

/-- At most once, at every moment of every history (also in the middle of notifications), for every callback. -/
theorem at_most_once {s : State} (h : Reach s) (rid : Nat) (b : Br) : calls rid b s.log ≤ 1 := by
  have I := h.inv
  cases hr : s.regs[rid]? with
  | none =>
    have := (I.fresh (List.getElem?_eq_none_iff.mp hr) b).2
    omega
  | some p =>
    have hlt := I.regs_lt rid p hr
    have hq : s.heap[p]? = some s.heap[p] := List.getElem?_eq_getElem hlt
    cases hst : s.heap[p].st with
    | pending =>
      have := (I.stack_zero hr hq (b := b) (by simp [hst])).2
      omega
    | settled b0 v0 =>
      by_cases hb : b = b0
      · subst hb
        have := (I.acct rid p _ hr hq).2 b v0 hst
        omega
      · have := (I.stack_zero hr hq (b := b) (by intro v' h'; rw [hst] at h'; cases h'; exact hb rfl)).2
        omega

/-- **Exactly once.** When nothing is running any more, every `then()` call made on a promise that is settled
on branch `b` has had its branch-`b` callback invoked exactly once — whether it was registered before the
settlement, after it, or from inside another callback. -/
theorem exactly_once {s : State} (h : Reach s) (hq : s.stack = []) {rid p : Nat} (hr : s.regs[rid]? = some p)
    {b : Br} {v : Val} (hp : status s p = some (.settled b v)) : calls rid b s.log = 1 := by
  unfold status at hp
  cases hh : s.heap[p]? with
  | none => simp [hh] at hp
  | some pr =>
    simp only [hh, Option.map_some, Option.some.injEq] at hp
    have := (h.inv.acct rid p pr hr hh).2 b v hp
    rw [hq] at this
    simpa [stackCnt] using this

/-- In the middle of a history: the callback of the matching branch is either still queued in exactly one
running notification loop or has run exactly once — it is never lost and never duplicated. -/
theorem never_lost {s : State} (h : Reach s) {rid p : Nat} (hr : s.regs[rid]? = some p)
    {b : Br} {v : Val} (hp : status s p = some (.settled b v)) :
    stackCnt rid b s.stack + calls rid b s.log = 1 := by
  unfold status at hp
  cases hh : s.heap[p]? with
  | none => simp [hh] at hp
  | some pr =>
    simp only [hh, Option.map_some, Option.some.injEq] at hp
    exact (h.inv.acct rid p pr hr hh).2 b v hp

/-- A settled promise holds no callbacks any more (they were handed to the notification, references dropped). -/
theorem settled_lists_empty {s : State} (h : Reach s) {p : Nat} {pr : Prom} (hp : s.heap[p]? = some pr)
    {b : Br} {v : Val} (hst : pr.st = .settled b v) : pr.resolvers = [] ∧ pr.rejectors = [] :=
  h.inv.clean p pr b v hp hst

/-- non-vacuity of `exactly_once` and friends on the re-entrant history of the ordering finding:
`p.then(f1 which registers f3 on p); p.then(f2); p.do_resolve(1)` — registrations 0,1,2 on promise 0. -/
def demo : State :=
  execAll 100 [.new,
    .then_ 0 (some (.script 1 [.then_ 0 (some (.script 3 [] (.ret .none))) none] (.ret .none))) none,
    .then_ 0 (some (.script 2 [] (.ret .none))) none,
    .settle .res 0 (.int 1)] init

example : demo.stack.length = 0 ∧ demo.regs = [0, 0, 0] ∧
    calls 0 .res demo.log = 1 ∧ calls 1 .res demo.log = 1 ∧ calls 2 .res demo.log = 1 ∧
    calls 0 .rej demo.log = 0 := by decide

/-! ## chained promises -/

/-- `wrapper` with a plain (non-promise) return value resolves the chained promise with it. -/
theorem chained_plain_value (r : Val) (q : Nat) (s : State) (hr : ∀ p, r ≠ .prom p) :
    finish r q s = settle .res q r s := by
  unfold finish
  cases r with
  | prom p => exact absurd rfl (hr p)
  | _ => rfl

/-- a callback that raises rejects the chained promise with the exception -/
theorem chained_raise (arg : Val) (e q : Nat) (s : State) :
    kont arg (.wrapper (.raise e) q) s = settle .rej q (.err e) s := rfl

/-- **Adoption, partial.** When a callback returns promise `r`, `wrapper` makes one more `then()` call on `r`
(so `exactly_once`, `invoked_only_as_settled`, `other_branch_never` apply to it: its callback of the branch `r`
settles on runs exactly once, with `r`'s value) ... -/
theorem adopts_partial_registers (r q : Nat) (s : State) (hr : r < s.heap.length) :
    (finish (.prom r) q s).regs = s.regs ++ [r] := by
  unfold finish
  exact thenOp_regs (s := emit _ s) hr

/-- ... and that callback is `q.do_resolve` / `q.do_reject`: run on a pending chained promise `q` it gives `q` the
adopted branch and value (and by `first_wins` it changes nothing if `q` was settled before).  Missing for the
full end-to-end statement ("`q` ends with the outcome of `r` unless user code settled `q` itself"): a proof that
nothing else in the library settles `q` between the adoption and that callback; the correspondence check and the
oracle `C13-chained-outcome` cover it on the generated histories only. -/
theorem adopts_partial_effect (b : Br) (q q' : Nat) (v : Val) (s : State) (hq : status s q = some .pending) :
    status (callFn (.adopt b q) q' v s) q = some (.settled b v) := by
  unfold callFn
  exact status_settle_pending (s := push (.finish v q') s) hq b v

/-- non-vacuity / end-to-end instance: `p0.then(f returning p1)`; `p1` is rejected later; the chained promise 2
ends rejected with `p1`'s error. -/
example : status (execAll 100 [.new, .new, .then_ 0 (some (.script 1 [] (.ret (.prom 1)))) none,
    .settle .res 0 (.int 1), .settle .rej 1 (.err 5)] init) 2 = some (.settled .rej (.err 5)) := by rfl

/-! ## registration order -/

/-- `then()` call numbers on promise `p` whose branch-`b` callback has been invoked, in invocation order -/
def invokedOrder (s : State) (p : Nat) (b : Br) : List Nat :=
  (s.log.filterMap fun
    | .invoke rid b' _ => if b' = b ∧ s.regs[rid]? = some p then some rid else none
    | _ => none).reverse

/-- the full-strength ordering claim of the property: on every promise, callbacks run in registration order -/
def RegistrationOrder (s : State) : Prop := ∀ p b, (invokedOrder s p b).Pairwise (· < ·)

theorem order_refuted_witness : invokedOrder demo 0 .res = [0, 2, 1] ∧ callIds demo = [1, 3, 2] := by decide

/-- **Refuted on the current code**: `p.then(f1)` where `f1` calls `p.then(f3)`, then `p.then(f2)`, then
`p.do_resolve(1)` runs `f1, f3, f2` — the callback registered during the notification (then() call #2) runs before
the one registered earlier (#1). -/
theorem order_refuted_registered_during_notification : ∃ s, Reach s ∧ s.stack = [] ∧ ¬ RegistrationOrder s := by
  refine ⟨demo, Reach.execAll _ _, by decide, ?_⟩
  intro h
  have := h 0 .res
  rw [order_refuted_witness.1] at this
  revert this; decide


/-- What is provable of the ordering clause (**partial**: the full statement `RegistrationOrder` is refuted above).
If the `then()` call number `r2` was made while no running notification loop of its promise had callbacks waiting
(`s.during[r2]? = some false`; in particular every call made from outside the promise's own callbacks), then at the
moment its callback was invoked (log = `l1 ++ invoke r2 .. :: l2`, newest first) every earlier `then()` call `r1` on
the same promise had already had its callback of that branch invoked.  Missing for full strength: calls made
from inside a notification of the same promise (they run at once, before the callbacks still waiting). -/
theorem order_partial {s : State} (h : Reach s) {r1 r2 p : Nat} {b : Br} {v : Val} {l1 l2 : List Event}
    (hlt : r1 < r2) (h1 : s.regs[r1]? = some p) (h2 : s.regs[r2]? = some p) (hd : s.during[r2]? = some false)
    (hl : s.log = l1 ++ Event.invoke r2 b v :: l2) : calls r1 b l2 = 1 :=
  h.pinv.log r1 r2 b v l1 l2 hlt ⟨p, h1, h2⟩ hd hl

/-- the lists of a pending promise and the running notification loops are in registration order -/
theorem lists_in_registration_order {s : State} (h : Reach s) :
    (∀ (p : Nat) (pr : Prom), s.heap[p]? = some pr → ∀ b, (pick b pr).Pairwise RidLt) ∧
    (∀ v todo, Frame.notify v todo ∈ s.stack → todo.Pairwise RidLt) := ⟨h.pinv.heap, h.pinv.frames⟩

/-- the flag is what it is said to be: recorded by `then()` itself; false whenever nothing is running -/
theorem during_recorded (s : State) (p : Nat) (r j : Option Fn) (hp : p < s.heap.length) :
    (thenOp p r j s).during = s.during ++ [waiting p s] := by
  rcases thenOp_cases p r j s with ⟨h, _⟩ | ⟨pr, _, ⟨_, h⟩ | ⟨b, v, _, h⟩⟩
  · rw [List.getElem?_eq_none_iff] at h; omega
  · rw [h]
  · rw [h]
theorem not_waiting_when_idle (s : State) (p : Nat) (hq : s.stack = []) : waiting p s = false := by
  simp [waiting, hq]

/-- non-vacuity on the history of the finding: calls #0 (f1), #1 (f2) unflagged, #2 (f3, made inside f1) flagged;
f2 (unflagged) ran after f1. -/
example : demo.during = [false, false, true] ∧ invokedOrder demo 0 .res = [0, 2, 1] := by decide

/-! ## Promise.all and wait_promises: the collector records the theorems below talk about -/

/-- `Promise.all(ps)` (mode `.all`) / `wait_promises(ps)` (mode `.wait`) on existing promises creates the next
collector record, with exactly these inputs, and returns a new promise (`target`). -/
theorem collector_created {m : Mode} {ps : List Nat} {s : State} (h : refsOk ps s = true) :
    ∃ r, (collect m ps s).colls[s.colls.length]? = some r ∧ r.mode = m ∧ r.subs = ps ∧ r.target = s.heap.length ∧
      (collect m ps s).heap.length = s.heap.length + 1 := collect_creates h

/-- ... and the record keeps its kind, inputs and returned promise for the rest of the history. -/
theorem collector_stable {s s' : State} (h : Evolves s s') {a : Nat} {r : Coll} (hr : s.colls[a]? = some r) :
    ∃ r', s'.colls[a]? = some r' ∧ r'.mode = r.mode ∧ r'.subs = r.subs ∧ r'.target = r.target := h.cext a r hr

/-! ## Promise.all -/

/-- `Promise.all` **fulfills with the results in input order when all inputs are fulfilled** (whatever the order
in which they were fulfilled, before or after the call, with duplicates or not). `r` is the closure state of the
`a`-th collector call of the history, `r.subs` its inputs, `r.target` the promise it returned. Hypothesis `hd`:
user code did not call `do_resolve`/`do_reject` on the returned promise itself. -/
theorem all_fulfills {s : State} (h : Reach s) (hq : s.stack = []) {a : Nat} {r : Coll} (hr : s.colls[a]? = some r)
    (hm : r.mode = .all) (hd : Event.direct r.target ∉ s.log)
    (hall : ∀ (i p : Nat), r.subs[i]? = some p → ∃ v, status s p = some (.settled .res v)) :
    ∃ vs, status s r.target = some (.settled .res (.list vs)) ∧ vs.length = r.subs.length ∧
      ∀ (i p : Nat), r.subs[i]? = some p → ∃ v, vs[i]? = some v ∧ status s p = some (.settled .res v) := by
  have G := h.ginv
  have Q := G.quiet hq hr
  have I := G.c.i
  -- every input has reported
  have hdone : r.numDone = r.subs.length := by
    rw [G.c.r.done a r hr, ← Q.full, List.countP_eq_length]
    intro rid hrid
    obtain ⟨i, p, hp, hreg⟩ := Q.back rid hrid
    obtain ⟨v, hv⟩ := hall i p hp
    have := ((I.quiet_calls hq hreg).2 .res v hv).1
    simp [doneP, hm, this]
  have T := G.t a r hr hd
  unfold TOk at T
  simp only [hm] at T
  obtain ⟨st, hst⟩ := status_some_of_lt (G.c.o.target_lt hr)
  cases st with
  | pending => have := (T.1 hst).1; omega
  | settled b v =>
    cases b with
    | rej =>
      exfalso
      obtain ⟨l1, rid, l2, hlog, hrid, _⟩ := T.2.2 v hst
      have hmem : Event.invoke rid .rej v ∈ s.log := by rw [hlog]; simp
      obtain ⟨i, p, hp, hreg⟩ := Q.back rid hrid
      have h1 := status_of_settledAs (I.logs rid .rej v hmem) hreg
      obtain ⟨v', hv'⟩ := hall i p hp
      rw [h1] at hv'; cases hv'
    | res =>
      obtain ⟨rfl, _⟩ := T.2.1 v hst
      have hlen := (G.c.r.len a r hr).2 hm
      refine ⟨r.results, hst, hlen, ?_⟩
      intro i p hp
      obtain ⟨v, hv⟩ := hall i p hp
      obtain ⟨rid, hrid, hreg⟩ := Q.pair i p hp
      have hc := ((I.quiet_calls hq hreg).2 .res v hv).1
      obtain ⟨v', hmem⟩ := exists_invoke_of_calls_pos (rid := rid) (b := .res) (log := s.log) (by omega)
      have h1 := status_of_settledAs (I.logs rid .res v' hmem) hreg
      rw [hv] at h1; cases h1
      exact ⟨v, G.c.r.res a r i rid v hr hm hrid hmem, hv⟩

/-- `Promise.all` **rejects when some input is rejected, with the first rejection it observed**: the error is the
one the first of its `fail` callbacks was invoked with (`FirstFail`), which is the error of a rejected input. -/
theorem all_rejects {s : State} (h : Reach s) (hq : s.stack = []) {a : Nat} {r : Coll} (hr : s.colls[a]? = some r)
    (hm : r.mode = .all) (hd : Event.direct r.target ∉ s.log)
    (hrej : ∃ (i p : Nat) (e : Val), r.subs[i]? = some p ∧ status s p = some (.settled .rej e)) :
    ∃ e, status s r.target = some (.settled .rej e) ∧ FirstFail r.rids e s.log ∧
      ∃ (j p : Nat), r.subs[j]? = some p ∧ status s p = some (.settled .rej e) := by
  have G := h.ginv
  have Q := G.quiet hq hr
  have I := G.c.i
  obtain ⟨i, p, e, hp, hst_p⟩ := hrej
  obtain ⟨rid, hrid, hreg⟩ := Q.pair i p hp
  have hcalls := (I.quiet_calls hq hreg).2 .rej e hst_p
  have T := G.t a r hr hd
  unfold TOk at T
  simp only [hm] at T
  obtain ⟨st, hst⟩ := status_some_of_lt (G.c.o.target_lt hr)
  cases st with
  | pending =>
    have := (T.1 hst).2 rid (List.mem_of_getElem? hrid)
    omega
  | settled b v =>
    cases b with
    | res =>
      exfalso
      have hn := (T.2.1 v hst).2
      rw [G.c.r.done a r hr, ← Q.full, List.countP_eq_length] at hn
      have := hn rid (List.mem_of_getElem? hrid)
      simp only [doneP, hm, decide_eq_true_eq] at this
      have := hcalls.2 .res (by simp)
      omega
    | rej =>
      have hff := T.2.2 v hst
      refine ⟨v, hst, hff, ?_⟩
      obtain ⟨l1, rid', l2, hlog, hrid', _⟩ := hff
      have hmem : Event.invoke rid' .rej v ∈ s.log := by rw [hlog]; simp
      obtain ⟨j, p', hp', hreg'⟩ := Q.back rid' hrid'
      exact ⟨j, p', hp', status_of_settledAs (I.logs rid' .rej v hmem) hreg'⟩

/-- ... and stays pending while no input is rejected and some input is still pending. -/
theorem all_pending {s : State} (h : Reach s) (hq : s.stack = []) {a : Nat} {r : Coll} (hr : s.colls[a]? = some r)
    (hm : r.mode = .all) (hd : Event.direct r.target ∉ s.log)
    (hnorej : ∀ (i p : Nat) (e : Val), r.subs[i]? = some p → status s p ≠ some (.settled .rej e))
    (hpend : ∃ (i p : Nat), r.subs[i]? = some p ∧ status s p = some .pending) :
    status s r.target = some .pending := by
  have G := h.ginv
  have Q := G.quiet hq hr
  have I := G.c.i
  obtain ⟨i, p, hp, hst_p⟩ := hpend
  obtain ⟨rid, hrid, hreg⟩ := Q.pair i p hp
  have hcalls := (I.quiet_calls hq hreg).1 hst_p
  have T := G.t a r hr hd
  unfold TOk at T
  simp only [hm] at T
  obtain ⟨st, hst⟩ := status_some_of_lt (G.c.o.target_lt hr)
  cases st with
  | pending => exact hst
  | settled b v =>
    exfalso
    cases b with
    | res =>
      have hn := (T.2.1 v hst).2
      rw [G.c.r.done a r hr, ← Q.full, List.countP_eq_length] at hn
      have := hn rid (List.mem_of_getElem? hrid)
      simp only [doneP, hm, decide_eq_true_eq] at this
      have := hcalls .res
      omega
    | rej =>
      obtain ⟨l1, rid', l2, hlog, hrid', _⟩ := T.2.2 v hst
      have hmem : Event.invoke rid' .rej v ∈ s.log := by rw [hlog]; simp
      obtain ⟨j, p', hp', hreg'⟩ := Q.back rid' hrid'
      exact hnorej j p' v hp' (status_of_settledAs (I.logs rid' .rej v hmem) hreg')

/-! ## wait_promises -/

/-- `wait_promises` **fulfills (with the list of its inputs) once every input has settled**, either way. -/
theorem wait_fulfills {s : State} (h : Reach s) (hq : s.stack = []) {a : Nat} {r : Coll} (hr : s.colls[a]? = some r)
    (hm : r.mode = .wait) (hd : Event.direct r.target ∉ s.log)
    (hall : ∀ (i p : Nat), r.subs[i]? = some p → ∃ b v, status s p = some (.settled b v)) :
    status s r.target = some (.settled .res (.list (r.subs.map .prom))) := by
  have G := h.ginv
  have Q := G.quiet hq hr
  have I := G.c.i
  have hdone : r.numDone = r.subs.length := by
    rw [G.c.r.done a r hr, ← Q.full, List.countP_eq_length]
    intro rid hrid
    obtain ⟨i, p, hp, hreg⟩ := Q.back rid hrid
    obtain ⟨b, v, hv⟩ := hall i p hp
    have h1 := (I.quiet_calls hq hreg).2 b v hv
    cases b with
    | res => have := h1.2 .rej (by simp); simp [doneP, hm, h1.1, this]
    | rej => have := h1.2 .res (by simp); simp [doneP, hm, h1.1, this]
  have T := G.t a r hr hd
  unfold TOk at T
  simp only [hm] at T
  obtain ⟨st, hst⟩ := status_some_of_lt (G.c.o.target_lt hr)
  cases st with
  | pending => have := T.1 hst; omega
  | settled b v =>
    obtain ⟨rfl, rfl, _⟩ := T.2 b v hst
    exact hst

/-- ... and not before: while some input is pending it is pending. -/
theorem wait_pending {s : State} (h : Reach s) (hq : s.stack = []) {a : Nat} {r : Coll} (hr : s.colls[a]? = some r)
    (hm : r.mode = .wait) (hd : Event.direct r.target ∉ s.log)
    (hpend : ∃ (i p : Nat), r.subs[i]? = some p ∧ status s p = some .pending) :
    status s r.target = some .pending := by
  have G := h.ginv
  have Q := G.quiet hq hr
  have I := G.c.i
  obtain ⟨i, p, hp, hst_p⟩ := hpend
  obtain ⟨rid, hrid, hreg⟩ := Q.pair i p hp
  have hcalls := (I.quiet_calls hq hreg).1 hst_p
  have T := G.t a r hr hd
  unfold TOk at T
  simp only [hm] at T
  obtain ⟨st, hst⟩ := status_some_of_lt (G.c.o.target_lt hr)
  cases st with
  | pending => exact hst
  | settled b v =>
    exfalso
    have hn := (T.2 b v hst).2.2
    rw [G.c.r.done a r hr, ← Q.full, List.countP_eq_length] at hn
    have := hn rid (List.mem_of_getElem? hrid)
    simp only [doneP, hm, decide_eq_true_eq] at this
    have h1 := hcalls .res
    have h2 := hcalls .rej
    omega


/-- non-vacuity of the collector theorems: `all([p0,p1])` and `wait_promises([p0,p1])`, inputs settled in the
opposite order; then the same with a rejection. Promises: 0,1 inputs, 2 = all's, 5 = wait's (3,4,6,7 chained). -/
def demoAll : State :=
  execAll 200 [.new, .new, .all [0, 1], .wait [0, 1], .settle .res 1 (.int 2), .settle .res 0 (.int 1)] init
def demoRej : State :=
  execAll 200 [.new, .new, .all [0, 1], .wait [0, 1], .settle .rej 1 (.err 7), .settle .res 0 (.int 1)] init

example : demoAll.stack.length = 0 ∧ (demoAll.colls.map (·.target)) = [2, 5] ∧ (demoAll.colls.map (·.subs)) = [[0, 1], [0, 1]] := by decide
example : status demoAll 2 = some (.settled .res (.list [.int 1, .int 2])) := by rfl
example : status demoAll 5 = some (.settled .res (.list [.prom 0, .prom 1])) := by rfl
example : status demoRej 2 = some (.settled .rej (.err 7)) := by rfl
example : status demoRej 5 = some (.settled .res (.list [.prom 0, .prom 1])) := by rfl

end RedunModel.C13
