/-
C13 — Promises settle once and notify every callback exactly once.

Property theorems only; the model is `RedunModel.Model.Promise` (a small-step machine of `redun/promise.py`
with an explicit frame stack, so that re-entrant `then`/`do_resolve`/`do_reject` calls made from inside
callbacks are ordinary interleavings of steps), the invariant proofs are in `RedunModel.Lemmas.Promise`.

Vocabulary.  `Reach s`: `s` is reached from the empty world by any sequence of top-level operations and machine
steps (`Reach.execAll`: everything the driver computes is such a state).  `s.stack = []`: nothing is running
(Python has returned to the caller).  `s.regs[rid]? = some p`: the `rid`-th `then()` call of the history was made
on promise `p` — it put one callback on `p._resolvers` (branch `.res`) and one on `p._rejectors` (`.rej`).
`calls rid b s.log`: how often the branch-`b` callback of that `then()` call has been invoked so far.
-/
import RedunModel.Lemmas.Promise
namespace RedunModel.C13
open RedunModel.Promise

/-! ## settle once, first settlement wins -/

/-- A settled promise keeps its outcome (branch and value) forever — through any further operations, including
re-entrant `do_resolve`/`do_reject` from inside callbacks.  No hypothesis on the starting state. -/
theorem settle_once {s s' : State} (h : Evolves s s') {p : Nat} {b : Br} {v : Val}
    (hs : status s p = some (.settled b v)) : status s' p = some (.settled b v) :=
  h.ext.2 p b v hs

/-- First settlement wins: `do_resolve`/`do_reject` on a settled promise changes nothing at all (no state
change, no notification). -/
theorem first_wins (s : State) {q : Nat} {b : Br} {v : Val} (hs : status s q = some (.settled b v))
    (b' : Br) (v' : Val) : settle b' q v' s = s := by
  unfold status at hs
  unfold settle
  cases hq : s.heap[q]? with
  | none => rfl
  | some pr =>
    simp only [hq, Option.map_some, Option.some.injEq] at hs
    simp [hs]

/-- ... and on a pending promise it takes effect: the promise is settled with exactly that branch and value. -/
theorem settle_pending (s : State) {q : Nat} (hs : status s q = some .pending) (b : Br) (v : Val) :
    status (settle b q v s) q = some (.settled b v) := by
  unfold status at hs
  cases hq : s.heap[q]? with
  | none => simp [hq] at hs
  | some pr =>
    simp only [hq, Option.map_some, Option.some.injEq] at hs
    have hlt : q < s.heap.length := (List.getElem?_eq_some_iff.mp hq).1
    unfold settle
    rw [hq]
    simp only [hs, status, List.getElem?_set, hlt, if_true, Option.map_some]

/-- The same for a whole top-level (or scripted) `do_resolve(v')`/`do_reject(v')` statement on a settled promise:
no promise, no list, no running frame changes (only the ghost log records that the call was made). -/
theorem first_wins_op (s : State) {q : Nat} {b : Br} {v : Val} (hs : status s q = some (.settled b v))
    (arg : Val) (b' : Br) (v' : Val) :
    (act arg (.settle b' q v') s).heap = s.heap ∧ (act arg (.settle b' q v') s).stack = s.stack := by
  have hlt : q < s.heap.length := by
    unfold status at hs
    cases hq : s.heap[q]? with
    | none => simp [hq] at hs
    | some pr => exact (List.getElem?_eq_some_iff.mp hq).1
  have h := first_wins (emit (.direct q) s) (q := q) (b := b) (v := v) hs b' v'
  simp only [act, hlt, if_true, h]
  exact ⟨rfl, rfl⟩

/-- non-vacuity: resolve 1 then reject/resolve again -/
example : status (execAll 50 [.new, .settle .res 0 (.int 1)] init) 0 = some (.settled .res (.int 1)) := by rfl

/-! ## every registered callback of the matching branch runs exactly once, after settlement -/

/-- `then()` registers: on an existing promise it is recorded as the next registration, on that promise. -/
theorem then_registers (s : State) (p : Nat) (r j : Option Fn) (hp : p < s.heap.length) :
    (thenOp p r j s).regs = s.regs ++ [p] := by
  rcases thenOp_cases p r j s with ⟨h, _⟩ | ⟨pr, _, ⟨_, h⟩ | ⟨b, v, _, h⟩⟩
  · rw [List.getElem?_eq_none_iff] at h; omega
  · rw [h]
  · rw [h]

/-- A callback is only ever invoked when its promise is settled, on the branch the promise was settled on, and
with the promise's value ("after settlement", "the matching branch", right argument). -/
theorem invoked_only_as_settled {s : State} (h : Reach s) {rid : Nat} {b : Br} {v : Val}
    (hi : Event.invoke rid b v ∈ s.log) :
    ∃ p, s.regs[rid]? = some p ∧ status s p = some (.settled b v) := by
  obtain ⟨p, pr, h1, h2, h3⟩ := h.inv.logs rid b v hi
  exact ⟨p, h1, by simp [status, h2, h3]⟩

/-- While the promise is pending none of its callbacks has run. -/
theorem not_before_settlement {s : State} (h : Reach s) {rid p : Nat} (hr : s.regs[rid]? = some p)
    (hp : status s p = some .pending) (b : Br) : calls rid b s.log = 0 := by
  unfold status at hp
  cases hq : s.heap[p]? with
  | none => simp [hq] at hp
  | some pr =>
    simp only [hq, Option.map_some, Option.some.injEq] at hp
    exact (h.inv.stack_zero hr hq (by simp [hp])).2

/-- The callback of the other branch never runs. -/
theorem other_branch_never {s : State} (h : Reach s) {rid p : Nat} (hr : s.regs[rid]? = some p)
    {b : Br} {v : Val} (hp : status s p = some (.settled b v)) {b' : Br} (hb : b' ≠ b) :
    calls rid b' s.log = 0 := by
  unfold status at hp
  cases hq : s.heap[p]? with
  | none => simp [hq] at hp
  | some pr =>
    simp only [hq, Option.map_some, Option.some.injEq] at hp
    refine (h.inv.stack_zero hr hq ?_).2
    intro v' h'; rw [hp] at h'; cases h'; exact hb rfl

/-- At most once, at every moment of every history (also in the middle of notifications), for every callback. -/
theorem at_most_once {s : State} (h : Reach s) (rid : Nat) (b : Br) : calls rid b s.log ≤ 1 := by
  have I := h.inv
  cases hr : s.regs[rid]? with
  | none =>
    have := (I.fresh (List.getElem?_eq_none_iff.mp hr) b).2
    omega
  | some p =>
    have hlt := I.regs_lt rid p hr
    have hq : s.heap[p]? = some s.heap[p] := List.getElem?_eq_getElem hlt
    cases hst : s.heap[p].st with
    | pending =>
      have := (I.stack_zero hr hq (b := b) (by simp [hst])).2
      omega
    | settled b0 v0 =>
      by_cases hb : b = b0
      · subst hb
        have := (I.acct rid p _ hr hq).2 b v0 hst
        omega
      · have := (I.stack_zero hr hq (b := b) (by intro v' h'; rw [hst] at h'; cases h'; exact hb rfl)).2
        omega

/-- **Exactly once.** When nothing is running any more, every `then()` call made on a promise that is settled
on branch `b` has had its branch-`b` callback invoked exactly once — whether it was registered before the
settlement, after it, or from inside another callback. -/
theorem exactly_once {s : State} (h : Reach s) (hq : s.stack = []) {rid p : Nat} (hr : s.regs[rid]? = some p)
    {b : Br} {v : Val} (hp : status s p = some (.settled b v)) : calls rid b s.log = 1 := by
  unfold status at hp
  cases hh : s.heap[p]? with
  | none => simp [hh] at hp
  | some pr =>
    simp only [hh, Option.map_some, Option.some.injEq] at hp
    have := (h.inv.acct rid p pr hr hh).2 b v hp
    rw [hq] at this
    simpa [stackCnt] using this

/-- In the middle of a history: the callback of the matching branch is either still queued in exactly one
running notification loop or has run exactly once — it is never lost and never duplicated. -/
theorem never_lost {s : State} (h : Reach s) {rid p : Nat} (hr : s.regs[rid]? = some p)
    {b : Br} {v : Val} (hp : status s p = some (.settled b v)) :
    stackCnt rid b s.stack + calls rid b s.log = 1 := by
  unfold status at hp
  cases hh : s.heap[p]? with
  | none => simp [hh] at hp
  | some pr =>
    simp only [hh, Option.map_some, Option.some.injEq] at hp
    exact (h.inv.acct rid p pr hr hh).2 b v hp

/-- A settled promise holds no callbacks any more (they were handed to the notification, references dropped). -/
theorem settled_lists_empty {s : State} (h : Reach s) {p : Nat} {pr : Prom} (hp : s.heap[p]? = some pr)
    {b : Br} {v : Val} (hst : pr.st = .settled b v) : pr.resolvers = [] ∧ pr.rejectors = [] :=
  h.inv.clean p pr b v hp hst

/-- non-vacuity of `exactly_once` and friends on the re-entrant history of the ordering finding:
`p.then(f1 which registers f3 on p); p.then(f2); p.do_resolve(1)` — registrations 0,1,2 on promise 0. -/
def demo : State :=
  execAll 100 [.new,
    .then_ 0 (some (.script 1 [.then_ 0 (some (.script 3 [] (.ret .none))) none] (.ret .none))) none,
    .then_ 0 (some (.script 2 [] (.ret .none))) none,
    .settle .res 0 (.int 1)] init

example : demo.stack.length = 0 ∧ demo.regs = [0, 0, 0] ∧
    calls 0 .res demo.log = 1 ∧ calls 1 .res demo.log = 1 ∧ calls 2 .res demo.log = 1 ∧
    calls 0 .rej demo.log = 0 := by decide

end RedunModel.C13
