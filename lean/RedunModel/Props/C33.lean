/-
C33 — Status filters agree with displayed statuses.

Filter side: `CallGraphQuery._job_status_term`, the joins of `_join_values` / `_join_jobs`,
`filter_job_statuses`, `filter_execution_statuses` — REGENERATED from /repo into
`RedunModel.Generated.Status` on every run and evaluated with SQL three-valued logic
(`RedunModel.Model.StatusSql`, `RedunModel.Model.Status`).
Display side: `Job.calc_status` / `Job.status`, `Execution._job_status2exec_status` / `Execution.status`
(also regenerated). Recorder: `record_value`, `record_call_node`, `record_job_start`, `record_job_end`.
Proofs and the finite tables are in `RedunModel.Lemmas.Status`.
-/
import RedunModel.Lemmas.Status
namespace RedunModel.C33
open RedunModel.StatusSql RedunModel.Generated.Status RedunModel.Status

/-- Row level, one status: a job row the recorder can produce is returned by the filter for `s`
iff its displayed status is `s` (finite table over all row shapes, closed by `decide`). -/
theorem job_filter_iff_display (r : Row) (hr : RecInv r = true) (s : St) :
    jobMatches [s] r = some true ↔ display r = .ok s := Status.job_filter_iff_display r hr s

/-- Row level, any non-empty list of statuses (`--job-status A,B,...`). -/
theorem job_filter_multi (r : Row) (hr : RecInv r = true) (ss : List St) (hne : ss ≠ []) :
    jobMatches ss r = some (displayIn ss r) := Status.job_filter_multi r hr ss hne

/-- Executions, any non-empty list of execution statuses (RUNNING, FAILED, DONE; the DONE ⇒ {DONE, CACHED}
rewriting of `filter_execution_statuses` included). -/
theorem exec_filter_multi (r : Row) (hr : RecInv r = true) (ss : List St) (hne : ss ≠ [])
    (hdom : ∀ s ∈ ss, s ∈ execStatusDomain) :
    execMatches ss ⟨some r⟩ = some (execDisplayIn ss ⟨some r⟩) := Status.exec_filter_multi r hr ss hne hdom

/-- `RecInv` is an invariant of the recorder: after any sequence of `record_value` / `record_call_node` /
`record_job_start` / `record_job_end` (rejected writes included), every job row has a producible shape. -/
theorem recorder_rows_recinv (ops : List RecOp) (j : JobRec) (hj : j ∈ (runRec ops).jobs) :
    RecInv (rowOf (runRec ops) j) = true := wf_recInv _ (runRec_wf ops) j hj

/-- Database level (the property): after any recorder history, filtering jobs by a non-empty status list
returns exactly the jobs whose displayed status is in the list. -/
theorem query_jobs_eq_displayed (ops : List RecOp) (ss : List St) (hne : ss ≠ []) :
    queryJobs ss (runRec ops) = some (displayedJobs ss (runRec ops)) := Status.query_jobs_eq_displayed ops ss hne

/-- Database level, executions. -/
theorem query_execs_eq_displayed (ops : List RecOp) (ss : List St) (hne : ss ≠ [])
    (hdom : ∀ s ∈ ss, s ∈ execStatusDomain) :
    queryExecs ss (runRec ops) = some (displayedExecs ss (runRec ops)) :=
  Status.query_execs_eq_displayed ops ss hne hdom

/-- Regression witness (DESIGN §9 F11): the CSE-collapsed twin of a failing job (`cached = True`, result an
ErrorValue) is displayed FAILED and is returned by the FAILED filter only — not by CACHED. -/
theorem cached_failed_row_consistent :
    displayIn [.failed] ⟨false, true, .error⟩ = true ∧ jobMatches [.cached] ⟨false, true, .error⟩ = some false ∧
    jobMatches [.failed] ⟨false, true, .error⟩ = some true := by decide

/-! non-vacuity: a recorder history with a running, a done, a cached, a failed and a CSE-failed job -/
def exampleOps : List RecOp :=
  [.recordValue 1 false, .recordValue 2 true, .recordCallNode 10 1, .recordCallNode 20 2,
   .jobStart 100 (some 7) none, .jobStart 101 none none, .jobStart 102 none (some 10), .jobStart 103 none none, .jobStart 104 none (some 20),
   .jobEnd 101 false 10, .jobEnd 102 true 10, .jobEnd 103 false 20, .jobEnd 104 true 20]
example : queryJobs [.running] (runRec exampleOps) = some [100] := by decide
example : queryJobs [.done] (runRec exampleOps) = some [101] := by decide
example : queryJobs [.cached] (runRec exampleOps) = some [102] := by decide
example : queryJobs [.failed] (runRec exampleOps) = some [103, 104] := by decide
example : queryExecs [.running] (runRec exampleOps) = some [7] := by decide
example : RecInv ⟨false, true, .error⟩ = true := by decide

end RedunModel.C33
