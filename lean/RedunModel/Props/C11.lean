/-
C11 — The job arrayer hands off every job exactly once.

Property theorems only.  Model: `RedunModel.Model.Arrayer` (two threads, one transition per LINE event
of `add_job`/`start`/`_monitor_stale_jobs`/`get_stale_descrs`/`submit_pending_jobs`); invariants and
their preservation proofs: `RedunModel.Lemmas.Arrayer*`.

All theorems quantify over every configuration (`Cfg`: code as found / repaired), every parameter set,
every job stream and every reachable state, i.e. every interleaving of the two threads and of clock
advances, unless a hypothesis says otherwise:

* full strength, both for the code as found and the repaired code:
  `exactly_once`, `never_dropped`, `submitted_at_most_once`, `batch_shape`, `no_deadlock`;
* full strength for the repaired code (scan under the lock / decrement under the lock):
  `monitor_never_fails`, `count_exact`;
* refuted on the model of the code as found (closed counter-example traces):
  `refuted_keyerror`, `refuted_dict_resize`, `refuted_lost_update`.
-/
import RedunModel.Lemmas.ArrayerC
import RedunModel.Lemmas.ArrayerD
import RedunModel.Lemmas.ArrayerF
import RedunModel.Lemmas.ArrayerK
namespace RedunModel.C11
open RedunModel.Arrayer

/-- invariants that hold whatever the locking configuration -/
theorem reachable_inv {c : Cfg} {p : Params} {jobs : List Job} {s : State} (hwf : p.minSize ≤ p.maxSize)
    (h : Reachable c p jobs s) : InvA c s ∧ InvB s ∧ InvC p jobs s ∧ InvD p s ∧ InvF s := by
  induction h with
  | init => exact ⟨invA_init c jobs, invB_init jobs, invC_init p jobs, invD_init p jobs, invF_init jobs⟩
  | step e _ hs ih =>
    obtain ⟨hA, hB, hC, hD, hF⟩ := ih
    refine ⟨invA_step c p _ _ e hA hs, invB_step c p _ _ e hA hB hs, ?_, ?_, ?_⟩
    · cases e with
      | thr t => cases t with
        | S => exact invC_stepS c p jobs _ _ hA hC hs
        | M => exact invC_stepM c p jobs _ _ hA hB hC hs
      | tick n =>
        simp only [step, Option.some.injEq] at hs; subst hs
        exact ⟨hC.cons, hC.rem190, hC.prog⟩
    · cases e with
      | thr t => cases t with
        | S => exact invD_stepS p _ _ hD hs
        | M => exact invD_stepM c p hwf _ _ hD hs
      | tick n =>
        simp only [step, Option.some.injEq] at hs; subst hs
        exact ⟨hD.pendHomog, hD.jobsHomog, hD.remHomog, hD.lenMax, hD.lenMin, hD.lenOver, hD.lenEq, hD.shape⟩
    · cases e with
      | thr t => cases t with
        | S => exact invF_stepS c p _ _ hA hF hs
        | M => exact invF_stepM c p _ _ hB hF hs
      | tick n =>
        simp only [step, Option.some.injEq] at hs; subst hs
        exact ⟨hF.stalesIn, hF.stalesNodup, hF.curOk, hF.scanL⟩

theorem reachable_invN {c : Cfg} {p : Params} {jobs : List Job} {s : State} (hwf : p.minSize ≤ p.maxSize)
    (hc : c.lockScan = true) (h : Reachable c p jobs s) : InvN s := by
  induction h with
  | init => exact invN_init jobs
  | step e hr hs ih =>
    obtain ⟨hA, hB, _, _, hF⟩ := reachable_inv hwf hr
    cases e with
    | thr t => cases t with
      | S => exact invN_stepS c hc p _ _ hA ih hs
      | M => exact invN_stepM c hc p _ _ hA hB hF ih hs
    | tick n =>
      simp only [step, Option.some.injEq] at hs; subst hs
      exact ⟨ih.noErrPc, ih.noErrs, ih.iterOk⟩

theorem reachable_invK {c : Cfg} {p : Params} {jobs : List Job} {s : State} (hwf : p.minSize ≤ p.maxSize)
    (hc : c.lockDec = true) (h : Reachable c p jobs s) : InvK p s := by
  induction h with
  | init => exact invK_init p jobs
  | step e hr hs ih =>
    obtain ⟨hA, hB, _, _, _⟩ := reachable_inv hwf hr
    cases e with
    | thr t => cases t with
      | S => exact invK_stepS c p _ _ hA ih hs
      | M => exact invK_stepM c hc p _ _ hA hB ih hs
    | tick n =>
      simp only [step, Option.some.injEq] at hs; subst hs
      exact ⟨ih.cnt, ih.rem190⟩

/-! ## the property -/

/-- **Exactly once** (conservation). In every reachable state of every interleaving, every job of the
input stream is in exactly one place: not yet passed to `add_job`, in `pending`, in the monitor's hands
(popped, not yet passed to the submit callback or put back), or in a submitted batch — with
multiplicity (equal counts for every job). -/
theorem exactly_once (c : Cfg) (p : Params) (jobs : List Job) (s : State) (hwf : p.minSize ≤ p.maxSize)
    (h : Reachable c p jobs s) (j : Job) :
    jobs.count j = (notYet s.ad).count j + (pendingJobs s).count j + (inHand s.mon).count j
      + s.submitted.flatten.count j := by
  obtain ⟨_, _, hC, _, _⟩ := reachable_inv hwf h
  have h1 := hC.cons j
  have h2 := hC.prog j
  simp only [pendingJobs]; omega

/-- **Never dropped.** `inHand` is empty by definition when the monitor is dead, idle or on an error
path, so conservation says: whenever the monitor is not in the middle of `submit_pending_jobs`, a job
that entered the arrayer is still pending or has been submitted — a failing monitor loses nothing. -/
theorem never_dropped (c : Cfg) (p : Params) (jobs : List Job) (s : State) (hwf : p.minSize ≤ p.maxSize)
    (h : Reachable c p jobs s) (hm : inHand s.mon = []) (j : Job) (hj : j ∈ s.added) :
    j ∈ pendingJobs s ∨ j ∈ s.submitted.flatten := by
  obtain ⟨_, _, hC, _, _⟩ := reachable_inv hwf h
  have h1 := hC.cons j
  rw [hm] at h1
  have : 0 < s.added.count j := List.count_pos_iff.2 hj
  simp only [List.count_nil, Nat.add_zero] at h1
  by_cases hp : 0 < (flat s.pending).count j
  · exact Or.inl (List.count_pos_iff.1 hp)
  · exact Or.inr (List.count_pos_iff.1 (by omega))

/-- **At most once.** If the jobs of the stream are pairwise distinct, no job occurs twice in the
submitted batches (neither within a batch nor in two batches), and a submitted job is no longer pending. -/
theorem submitted_at_most_once (c : Cfg) (p : Params) (jobs : List Job) (s : State) (hwf : p.minSize ≤ p.maxSize)
    (h : Reachable c p jobs s) (hd : jobs.Nodup) :
    s.submitted.flatten.Nodup ∧ ∀ j ∈ s.submitted.flatten, j ∉ pendingJobs s := by
  have key : ∀ j, (pendingJobs s).count j + s.submitted.flatten.count j ≤ 1 := by
    intro j
    have := exactly_once c p jobs s hwf h j
    have := List.nodup_iff_count.1 hd j
    omega
  refine ⟨List.nodup_iff_count.2 (fun j => by have := key j; omega), ?_⟩
  intro j hj hp
  have h1 : 0 < s.submitted.flatten.count j := List.count_pos_iff.2 hj
  have h2 : 0 < (pendingJobs s).count j := List.count_pos_iff.2 hp
  have := key j; omega

/-- **Batch shape.** Every batch passed to the submit callback consists of jobs with one description
and has size 1 or a size between the configured minimum and maximum. -/
theorem batch_shape (c : Cfg) (p : Params) (jobs : List Job) (s : State) (hwf : p.minSize ≤ p.maxSize)
    (h : Reachable c p jobs s) (b : List Job) (hb : b ∈ s.submitted) :
    (∀ j1 ∈ b, ∀ j2 ∈ b, j1.descr = j2.descr) ∧ (b.length = 1 ∨ (p.minSize ≤ b.length ∧ b.length ≤ p.maxSize)) := by
  obtain ⟨_, _, _, hD, _⟩ := reachable_inv hwf h
  exact hD.shape b hb

/-- **The monitor never fails** when `get_stale_descrs` scans under the lock (the repaired code): no
interleaving makes it call `on_error`, reach an exception path or die. -/
theorem monitor_never_fails (c : Cfg) (p : Params) (jobs : List Job) (s : State) (hwf : p.minSize ≤ p.maxSize)
    (hc : c.lockScan = true) (h : Reachable c p jobs s) : s.errors = [] ∧ s.mon.pc ≠ .dead := by
  have hN := reachable_invN hwf hc h
  refine ⟨hN.noErrs, ?_⟩
  intro hd
  have := hN.noErrPc
  rw [hd] at this
  simp [errPc] at this

/-- **The pending count is exact** when the decrement runs under the lock (the repaired code): whenever
the adder is between calls and the monitor between polls, `num_pending` is the number of jobs in
`pending`, i.e. of jobs not yet handed off. -/
theorem count_exact (c : Cfg) (p : Params) (jobs : List Job) (s : State) (hwf : p.minSize ≤ p.maxSize)
    (hc : c.lockDec = true) (h : Reachable c p jobs s) (hq : quiescent s = true) :
    s.num = ((pendingJobs s).length : Int) := by
  have hK := (reachable_invK hwf hc h).cnt
  simp only [quiescent, Bool.and_eq_true, Bool.or_eq_true, beq_iff_eq] at hq
  obtain ⟨ha, hm⟩ := hq
  simp only [credit, ha, debt, pendingJobs] at hK ⊢
  rcases hm with (hm | hm) | hm <;> simp [hm] at hK <;> omega

/-- **No deadlock.** In every reachable state some thread can take a step, unless the adding thread has
made all its calls and no monitor thread is running (a thread waiting for the lock is never waiting
for a thread that cannot move). Holds for both locking configurations. -/
theorem no_deadlock (c : Cfg) (p : Params) (jobs : List Job) (s : State) (hwf : p.minSize ≤ p.maxSize)
    (h : Reachable c p jobs s) :
    stepS p s ≠ none ∨ stepM c p s ≠ none ∨ (s.ad.pc = .done ∧ monAlive s.mon = false) :=
  no_deadlock_of_invA c p s (reachable_inv hwf h).1

/-! ## refutations on the model of the code as found -/

theorem reachable_run (c : Cfg) (p : Params) (jobs : List Job) (sched : List Ev) :
    ∀ s, Reachable c p jobs s → Reachable c p jobs (run c p s sched) := by
  induction sched with
  | nil => intro s h; exact h
  | cons e es ih =>
    intro s h
    simp only [run]
    split
    · rename_i s' hs; exact ih s' (Reachable.step e h hs)
    · exact ih s h

def S : Ev := .thr .S
def M : Ev := .thr .M
def rep (n : Nat) (e : Ev) : List Ev := List.replicate n e

def jA : Job := ⟨0, 0, false⟩
def jB : Job := ⟨1, 1, false⟩
def jC : Job := ⟨1, 0, false⟩
def jD : Job := ⟨2, 0, false⟩
def pW : Params := ⟨2, 3, 5⟩

/-- add_job(jA) completely (17 lines incl. start()), add_job(jB) up to and including the append (4 lines);
then the monitor polls: the scan finds jB's key without a timestamp. -/
def schedKeyError : List Ev := rep 13 S ++ rep 4 S ++ [.tick 100] ++ rep 16 M

/-- `C11_monitor_never_fails` is false for the code as found: KeyError in `get_stale_descrs` when the
monitor reads between `pending[descr].append(job)` and the timestamp write. -/
theorem refuted_keyerror :
    ∃ s, Reachable Cfg.current pW [jA, jB] s ∧ s.errors = [Err.keyError] ∧ s.mon.pc = .dead ∧
      pendingJobs s = [jA, jB] :=
  ⟨run Cfg.current pW (init [jA, jB]) schedKeyError, reachable_run _ _ _ _ _ Reachable.init, by decide⟩

/-- the monitor creates its iterator over one key; add_job(jB) inserts a second key; next() fails -/
def schedResize : List Ev := rep 13 S ++ rep 7 M ++ rep 5 S ++ rep 9 M

theorem refuted_dict_resize :
    ∃ s, Reachable Cfg.current pW [jA, jB] s ∧ s.errors = [Err.runtimeError] ∧ s.mon.pc = .dead :=
  ⟨run Cfg.current pW (init [jA, jB]) schedResize, reachable_run _ _ _ _ _ Reachable.init, by decide⟩

/-- two jobs added and popped as one batch; the decrement reads `num_pending = 2`; a third add_job runs
(`+= 1`, count 3); the decrement writes 2 - 2 = 0 while one job is pending. -/
def schedLostUpdate : List Ev :=
  rep 13 S ++ rep 11 S ++ [.tick 100] ++ rep 21 M ++ rep 11 S ++ rep 2 M

theorem refuted_lost_update :
    ∃ s, Reachable Cfg.current pW [jA, jC, jD] s ∧ quiescent s = true ∧ s.num = 0 ∧ pendingJobs s = [jD] :=
  ⟨run Cfg.current pW (init [jA, jC, jD]) schedLostUpdate, reachable_run _ _ _ _ _ Reachable.init, by decide⟩

/-! ## non-vacuity -/

/-- reachable, quiescent, with a real array batch: the hypotheses of `count_exact`, `batch_shape`,
`monitor_never_fails` are satisfiable together and the conclusions are not trivial -/
example : ∃ s, Reachable Cfg.fixed pW [jA, jC, jD] s ∧ quiescent s = true ∧
    s.submitted = [[jA, jC, jD]] ∧ s.num = 0 ∧ s.errors = [] :=
  ⟨run Cfg.fixed pW (init [jA, jC, jD]) (rep 35 S ++ [.tick 100] ++ rep 26 M),
    reachable_run _ _ _ _ _ Reachable.init, by decide⟩

end RedunModel.C11
