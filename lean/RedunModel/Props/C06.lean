/-
C06 — Each distinct call runs at most once per execution.

Model: `RedunModel.Model.SchedCore` (mirrors /repo after the `fix:` commits "keep the CSE registration
of a pending job until that job itself is finalized" and "do not collapse jobs into a twin that records
no provenance").  All theorems: every program, every schedule.
-/
import RedunModel.Lemmas.SchedCse
import RedunModel.Lemmas.ExprMemo
namespace RedunModel.C06
open RedunModel.SchedCore

/-- Within one execution, for every cache key (eval hash, context hash), at most one job that did not
opt out (cache_scope ≠ NONE, CSE allowed; hence recording provenance) is handed to an executor —
whatever the order in which jobs complete. -/
theorem submit_once (p : Prog) (hps : ProvScope p) (s : S) (h : Reachable p s) (k : Nat × Nat) :
    nSub p s k ≤ 1 := ((reachable_cse p hps s h).once k).1

/-- …because once such a job has been submitted, its key stays covered: a job is registered as pending
under the key, or the key has a recorded result visible to the same-execution lookup. -/
theorem submitted_key_covered (p : Prog) (hps : ProvScope p) (s : S) (h : Reachable p s) (k : Nat × Nat)
    (hk : nSub p s k = 1) : (lookupPending s k).isSome = true ∨ HasEntry s k :=
  ((reachable_cse p hps s h).once k).2 hk

/-- A job registered as pending under a key has exactly that eval hash and context, and records
provenance (so a duplicate that collapses into it inherits a recorded call node). -/
theorem registration_sound (p : Prog) (hps : ProvScope p) (s : S) (h : Reachable p s) (k : Nat × Nat) (j : JobId)
    (hm : (k, j) ∈ s.pendingJobs) : keyOf p s j = k ∧ (spec p s j).prov = true :=
  ⟨((reachable_cse p hps s h).reg_ok k j hm).1, ((reachable_cse p hps s h).reg_ok k j hm).2.1⟩

/-- A duplicate that collapsed into a pending twin is never submitted, never holds limits, and is not
re-executed: it only waits for the twin's result (same value or same error, `resolveJob`/`rejectJob`). -/
theorem collapsed_twin_is_quiet (p : Prog) (s : S) (h : Reachable p s) (X t : JobId)
    (ht : t ∈ (s.jobs X).twins) : occA s t = 0 ∧ s.inflight t = false :=
  ⟨((reachable_inv p s h).core.twins_quiet X t ht).1, ((reachable_inv p s h).core.twins_quiet X t ht).2.1⟩

/-! non-vacuity: three calls of the same task, one of them opted out (prov = false under an opted-out
parent is modelled by scope none / prov false).  Whatever the schedule, one opted-in submission. -/
def demo : Prog :=
  { specs := [ { key := 0, ctx := 0, limits := [], scope := .backend, cseOk := true, prov := true, execOk := true,
                 fails := false, pre := .miss, children := [1, 2, 3] },
               { key := 7, ctx := 0, limits := [], scope := .backend, cseOk := true, prov := true, execOk := true,
                 fails := false, pre := .miss, children := [] },
               { key := 7, ctx := 0, limits := [], scope := .none, cseOk := true, prov := false, execOk := true,
                 fails := false, pre := .miss, children := [] },
               { key := 7, ctx := 0, limits := [], scope := .backend, cseOk := true, prov := true, execOk := true,
                 fails := false, pre := .miss, children := [] } ],
    limit := fun _ => 1, dryrun := false }

example : (run demo [.pop, .complete 0, .pop, .pop, .pop, .pop]).submits = [0, 1, 2] := by decide
example : nSub demo (run demo [.pop, .complete 0, .pop, .pop, .pop, .pop]) (7, 0) = 1 := by decide

/-! ## each distinct expression reached from the same parent job is evaluated once (`_pending_expr`) -/
open RedunModel.ExprMemo in
/-- For every history of `_evaluate_apply` calls and job finalizations in which a finalized job evaluates
nothing any more (`Live`): a later request for an expression with the same hash under the same parent is
handed the evaluation of the earlier request and starts nothing; requests that differ in parent or hash
get different evaluations. -/
theorem expr_once (ops : List ExprMemo.Op) (hl : ExprMemo.Live ops) :
    (ExprMemo.run {} ops).Pairwise ExprMemo.Rel := ExprMemo.run_pairwise ExprMemo.inv_init hl

/-- …hence at most one evaluation is ever started per (parent job, expression hash). -/
theorem expr_started_at_most_once (ops : List ExprMemo.Op) (hl : ExprMemo.Live ops) (par h : Nat) :
    ((ExprMemo.run {} ops).filter
      (fun a => decide (a.parent = par ∧ a.hash = h) && a.out.started)).length ≤ 1 := by
  have hp := expr_once ops hl
  generalize ExprMemo.run {} ops = l at hp
  induction l with
  | nil => simp
  | cons a l ih =>
    have hrest := ih (List.Pairwise.of_cons hp)
    by_cases ha : (decide (a.parent = par ∧ a.hash = h) && a.out.started) = true
    · have hnone : l.filter (fun a => decide (a.parent = par ∧ a.hash = h) && a.out.started) = [] := by
        rw [List.filter_eq_nil_iff]
        intro b hb hbt
        have hr := (List.pairwise_cons.mp hp).1 b hb
        simp only [Bool.and_eq_true, decide_eq_true_eq] at ha hbt
        have := (hr.1 (by rw [ha.1.1, ha.1.2, hbt.1.1, hbt.1.2])).2
        rw [this] at hbt
        exact absurd hbt.2 (by simp)
      rw [List.filter_cons, if_pos ha, hnone]; simp
    · rw [List.filter_cons, if_neg ha]
      exact hrest

/-- the hypothesis is needed: after a (hypothetical) evaluation under a finalized parent the table is gone -/
example : (ExprMemo.run {} [.eval 1 7, .finalize 1, .eval 1 7]).map (·.out.started) = [true, true] := by decide
/-- non-vacuity: the same expression three times under parent 1 (one evaluation), once under parent 2, another one under 1 -/
example : (ExprMemo.run {} [.eval 1 7, .eval 1 7, .eval 2 7, .eval 1 8, .finalize 2, .eval 1 7]).map
    (fun a => (a.out.id, a.out.started)) = [(0, true), (0, false), (1, true), (2, true), (0, false)] := by decide
example : ExprMemo.Live [.eval 1 7, .eval 1 7, .eval 2 7, .eval 1 8, .finalize 2, .eval 1 7] := by
  simp [ExprMemo.Live]

end RedunModel.C06
