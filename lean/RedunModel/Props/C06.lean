/-
C06 — Each distinct call runs at most once per execution.

Model: `RedunModel.Model.SchedCore` (mirrors /repo after the `fix:` commits "keep the CSE registration
of a pending job until that job itself is finalized" and "do not collapse jobs into a twin that records
no provenance").  All theorems: every program, every schedule.
-/
import RedunModel.Lemmas.SchedCse
import RedunModel.Lemmas.SchedTwin
import RedunModel.Lemmas.ExprMemo
namespace RedunModel.C06
open RedunModel.SchedCore

/-- Within one execution, for every cache key (eval hash, context hash), at most one job that did not
opt out (cache_scope ≠ NONE, CSE allowed; hence recording provenance) is handed to an executor —
whatever the order in which jobs complete. -/
theorem submit_once (p : Prog) (hps : ProvScope p) (s : S) (h : Reachable p s) (k : Nat × Nat) :
    nSub p s k ≤ 1 := ((reachable_cse p hps s h).once k).1

/-- …because once such a job has been submitted, its key stays covered: a job is registered as pending
under the key, or the key has a recorded result visible to the same-execution lookup. -/
theorem submitted_key_covered (p : Prog) (hps : ProvScope p) (s : S) (h : Reachable p s) (k : Nat × Nat)
    (hk : nSub p s k = 1) : (lookupPending s k).isSome = true ∨ HasEntry s k :=
  ((reachable_cse p hps s h).once k).2 hk

/-- A job registered as pending under a key has exactly that eval hash and context, and records
provenance (so a duplicate that collapses into it inherits a recorded call node). -/
theorem registration_sound (p : Prog) (hps : ProvScope p) (s : S) (h : Reachable p s) (k : Nat × Nat) (j : JobId)
    (hm : (k, j) ∈ s.pendingJobs) : keyOf p s j = k ∧ (spec p s j).prov = true :=
  ⟨((reachable_cse p hps s h).reg_ok k j hm).1, ((reachable_cse p hps s h).reg_ok k j hm).2.1⟩

/-- A duplicate that collapsed into a pending twin is never submitted, never holds limits, and is not
re-executed: it only waits for the twin's result (same value or same error, `resolveJob`/`rejectJob`). -/
theorem collapsed_twin_is_quiet (p : Prog) (s : S) (h : Reachable p s) (X t : JobId)
    (ht : t ∈ (s.jobs X).twins) : occA s t = 0 ∧ s.inflight t = false :=
  ⟨((reachable_inv p s h).core.twins_quiet X t ht).1, ((reachable_inv p s h).core.twins_quiet X t ht).2.1⟩

/-! non-vacuity: three calls of the same task, one of them opted out (prov = false under an opted-out
parent is modelled by scope none / prov false).  Whatever the schedule, one opted-in submission. -/
def demo : Prog :=
  { specs := [ { key := 0, ctx := 0, limits := [], scope := .backend, cseOk := true, prov := true, execOk := true,
                 fails := false, pre := .miss, children := [1, 2, 3] },
               { key := 7, ctx := 0, limits := [], scope := .backend, cseOk := true, prov := true, execOk := true,
                 fails := false, pre := .miss, children := [] },
               { key := 7, ctx := 0, limits := [], scope := .none, cseOk := true, prov := false, execOk := true,
                 fails := false, pre := .miss, children := [] },
               { key := 7, ctx := 0, limits := [], scope := .backend, cseOk := true, prov := true, execOk := true,
                 fails := false, pre := .miss, children := [] } ],
    limit := fun _ => 1, dryrun := false }

example : (run demo [.pop, .complete 0, .pop, .pop, .pop, .pop]).submits = [0, 1, 2] := by decide
example : nSub demo (run demo [.pop, .complete 0, .pop, .pop, .pop, .pop]) (7, 0) = 1 := by decide

/-! ## each distinct expression reached from the same parent job is evaluated once (`_pending_expr`) -/
open RedunModel.ExprMemo in
/-- For every history of `_evaluate_apply` calls and job finalizations in which a finalized job evaluates
nothing any more (`Live`): a later request for an expression with the same hash under the same parent is
handed the evaluation of the earlier request and starts nothing; requests that differ in parent or hash
get different evaluations. -/
theorem expr_once (ops : List ExprMemo.Op) (hl : ExprMemo.Live ops) :
    (ExprMemo.run {} ops).Pairwise ExprMemo.Rel := ExprMemo.run_pairwise ExprMemo.inv_init hl

/-- …hence at most one evaluation is ever started per (parent job, expression hash). -/
theorem expr_started_at_most_once (ops : List ExprMemo.Op) (hl : ExprMemo.Live ops) (par h : Nat) :
    ((ExprMemo.run {} ops).filter
      (fun a => decide (a.parent = par ∧ a.hash = h) && a.out.started)).length ≤ 1 := by
  have hp := expr_once ops hl
  generalize ExprMemo.run {} ops = l at hp
  induction l with
  | nil => simp
  | cons a l ih =>
    have hrest := ih (List.Pairwise.of_cons hp)
    by_cases ha : (decide (a.parent = par ∧ a.hash = h) && a.out.started) = true
    · have hnone : l.filter (fun a => decide (a.parent = par ∧ a.hash = h) && a.out.started) = [] := by
        rw [List.filter_eq_nil_iff]
        intro b hb hbt
        have hr := (List.pairwise_cons.mp hp).1 b hb
        simp only [Bool.and_eq_true, decide_eq_true_eq] at ha hbt
        have := (hr.1 (by rw [ha.1.1, ha.1.2, hbt.1.1, hbt.1.2])).2
        rw [this] at hbt
        exact absurd hbt.2 (by simp)
      rw [List.filter_cons, if_pos ha, hnone]; simp
    · rw [List.filter_cons, if_neg ha]
      exact hrest

/-- the hypothesis is needed: after a (hypothetical) evaluation under a finalized parent the table is gone -/
example : (ExprMemo.run {} [.eval 1 7, .finalize 1, .eval 1 7]).map (·.out.started) = [true, true] := by decide
/-- non-vacuity: the same expression three times under parent 1 (one evaluation), once under parent 2, another one under 1 -/
example : (ExprMemo.run {} [.eval 1 7, .eval 1 7, .eval 2 7, .eval 1 8, .finalize 2, .eval 1 7]).map
    (fun a => (a.out.id, a.out.started)) = [(0, true), (0, false), (1, true), (2, true), (0, false)] := by decide
example : ExprMemo.Live [.eval 1 7, .eval 1 7, .eval 2 7, .eval 1 8, .finalize 2, .eval 1 7] := by
  simp [ExprMemo.Live]


/-! ## every duplicate receives the result or error of its twin (second clause of C06)

The model carries no values: "same result or error" is expressed as "settles on the same branch"
(resolved / rejected) — through the twin list while the representative is still running, through the
same-execution table once it has finished.  All theorems: every program (real and dry runs), every schedule. -/

/-- A settled promise keeps its branch: no later step changes the status of a job that is resolved or
rejected (a settled job has no token left — no queued event, no place in the waiting list, not in flight). -/
theorem settle_once (p : Prog) (s s' : S) (h : Reachable p s) (hs : Step p s s') (j : JobId)
    (hst : (s.jobs j).status ≠ Status.pending) : (s'.jobs j).status = (s.jobs j).status :=
  settled_stable p s s' h hs j hst

/-- …because of event uniqueness: every job has at most one token (queued event, waiting-list entry or being
in flight), and a settled job has none. -/
theorem one_token (p : Prog) (s : S) (h : Reachable p s) (j : JobId) :
    tot s j ≤ 1 ∧ ((s.jobs j).status ≠ Status.pending → tot s j = 0) :=
  ⟨((reachable_tok p s h).tok j).1, ((reachable_tok p s h).tok j).2.1⟩

/-- `Promise.all` is exact in real runs: while the evaluation of a job has not failed, `waiting` is the number
of its children whose promise is still pending. -/
theorem promise_all_exact (p : Prog) (hd : p.dryrun = false) (s : S) (h : Reachable p s) (j : JobId)
    (he : (s.jobs j).evalFailed = false) : (s.jobs j).waiting = cntPend s j :=
  Nat.le_antisymm ((reachable_live p hd s h).cnt j he) ((reachable_tok p s h).lb j (by simp) he)

/-- A duplicate collapsed onto a still-running twin: once it has settled, it has settled exactly like the
job it was collapsed onto (same branch: both resolved or both rejected). -/
theorem twin_same_outcome (p : Prog) (s : S) (h : Reachable p s) (X t : JobId) (hm : t ∈ (s.jobs X).twins)
    (hst : (s.jobs t).status ≠ Status.pending) : (s.jobs t).status = (s.jobs X).status :=
  twin_outcome p s h X t hm hst

/-- …and while the representative is pending the duplicate only waits (pending, no token); it belongs to
exactly one representative, which is itself not collapsed, and it never has children of its own. -/
theorem twin_waits (p : Prog) (s : S) (h : Reachable p s) (X t : JobId) (hm : t ∈ (s.jobs X).twins) :
    ((s.jobs X).status = Status.pending → (s.jobs t).status = Status.pending ∧ tot s t = 0) ∧
    (∀ Y, t ∈ (s.jobs Y).twins → Y = X) ∧ (∀ Y, X ∉ (s.jobs Y).twins) ∧
    (∀ c, c < s.next → (s.jobs c).parent ≠ some t) := by
  obtain ⟨a, _, _, _, _, f, g, i, _⟩ := (reachable_tok p s h).tw X t hm
  exact ⟨a, i, fun Y hY => g ⟨Y, hY⟩, f⟩

/-- The step that settles the representative settles or serves every twin: if `X` is rejected by the step
so is `t` (in-line, `rejectTwin`); if `X` is resolved by the step the twin's `done t true` event
(result replayed, no re-execution) is queued. -/
theorem twin_settles_with_rep (p : Prog) (s s' : S) (h : Reachable p s) (hs : Step p s s') (X t : JobId)
    (hm : t ∈ (s.jobs X).twins) (hpX : (s.jobs X).status = Status.pending) :
    ((s'.jobs X).status = Status.rejected → (s'.jobs t).status = Status.rejected) ∧
    ((s'.jobs X).status = Status.resolved → Ev.done t true ∈ s'.queue) :=
  twin_step p s s' h hs X t hm hpX

/-- A recorded same-execution entry is the outcome of a provenance-recording job with that key and context,
and that job is settled on the recorded branch. -/
theorem cse_entry_witness (p : Prog) (s : S) (h : Reachable p s) (e : CseEntry) (he : e ∈ s.cse) :
    ∃ j, j < s.next ∧ (spec p s j).key = e.key ∧ (spec p s j).ctx = e.ctx ∧ (spec p s j).prov = true ∧
      (s.jobs j).status = (if e.isErr then Status.rejected else Status.resolved) :=
  reachable_cseW p s h e he

/-- A duplicate arriving after its twin finished: whenever the cache lookup of `_exec_job_main_thread`
answers from the same-execution table (`Hit.cse b`; the job is then sent to `reject` if `b`, to `done … true`
otherwise), some job with the same eval hash (and the same context, unless the looking job has none) has
already settled on exactly that branch. -/
theorem late_duplicate_same_branch (p : Prog) (s : S) (h : Reachable p s) (sp : Spec) (b : Bool)
    (hh : cacheLookup s sp = Hit.cse b) :
    ∃ j, j < s.next ∧ (spec p s j).key = sp.key ∧ (sp.ctx = 0 ∨ (spec p s j).ctx = sp.ctx) ∧
      (spec p s j).prov = true ∧ (s.jobs j).status = (if b then Status.rejected else Status.resolved) :=
  cse_hit_witness p s h sp b hh

/-! non-vacuity: jobs 1 and 2 are the same call (2 collapses onto the running 1), job 4 is the same call
arriving after 1 has finished (served from the same-execution table, never submitted) -/
def twinProg (fails : Bool) : Prog :=
  { specs := [ { key := 0, ctx := 0, limits := [], scope := .backend, cseOk := true, prov := true, execOk := true,
                 fails := false, pre := .miss, children := [1, 2, 3] },
               { key := 7, ctx := 0, limits := [], scope := .backend, cseOk := true, prov := true, execOk := true,
                 fails := fails, pre := .miss, children := [] },
               { key := 7, ctx := 0, limits := [], scope := .backend, cseOk := true, prov := true, execOk := true,
                 fails := fails, pre := .miss, children := [] },
               { key := 8, ctx := 0, limits := [], scope := .backend, cseOk := true, prov := true, execOk := true,
                 fails := false, pre := .miss, children := [4] },
               { key := 7, ctx := 0, limits := [], scope := .backend, cseOk := true, prov := true, execOk := true,
                 fails := fails, pre := .miss, children := [] } ],
    limit := fun _ => 1, dryrun := false }

def twinSchedule : List Choice :=
  [.pop, .complete 0, .pop, .pop, .pop, .pop,          -- root done; 1 submitted; 2 collapses onto 1; 3 submitted
   .complete 1, .pop, .pop, .pop, .pop,                 -- 1 reports and settles; its twin 2 settles with it
   .complete 3, .pop, .pop, .pop, .pop]                 -- 3 spawns 4 = the same call again: served from the table

/-- the twin is resolved with its representative; the late duplicate is resolved from the table; one submission -/
example : 2 ∈ ((run (twinProg false) twinSchedule).jobs 1).twins ∧
    ((run (twinProg false) twinSchedule).jobs 1).status = Status.resolved ∧
    ((run (twinProg false) twinSchedule).jobs 2).status = Status.resolved ∧
    ((run (twinProg false) twinSchedule).jobs 4).status = Status.resolved ∧
    (run (twinProg false) twinSchedule).submits = [0, 1, 3] := by decide
/-- the twin is rejected with its representative (and the recorded entry is an error entry) -/
example : 2 ∈ ((run (twinProg true) twinSchedule).jobs 1).twins ∧
    ((run (twinProg true) twinSchedule).jobs 1).status = Status.rejected ∧
    ((run (twinProg true) twinSchedule).jobs 2).status = Status.rejected ∧
    { key := 7, ctx := 0, isErr := true } ∈ (run (twinProg true) twinSchedule).cse := by decide
example : ((run (twinProg false) twinSchedule).jobs 2).status = ((run (twinProg false) twinSchedule).jobs 1).status :=
  twin_same_outcome _ _ (reachable_run _ _) 1 2 (by decide) (by decide)
example : ((run (twinProg true) twinSchedule).jobs 2).status = ((run (twinProg true) twinSchedule).jobs 1).status :=
  twin_same_outcome _ _ (reachable_run _ _) 1 2 (by decide) (by decide)

end RedunModel.C06
