/-
C31 — Value storage location is transparent.

Model: `Model/ValueStore.lean` (`record` = `record_value`, `get` = `get_value`, value store `put`/`get`,
`FileCache.serialize/deserialize`).  Definitions of the invariant (`Inv`, `Complete`, `Reach`) and helper lemmas
are in `Lemmas/ValueStore.lean`.  `fn` (the FileCache naming function) is arbitrary throughout.

Statement, clause by clause:
 * "a recorded value reads back with the same hash whether its bytes were kept in the database or offloaded to a
   configured value store or file cache"   → `roundtrip`, `roundtrip_reachable`, `location_transparent`,
                                              `record_again_same_answer`
 * "values larger than the configured maximum are rejected rather than truncated"
                                            → `too_large_rejected`, `within_limit_accepted`
 * "a value whose offloaded bytes are missing reads as absent rather than as a different value"
                                            → `missing_is_absent`, `outage_is_absent`, `missing_file_cache_is_absent`,
                                              `never_a_different_value`, `get_never_fails_with_store`
 * quantifier "… or recorded twice"         → `record_twice`, `record_again_same_answer`, `rerecord_heals`,
                                              `put_existing_is_noop`, `rerecord_store_unchanged`, `watch_reads_value`
 Invariant: `inv_init`, `inv_record`, `inv_env`, `reachable_inv`.  Remark: `zero_length_remark`.
-/
import RedunModel.Lemmas.ValueStore
namespace RedunModel.C31
open RedunModel.ValueStore

variable (fn : Bytes → Bytes)

theorem inv_init (b : Bool) : Inv fn (St.init b) ∧ Complete (St.init b) := by
  refine ⟨⟨?_, ?_, ?_, ?_⟩, ?_⟩
  · intro k d h; simp [St.init] at h
  · intro k h; simp [St.init] at h
  · intro st hs k b h; cases b' : b <;> simp_all [St.init]
  · intro f c h; simp [St.init] at h
  · intro k h; simp [St.init] at h

theorem inv_record (v : Val) (cfg : Cfg) (s : St) (hI : Inv fn s) (hne : ser fn v ≠ []) : Inv fn (record fn v cfg s).1 := by
  by_cases hle : (ser fn v).length ≤ cfg.maxSize
  · rw [record_ok fn v cfg s hle]
    have hoff : offloads s (ser fn v).length cfg = true → ∃ st, s.store = some st := by
      intro h
      simp only [offloads, Bool.and_eq_true] at h
      cases hs : s.store with
      | none => simp [hs] at h
      | some st => exact ⟨st, rfl⟩
    refine ⟨?_, ?_, ?_, serialize_fc_inv fn v s hI.fc⟩
    · intro k d h
      simp only at h
      split at h
      · exact hI.row k d h
      · by_cases hk : key fn v = k
        · subst hk
          simp only [lookup_cons_self, Option.some.injEq] at h
          subst h
          split
          · exact Or.inl rfl
          · exact Or.inr rfl
        · rw [lookup_cons_ne hk] at h; exact hI.row k d h
    · intro k h
      simp only at h ⊢
      have old : lookup k s.db = some [] → (if offloads s (ser fn v).length cfg = true then
          s.store.map (fun st => put st (key fn v) (ser fn v)) else s.store).isSome = true := by
        intro h'
        have := hI.placeholder k h'
        split <;> simp [this]
      split at h
      · exact old h
      · by_cases hk : key fn v = k
        · subst hk
          simp only [lookup_cons_self, Option.some.injEq] at h
          cases ho : offloads s (ser fn v).length cfg with
          | true => obtain ⟨st, hs⟩ := hoff ho; simp [hs]
          | false => simp [ho] at h; exact absurd h hne
        · rw [lookup_cons_ne hk] at h; exact old h
    · intro st hs k b hb
      simp only at hs
      split at hs
      · rename_i ho
        obtain ⟨st0, hs0⟩ := hoff ho
        simp only [hs0, Option.map_some, Option.some.injEq] at hs
        subst hs
        by_cases hk : key fn v = k
        · subst hk
          rw [put_lookup_data fn hI v st0 hs0] at hb
          simp at hb; rw [← hb]; rfl
        · rw [lookup_put_ne _ hk] at hb; exact hI.store st0 hs0 k b hb
      · exact hI.store st hs k b hb
  · rw [record_too_large fn v cfg s (by omega)]
    obtain ⟨hdb, hst⟩ := serialize_db fn v s
    exact ⟨by rw [hdb]; exact hI.row, by rw [hdb, hst]; exact hI.placeholder, by rw [hst]; exact hI.store,
      serialize_fc_inv fn v s hI.fc⟩

/-- the environment operations keep the invariant (deleting a store file breaks only `Complete`) -/
theorem inv_env (s : St) (hI : Inv fn s) :
    Inv fn (attachStore s) ∧ (∀ f, Inv fn (dropFc f s)) ∧ (∀ k, Inv fn (dropStore k s)) ∧
    (Complete s → Complete (attachStore s) ∧ ∀ f, Complete (dropFc f s)) := by
  refine ⟨⟨hI.row, ?_, ?_, hI.fc⟩, ?_, ?_, ?_⟩
  · intro k _; simp [attachStore]
  · intro st hs k b hb
    simp only [attachStore, Option.some.injEq] at hs
    cases h0 : s.store with
    | none => simp [h0] at hs; subst hs; simp at hb
    | some st0 => simp [h0] at hs; subst hs; exact hI.store _ h0 k b hb
  · intro f
    refine ⟨hI.row, hI.placeholder, hI.store, ?_⟩
    intro f' c h
    simp only [dropFc] at h
    by_cases hf : f' = f
    · subst hf; simp at h
    · rw [lookup_dropKey_ne hf] at h; exact hI.fc f' c h
  · intro k
    refine ⟨hI.row, ?_, ?_, hI.fc⟩
    · intro k' h; have := hI.placeholder k' h; simp [dropStore, this]
    · intro st hs k' b hb
      simp only [dropStore] at hs
      cases h0 : s.store with
      | none => simp [h0] at hs
      | some st0 =>
        simp [h0] at hs; subst hs
        by_cases hk : k' = k
        · subst hk; simp at hb
        · rw [lookup_dropKey_ne hk] at hb; exact hI.store _ h0 k' b hb
  · intro hC
    refine ⟨?_, fun f => hC⟩
    intro k h
    obtain ⟨st, b, hs, hb⟩ := hC k h
    exact ⟨st, b, by simp [attachStore, hs], hb⟩

theorem reachable_inv (s : St) (h : Reach fn s) : Inv fn s ∧ Complete s := by
  induction h with
  | init b => exact inv_init fn b
  | record s v cfg _ hne ih => exact ⟨inv_record fn v cfg s ih.1 hne, complete_record fn v cfg s ih.1 ih.2 hne⟩
  | attach s _ ih => exact ⟨(inv_env fn s ih.1).1, ((inv_env fn s ih.1).2.2.2 ih.2).1⟩
  | dropFc s f _ ih => exact ⟨(inv_env fn s ih.1).2.1 f, ((inv_env fn s ih.1).2.2.2 ih.2).2 f⟩

/-- **Round trip.** For every threshold configuration: recording a value (that is not too large) in a state with no
missing offloaded bytes returns the value's hash, and reading that hash gives the value back. -/
theorem roundtrip (v : Val) (cfg : Cfg) (s : St) (hI : Inv fn s) (hC : Complete s) (hne : ser fn v ≠ [])
    (hle : (ser fn v).length ≤ cfg.maxSize) :
    (record fn v cfg s).2 = .ok (key fn v) ∧ ValueStore.get (key fn v) (record fn v cfg s).1 = .ok (some v) := by
  refine ⟨by rw [record_ok fn v cfg s hle], ?_⟩
  exact roundtrip_core fn v cfg s hI hne hle (fun h => Or.inl (hC _ h))

theorem roundtrip_reachable (v : Val) (cfg : Cfg) (s : St) (hR : Reach fn s) (hne : ser fn v ≠ [])
    (hle : (ser fn v).length ≤ cfg.maxSize) :
    (record fn v cfg s).2 = .ok (key fn v) ∧ ValueStore.get (key fn v) (record fn v cfg s).1 = .ok (some v) :=
  roundtrip fn v cfg s (reachable_inv fn s hR).1 (reachable_inv fn s hR).2 hne hle

/-- **Location transparency.** Two backends in any reachable states (with or without a store), any two threshold
configurations: the same value reads back identically, under the same hash. -/
theorem location_transparent (v : Val) (c1 c2 : Cfg) (s1 s2 : St) (h1 : Reach fn s1) (h2 : Reach fn s2)
    (hne : ser fn v ≠ []) (hl1 : (ser fn v).length ≤ c1.maxSize) (hl2 : (ser fn v).length ≤ c2.maxSize) :
    (record fn v c1 s1).2 = (record fn v c2 s2).2 ∧
    ValueStore.get (key fn v) (record fn v c1 s1).1 = ValueStore.get (key fn v) (record fn v c2 s2).1 := by
  obtain ⟨a1, b1⟩ := roundtrip_reachable fn v c1 s1 h1 hne hl1
  obtain ⟨a2, b2⟩ := roundtrip_reachable fn v c2 s2 h2 hne hl2
  exact ⟨by rw [a1, a2], by rw [b1, b2]⟩

/-- **Too large ⇒ rejected, nothing written** to the Value table or the value store (a FileCache value has by then
written its own file: `serialize()` runs before the size test). -/
theorem too_large_rejected (v : Val) (cfg : Cfg) (s : St) (hgt : (ser fn v).length > cfg.maxSize) :
    (record fn v cfg s).2 = .error .tooLarge ∧ (record fn v cfg s).1.db = s.db ∧ (record fn v cfg s).1.store = s.store := by
  rw [record_too_large fn v cfg s hgt]
  exact ⟨rfl, (serialize_db fn v s).1, (serialize_db fn v s).2⟩

theorem within_limit_accepted (v : Val) (cfg : Cfg) (s : St) (hle : (ser fn v).length ≤ cfg.maxSize) :
    (record fn v cfg s).2 = .ok (key fn v) := by rw [record_ok fn v cfg s hle]

/-- **Never a different value.** In every state satisfying the invariant (missing bytes included), a successful read
of hash `k` returns a value whose hash is `k`. -/
theorem never_a_different_value (s : St) (hI : Inv fn s) (k : Key) (v : Val) (h : ValueStore.get k s = .ok (some v)) :
    key fn v = k := by
  unfold ValueStore.get at h
  split at h
  · cases h
  · rename_i d hl
    split at h
    · rename_i hd
      rcases hI.row _ _ hl with h0 | h0
      · exact absurd h0 hd
      · subst h0
        simp only [Except.ok.injEq] at h
        exact deser_key fn s hI k v h
    · split at h
      · cases h
      · rename_i st hs
        split at h
        · cases h
        · rename_i b hb
          have := hI.store st hs k b hb
          subst this
          simp only [Except.ok.injEq] at h
          exact deser_key fn s hI k v h

/-- **Missing offloaded bytes ⇒ absent.** -/
theorem missing_is_absent (s : St) (hI : Inv fn s) (k : Key) (h : lookup k s.db = some []) :
    ValueStore.get k (dropStore k s) = .ok none := by
  have := hI.placeholder k h
  cases hs : s.store with
  | none => simp [hs] at this
  | some st => simp [ValueStore.get, dropStore, h, hs]

/-- A read during a store outage (directory moved away) of an offloaded value is *absent* — and, `getAway` being a
function of the state that does not change it, every later read (`get`, by any backend sharing the database and the
store: the model has no per-process state) answers from the restored store again: `roundtrip_reachable` applies
unchanged.  A per-process memo of "missing" objects is therefore not a behaviour of the model. -/
theorem outage_is_absent (s : St) (hI : Inv fn s) (k : Key) (h : lookup k s.db = some []) :
    getAway k s = .ok none := by
  have := hI.placeholder k h
  cases hs : s.store with
  | none => simp [hs] at this
  | some st => simp [getAway, ValueStore.get, h, hs, lookup]

/-- **Missing FileCache file ⇒ absent** (never an error, never another value). -/
theorem missing_file_cache_is_absent (s : St) (hI : Inv fn s) (k : Key) (hk : k.1 = true) (r : Option Val)
    (h : ValueStore.get k (dropFc k.2 s) = .ok r) : r = none := by
  have hd : ∀ d, d = k.2 → deser (dropFc k.2 s) k d = none := by
    intro d hd; subst hd; simp [deser, hk, dropFc]
  unfold ValueStore.get at h
  simp only [dropFc] at h
  split at h
  · cases h; rfl
  · rename_i d hl
    split at h
    · rename_i hne
      rcases hI.row _ _ hl with h0 | h0
      · exact absurd h0 hne
      · have := hd d h0
        simp only [dropFc] at this
        rw [this] at h; cases h; rfl
    · split at h
      · cases h
      · rename_i st hs
        split at h
        · cases h; rfl
        · rename_i b hb
          have := hd b (hI.store st hs k b hb)
          simp only [dropFc] at this
          rw [this] at h; cases h; rfl

/-- **Recorded twice** with the same configuration: the second call changes nothing and returns the same hash. -/
theorem record_twice (v : Val) (cfg : Cfg) (s : St) (hle : (ser fn v).length ≤ cfg.maxSize) :
    record fn v cfg (record fn v cfg s).1 = ((record fn v cfg s).1, .ok (key fn v)) := by
  have hoffl := offloads_after fn v cfg s hle (ser fn v).length cfg
  have h1 := record_ok fn v cfg s hle
  have h2 := record_ok fn v cfg (record fn v cfg s).1 hle
  rw [hoffl] at h2
  have hdb : (lookup (key fn v) (record fn v cfg s).1.db).isSome = true := by
    rw [h1]; simp only; split
    · assumption
    · simp
  have hfc : (serialize fn v (record fn v cfg s).1).fc = (record fn v cfg s).1.fc := by
    rw [h1]
    cases v with
    | plain d => simp [serialize]
    | fcache p => simp [serialize, dropKey_cons_self, dropKey_idem]
  have hst : (if offloads s (ser fn v).length cfg = true then
        (record fn v cfg s).1.store.map (fun st => put st (key fn v) (ser fn v)) else (record fn v cfg s).1.store)
      = (record fn v cfg s).1.store := by
    rw [h1]; simp only
    split
    · cases hs : s.store with
      | none => rfl
      | some st => simp [put_put]
    · rfl
  rw [h2, hdb, hfc, hst]
  simp

/-- Recorded again under *another* configuration (e.g. first without, then with offloading): still the same answer. -/
theorem record_again_same_answer (v : Val) (c1 c2 : Cfg) (s : St) (hR : Reach fn s) (hne : ser fn v ≠ [])
    (hl1 : (ser fn v).length ≤ c1.maxSize) (hl2 : (ser fn v).length ≤ c2.maxSize) :
    ValueStore.get (key fn v) (record fn v c2 (record fn v c1 s).1).1 = .ok (some v) ∧
    ValueStore.get (key fn v) (record fn v c1 s).1 = .ok (some v) :=
  ⟨(roundtrip_reachable fn v c2 _ (Reach.record s v c1 hR hne) hne hl2).2, (roundtrip_reachable fn v c1 s hR hne hl1).2⟩

/-- After the offloaded bytes went missing, recording the value again with a configuration that offloads restores it. -/
theorem rerecord_heals (v : Val) (cfg : Cfg) (s : St) (hI : Inv fn s) (hne : ser fn v ≠ [])
    (hle : (ser fn v).length ≤ cfg.maxSize) (hoff : offloads (dropStore (key fn v) s) (ser fn v).length cfg = true) :
    ValueStore.get (key fn v) (record fn v cfg (dropStore (key fn v) s)).1 = .ok (some v) :=
  roundtrip_core fn v cfg _ ((inv_env fn s hI).2.2.1 _) hne hle (fun _ => Or.inr hoff)

/-- Under the invariant `get` never fails (the AssertionError branch needs a placeholder row without a configured
store, which no reachable state has). -/
theorem get_never_fails_with_store (s : St) (hI : Inv fn s) (k : Key) : ∃ r, ValueStore.get k s = .ok r := by
  unfold ValueStore.get
  split
  · exact ⟨_, rfl⟩
  · rename_i d hl
    split
    · exact ⟨_, rfl⟩
    · rename_i hd
      have hd' : d = [] := by simpa using hd
      subst hd'
      have := hI.placeholder k hl
      cases hs : s.store with
      | none => simp [hs] at this
      | some st => simp only; split <;> exact ⟨_, rfl⟩

/-- **An existing object is never opened for writing**: `ValueStore.put` on a hash that is present changes nothing. -/
theorem put_existing_is_noop (st : List (Key × Bytes)) (k : Key) (b d : Bytes) (h : lookup k st = some b) :
    put st k d = st := by
  simp [put, h]

/-- … hence re-recording a value whose object exists leaves the whole store as it was (whatever the thresholds, and
whether or not the call is rejected as too large): there is no window in which its bytes are incomplete, and a write
fault cannot destroy them. -/
theorem rerecord_store_unchanged (v : Val) (cfg : Cfg) (s : St) (h : hasObject (key fn v) s = true) :
    (record fn v cfg s).1.store = s.store := by
  by_cases hle : (ser fn v).length ≤ cfg.maxSize
  · rw [record_ok fn v cfg s hle]
    simp only
    split
    · cases hs : s.store with
      | none => simp [hasObject, hs] at h
      | some st =>
        simp only [hasObject, hs] at h
        cases hl : lookup (key fn v) st with
        | none => simp [hl] at h
        | some b => simp [put_existing_is_noop st _ b _ hl]
    · rfl
  · rw [record_too_large fn v cfg s (by omega)]
    exact (serialize_db fn v s).2

/-- A reader that looks at a recorded, intact value while another backend re-records it gets the value — never an
error, never absent. -/
theorem watch_reads_value (v : Val) (cfg : Cfg) (s : St) (hI : Inv fn s) (hne : ser fn v ≠ [])
    (hrow : (lookup (key fn v) s.db).isSome = true) (hobj : hasObject (key fn v) s = true) :
    (recordWatch fn v cfg s).2 = some (.ok (some v)) := by
  simp only [recordWatch, hobj, if_true, Option.some.injEq]
  obtain ⟨hdb, hst⟩ := serialize_db fn v s
  have hdes : ∀ (x : St), x.fc = (serialize fn v s).fc → deser x (key fn v) (ser fn v) = some v := by
    intro x hx
    have := deser_after_serialize fn v s x.db x.store
    simpa [deser, hx] using this
  unfold ValueStore.get
  rw [hdb, hst]
  cases hl : lookup (key fn v) s.db with
  | none => simp [hl] at hrow
  | some d =>
    simp only
    rcases hI.row _ _ hl with hd | hd
    · subst hd
      simp only [ne_eq, not_true_eq_false, if_false]
      cases hs : s.store with
      | none => simp [hasObject, hs] at hobj
      | some st =>
        simp only [hasObject, hs] at hobj
        cases hb : lookup (key fn v) st with
        | none => simp [hb] at hobj
        | some b =>
          have : b = ser fn v := hI.store st hs _ _ hb
          subst this
          simp [hb, hdes (serialize fn v s) rfl]
    · have hd' : d = ser fn v := hd
      subst hd'
      simp [hne, hdes (serialize fn v s) rfl]

/-- `FileCache.serialize` always (re)writes its file: whatever was at that name before — nothing, the right bytes, or
the partial file of an interrupted earlier write (`faultFc`) — recording the value again makes the file hold the
payload, and the read gives the value back. -/
theorem serialize_repairs_partial_file (p : Bytes) (s : St) :
    lookup (fn p) (serialize fn (.fcache p) s).fc = some p ∧
    lookup (fn p) (serialize fn (.fcache p) (faultFc fn p s)).fc = some p := by
  simp [serialize, faultFc]

theorem rerecord_after_faulted_first_write (p : Bytes) (cfg : Cfg) (s : St) (hI : Inv fn s) (hne : fn p ≠ [])
    (hle : (fn p).length ≤ cfg.maxSize) (hC : Complete s) :
    ValueStore.get (key fn (.fcache p)) (record fn (.fcache p) cfg (faultFc fn p s)).1 = .ok (some (.fcache p)) := by
  -- `record` looks at the FileCache files only through `serialize`, which overwrites: same result as from `s`
  have h1 : record fn (.fcache p) cfg (faultFc fn p s) = record fn (.fcache p) cfg s := by
    simp [record, serialize, faultFc, dropKey_cons_self, dropKey_idem]
  rw [h1]
  exact (roundtrip fn (.fcache p) cfg s hI hC (by simpa [ser] using hne) (by simpa [ser] using hle)).2

/-- Remark, outside the quantifier of the theorems above (`ser fn v ≠ []`): a value whose serialisation is zero bytes
is indistinguishable from the placeholder — recorded inline, it reads as absent. -/
theorem zero_length_remark :
    ValueStore.get (key fn (.plain [])) (record fn (.plain []) ⟨1000, 1000⟩ (St.init true)).1 = .ok none := by
  simp [record, serialize, ser, key, isFc, St.init, overhead, ValueStore.get, lookup]

/-! ### non-vacuity -/
section Examples
def exFn : Bytes → Bytes := fun p => 47 :: p
def exV : Val := .plain [128, 1]
def exS : St := (record exFn exV ⟨0, 100⟩ (St.init true)).1

example : Reach exFn exS := Reach.record _ _ _ (Reach.init true) (by decide)
/-- offloaded: placeholder row + store file; reads back; deleting the bytes makes it absent; recording again heals -/
example : exS.db = [((false, [128, 1]), [])] ∧ exS.store = some [((false, [128, 1]), [128, 1])] := by decide
example : ValueStore.get (key exFn exV) exS = .ok (some exV) := by rfl
example : ValueStore.get (key exFn exV) (dropStore (key exFn exV) exS) = .ok none := by rfl
example : ValueStore.get (key exFn exV) (record exFn exV ⟨0, 100⟩ (dropStore (key exFn exV) exS)).1 = .ok (some exV) := by rfl
/-- kept inline without a store: same answer -/
example : ValueStore.get (key exFn exV) (record exFn exV ⟨0, 100⟩ (St.init false)).1 = .ok (some exV) := by rfl
/-- too large -/
example : (record exFn exV ⟨0, 1⟩ (St.init true)).2 = .error .tooLarge := by rfl
/-- FileCache value: file deleted ⇒ absent -/
example : ValueStore.get (key exFn (.fcache [7])) (record exFn (.fcache [7]) ⟨1000, 100⟩ (St.init true)).1 = .ok (some (.fcache [7])) := by
  rfl
example : ValueStore.get (key exFn (.fcache [7])) (dropFc [47, 7] (record exFn (.fcache [7]) ⟨1000, 100⟩ (St.init true)).1) = .ok none := by
  rfl
end Examples

end RedunModel.C31
