/-
C16 — Value hashes depend only on the value.

Model: `RedunModel.Model.ValueHash` — a value as laid out in one process (`V`: set / frozenset nodes list
their elements in iteration order), `Sim` = "the same value" laid out in another process or after
another insertion order, `getHash` = the pre-image `TypeRegistry.get_hash` feeds to SHA-512
(`Set.get_hash` sorts an exact top-level `set`; everything else is pickled as laid out).
The full-strength statement is `OrderIndependent`; it is FALSE of the code as it is
(`order_independent_refuted` and the closed witnesses); what holds is `hash_stable_setfree`,
`partial_top_set*` and the exact characterisation `nonset_hash_eq_iff`.
-/
import RedunModel.Lemmas.ValueHash
namespace RedunModel.C16
open RedunModel.ValueHash

/-- The property, full strength: the same value hashes the same however its sets are laid out. -/
def OrderIndependent : Prop := ∀ a b : V, Sim a b → getHash a = getHash b

/-- "The same value up to set layout" is an equivalence relation, so the hash classes are well defined. -/
theorem sim_equivalence : Equivalence Sim := ⟨sim_refl, fun {a b} => sim_symm a b, fun {a b c} => sim_trans a b c⟩

/-! ## what holds -/

/-- A value without any set/frozenset has a single layout, hence a single hash, in every process. -/
theorem hash_stable_setfree (a b : V) (hf : SetFree a) (h : Sim a b) : getHash a = getHash b := by
  rw [sim_eq_of_setFree a b hf h]

/-- More generally: a value all of whose sets/frozensets have at most one element has a single layout. -/
theorem hash_stable_rigid (a b : V) (hr : Rigid a) (h : Sim a b) : getHash a = getHash b := by
  rw [sim_eq_of_rigid a b hr h]

/-- `sorted` on scalars of one orderable kind is the insertion sort. -/
theorem pySorted_scalars {k : Kind} (hk : k = .num ∨ k = .str ∨ k = .bytes) (xs : List V)
    (h : ∀ x ∈ xs, kind x = k) : pySorted xs = .ok (isort ltV xs) := by
  match xs with
  | [] => rfl
  | [x] => rfl
  | x :: y :: r =>
    have hx : kind x = k := h x (by simp)
    have hany : (x :: y :: r).any (fun z => kind z != kind x) = false := by
      rw [List.any_eq_false]; intro z hz; simp [h z hz, hx]
    simp only [pySorted, hany]
    rcases hk with rfl | rfl | rfl <;> simp [hx]

theorem setFree_of_scalar {k : Kind} (hk : k = .num ∨ k = .str ∨ k = .bytes) {x : V} (h : kind x = k) : SetFree x := by
  rcases hk with rfl | rfl | rfl <;> cases x <;> simp_all [kind, SetFree]

/-- **Partial (top-level `set` of scalars).**  If the value is an exact `set` whose elements are numbers, or
strs, or bytes, and Python's `<` is a strict total order on them, every layout has the same hash. -/
theorem partial_top_set {k : Kind} (hk : k = .num ∨ k = .str ∨ k = .bytes) (xs : List V)
    (hkind : ∀ x ∈ xs, kind x = k) (st : StrictTotalOn ltV xs) (b : V) (h : Sim (.set xs) b) :
    getHash (.set xs) = getHash b := by
  cases h with
  | set hp hs =>
    rename_i zs ys
    have hz : zs = ys := sims_eq (fun x _ b hf hb => sim_eq_of_setFree x b hf hb)
      (fun x hx => setFree_of_scalar hk (hkind x (hp.mem_iff.2 hx))) hs
    subst hz
    have hkind' : ∀ x ∈ zs, kind x = k := fun x hx => hkind x (hp.mem_iff.2 hx)
    simp only [getHash, pySorted_scalars hk xs hkind, pySorted_scalars hk zs hkind', isort_eq_of_perm ltV hp st]

theorem ltV_int (a b : Int) : ltV (.int a) (.int b) = decide (a < b) := by
  simp only [ltV, pyCmp, numVal, cmpInt]
  by_cases h : a < b
  · simp [h]
  · by_cases h2 : a = b <;> simp [h, h2]

theorem ltV_str (a b : List Nat) : ltV (.str a) (.str b) = decide (a < b) := by
  simp only [ltV, pyCmp, cmpNats]
  by_cases h : a < b
  · simp [h]
  · by_cases h2 : a = b
    · subst h2; simp [h]
    · simp [h, h2]

theorem strictTotal_int (xs : List V) (h : ∀ x ∈ xs, ∃ z, x = .int z) : StrictTotalOn ltV xs where
  asymm a ha b hb := by
    obtain ⟨x, rfl⟩ := h a ha; obtain ⟨y, rfl⟩ := h b hb
    simp only [ltV_int, decide_eq_true_eq, decide_eq_false_iff_not]; omega
  trans a ha b hb c hc := by
    obtain ⟨x, rfl⟩ := h a ha; obtain ⟨y, rfl⟩ := h b hb; obtain ⟨z, rfl⟩ := h c hc
    simp only [ltV_int, decide_eq_true_eq]; omega
  connected a ha b hb := by
    obtain ⟨x, rfl⟩ := h a ha; obtain ⟨y, rfl⟩ := h b hb
    simp only [ltV_int, decide_eq_false_iff_not, V.int.injEq]; omega

/-- A top-level `set` of ints hashes the same in every layout (unconditionally). -/
theorem partial_top_set_int (xs : List V) (hi : ∀ x ∈ xs, ∃ z, x = .int z) (b : V) (h : Sim (.set xs) b) :
    getHash (.set xs) = getHash b :=
  partial_top_set (Or.inl rfl) xs (fun x hx => by obtain ⟨z, rfl⟩ := hi x hx; rfl) (strictTotal_int xs hi) b h

theorem strictTotal_str (xs : List V) (h : ∀ x ∈ xs, ∃ s, x = .str s) : StrictTotalOn ltV xs where
  asymm a ha b hb := by
    obtain ⟨x, rfl⟩ := h a ha; obtain ⟨y, rfl⟩ := h b hb
    simp only [ltV_str, decide_eq_true_eq, decide_eq_false_iff_not]; exact List.lt_asymm
  trans a ha b hb c hc := by
    obtain ⟨x, rfl⟩ := h a ha; obtain ⟨y, rfl⟩ := h b hb; obtain ⟨z, rfl⟩ := h c hc
    simp only [ltV_str, decide_eq_true_eq]; exact List.lt_trans
  connected a ha b hb := by
    obtain ⟨x, rfl⟩ := h a ha; obtain ⟨y, rfl⟩ := h b hb
    simp only [ltV_str, decide_eq_false_iff_not, V.str.injEq]
    intro h1 h2
    exact List.le_antisymm (List.not_lt.1 h2) (List.not_lt.1 h1)

/-- A top-level `set` of strs hashes the same in every layout, whatever PYTHONHASHSEED did to the order. -/
theorem partial_top_set_str (xs : List V) (hs : ∀ x ∈ xs, ∃ s, x = .str s) (b : V) (h : Sim (.set xs) b) :
    getHash (.set xs) = getHash b :=
  partial_top_set (Or.inr (Or.inl rfl)) xs (fun x hx => by obtain ⟨z, rfl⟩ := hs x hx; rfl) (strictTotal_str xs hs) b h

/-- Everything that is not an exact top-level `set` is hashed as laid out: two layouts have the same hash
iff they are the same layout.  (This is what predicts, value by value, which hashes move.) -/
theorem nonset_hash_eq_iff (a b : V) (ha : ∀ xs, a ≠ .set xs) (hb : ∀ xs, b ≠ .set xs) :
    getHash a = getHash b ↔ a = b := by
  constructor
  · intro h
    cases a <;> cases b <;> simp_all [getHash]
  · rintro rfl; rfl

/-! ## what fails: closed witnesses (finding F9) -/
private def sa : V := .str [97]
private def sb : V := .str [98]

/-- `[{"a","b"}]` -/
theorem refuted_nested_list :
    Sim (.list [.set [sa, sb]]) (.list [.set [sb, sa]]) ∧
    getHash (.list [.set [sa, sb]]) ≠ getHash (.list [.set [sb, sa]]) := by
  refine ⟨.list (.cons (sim_set_of_perm (List.Perm.swap _ _ _)) .nil), ?_⟩
  simp [getHash, sa, sb]

/-- `{"k": {"a","b"}}` -/
theorem refuted_dict_value :
    Sim (.dict [.str [107]] [.set [sa, sb]]) (.dict [.str [107]] [.set [sb, sa]]) ∧
    getHash (.dict [.str [107]] [.set [sa, sb]]) ≠ getHash (.dict [.str [107]] [.set [sb, sa]]) := by
  refine ⟨.dict (.cons (.str _) .nil) (.cons (sim_set_of_perm (List.Perm.swap _ _ _)) .nil), ?_⟩
  simp [getHash, sa, sb]

/-- a top-level `frozenset({"a","b"})` (the `Set` proxy is registered for `set` only) -/
theorem refuted_frozenset :
    Sim (.fset [sa, sb]) (.fset [sb, sa]) ∧ getHash (.fset [sa, sb]) ≠ getHash (.fset [sb, sa]) := by
  refine ⟨sim_fset_of_perm (List.Perm.swap _ _ _), ?_⟩
  simp [getHash, sa, sb]

/-- a top-level `set` is sorted, but its elements are still pickled as laid out: `{frozenset({"a","b"})}` -/
theorem refuted_set_of_frozenset :
    Sim (.set [.fset [sa, sb]]) (.set [.fset [sb, sa]]) ∧
    getHash (.set [.fset [sa, sb]]) ≠ getHash (.set [.fset [sb, sa]]) := by
  refine ⟨.set (List.Perm.refl _) (.cons (sim_fset_of_perm (List.Perm.swap _ _ _)) .nil), ?_⟩
  simp [getHash, pySorted, sa, sb]

/-- ints: no hash randomisation needed, the insertion history is enough (`[{8, 0}]` vs `[{0, 8}]`: both
land in slot 0 of the table). -/
theorem refuted_insertion_order_ints :
    Sim (.list [.set [.int 8, .int 0]]) (.list [.set [.int 0, .int 8]]) ∧
    getHash (.list [.set [.int 8, .int 0]]) ≠ getHash (.list [.set [.int 0, .int 8]]) := by
  refine ⟨.list (.cons (sim_set_of_perm (List.Perm.swap _ _ _)) .nil), ?_⟩
  simp [getHash]

/-- The witnesses are not isolated: ANY frozenset with two different first elements, and ANY such set directly
inside a list, has two layouts with different hashes. -/
theorem frozenset_sensitive (x y : V) (r : List V) (hxy : x ≠ y) :
    Sim (.fset (x :: y :: r)) (.fset (y :: x :: r)) ∧ getHash (.fset (x :: y :: r)) ≠ getHash (.fset (y :: x :: r)) := by
  refine ⟨sim_fset_of_perm (List.Perm.swap _ _ _), ?_⟩
  simp [getHash, hxy]

theorem nested_set_sensitive (x y : V) (r pre post : List V) (hxy : x ≠ y) :
    Sim (.list (pre ++ .set (x :: y :: r) :: post)) (.list (pre ++ .set (y :: x :: r) :: post)) ∧
    getHash (.list (pre ++ .set (x :: y :: r) :: post)) ≠ getHash (.list (pre ++ .set (y :: x :: r) :: post)) := by
  constructor
  · refine .list ?_
    induction pre with
    | nil => exact .cons (sim_set_of_perm (List.Perm.swap _ _ _)) (sims_refl_of (fun z _ => sim_refl z))
    | cons p ps ih => exact .cons (sim_refl p) ih
  · simp [getHash, hxy]

/-- The full-strength property does not hold of the code as it is. -/
theorem order_independent_refuted : ¬ OrderIndependent := fun h =>
  refuted_nested_list.2 (h _ _ refuted_nested_list.1)

/-! ## non-vacuity -/
example : getHash (.set [sb, sa]) = getHash (.set [sa, sb]) :=
  partial_top_set_str [sb, sa] (by simp [sa, sb]) _ (sim_set_of_perm (List.Perm.swap _ _ _))
example : getHash (.set [sb, sa]) = .ok (.valueSet [sa, sb]) := by
  simp [getHash, pySorted, kind, isort, insertBy, ltV_str, sa, sb]
  decide

end RedunModel.C16
