/-
C16 — Value hashes depend only on the value.

Model: `RedunModel.Model.ValueHash` — a value as laid out in one process (`V`: set / frozenset nodes list
their elements in iteration order), `Sim` = "the same value" laid out in another process or after
another insertion order, `getHash` = the pre-image `TypeRegistry.get_hash` feeds to SHA-512
(`Set.get_hash` sorts an exact top-level `set` — by `<`, or by the elements' own value hashes when `<` raises
TypeError; everything else is pickled as laid out).  The digest function `H` is a parameter.
The full-strength statement is `OrderIndependent`; it is FALSE of the code as it is
(`order_independent_refuted` and the closed witnesses); what holds is `hash_stable_setfree`,
`partial_top_set*`, `partial_top_set_unorderable` and the exact characterisation `nonset_hash_eq_iff`.
-/
import RedunModel.Lemmas.ValueHash
namespace RedunModel.C16
open RedunModel.ValueHash

-- the digest function (SHA-512/160 of tag + pickle) is a parameter of every statement
variable (H : Pre → Nat)

/-- The property, full strength: the same value hashes the same however its sets are laid out. -/
def OrderIndependent (H : Pre → Nat) : Prop := ∀ a b : V, Sim a b → getHash H a = getHash H b

/-- "The same value up to set layout" is an equivalence relation, so the hash classes are well defined. -/
theorem sim_equivalence : Equivalence Sim := ⟨sim_refl, fun {a b} => sim_symm a b, fun {a b c} => sim_trans a b c⟩

/-! ## what holds -/

/-- A value without any set/frozenset has a single layout, hence a single hash, in every process. -/
theorem hash_stable_setfree (a b : V) (hf : SetFree a) (h : Sim a b) : getHash H a = getHash H b := by
  rw [sim_eq_of_setFree a b hf h]

/-- More generally: a value all of whose sets/frozensets have at most one element has a single layout. -/
theorem hash_stable_rigid (a b : V) (hr : Rigid a) (h : Sim a b) : getHash H a = getHash H b := by
  rw [sim_eq_of_rigid a b hr h]

/-- `sorted` on scalars of one orderable kind is the insertion sort. -/
theorem pySorted_scalars {k : Kind} (hk : k = .num ∨ k = .str ∨ k = .bytes) (xs : List V)
    (h : ∀ x ∈ xs, kind x = k) : pySorted xs = .ok (isort ltV xs) := by
  match xs with
  | [] => rfl
  | [x] => rfl
  | x :: y :: r =>
    have hlen : ¬ (x :: y :: r).length ≤ 1 := by simp
    have hun : (x :: y :: r).any (fun z => kind z == .unhashable || kind z == .float) = false := by
      rw [List.any_eq_false]; intro z hz; rw [h z hz]; rcases hk with rfl | rfl | rfl <;> simp
    have hmix : mixedKinds (x :: y :: r) = false := by
      unfold mixedKinds; rw [List.any_eq_false]; intro a ha
      simp only [Bool.not_eq_true]; rw [List.any_eq_false]; intro b hb
      simp [h a ha, h b hb]
    have hall : allKind k (x :: y :: r) = true := by
      unfold allKind; rw [List.all_eq_true]; intro a ha; simp [h a ha]
    have hx := h x (by simp)
    have hobj : allKind .obj (x :: y :: r) = false := by
      unfold allKind; rw [List.all_eq_false]; exact ⟨x, by simp, by rw [hx]; rcases hk with rfl | rfl | rfl <;> simp⟩
    have hnone : allKind .none (x :: y :: r) = false := by
      unfold allKind; rw [List.all_eq_false]; exact ⟨x, by simp, by rw [hx]; rcases hk with rfl | rfl | rfl <;> simp⟩
    unfold pySorted
    rw [if_neg hlen, hun, hmix, hobj, hnone]
    rcases hk with rfl | rfl | rfl <;> simp [hall]

theorem setFree_of_scalar {k : Kind} (hk : k = .num ∨ k = .str ∨ k = .bytes) {x : V} (h : kind x = k) : SetFree x := by
  rcases hk with rfl | rfl | rfl <;> cases x <;> simp_all [kind, SetFree]

/-- **Partial (top-level `set` of scalars).**  If the value is an exact `set` whose elements are numbers, or
strs, or bytes, and Python's `<` is a strict total order on them, every layout has the same hash. -/
theorem partial_top_set {k : Kind} (hk : k = .num ∨ k = .str ∨ k = .bytes) (xs : List V)
    (hkind : ∀ x ∈ xs, kind x = k) (st : StrictTotalOn ltV xs) (b : V) (h : Sim (.set xs) b) :
    getHash H (.set xs) = getHash H b := by
  cases h with
  | set hp hs =>
    rename_i zs ys
    have hz : zs = ys := sims_eq (fun x _ b hf hb => sim_eq_of_setFree x b hf hb)
      (fun x hx => setFree_of_scalar hk (hkind x (hp.mem_iff.2 hx))) hs
    subst hz
    have hkind' : ∀ x ∈ zs, kind x = k := fun x hx => hkind x (hp.mem_iff.2 hx)
    simp only [getHash, pySorted_scalars hk xs hkind, pySorted_scalars hk zs hkind', isort_eq_of_perm ltV hp st]

theorem ltV_int (a b : Int) : ltV (.int a) (.int b) = decide (a < b) := by
  simp only [ltV, pyCmp, numVal, cmpInt]
  by_cases h : a < b
  · simp [h]
  · by_cases h2 : a = b <;> simp [h, h2]

theorem ltV_str (a b : List Nat) : ltV (.str a) (.str b) = decide (a < b) := by
  simp only [ltV, pyCmp, cmpNats]
  by_cases h : a < b
  · simp [h]
  · by_cases h2 : a = b
    · subst h2; simp [h]
    · simp [h, h2]

theorem strictTotal_int (xs : List V) (h : ∀ x ∈ xs, ∃ z, x = .int z) : StrictTotalOn ltV xs where
  asymm a ha b hb := by
    obtain ⟨x, rfl⟩ := h a ha; obtain ⟨y, rfl⟩ := h b hb
    simp only [ltV_int, decide_eq_true_eq, decide_eq_false_iff_not]; omega
  trans a ha b hb c hc := by
    obtain ⟨x, rfl⟩ := h a ha; obtain ⟨y, rfl⟩ := h b hb; obtain ⟨z, rfl⟩ := h c hc
    simp only [ltV_int, decide_eq_true_eq]; omega
  connected a ha b hb := by
    obtain ⟨x, rfl⟩ := h a ha; obtain ⟨y, rfl⟩ := h b hb
    simp only [ltV_int, decide_eq_false_iff_not, V.int.injEq]; omega

/-- A top-level `set` of ints hashes the same in every layout (unconditionally). -/
theorem partial_top_set_int (xs : List V) (hi : ∀ x ∈ xs, ∃ z, x = .int z) (b : V) (h : Sim (.set xs) b) :
    getHash H (.set xs) = getHash H b :=
  partial_top_set H (Or.inl rfl) xs (fun x hx => by obtain ⟨z, rfl⟩ := hi x hx; rfl) (strictTotal_int xs hi) b h

theorem strictTotal_str (xs : List V) (h : ∀ x ∈ xs, ∃ s, x = .str s) : StrictTotalOn ltV xs where
  asymm a ha b hb := by
    obtain ⟨x, rfl⟩ := h a ha; obtain ⟨y, rfl⟩ := h b hb
    simp only [ltV_str, decide_eq_true_eq, decide_eq_false_iff_not]; exact List.lt_asymm
  trans a ha b hb c hc := by
    obtain ⟨x, rfl⟩ := h a ha; obtain ⟨y, rfl⟩ := h b hb; obtain ⟨z, rfl⟩ := h c hc
    simp only [ltV_str, decide_eq_true_eq]; exact List.lt_trans
  connected a ha b hb := by
    obtain ⟨x, rfl⟩ := h a ha; obtain ⟨y, rfl⟩ := h b hb
    simp only [ltV_str, decide_eq_false_iff_not, V.str.injEq]
    intro h1 h2
    exact List.le_antisymm (List.not_lt.1 h2) (List.not_lt.1 h1)

/-- A top-level `set` of strs hashes the same in every layout, whatever PYTHONHASHSEED did to the order. -/
theorem partial_top_set_str (xs : List V) (hs : ∀ x ∈ xs, ∃ s, x = .str s) (b : V) (h : Sim (.set xs) b) :
    getHash H (.set xs) = getHash H b :=
  partial_top_set H (Or.inr (Or.inl rfl)) xs (fun x hx => by obtain ⟨z, rfl⟩ := hs x hx; rfl) (strictTotal_str xs hs) b h

/-! ### the `TypeError` fallback: elements ordered by their own value hash -/

theorem mixedKinds_perm {xs ys : List V} (p : xs.Perm ys) : mixedKinds xs = mixedKinds ys := by
  unfold mixedKinds
  rw [p.any_eq]
  congr 1; funext a; rw [p.any_eq]

theorem allKind_perm (k : Kind) {xs ys : List V} (p : xs.Perm ys) : allKind k xs = allKind k ys := by
  unfold allKind; exact p.all_eq

/-- whether `sorted` raises does not depend on the layout -/
theorem pySorted_typeError_perm {xs ys : List V} (p : xs.Perm ys) (h : pySorted xs = .typeError) :
    pySorted ys = .typeError := by
  unfold pySorted at h ⊢
  rw [← p.length_eq, ← p.any_eq, ← mixedKinds_perm p, ← allKind_perm .obj p, ← allKind_perm .none p]
  split at h
  · cases h
  · split at h
    · cases h
    · split at h
      · rename_i h1 h2 h3; simp [h1, h2, h3]
      · split at h
        · cases h
        · split at h <;> cases h

/-- ordering by digest is a strict total order on elements with pairwise different digests -/
theorem strictTotal_byHash (xs : List V) (hinj : ∀ a ∈ xs, ∀ b ∈ xs, H (.value a) = H (.value b) → a = b) :
    StrictTotalOn (ltByHash H) xs where
  asymm a _ b _ := by simp only [ltByHash, decide_eq_true_eq, decide_eq_false_iff_not]; omega
  trans a _ b _ c _ := by simp only [ltByHash, decide_eq_true_eq]; omega
  connected a ha b hb := by
    simp only [ltByHash, decide_eq_false_iff_not]
    intro h1 h2
    exact hinj a ha b hb (by omega)

/-- **Partial (top-level `set` whose `sorted` raises).**  Mixed element kinds, dataclass instances …: the
elements are ordered by their own value hash.  If every element has a single layout (`Rigid`: no set /
frozenset with two or more elements inside it) and different elements have different digests, every layout of
the set has the same hash. -/
theorem partial_top_set_unorderable (xs : List V) (hraise : pySorted xs = .typeError)
    (hr : ∀ x ∈ xs, Rigid x) (hinj : ∀ a ∈ xs, ∀ b ∈ xs, H (.value a) = H (.value b) → a = b)
    (b : V) (h : Sim (.set xs) b) : getHash H (.set xs) = getHash H b := by
  cases h with
  | set hp hs =>
    rename_i zs ys
    have hz : zs = ys := sims_eq' (fun x _ b hf hb => sim_eq_of_rigid x b hf hb)
      (fun x hx => hr x (hp.mem_iff.2 hx)) hs
    subst hz
    simp only [getHash, hraise, pySorted_typeError_perm hp hraise,
      isort_eq_of_perm (ltByHash H) hp (strictTotal_byHash H xs hinj)]

/-- whatever does not reach the `Set` proxy is pickled as laid out -/
theorem getHash_of_not_setLike (v : V) (h : isSetLike v = false) : getHash H v = .ok (.value v) := by
  cases v with
  | sub c b => cases b <;> simp_all [getHash, isSetLike]
  | _ => simp_all [getHash, isSetLike]

/-- Everything that does not reach the `Set` proxy (i.e. is neither an exact top-level `set` nor an instance of a
subclass of `set`) is hashed as laid out: two layouts have the same hash iff they are the same layout.  (This is
what predicts, value by value, which hashes move.) -/
theorem nonset_hash_eq_iff (a b : V) (ha : isSetLike a = false) (hb : isSetLike b = false) :
    getHash H a = getHash H b ↔ a = b := by
  rw [getHash_of_not_setLike H a ha, getHash_of_not_setLike H b hb]
  constructor
  · intro h; simpa using h
  · rintro rfl; rfl

/-- MRO walk: an instance of a subclass of `set` is hashed by the `Set` proxy, exactly like the exact set with the
same elements (the class does not enter the pre-image: `sorted(value)` is a plain list). -/
theorem set_subclass_uses_set_proxy (c : String) (xs : List V) : getHash H (.sub c (.set xs)) = getHash H (.set xs) := rfl

/-- … hence a top-level instance of a `set` subclass holding strs hashes the same under every layout. -/
theorem partial_top_setsub_str (c : String) (xs : List V) (hs : ∀ x ∈ xs, ∃ s, x = .str s) (b : V)
    (h : Sim (.sub c (.set xs)) b) : getHash H (.sub c (.set xs)) = getHash H b := by
  cases h with
  | sub _ hs' =>
    cases hs' with
    | set hp hss =>
      exact partial_top_set_str H xs hs (.set _) (.set hp hss)

/-- subclasses of the other builtin containers have no proxy: a `frozenset` subclass is as order sensitive as a
frozenset -/
theorem fset_subclass_sensitive (c : String) (x y : V) (r : List V) (hxy : x ≠ y) :
    Sim (.sub c (.fset (x :: y :: r))) (.sub c (.fset (y :: x :: r))) ∧
    getHash H (.sub c (.fset (x :: y :: r))) ≠ getHash H (.sub c (.fset (y :: x :: r))) := by
  refine ⟨.sub c (sim_fset_of_perm (List.Perm.swap _ _ _)), ?_⟩
  simp [getHash, hxy]

/-- The hash the backend records for a task argument or result (`record_value`: `get_hash(data=serialize())`)
is the hash `TypeRegistry.get_hash` computes — so every statement of this file about `getHash` is a statement
about `Argument.value_hash` / `CallNode.value_hash` / `Value.value_hash` as well. -/
theorem recordValue_eq_getHash (v : V) : recordValue H v = getHash H v := by
  cases v with
  | sub c b => cases b <;> rfl
  | _ => rfl

/-- In particular a recorded top-level set of strs does not depend on the layout. -/
theorem recorded_top_set_str (xs : List V) (hs : ∀ x ∈ xs, ∃ s, x = .str s) (b : V) (h : Sim (.set xs) b) :
    recordValue H (.set xs) = recordValue H b := by
  rw [recordValue_eq_getHash, recordValue_eq_getHash]; exact partial_top_set_str H xs hs b h

/-! ## what fails: closed witnesses (finding F9) -/
private def sa : V := .str [97]
private def sb : V := .str [98]

/-- `[{"a","b"}]` -/
theorem refuted_nested_list :
    Sim (.list [.set [sa, sb]]) (.list [.set [sb, sa]]) ∧
    getHash H (.list [.set [sa, sb]]) ≠ getHash H (.list [.set [sb, sa]]) := by
  refine ⟨.list (.cons (sim_set_of_perm (List.Perm.swap _ _ _)) .nil), ?_⟩
  simp [getHash, sa, sb]

/-- `{"k": {"a","b"}}` -/
theorem refuted_dict_value :
    Sim (.dict [.str [107]] [.set [sa, sb]]) (.dict [.str [107]] [.set [sb, sa]]) ∧
    getHash H (.dict [.str [107]] [.set [sa, sb]]) ≠ getHash H (.dict [.str [107]] [.set [sb, sa]]) := by
  refine ⟨.dict (.cons (.str _) .nil) (.cons (sim_set_of_perm (List.Perm.swap _ _ _)) .nil), ?_⟩
  simp [getHash, sa, sb]

/-- a top-level `frozenset({"a","b"})` (the `Set` proxy is registered for `set` only) -/
theorem refuted_frozenset :
    Sim (.fset [sa, sb]) (.fset [sb, sa]) ∧ getHash H (.fset [sa, sb]) ≠ getHash H (.fset [sb, sa]) := by
  refine ⟨sim_fset_of_perm (List.Perm.swap _ _ _), ?_⟩
  simp [getHash, sa, sb]

/-- a top-level `set` is sorted, but its elements are still pickled as laid out: `{frozenset({"a","b"})}` -/
theorem refuted_set_of_frozenset :
    Sim (.set [.fset [sa, sb]]) (.set [.fset [sb, sa]]) ∧
    getHash H (.set [.fset [sa, sb]]) ≠ getHash H (.set [.fset [sb, sa]]) := by
  refine ⟨.set (List.Perm.refl _) (.cons (sim_fset_of_perm (List.Perm.swap _ _ _)) .nil), ?_⟩
  simp [getHash, pySorted, sa, sb]

/-- ints: no hash randomisation needed, the insertion history is enough (`[{8, 0}]` vs `[{0, 8}]`: both
land in slot 0 of the table). -/
theorem refuted_insertion_order_ints :
    Sim (.list [.set [.int 8, .int 0]]) (.list [.set [.int 0, .int 8]]) ∧
    getHash H (.list [.set [.int 8, .int 0]]) ≠ getHash H (.list [.set [.int 0, .int 8]]) := by
  refine ⟨.list (.cons (sim_set_of_perm (List.Perm.swap _ _ _)) .nil), ?_⟩
  simp [getHash]

/-- the fallback does not help when an element itself has two layouts: `{frozenset({"a","b"}), 1}` — the
element's digest (sort key) and its pickle both follow its layout -/
theorem refuted_unorderable_with_frozenset :
    Sim (.set [.fset [sa, sb], .int 1]) (.set [.fset [sb, sa], .int 1]) ∧
    getHash H (.set [.fset [sa, sb], .int 1]) ≠ getHash H (.set [.fset [sb, sa], .int 1]) := by
  refine ⟨.set (List.Perm.refl _) (.cons (sim_fset_of_perm (List.Perm.swap _ _ _)) (.cons (.int 1) .nil)), ?_⟩
  have h1 : pySorted [.fset [sa, sb], .int 1] = .typeError := by simp [pySorted, mixedKinds, allKind, kind]
  have h2 : pySorted [.fset [sb, sa], .int 1] = .typeError := by simp [pySorted, mixedKinds, allKind, kind]
  simp only [getHash, h1, h2, ne_eq, HashRes.ok.injEq, Pre.valueSet.injEq]
  intro heq
  have hm : V.fset [sa, sb] ∈ isort (ltByHash H) [.fset [sa, sb], .int 1] :=
    (isort_perm _ _).mem_iff.2 (by simp)
  rw [heq] at hm
  have := (isort_perm _ _).mem_iff.1 hm
  simp [sa, sb] at this

/-- The witnesses are not isolated: ANY frozenset with two different first elements, and ANY such set directly
inside a list, has two layouts with different hashes. -/
theorem frozenset_sensitive (x y : V) (r : List V) (hxy : x ≠ y) :
    Sim (.fset (x :: y :: r)) (.fset (y :: x :: r)) ∧ getHash H (.fset (x :: y :: r)) ≠ getHash H (.fset (y :: x :: r)) := by
  refine ⟨sim_fset_of_perm (List.Perm.swap _ _ _), ?_⟩
  simp [getHash, hxy]

theorem nested_set_sensitive (x y : V) (r pre post : List V) (hxy : x ≠ y) :
    Sim (.list (pre ++ .set (x :: y :: r) :: post)) (.list (pre ++ .set (y :: x :: r) :: post)) ∧
    getHash H (.list (pre ++ .set (x :: y :: r) :: post)) ≠ getHash H (.list (pre ++ .set (y :: x :: r) :: post)) := by
  constructor
  · refine .list ?_
    induction pre with
    | nil => exact .cons (sim_set_of_perm (List.Perm.swap _ _ _)) (sims_refl_of (fun z _ => sim_refl z))
    | cons p ps ih => exact .cons (sim_refl p) ih
  · simp [getHash, hxy]

/-- The full-strength property does not hold of the code as it is. -/
theorem order_independent_refuted : ¬ OrderIndependent H := fun h =>
  (refuted_nested_list H).2 (h _ _ (refuted_nested_list H).1)

/-- look-alikes: `(1, 2)` and `(1.0, 2.0)` are `==` in Python but pickle differently - different pre-images -/
example : getHash H (.tuple [.int 1, .int 2]) ≠ getHash H (.tuple [.float 0x3ff0000000000000, .float 0x4000000000000000]) := by
  simp [getHash]
/-- `0.0` and `-0.0` -/
example : getHash H (.float 0) ≠ getHash H (.float 0x8000000000000000) := by simp [getHash]

/-! ## non-vacuity -/
example : getHash H (.set [sb, sa]) = getHash H (.set [sa, sb]) :=
  partial_top_set_str H [sb, sa] (by simp [sa, sb]) _ (sim_set_of_perm (List.Perm.swap _ _ _))
example : getHash H (.set [sb, sa]) = .ok (.valueSet [sa, sb]) := by
  have h : pySorted [sb, sa] = .ok (isort ltV [sb, sa]) :=
    pySorted_scalars (Or.inr (Or.inl rfl)) _ (by simp [sa, sb, kind])
  simp only [getHash, h]
  simp [isort, insertBy, ltV_str, sa, sb]
  decide

end RedunModel.C16
