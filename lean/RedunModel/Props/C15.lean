/-
C15 — Cache keys separate every distinct call and only those.

Model: `RedunModel.Model.Keys` (`callKey` = `get_arg_defaults` + `{**defaults, **kwargs}` +
`hash_args_eval` + `hash_arguments`/`hash_eval`, with the repair of
findings_proposed/C15-variadic-binding.fix.diff; `callKeyOld` = the code before the repair).
Keys are symbolic pre-images (`Model/Pre.lean`): equal pre-images ⇔ equal digests modulo SHA-512/160
collisions and modulo `TypeRegistry.get_hash` being injective on values (trusted, DESIGN §2).
`(callKey …).1` is the eval hash, `.2` the args hash.
-/
import RedunModel.Lemmas.Keys
namespace RedunModel.C15
open RedunModel.Pre RedunModel.Keys List

/-! ### the key changes when it must -/

/-- A different task hash gives a different eval key, whatever the arguments. -/
theorem key_separates_task (th th' : Pre) (cfg cfg' : List String) (sig sig' : Sig)
    (args args' : List Arg) (kw kw' : Kwargs) (h : th ≠ th') :
    (callKey th cfg sig args kw).1 ≠ (callKey th' cfg' sig' args' kw').1 := by
  intro e
  simp only [callKey, hashArgsEval, evalHash, Pre.hash.injEq, Pre.list.injEq, cons.injEq] at e
  exact h e.2.1

/-- Positional arguments (named slots and variadic ones): if two calls of the same task with the same
number of positional arguments and JobInfo values at the same places get the same eval key, then
every positional argument that is not bound to a declared config parameter and is not a JobInfo has
the same value hash in both.  (Contrapositive: changing the hash of such an argument changes the key.) -/
theorem key_separates_positional (th : Pre) (cfg : List String) (sig : Sig) (args args' : List Arg)
    (kw kw' : Kwargs) (hlen : args.length = args'.length)
    (hji : ∀ (i : Nat) (a b : Arg), args[i]? = some a → args'[i]? = some b → a.ji = b.ji)
    (hkey : (callKey th cfg sig args kw).1 = (callKey th cfg sig args' kw').1)
    (i : Nat) (a b : Arg) (ha : args[i]? = some a) (hb : args'[i]? = some b)
    (hslot : isConfig cfg (slotOfPos sig i) = false) (hj : a.ji = false) : a.h = b.h := by
  simp only [callKey, hashArgsEval, evalHash, taskArguments, Pre.hash.injEq, Pre.list.injEq,
    cons.injEq, filterArgs_eq_kept] at hkey
  exact kept_inj cfg (slotOfPos sig) args args' hlen hji hkey.2.2.1.2.1 i a b ha hb
    (by simp [keepArg_eq, hslot, hj])

/-- the mutation form of `key_separates_positional`: replacing one non-config, non-JobInfo positional
argument by a value with a different hash changes the eval key -/
theorem key_changes_positional (th : Pre) (cfg : List String) (sig : Sig) (args : List Arg) (kw : Kwargs)
    (i : Nat) (a b : Arg) (ha : args[i]? = some a) (hab : a.h ≠ b.h) (hja : a.ji = false) (hjb : b.ji = false)
    (hslot : isConfig cfg (slotOfPos sig i) = false) :
    (callKey th cfg sig args kw).1 ≠ (callKey th cfg sig (args.set i b) kw).1 := by
  intro e
  have hi : i < args.length := by
    rcases Nat.lt_or_ge i args.length with h | h
    · exact h
    · simp [getElem?_eq_none h] at ha
  refine hab (key_separates_positional th cfg sig args (args.set i b) kw kw (by simp) ?_ e i a b ha
    (by simp [hi]) hslot hja)
  intro j x y hx hy
  by_cases hij : i = j
  · subst hij
    rw [ha] at hx
    simp only [getElem?_set_self hi, Option.some.injEq] at hy
    cases hx; cases hy; rw [hja, hjb]
  · rw [getElem?_set_ne hij, hx] at hy
    cases hy; rfl

/-- Keyword arguments: if two calls of the same task get the same eval key and both pass keyword `k`,
and `k` is not a declared config argument and the first value is not a JobInfo, then the two values
have the same hash.  No assumption relates the other arguments of the two calls. -/
theorem key_separates_keyword (th th' : Pre) (cfg : List String) (sig : Sig) (args args' : List Arg)
    (kw kw' : Kwargs) (hn : (keys kw).Nodup) (hn' : (keys kw').Nodup)
    (hkey : (callKey th cfg sig args kw).1 = (callKey th' cfg sig args' kw').1)
    (k : String) (a a' : Arg) (ha : (k, a) ∈ kw) (ha' : (k, a') ∈ kw')
    (hcfg : cfg.contains k = false) (hj : a.ji = false) : a.h = a'.h := by
  simp only [callKey, hashArgsEval, evalHash, taskArguments, Pre.hash.injEq, Pre.list.injEq,
    cons.injEq, Pre.dict.injEq] at hkey
  have hd := hkey.2.2.1.2.2.1
  change sortKw (hashKw (filterKwargs cfg (finalKw sig args.length kw)))
    = sortKw (hashKw (filterKwargs cfg (finalKw sig args'.length kw'))) at hd
  rw [finalKw_eq sig _ kw hn, finalKw_eq sig _ kw' hn'] at hd
  have hm : ((k, Pre.val a.h) : String × Pre) ∈ sortKw (hashKw (filterKwargs cfg (getArgDefaults sig args.length kw ++ kw))) := by
    rw [mem_sortKw, mem_hashKw_filter]
    have hc : k ∉ cfg := by simpa using hcfg
    exact ⟨a, mem_append_right _ ha, by simp [keepArg, hc, hj], rfl⟩
  rw [hd, mem_sortKw, mem_hashKw_filter] at hm
  obtain ⟨b, hb, _, hv⟩ := hm
  simp only [Pre.val.injEq] at hv
  rcases mem_append.mp hb with hb | hb
  · exact absurd (mem_map_of_mem (f := (·.1)) hb)
      (defaults_disjoint sig args'.length kw' k (mem_map_of_mem (f := (·.1)) ha'))
  · have := eq_of_key_eq hn' hb ha' rfl
    simp only [Prod.mk.injEq, true_and] at this
    rw [hv, this]

/-! ### the key stays the same when it may -/

/-- Keyword order: a permutation of the keyword arguments leaves both hashes unchanged. -/
theorem key_stable_keyword_order (th : Pre) (cfg : List String) (sig : Sig) (args : List Arg)
    (kw kw' : Kwargs) (hsig : (sig.map (·.name)).Nodup) (hn : (keys kw).Nodup) (hp : kw.Perm kw') :
    callKey th cfg sig args kw = callKey th cfg sig args kw' := by
  have hn' : (keys kw').Nodup := by
    unfold keys at *; exact (hp.map _).nodup_iff.mp hn
  have hk : ∀ k, k ∈ keys kw ↔ k ∈ keys kw' := fun k => by
    unfold keys; exact (hp.map _).mem_iff
  have hD : ∀ e, e ∈ getArgDefaults sig args.length kw ↔ e ∈ getArgDefaults sig args.length kw' := by
    intro e; simp only [mem_getArgDefaults, hk]
  have := dictPart_eq_of_mem_iff cfg (finalKw sig args.length kw) (finalKw sig args.length kw')
    (finalKw_keys_nodup sig _ kw hsig hn) (finalKw_keys_nodup sig _ kw' hsig hn') (by
      intro e
      simp only [mem_hashKw_filter, finalKw_eq sig _ kw hn, finalKw_eq sig _ kw' hn', mem_append, hD,
        hp.mem_iff])
  simp only [callKey, hashArgsEval, taskArguments]
  simp only [finalKw] at this
  rw [this]

/-- Config argument values and JobInfo placeholders in positional position (named or variadic slot)
do not influence the key: two calls whose positional arguments agree except at config slots, or where
both pass a JobInfo, get the same hashes. -/
theorem key_stable_positional (th : Pre) (cfg : List String) (sig : Sig) (args args' : List Arg)
    (kw : Kwargs) (hlen : args.length = args'.length)
    (hrel : ∀ (i : Nat) (a b : Arg), args[i]? = some a → args'[i]? = some b →
      a = b ∨ isConfig cfg (slotOfPos sig i) = true ∨ (a.ji = true ∧ b.ji = true)) :
    callKey th cfg sig args kw = callKey th cfg sig args' kw := by
  simp only [callKey, hashArgsEval, filterArgs_eq_kept, hlen,
    kept_stable cfg (slotOfPos sig) args args' hlen hrel]

/-- Config argument values and JobInfo placeholders passed by keyword do not influence the key:
`kw'` has the same keywords as `kw`, and each value is unchanged, or the keyword is a config argument,
or both values are JobInfos. -/
theorem key_stable_keyword_values (th : Pre) (cfg : List String) (sig : Sig) (args : List Arg)
    (kw kw' : Kwargs) (hsig : (sig.map (·.name)).Nodup) (hn : (keys kw).Nodup) (hkeys : keys kw = keys kw')
    (hrel : ∀ (k : String) (a b : Arg), (k, a) ∈ kw → (k, b) ∈ kw' →
      a = b ∨ cfg.contains k = true ∨ (a.ji = true ∧ b.ji = true)) :
    callKey th cfg sig args kw = callKey th cfg sig args kw' := by
  have hn' : (keys kw').Nodup := hkeys ▸ hn
  have hD : ∀ e, e ∈ getArgDefaults sig args.length kw ↔ e ∈ getArgDefaults sig args.length kw' := by
    intro e; simp only [mem_getArgDefaults, hkeys]
  -- every keyword of one call is a keyword of the other
  have hex : ∀ {k1 k2 : Kwargs}, keys k1 = keys k2 → ∀ k a, (k, a) ∈ k1 → ∃ b, (k, b) ∈ k2 := by
    intro k1 k2 h k a hka
    have : k ∈ keys k2 := h ▸ mem_map_of_mem (f := (·.1)) hka
    simp only [keys, mem_map] at this
    obtain ⟨⟨k', b⟩, hb, rfl⟩ := this
    exact ⟨b, hb⟩
  have key : ∀ e, e ∈ hashKw (filterKwargs cfg (finalKw sig args.length kw)) ↔
      e ∈ hashKw (filterKwargs cfg (finalKw sig args.length kw')) := by
    intro e
    simp only [mem_hashKw_filter, finalKw_eq sig _ kw hn, finalKw_eq sig _ kw' hn', mem_append, hD]
    constructor
    · rintro ⟨a, h | h, hk, hv⟩
      · exact ⟨a, Or.inl h, hk, hv⟩
      · obtain ⟨b, hb⟩ := hex hkeys e.1 a h
        rcases hrel e.1 a b h hb with r | r | r
        · subst r; exact ⟨a, Or.inr hb, hk, hv⟩
        · have r' : e.1 ∈ cfg := by simpa using r
          simp [keepArg, r'] at hk
        · simp [keepArg, r.1] at hk
    · rintro ⟨b, h | h, hk, hv⟩
      · exact ⟨b, Or.inl h, hk, hv⟩
      · obtain ⟨a, ha⟩ := hex hkeys.symm e.1 b h
        rcases hrel e.1 a b ha h with r | r | r
        · subst r; exact ⟨a, Or.inr ha, hk, hv⟩
        · have r' : e.1 ∈ cfg := by simpa using r
          simp [keepArg, r'] at hk
        · simp [keepArg, r.2] at hk
  have := dictPart_eq_of_mem_iff cfg _ _ (finalKw_keys_nodup sig _ kw hsig hn)
    (finalKw_keys_nodup sig _ kw' hsig hn') key
  simp only [callKey, hashArgsEval, taskArguments]
  simp only [finalKw] at this
  rw [this]

/-- In a signature with unique parameter names, a name determines the parameter. -/
theorem param_unique {sig : Sig} (hsig : (sig.map (·.name)).Nodup) {p q : Param} {i j : Nat}
    (hp : (p, i) ∈ sig.zipIdx) (hq : (q, j) ∈ sig.zipIdx) (h : p.name = q.name) : p = q ∧ i = j := by
  obtain ⟨hi, hpe⟩ := mem_zipIdx' hp
  obtain ⟨hj, hqe⟩ := mem_zipIdx' hq
  have : i = j := by
    have h1 : (sig.map (·.name))[i]'(by simpa using hi) = (sig.map (·.name))[j]'(by simpa using hj) := by
      simp only [getElem_map, ← hpe, ← hqe, h]
    exact (List.getElem_inj hsig).mp h1
  subst this; exact ⟨hpe.trans hqe.symm, rfl⟩

/-- Passing a defaulted parameter by keyword with its default value does not change the key:
`p` is a parameter with default `d` that the call leaves unbound (not filled positionally — only
positional parameters can be — and not passed by keyword). -/
theorem key_stable_default_by_keyword (th : Pre) (cfg : List String) (sig : Sig) (args : List Arg)
    (kw : Kwargs) (hsig : (sig.map (·.name)).Nodup) (hn : (keys kw).Nodup)
    (p : Param) (i : Nat) (d : Arg) (hp : (p, i) ∈ sig.zipIdx) (hd : p.default = some d)
    (hpos : ¬ (i < args.length ∧ p.kind.positional = true)) (hk : p.name ∉ keys kw) :
    callKey th cfg sig args (kw ++ [(p.name, d)]) = callKey th cfg sig args kw := by
  have hn' : (keys (kw ++ [(p.name, d)])).Nodup := by
    simp only [keys, map_append, map_cons, map_nil]
    refine nodup_append.mpr ⟨hn, by simp, ?_⟩
    intro a ha b hb e
    simp only [mem_singleton] at hb
    subst e; subst hb; exact hk ha
  have hkeys : ∀ k, k ∈ keys (kw ++ [(p.name, d)]) ↔ (k ∈ keys kw ∨ k = p.name) := by
    intro k; simp [keys]
  have key : ∀ e, e ∈ hashKw (filterKwargs cfg (finalKw sig args.length (kw ++ [(p.name, d)]))) ↔
      e ∈ hashKw (filterKwargs cfg (finalKw sig args.length kw)) := by
    intro e
    simp only [mem_hashKw_filter, finalKw_eq sig _ kw hn, finalKw_eq sig _ _ hn', mem_append,
      mem_singleton, Prod.mk.injEq]
    constructor
    · rintro ⟨a, (h | h | h), hka, hv⟩
      · obtain ⟨q, j, h1, h2, h3, h4, h5⟩ := mem_getArgDefaults.mp h
        refine ⟨a, Or.inl (mem_getArgDefaults.mpr ⟨q, j, h1, h2, ?_, h4, h5⟩), hka, hv⟩
        exact fun hh => h3 ((hkeys _).mpr (Or.inl hh))
      · exact ⟨a, Or.inr h, hka, hv⟩
      · refine ⟨a, Or.inl (mem_getArgDefaults.mpr ⟨p, i, hp, hpos, hk, ?_, h.1⟩), hka, hv⟩
        rw [hd, h.2]
    · rintro ⟨a, (h | h), hka, hv⟩
      · obtain ⟨q, j, h1, h2, h3, h4, h5⟩ := mem_getArgDefaults.mp h
        by_cases hq : q.name = p.name
        · obtain ⟨rfl, rfl⟩ := param_unique hsig h1 hp hq
          refine ⟨a, Or.inr (Or.inr ⟨h5, ?_⟩), hka, hv⟩
          rw [hd] at h4; exact (Option.some.inj h4).symm
        · refine ⟨a, Or.inl (mem_getArgDefaults.mpr ⟨q, j, h1, h2, ?_, h4, h5⟩), hka, hv⟩
          intro hh
          rcases (hkeys _).mp hh with hh | hh
          · exact h3 hh
          · exact hq hh
      · exact ⟨a, Or.inr (Or.inl h), hka, hv⟩
  have := dictPart_eq_of_mem_iff cfg _ _ (finalKw_keys_nodup sig _ _ hsig hn')
    (finalKw_keys_nodup sig _ kw hsig hn) key
  simp only [callKey, hashArgsEval, taskArguments]
  simp only [finalKw] at this
  rw [this]

/-! ### record tags -/

/-- The leading type tags of all record kinds are pairwise distinct. -/
theorem tags_distinct : recordTags.Nodup := by decide

/-- Pre-images with different leading tags are different. -/
theorem ne_of_leadTag_ne (a b : Pre) (h : leadTag a ≠ leadTag b) : a ≠ b := fun e => h (e ▸ rfl)

theorem evalKey_tag (th : Pre) (cfg : List String) (sig : Sig) (args : List Arg) (kw : Kwargs) :
    leadTag (callKey th cfg sig args kw).1 = some "Eval" ∧
    leadTag (callKey th cfg sig args kw).2 = some "TaskArguments" := ⟨rfl, rfl⟩

/-! ### the code before the repair (finding F8 and its twin in `get_arg_defaults`) -/

/-- `def g(*rest, cfg=1)` with `config_args=["cfg"]` -/
def sigRestCfg : Sig := [⟨"rest", .varPos, none⟩, ⟨"cfg", .kwOnly, some ⟨1, false⟩⟩]
/-- `def k(*rest, kk=1)` without config args -/
def sigRestKk : Sig := [⟨"rest", .varPos, none⟩, ⟨"kk", .kwOnly, some ⟨1, false⟩⟩]

/-- Before the repair `g(1, 2, 3)` and `g(1, 5, 3)` have the same key: the variadic value at index 1 is
zipped with the keyword-only name `cfg` and dropped. -/
theorem refuted_old_variadic_zipped_with_kwonly_config :
    callKeyOld (.str "T") ["cfg"] sigRestCfg [⟨1, false⟩, ⟨2, false⟩, ⟨3, false⟩] []
      = callKeyOld (.str "T") ["cfg"] sigRestCfg [⟨1, false⟩, ⟨5, false⟩, ⟨3, false⟩] [] := by
  rfl

/-- … while the repaired code separates them (instance of `key_changes_positional`). -/
theorem fixed_variadic_separated :
    (callKey (.str "T") ["cfg"] sigRestCfg [⟨1, false⟩, ⟨2, false⟩, ⟨3, false⟩] []).1
      ≠ (callKey (.str "T") ["cfg"] sigRestCfg [⟨1, false⟩, ⟨5, false⟩, ⟨3, false⟩] []).1 :=
  key_changes_positional (.str "T") ["cfg"] sigRestCfg [⟨1, false⟩, ⟨2, false⟩, ⟨3, false⟩] [] 1
    ⟨2, false⟩ ⟨5, false⟩ rfl (by decide) rfl rfl (by decide)

/-- Before the repair `k(1, 2)` and `k(1, 2, kk=1)` have different keys: the default of the keyword-only
`kk` (parameter index 1 < 2 positional arguments) is not merged. -/
theorem refuted_old_kwonly_default_after_varargs :
    (callKeyOld (.str "T") [] sigRestKk [⟨1, false⟩, ⟨2, false⟩] []).1
      ≠ (callKeyOld (.str "T") [] sigRestKk [⟨1, false⟩, ⟨2, false⟩] [("kk", ⟨1, false⟩)]).1 := by
  intro h
  simp [callKeyOld, hashArgsEvalOld, evalHash, taskArguments, getArgDefaultsOld, defaultOfOld, sigRestKk,
    dictMerge, dictSet, filterKwargs, hashKw, keepArg, argHash, sortKw, insertKw, hasKey, zipIdx] at h

/-- … while the repaired code gives them one key (instance of `key_stable_default_by_keyword`;
also shows its hypotheses are satisfiable). -/
theorem fixed_kwonly_default_merged :
    callKey (.str "T") [] sigRestKk [⟨1, false⟩, ⟨2, false⟩] [("kk", ⟨1, false⟩)]
      = callKey (.str "T") [] sigRestKk [⟨1, false⟩, ⟨2, false⟩] [] :=
  key_stable_default_by_keyword (.str "T") [] sigRestKk [⟨1, false⟩, ⟨2, false⟩] [] (by decide) (by decide)
    ⟨"kk", .kwOnly, some ⟨1, false⟩⟩ 1 ⟨1, false⟩ (by decide) rfl (by decide) (by decide)

/-! ### non-vacuity of the remaining implications -/

/-- `def f(a, b=7, *rest, c=8, **kw)` with `config_args=["b"]` -/
def sigMixed : Sig := [⟨"a", .posOrKw, none⟩, ⟨"b", .posOrKw, some ⟨7, false⟩⟩, ⟨"rest", .varPos, none⟩,
  ⟨"c", .kwOnly, some ⟨8, false⟩⟩, ⟨"kw", .varKw, none⟩]

/-- keyword separation on a concrete pair: `f(1, c=3)` vs `f(1, c=4)` -/
example : (callKey (.str "T") ["b"] sigMixed [⟨1, false⟩] [("c", ⟨3, false⟩)]).1
    ≠ (callKey (.str "T") ["b"] sigMixed [⟨1, false⟩] [("c", ⟨4, false⟩)]).1 := fun e => by
  have := key_separates_keyword (.str "T") (.str "T") ["b"] sigMixed [⟨1, false⟩] [⟨1, false⟩]
    [("c", ⟨3, false⟩)] [("c", ⟨4, false⟩)] (by decide) (by decide) e "c" ⟨3, false⟩ ⟨4, false⟩
    (by simp) (by simp) (by decide) rfl
  simp at this

/-- keyword order on a concrete pair: `f(1, c=3, z=4)` vs `f(1, z=4, c=3)` -/
example : callKey (.str "T") ["b"] sigMixed [⟨1, false⟩] [("c", ⟨3, false⟩), ("z", ⟨4, false⟩)]
    = callKey (.str "T") ["b"] sigMixed [⟨1, false⟩] [("z", ⟨4, false⟩), ("c", ⟨3, false⟩)] :=
  key_stable_keyword_order _ _ _ _ _ _ (by decide) (by decide) (Perm.swap _ _ _)

/-- config value passed positionally: `f(1, 2, 9)` vs `f(1, 3, 9)` with `b` a config argument;
JobInfo in the variadic tail: `f(1, 2, J)` vs `f(1, 2, J')` -/
example : callKey (.str "T") ["b"] sigMixed [⟨1, false⟩, ⟨2, false⟩, ⟨9, true⟩] []
    = callKey (.str "T") ["b"] sigMixed [⟨1, false⟩, ⟨3, false⟩, ⟨10, true⟩] [] :=
  key_stable_positional _ _ _ _ _ _ rfl (by
    intro i a b ha hb
    match i with
    | 0 => simp at ha hb; subst ha; subst hb; exact Or.inl rfl
    | 1 => exact Or.inr (Or.inl (by decide))
    | 2 => simp at ha hb; subst ha; subst hb; exact Or.inr (Or.inr ⟨rfl, rfl⟩)
    | n + 3 => simp at ha)

/-- config value passed by keyword: `f(1, b=2)` vs `f(1, b=3)` -/
example : callKey (.str "T") ["b"] sigMixed [⟨1, false⟩] [("b", ⟨2, false⟩)]
    = callKey (.str "T") ["b"] sigMixed [⟨1, false⟩] [("b", ⟨3, false⟩)] :=
  key_stable_keyword_values _ _ _ _ _ _ (by decide) (by decide) rfl (by
    intro k a b ha hb
    simp at ha hb
    exact Or.inr (Or.inl (by rw [ha.1]; decide)))

end RedunModel.C15
