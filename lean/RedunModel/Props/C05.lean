/-
C05 — Results are never shared between calls with different contexts.

Model: `RedunModel.Model.SchedCore`.  The in-memory deduplication is keyed by (eval hash, context hash)
and is proved context-exact.  The backend lookup applies its context filter only when the job HAS a
context (`if context_hash:` in check_cache / _get_call_node); the model mirrors that, so the full
statement is refuted for a context-free call that runs after a context-bearing twin has finished
(known finding; repairing it needs the recorder to mark context-free call nodes — see DESIGN).
-/
import RedunModel.Lemmas.SchedCse
namespace RedunModel.C05
open RedunModel.SchedCore

/-- In-execution deduplication never crosses contexts: a job collapses only into a pending job with
exactly its eval hash and exactly its context hash.  (All programs, all schedules.) -/
theorem collapse_same_context (p : Prog) (hps : ProvScope p) (s : S) (h : Reachable p s) (k : Nat × Nat) (t : JobId)
    (hl : lookupPending s k = some t) : (spec p s t).key = k.1 ∧ (spec p s t).ctx = k.2 := by
  have hm : (k, t) ∈ s.pendingJobs := by
    unfold lookupPending at hl
    cases hf : s.pendingJobs.find? (fun e => e.1 == k) with
    | none => rw [hf] at hl; simp at hl
    | some e =>
      rw [hf] at hl; simp at hl
      have h1 := List.mem_of_find?_eq_some hf
      have h2 := List.find?_some hf
      simp at h2
      cases e with
      | mk a b => simp at hl h2; subst hl; subst h2; exact h1
  have := ((reachable_cse p hps s h).reg_ok k t hm).1
  unfold keyOf at this
  exact ⟨congrArg Prod.fst this, congrArg Prod.snd this⟩

/-- PARTIAL (context-bearing calls): a same-execution backend hit for a job WITH a context comes from
an entry recorded under the same context hash. -/
theorem cse_hit_same_context_partial (s : S) (sp : Spec) (e : CseEntry) (hctx : sp.ctx ≠ 0)
    (h : cseLookup s sp = some e) : e.key = sp.key ∧ e.ctx = sp.ctx := by
  unfold cseLookup at h
  have := List.find?_some h
  simp only [Bool.and_eq_true, beq_iff_eq, Bool.or_eq_true] at this
  refine ⟨this.1, ?_⟩
  rcases this.2 with a | a
  · exact absurd a hctx
  · exact a

/-- the target statement for the backend lookup -/
def NoCrossContextHit : Prop :=
  ∀ (s : S) (sp : Spec) (e : CseEntry), cseLookup s sp = some e → e.ctx = sp.ctx

/-- REFUTED on the model of the current code: a context-free call (ctx = 0) is served the entry
recorded by a call that ran under context 1. -/
theorem refuted_context_free_after_context_bearing : ¬ NoCrossContextHit := by
  intro h
  have := h { init with cse := [{ key := 1, ctx := 1, isErr := false }] }
    { key := 1, ctx := 0, limits := [], scope := .backend, cseOk := true, prov := true, execOk := true,
      fails := false, pre := .miss, children := [] }
    { key := 1, ctx := 1, isErr := false } (by decide)
  simp at this

/-- the same failure as a reachable run: `a` (child `f` under context 1) completes first, then `b`'s child
`f` without context is looked up and served from the cache (`wasCached`) instead of being submitted -/
def witness : Prog :=
  { specs := [ { key := 0, ctx := 0, limits := [], scope := .backend, cseOk := true, prov := true, execOk := true,
                 fails := false, pre := .miss, children := [1, 2] },
               { key := 5, ctx := 1, limits := [], scope := .backend, cseOk := true, prov := true, execOk := true,
                 fails := false, pre := .miss, children := [3] },     -- a, under context 1
               { key := 6, ctx := 0, limits := [], scope := .backend, cseOk := true, prov := true, execOk := true,
                 fails := false, pre := .miss, children := [4] },     -- b, no context
               { key := 1, ctx := 1, limits := [], scope := .backend, cseOk := true, prov := true, execOk := true,
                 fails := false, pre := .miss, children := [] },      -- f() under context 1
               { key := 1, ctx := 0, limits := [], scope := .backend, cseOk := true, prov := true, execOk := true,
                 fails := false, pre := .miss, children := [] } ],    -- f() without context
    limit := fun _ => 1, dryrun := false }

def witnessRun : S :=
  run witness [.pop, .complete 0, .pop, .pop, .pop, .complete 1, .pop, .pop, .complete 3, .pop, .pop,
               .complete 2, .pop, .pop, .pop]

theorem refuted_reachable : (witnessRun.jobs 4).wasCached = true ∧ witnessRun.submits = [0, 1, 2, 3] := by decide

end RedunModel.C05
