/-
C12 — Failures propagate and are never replayed from the cache.

Part 1 (propagation), on `Model/EvalCore`: `Demand` is "the parent evaluation evaluates the child with nothing
in between that could catch" (container element, argument / keyword argument / unspecified default of a task
call, operator argument and result, the expression a task body returned — the job/child-job edge —, the
selected `cond` branch, `seq` elements in order, `apply_tags` arguments, a joined thread, `subrun`, `map_`).
`propagates`: along any chain of demands, an error of the innermost evaluation is an outcome of the root
(same class, same message); `ancestors_fail`: every expression on the chain — every ancestor job — fails
with it; `raising_body_fails`: the failing job itself.  Full strength for the modelled forms.
`not_swallowed_*`: a demanded failure cannot turn into a value (for the purely structural frames).

Part 2 (no replay), on `Model/CacheLookup` (decision logic of `check_cache` + `_get_cache`):
`error_only_from_cse`, `cse_needs_same_execution`, `not_replayed` — an `ErrorValue` is used only when the
same-execution (CSE) query answered, which requires a job of the *same execution*; in a later execution
no lookup makes a job cached with an error, so the task function runs again.  Full strength (finite table).
-/
import RedunModel.Lemmas.EvalCore
import RedunModel.Model.EvalLib
import RedunModel.Model.CacheLookup
namespace RedunModel.C12
open RedunModel.EvalCore

variable {cx : Ctx}

theorem err_of_mem {lib : Lib} {x : Err} : ∀ {es : List Expr} {e : Expr}, e ∈ es → Eval lib cx e (.err x) →
    Eval lib cx (L es) (.err x) := by
  intro es
  induction es with
  | nil => intro e h; cases h
  | cons y ys ih =>
    intro e h he
    rcases List.mem_cons.mp h with rfl | h
    · exact Eval.consErrHd he
    · exact Eval.consErrTl (ih h he)

/-- `Demand lib cp p cc c`: evaluating `p` in context `cp` evaluates `c` in context `cc`, and nothing between them can
catch: `c` is an element of the container / argument list / operator arguments of `p`, an unspecified default or the
expression the task body (job `p`) returned — both evaluated in the job's own context —, the branch `p` selects, ... -/
inductive Demand (lib : Lib) : Ctx → Expr → Ctx → Expr → Prop
  | item {cx k items c} : c ∈ items → Demand lib cx (.cont k items) cx c
  | dictItem {cx ks vs c} : c ∈ ks ++ vs → Demand lib cx (.dict ks vs) cx c
  /-- an argument or keyword argument of a task call -/
  | arg {cx t args kwn kwv ovn ovv td c} : lib.task t = some td → c ∈ args ++ kwv →
      Demand lib cx (.call t args kwn kwv ovn ovv) cx c
  /-- an unspecified default of a task call, evaluated in the job's context -/
  | dflt {cx t args kwn kwv ovn ovv td c} : lib.task t = some td →
      c ∈ (argDefaults td.params args.length kwn).map Prod.snd →
      Demand lib cx (.call t args kwn kwv ovn ovv) (cx.override ovn ovv) c
  /-- the expression returned by the task body: `p` is the job, `c` is evaluated as its child -/
  | body {cx t args kwn kwv ovn ovv td akv dvs c} : lib.task t = some td →
      Eval lib cx (L (args ++ kwv)) (.ok (L akv)) →
      Eval lib (cx.override ovn ovv) (L ((argDefaults td.params args.length kwn).map Prod.snd)) (.ok (L dvs)) →
      td.body (akv.take args.length) ((argDefaults td.params args.length kwn).map Prod.fst ++ kwn)
        (dvs ++ akv.drop args.length) = .ok c →
      Demand lib cx (.call t args kwn kwv ovn ovv) (cx.override ovn ovv) c
  | opArg {cx name args c} : c ∈ args → Demand lib cx (.op name args) cx c
  | opResult {cx name args vs c} : Eval lib cx (L args) (.ok (L vs)) → applyOp lib name vs = .ok c →
      Demand lib cx (.op name args) cx c
  | condTest {cx c t rest} : Demand lib cx (.cond (c :: t :: rest)) cx c
  | condThen {cx c t rest cv} : Eval lib cx c (.ok cv) → truthy cv = true → Demand lib cx (.cond (c :: t :: rest)) cx t
  | condElse {cx c t e cv} : Eval lib cx c (.ok cv) → truthy cv = false → Demand lib cx (.cond [c, t, e]) cx e
  | condElif {cx c t c2 t2 rest cv} : Eval lib cx c (.ok cv) → truthy cv = false →
      Demand lib cx (.cond (c :: t :: c2 :: t2 :: rest)) cx (.cond (c2 :: t2 :: rest))
  | seqHead {cx e es} : Demand lib cx (.seq (e :: es)) cx e
  | seqTail {cx e es v} : Eval lib cx e (.ok v) → Demand lib cx (.seq (e :: es)) cx (.seq es)
  | tagsArg {cx v t j e c} : c ∈ [v, t, j, e] → Demand lib cx (.applyTags v t j e) cx c
  | joined {cx e} : Demand lib cx (.join (.threadv e)) cx e
  /-- the sub-workflow, in the context `subrun` forwards -/
  | subrun {cx e ne} : Demand lib cx (.subrun e ne) (if ne then lib.config.over cx else Ctx.empty.over cx) e
  | mapTask {cx f values} : Demand lib cx (.map_ f values) cx (mapTask (mapFuse [f] values).1)
  | mapValues {cx f values av} : Eval lib cx (mapTask (mapFuse [f] values).1) (.ok av) →
      rawSeq (mapFuse [f] values).2 = none → Demand lib cx (.map_ f values) cx (mapFuse [f] values).2
  | mapCallsRaw {cx f values av items c} : Eval lib cx (mapTask (mapFuse [f] values).1) (.ok av) →
      rawSeq (mapFuse [f] values).2 = some items → mapCalls lib av items = .ok c → Demand lib cx (.map_ f values) cx c
  | mapCallsEval {cx f values av vv items c} : Eval lib cx (mapTask (mapFuse [f] values).1) (.ok av) →
      rawSeq (mapFuse [f] values).2 = none → Eval lib cx (mapFuse [f] values).2 (.ok vv) →
      iterOf vv = .ok (L items) → mapCalls lib av items = .ok c → Demand lib cx (.map_ f values) cx c

/-- one step: an error of a demanded sub-evaluation is an error of the demanding expression -/
theorem Demand.propagates {lib : Lib} {cp cc : Ctx} {p c : Expr} {x : Err} (d : Demand lib cp p cc c)
    (h : Eval lib cc c (.err x)) : Eval lib cp p (.err x) := by
  cases d with
  | item hm =>
    rename_i k items
    by_cases hk : k = .list
    · subst hk; exact err_of_mem hm h
    · exact Eval.contErr hk (err_of_mem hm h)
  | dictItem hm => exact Eval.dictErr (err_of_mem hm h)
  | arg htd hm => exact Eval.callArgErr htd (err_of_mem hm h)
  | dflt htd hm => exact Eval.callDefaultErr htd (err_of_mem hm h)
  | body htd hargs hd hb => exact Eval.call htd hargs hd hb h
  | opArg hm => exact Eval.opArgErr (err_of_mem hm h)
  | opResult ha ho => exact Eval.op ha ho h
  | condTest => exact Eval.condErr h
  | condThen hc ht => exact Eval.condThen hc ht h
  | condElse hc ht => exact Eval.condElse hc ht h
  | condElif hc ht => exact Eval.condElif hc ht h
  | seqHead => exact Eval.seqErrHd h
  | seqTail hv => exact Eval.seqErrTl hv h
  | tagsArg hm => exact Eval.applyTagsErr (err_of_mem hm h)
  | joined => exact Eval.join h
  | subrun => exact Eval.subrunErr h
  | mapTask => exact Eval.mapTaskErr h
  | mapValues ha hr => exact Eval.mapValuesErr ha hr h
  | mapCallsRaw ha hr hc => exact Eval.mapRaw ha hr hc h
  | mapCallsEval ha hr hv hi hc => exact Eval.mapEval ha hr hv hi hc h

/-- a chain of demands from `root` (in its context) down to `e` (through containers, arguments, and job after job) -/
inductive Chain (lib : Lib) : Ctx → Expr → Ctx → Expr → Prop
  | refl {cx e} : Chain lib cx e cx e
  | step {c0 root cp p cc c} : Chain lib c0 root cp p → Demand lib cp p cc c → Chain lib c0 root cc c

theorem Chain.trans {lib : Lib} {ca cb cc : Ctx} {a b c : Expr} (h1 : Chain lib ca a cb b) (h2 : Chain lib cb b cc c) :
    Chain lib ca a cc c := by
  induction h2 with
  | refl => exact h1
  | step _ d ih => exact Chain.step ih d

/-- C12 (propagation, full strength for the modelled forms): an error of a sub-evaluation that the root demands
through any depth of containers, arguments, operators, control forms and jobs — with no `catch` / `catch_all`
in between — is an outcome of the root: `run` raises it (same class, same message). -/
theorem propagates {lib : Lib} {c0 ce : Ctx} {root e : Expr} {x : Err} (c : Chain lib c0 root ce e)
    (h : Eval lib ce e (.err x)) : Eval lib c0 root (.err x) := by
  induction c with
  | refl => exact h
  | step _ d ih => exact ih (d.propagates h)

/-- ... and every expression on the way (in particular every ancestor job, a `.call`) fails with that same error. -/
theorem ancestors_fail {lib : Lib} {c0 cm ce : Ctx} {root m e : Expr} {x : Err} (_ : Chain lib c0 root cm m)
    (c2 : Chain lib cm m ce e) (h : Eval lib ce e (.err x)) : Eval lib cm m (.err x) :=
  propagates c2 h

/-- the failing job itself: a task body that raises makes the call fail with that error -/
theorem raising_body_fails {lib : Lib} {t : String} {args : List Expr} {kwn ovn : List String} {kwv ovv akv dvs : List Expr}
    {td : TaskDef} {x : Err} (htd : lib.task t = some td)
    (hargs : Eval lib cx (L (args ++ kwv)) (.ok (L akv)))
    (hd : Eval lib (cx.override ovn ovv) (L ((argDefaults td.params args.length kwn).map Prod.snd)) (.ok (L dvs)))
    (hb : td.body (akv.take args.length) ((argDefaults td.params args.length kwn).map Prod.fst ++ kwn)
        (dvs ++ akv.drop args.length) = .err x) :
    Eval lib cx (.call t args kwn kwv ovn ovv) (.err x) :=
  Eval.callRaise htd hargs hd hb

/-! ### a demanded failure is not swallowed (structural frames) -/

/-- all outcomes of `e` are errors -/
def OnlyFails (lib : Lib) (cx : Ctx) (e : Expr) : Prop := ∀ r, Eval lib cx e r → ∃ x, r = .err x

theorem list_ok_elems {lib : Lib} : ∀ {es vs : List Expr}, Eval lib cx (L es) (.ok (L vs)) →
    ∀ e ∈ es, ∃ v, Eval lib cx e (.ok v) := by
  intro es
  induction es with
  | nil => intro vs _ e he; cases he
  | cons y ys ih =>
    intro vs h e he
    cases h with
    | leaf h => simp [isLeaf] at h
    | cons h1 h2 =>
      rcases List.mem_cons.mp he with rfl | he
      · exact ⟨_, h1⟩
      · exact ih h2 e he
    | cont hk _ _ => exact absurd rfl hk

theorem not_swallowed_list {lib : Lib} {es : List Expr} {e : Expr} (hm : e ∈ es) (hf : OnlyFails lib cx e) :
    OnlyFails lib cx (L es) := by
  intro r h
  cases r with
  | err x => exact ⟨x, rfl⟩
  | unk => exact absurd rfl h.ne_unk
  | ok v =>
    have hv := result_isValue h v rfl
    cases v with
    | cont k vs =>
      cases h with
      | leaf h => simp [isLeaf] at h
      | nil => cases hm
      | cons h1 h2 =>
        obtain ⟨w, hw⟩ := list_ok_elems (Eval.cons h1 h2) e hm
        obtain ⟨x, hx⟩ := hf _ hw
        cases hx
      | cont hk _ _ => exact absurd rfl hk
    | _ => cases h <;> simp_all [isLeaf]

/-- a failing argument or keyword argument makes the call fail (it never returns a value) -/
theorem not_swallowed_call {lib : Lib} {t : String} {args : List Expr} {kwn ovn : List String} {kwv ovv : List Expr}
    {td : TaskDef} {c : Expr} (htd : lib.task t = some td)
    (hm : c ∈ args ++ kwv) (hf : OnlyFails lib cx c) :
    OnlyFails lib cx (.call t args kwn kwv ovn ovv) := by
  intro r h
  cases h with
  | leaf h => simp [isLeaf] at h
  | call htd' h1 _ _ _ =>
    obtain ⟨x, hx⟩ := not_swallowed_list hm hf _ h1
    cases hx
  | callRaise htd' h1 _ _ =>
    obtain ⟨x, hx⟩ := not_swallowed_list hm hf _ h1
    cases hx
  | callArgErr _ _ => exact ⟨_, rfl⟩
  | callDefaultErr _ _ => exact ⟨_, rfl⟩

/-- ... and so does a failing unspecified default (evaluated in the job's own context) -/
theorem not_swallowed_default {lib : Lib} {t : String} {args : List Expr} {kwn ovn : List String} {kwv ovv : List Expr}
    {td : TaskDef} {c : Expr} (htd : lib.task t = some td)
    (hm : c ∈ (argDefaults td.params args.length kwn).map Prod.snd) (hf : OnlyFails lib (cx.override ovn ovv) c) :
    OnlyFails lib cx (.call t args kwn kwv ovn ovv) := by
  intro r h
  cases h with
  | leaf h => simp [isLeaf] at h
  | call htd' _ h2 _ _ =>
    rw [htd] at htd'; cases htd'
    obtain ⟨x, hx⟩ := not_swallowed_list hm hf _ h2
    cases hx
  | callRaise htd' _ h2 _ =>
    rw [htd] at htd'; cases htd'
    obtain ⟨x, hx⟩ := not_swallowed_list hm hf _ h2
    cases hx
  | callArgErr _ _ => exact ⟨_, rfl⟩
  | callDefaultErr _ _ => exact ⟨_, rfl⟩

/-! ### no replay of failures: the lookup decision -/
open RedunModel.CacheLookup

/-- `_get_cache` uses an `ErrorValue` only when the answer came from the same-execution (CSE) query -/
theorem error_only_from_cse (ct : CacheResult) (valid : Bool) (h : getCache ct true valid = true) : ct = .cse := by
  cases ct <;> simp [getCache] at h ⊢

/-- a CSE answer needs a recorded job of the same execution with the same task and arguments -/
theorem cse_needs_same_execution (s : Scope) (cv : CheckValid) (al : Allowed) (f : Facts) (e : Option Bool)
    (h : checkCache s cv al f = (.cse, e)) : f.cse.isSome = true := by
  unfold checkCache at h
  by_cases hs : s = .none
  · simp [hs] at h
  · simp only [hs, if_false] at h
    by_cases ha : al.cse = true
    · simp only [ha, if_true] at h
      cases hc : f.cse with
      | some b => rfl
      | none =>
        rw [hc] at h
        simp only at h
        split at h
        · cases h
        · split at h
          · split at h <;> cases h
          · cases h
    · simp only [ha] at h
      simp only [Bool.false_eq_true, if_false] at h
      split at h
      · cases h
      · split at h
        · split at h <;> cases h
        · cases h

/-- In an execution in which no job with this task and arguments has been recorded yet (in particular: the first
time a call is reached in a *later* execution), whatever the backend holds, whatever the cache options, a lookup that
finds an error does not make the job cached: `_exec_job_main_thread` goes on to submit it and the task runs again. -/
theorem not_replayed (s : Scope) (cv : CheckValid) (al : Allowed) (f : Facts) (valid : Bool) (hc : f.cse = none) :
    (checkCache s cv al f).2 = some true → getCache (checkCache s cv al f).1 true valid = false := by
  intro h
  cases hct : (checkCache s cv al f).1 with
  | cse =>
    have := cse_needs_same_execution s cv al f (checkCache s cv al f).2 (by rw [← hct])
    simp [hc] at this
  | single => simp [getCache]
  | ultimate => simp [getCache]
  | miss => simp [getCache]

/-- the same for async tasks, whose options `_get_cache` adjusts first -/
theorem not_replayed_async (isAsync : Bool) (s : Scope) (cv : CheckValid) (al : Allowed) (f : Facts) (valid : Bool)
    (hc : f.cse = none) :
    (checkCache s (asyncAdjust isAsync s cv al).1 (asyncAdjust isAsync s cv al).2 f).2 = some true →
    getCache (checkCache s (asyncAdjust isAsync s cv al).1 (asyncAdjust isAsync s cv al).2 f).1 true valid = false :=
  not_replayed s _ _ f valid hc

/-! Non-vacuity. -/
open RedunModel.EvalLib

/-- `add(inc(fail_after(2, "S")))`: the raising leaf is three jobs below `fail_after(2, "S")`. -/
def exRoot : Expr := tcall "ev.add" [tcall "ev.inc" [tcall "ev.fail_after" [.int 2, .str "S"]]]
def exLeaf : Expr := tcall "ev.raiser" [.str "S", .str "deep"]

example : Eval lib Ctx.empty exLeaf (.err ⟨"LibSubError", "S-deep"⟩) := evalFuel_sound (n := 10) (by rfl)

def exFail (n : Int) : Expr := tcall "ev.fail_after" [.int n, .str "S"]

theorem exChain : Chain lib Ctx.empty exRoot Ctx.empty exLeaf := by
  have hov : Ctx.empty.override [] [] = Ctx.empty := rfl
  have a2 : ∀ n : Int, Eval lib Ctx.empty (L ([.int n, .str "S"] ++ [])) (.ok (L [.int n, .str "S"])) :=
    fun n => Eval.cons (Eval.leaf rfl) (Eval.cons (Eval.leaf rfl) Eval.nil)
  have c1 : Chain lib Ctx.empty exRoot Ctx.empty (tcall "ev.inc" [exFail 2]) :=
    Chain.step Chain.refl (Demand.arg (td := (libTask "ev.add").get (by rfl)) (by rfl) (by simp [exFail]))
  have c2 : Chain lib Ctx.empty exRoot Ctx.empty (exFail 2) :=
    Chain.step c1 (Demand.arg (td := (libTask "ev.inc").get (by rfl)) (by rfl) (by simp [exFail]))
  have c3 : Chain lib Ctx.empty exRoot Ctx.empty (exFail 1) :=
    Chain.step c2 (hov ▸ Demand.body (td := (libTask "ev.fail_after").get (by rfl)) (dvs := []) (by rfl) (a2 2) Eval.nil (by rfl))
  have c4 : Chain lib Ctx.empty exRoot Ctx.empty (exFail 0) :=
    Chain.step c3 (hov ▸ Demand.body (td := (libTask "ev.fail_after").get (by rfl)) (dvs := []) (by rfl) (a2 1) Eval.nil (by rfl))
  exact Chain.step c4 (hov ▸ Demand.body (td := (libTask "ev.fail_after").get (by rfl)) (dvs := []) (by rfl) (a2 0) Eval.nil (by rfl))

/-- the root raises the leaf's error, and so does the ancestor job `fail_after(1, "S")` -/
example : Eval lib Ctx.empty exRoot (.err ⟨"LibSubError", "S-deep"⟩) :=
  propagates exChain (evalFuel_sound (n := 10) (by rfl))

example : evalFuel lib 30 Ctx.empty exRoot = some (.err ⟨"LibSubError", "S-deep"⟩) := by rfl

example : checkCache .backend .full Allowed.all ⟨none, some true, none⟩ = (.miss, none) := by decide
example : checkCache .backend .shallow Allowed.all ⟨none, some true, none⟩ = (.ultimate, some true) := by decide
example : getCache .ultimate true true = false := by decide
example : getCache .cse true true = true := by decide

end RedunModel.C12
