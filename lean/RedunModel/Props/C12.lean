/-
C12 — Failures propagate and are never replayed from the cache.

Part 1 (propagation), on `Model/EvalCore`: `Demand` is "the parent evaluation evaluates the child with nothing
in between that could catch" (container element, argument / keyword argument / unspecified default of a task
call, operator argument and result, the expression a task body returned — the job/child-job edge —, the
selected `cond` branch, `seq` elements in order, `apply_tags` arguments, a joined thread, `subrun`, `map_`).
`propagates`: along any chain of demands, an error of the innermost evaluation is an outcome of the root
(same class, same message); `ancestors_fail`: every expression on the chain — every ancestor job — fails
with it; `raising_body_fails`: the failing job itself.  Full strength for the modelled forms.
`not_swallowed_*`: a demanded failure cannot turn into a value (for the purely structural frames).

Part 2 (no replay), on `Model/CacheLookup` (decision logic of `check_cache` + `_get_cache`):
`error_only_from_cse`, `cse_needs_same_execution`, `not_replayed` — an `ErrorValue` is used only when the
same-execution (CSE) query answered, which requires a job of the *same execution*; in a later execution
no lookup makes a job cached with an error, so the task function runs again.  Full strength (finite table).
-/
import RedunModel.Lemmas.EvalCore
import RedunModel.Model.EvalLib
import RedunModel.Model.CacheLookup
namespace RedunModel.C12
open RedunModel.EvalCore

theorem err_of_mem {lib : Lib} {x : Err} : ∀ {es : List Expr} {e : Expr}, e ∈ es → Eval lib e (.err x) → Eval lib (L es) (.err x) := by
  intro es
  induction es with
  | nil => intro e h; cases h
  | cons y ys ih =>
    intro e h he
    rcases List.mem_cons.mp h with rfl | h
    · exact Eval.consErrHd he
    · exact Eval.consErrTl (ih h he)

/-- `Demand lib p c`: evaluating `p` evaluates `c`, and nothing between them can catch: `c` is an element of the
container / argument list / operator arguments of `p`, or the expression a task body (job `p`) returned, or the
branch `p` selects, ... -/
inductive Demand (lib : Lib) : Expr → Expr → Prop
  | item {k items c} : c ∈ items → Demand lib (.cont k items) c
  | dictItem {ks vs c} : c ∈ ks ++ vs → Demand lib (.dict ks vs) c
  /-- an argument, keyword argument or unspecified default of a task call -/
  | arg {t args kwn kwv td c} : lib.task t = some td →
      c ∈ args ++ kwv ++ (argDefaults td.params args.length kwn).map Prod.snd → Demand lib (.call t args kwn kwv) c
  /-- the expression returned by the task body: `p` is the job, `c` is evaluated as its child -/
  | body {t args kwn kwv td all c} : lib.task t = some td →
      Eval lib (L (args ++ kwv ++ (argDefaults td.params args.length kwn).map Prod.snd)) (.ok (L all)) →
      td.body (all.take args.length) ((argDefaults td.params args.length kwn).map Prod.fst ++ kwn)
        (all.drop (args.length + kwv.length) ++ (all.drop args.length).take kwv.length) = .ok c →
      Demand lib (.call t args kwn kwv) c
  | opArg {name args c} : c ∈ args → Demand lib (.op name args) c
  | opResult {name args vs c} : Eval lib (L args) (.ok (L vs)) → applyOp lib name vs = .ok c → Demand lib (.op name args) c
  | condTest {c t rest} : Demand lib (.cond (c :: t :: rest)) c
  | condThen {c t rest cv} : Eval lib c (.ok cv) → truthy cv = true → Demand lib (.cond (c :: t :: rest)) t
  | condElse {c t e cv} : Eval lib c (.ok cv) → truthy cv = false → Demand lib (.cond [c, t, e]) e
  | condElif {c t c2 t2 rest cv} : Eval lib c (.ok cv) → truthy cv = false →
      Demand lib (.cond (c :: t :: c2 :: t2 :: rest)) (.cond (c2 :: t2 :: rest))
  | seqHead {e es} : Demand lib (.seq (e :: es)) e
  | seqTail {e es v} : Eval lib e (.ok v) → Demand lib (.seq (e :: es)) (.seq es)
  | tagsArg {v t j e c} : c ∈ [v, t, j, e] → Demand lib (.applyTags v t j e) c
  | joined {e} : Demand lib (.join (.threadv e)) e
  | subrun {e ne} : Demand lib (.subrun e ne) e
  | mapTask {f values} : Demand lib (.map_ f values) (mapTask (mapFuse [f] values).1)
  | mapValues {f values av} : Eval lib (mapTask (mapFuse [f] values).1) (.ok av) →
      rawSeq (mapFuse [f] values).2 = none → Demand lib (.map_ f values) (mapFuse [f] values).2
  | mapCallsRaw {f values av items c} : Eval lib (mapTask (mapFuse [f] values).1) (.ok av) →
      rawSeq (mapFuse [f] values).2 = some items → mapCalls lib av items = .ok c → Demand lib (.map_ f values) c
  | mapCallsEval {f values av vv items c} : Eval lib (mapTask (mapFuse [f] values).1) (.ok av) →
      rawSeq (mapFuse [f] values).2 = none → Eval lib (mapFuse [f] values).2 (.ok vv) →
      iterOf vv = .ok (L items) → mapCalls lib av items = .ok c → Demand lib (.map_ f values) c

/-- one step: an error of a demanded sub-evaluation is an error of the demanding expression -/
theorem Demand.propagates {lib : Lib} {p c : Expr} {x : Err} (d : Demand lib p c) (h : Eval lib c (.err x)) :
    Eval lib p (.err x) := by
  cases d with
  | item hm =>
    rename_i k items
    by_cases hk : k = .list
    · subst hk; exact err_of_mem hm h
    · exact Eval.contErr hk (err_of_mem hm h)
  | dictItem hm => exact Eval.dictErr (err_of_mem hm h)
  | arg htd hm => exact Eval.callArgErr htd (err_of_mem hm h)
  | body htd hargs hb => exact Eval.call htd hargs hb h
  | opArg hm => exact Eval.opArgErr (err_of_mem hm h)
  | opResult ha ho => exact Eval.op ha ho h
  | condTest => exact Eval.condErr h
  | condThen hc ht => exact Eval.condThen hc ht h
  | condElse hc ht => exact Eval.condElse hc ht h
  | condElif hc ht => exact Eval.condElif hc ht h
  | seqHead => exact Eval.seqErrHd h
  | seqTail hv => exact Eval.seqErrTl hv h
  | tagsArg hm => exact Eval.applyTagsErr (err_of_mem hm h)
  | joined => exact Eval.join h
  | subrun => exact Eval.subrunErr h
  | mapTask => exact Eval.mapTaskErr h
  | mapValues ha hr => exact Eval.mapValuesErr ha hr h
  | mapCallsRaw ha hr hc => exact Eval.mapRaw ha hr hc h
  | mapCallsEval ha hr hv hi hc => exact Eval.mapEval ha hr hv hi hc h

/-- a chain of demands from `root` down to `e` (through containers, arguments, and job after job) -/
inductive Chain (lib : Lib) : Expr → Expr → Prop
  | refl {e} : Chain lib e e
  | step {root p c} : Chain lib root p → Demand lib p c → Chain lib root c

theorem Chain.trans {lib : Lib} {a b c : Expr} (h1 : Chain lib a b) (h2 : Chain lib b c) : Chain lib a c := by
  induction h2 with
  | refl => exact h1
  | step _ d ih => exact Chain.step ih d

/-- C12 (propagation, full strength for the modelled forms): an error of a sub-evaluation that the root demands
through any depth of containers, arguments, operators, control forms and jobs — with no `catch` / `catch_all`
in between — is an outcome of the root: `run` raises it (same class, same message). -/
theorem propagates {lib : Lib} {root e : Expr} {x : Err} (c : Chain lib root e) (h : Eval lib e (.err x)) :
    Eval lib root (.err x) := by
  induction c with
  | refl => exact h
  | step _ d ih => exact ih (d.propagates h)

/-- ... and every expression on the way (in particular every ancestor job, a `.call`) fails with that same error. -/
theorem ancestors_fail {lib : Lib} {root m e : Expr} {x : Err} (_ : Chain lib root m) (c2 : Chain lib m e)
    (h : Eval lib e (.err x)) : Eval lib m (.err x) :=
  propagates c2 h

/-- the failing job itself: a task body that raises makes the call fail with that error -/
theorem raising_body_fails {lib : Lib} {t : String} {args : List Expr} {kwn : List String} {kwv all : List Expr}
    {td : TaskDef} {x : Err} (htd : lib.task t = some td)
    (hargs : Eval lib (L (args ++ kwv ++ (argDefaults td.params args.length kwn).map Prod.snd)) (.ok (L all)))
    (hb : td.body (all.take args.length) ((argDefaults td.params args.length kwn).map Prod.fst ++ kwn)
        (all.drop (args.length + kwv.length) ++ (all.drop args.length).take kwv.length) = .err x) :
    Eval lib (.call t args kwn kwv) (.err x) :=
  Eval.callRaise htd hargs hb


/-! ### a demanded failure is not swallowed (structural frames) -/

/-- all outcomes of `e` are errors -/
def OnlyFails (lib : Lib) (e : Expr) : Prop := ∀ r, Eval lib e r → ∃ x, r = .err x

theorem list_ok_elems {lib : Lib} : ∀ {es vs : List Expr}, Eval lib (L es) (.ok (L vs)) →
    ∀ e ∈ es, ∃ v, Eval lib e (.ok v) := by
  intro es
  induction es with
  | nil => intro vs _ e he; cases he
  | cons y ys ih =>
    intro vs h e he
    cases h with
    | leaf h => simp [isLeaf] at h
    | cons h1 h2 =>
      rcases List.mem_cons.mp he with rfl | he
      · exact ⟨_, h1⟩
      · exact ih h2 e he
    | cont hk _ _ => exact absurd rfl hk

theorem not_swallowed_list {lib : Lib} {es : List Expr} {e : Expr} (hm : e ∈ es) (hf : OnlyFails lib e) :
    OnlyFails lib (L es) := by
  intro r h
  cases r with
  | err x => exact ⟨x, rfl⟩
  | unk => exact absurd rfl h.ne_unk
  | ok v =>
    have hv := result_isValue h v rfl
    cases v with
    | cont k vs =>
      cases h with
      | leaf h => simp [isLeaf] at h
      | nil => cases hm
      | cons h1 h2 =>
        obtain ⟨w, hw⟩ := list_ok_elems (Eval.cons h1 h2) e hm
        obtain ⟨x, hx⟩ := hf _ hw
        cases hx
      | cont hk _ _ => exact absurd rfl hk
    | _ => cases h <;> simp_all [isLeaf]

/-- a failing argument, keyword argument or default makes the call fail (it never returns a value) -/
theorem not_swallowed_call {lib : Lib} {t : String} {args : List Expr} {kwn : List String} {kwv : List Expr}
    {td : TaskDef} {c : Expr} (htd : lib.task t = some td)
    (hm : c ∈ args ++ kwv ++ (argDefaults td.params args.length kwn).map Prod.snd) (hf : OnlyFails lib c) :
    OnlyFails lib (.call t args kwn kwv) := by
  intro r h
  cases h with
  | leaf h => simp [isLeaf] at h
  | call htd' h1 _ _ =>
    rw [htd] at htd'; cases htd'
    obtain ⟨x, hx⟩ := not_swallowed_list hm hf _ h1
    cases hx
  | callRaise _ _ _ => exact ⟨_, rfl⟩
  | callArgErr _ _ => exact ⟨_, rfl⟩

/-! ### no replay of failures: the lookup decision -/
open RedunModel.CacheLookup

/-- `_get_cache` uses an `ErrorValue` only when the answer came from the same-execution (CSE) query -/
theorem error_only_from_cse (ct : CacheResult) (valid : Bool) (h : getCache ct true valid = true) : ct = .cse := by
  cases ct <;> simp [getCache] at h ⊢

/-- a CSE answer needs a recorded job of the same execution with the same task and arguments -/
theorem cse_needs_same_execution (s : Scope) (cv : CheckValid) (al : Allowed) (f : Facts) (e : Option Bool)
    (h : checkCache s cv al f = (.cse, e)) : f.cse.isSome = true := by
  unfold checkCache at h
  by_cases hs : s = .none
  · simp [hs] at h
  · simp only [hs, if_false] at h
    by_cases ha : al.cse = true
    · simp only [ha, if_true] at h
      cases hc : f.cse with
      | some b => rfl
      | none =>
        rw [hc] at h
        simp only at h
        split at h
        · cases h
        · split at h
          · split at h <;> cases h
          · cases h
    · simp only [ha] at h
      simp only [Bool.false_eq_true, if_false] at h
      split at h
      · cases h
      · split at h
        · split at h <;> cases h
        · cases h

/-- In an execution in which no job with this task and arguments has been recorded yet (in particular: the first
time a call is reached in a *later* execution), whatever the backend holds, whatever the cache options, a lookup that
finds an error does not make the job cached: `_exec_job_main_thread` goes on to submit it and the task runs again. -/
theorem not_replayed (s : Scope) (cv : CheckValid) (al : Allowed) (f : Facts) (valid : Bool) (hc : f.cse = none) :
    (checkCache s cv al f).2 = some true → getCache (checkCache s cv al f).1 true valid = false := by
  intro h
  cases hct : (checkCache s cv al f).1 with
  | cse =>
    have := cse_needs_same_execution s cv al f (checkCache s cv al f).2 (by rw [← hct])
    simp [hc] at this
  | single => simp [getCache]
  | ultimate => simp [getCache]
  | miss => simp [getCache]

/-- the same for async tasks, whose options `_get_cache` adjusts first -/
theorem not_replayed_async (isAsync : Bool) (s : Scope) (cv : CheckValid) (al : Allowed) (f : Facts) (valid : Bool)
    (hc : f.cse = none) :
    (checkCache s (asyncAdjust isAsync s cv al).1 (asyncAdjust isAsync s cv al).2 f).2 = some true →
    getCache (checkCache s (asyncAdjust isAsync s cv al).1 (asyncAdjust isAsync s cv al).2 f).1 true valid = false :=
  not_replayed s _ _ f valid hc

/-! Non-vacuity. -/
open RedunModel.EvalLib

/-- `add(inc(fail_after(2, "S")))`: the raising leaf is three jobs below `fail_after(2, "S")`. -/
def exRoot : Expr := tcall "ev.add" [tcall "ev.inc" [tcall "ev.fail_after" [.int 2, .str "S"]]]
def exLeaf : Expr := tcall "ev.raiser" [.str "S", .str "deep"]

example : Eval lib exLeaf (.err ⟨"LibSubError", "S-deep"⟩) := evalFuel_sound (n := 10) (by rfl)

def exFail (n : Int) : Expr := tcall "ev.fail_after" [.int n, .str "S"]

theorem exChain : Chain lib exRoot exLeaf := by
  have a2 : ∀ n : Int, Eval lib (L ([.int n, .str "S"] ++ [] ++ [])) (.ok (L [.int n, .str "S"])) :=
    fun n => Eval.cons (Eval.leaf rfl) (Eval.cons (Eval.leaf rfl) Eval.nil)
  have c1 : Chain lib exRoot (tcall "ev.inc" [exFail 2]) :=
    Chain.step Chain.refl (Demand.arg (td := (libTask "ev.add").get (by rfl)) (by rfl) (by simp [exFail]))
  have c2 : Chain lib exRoot (exFail 2) :=
    Chain.step c1 (Demand.arg (td := (libTask "ev.inc").get (by rfl)) (by rfl) (by simp [exFail]))
  have c3 : Chain lib exRoot (exFail 1) :=
    Chain.step c2 (Demand.body (td := (libTask "ev.fail_after").get (by rfl)) (by rfl) (a2 2) (by rfl))
  have c4 : Chain lib exRoot (exFail 0) :=
    Chain.step c3 (Demand.body (td := (libTask "ev.fail_after").get (by rfl)) (by rfl) (a2 1) (by rfl))
  exact Chain.step c4 (Demand.body (td := (libTask "ev.fail_after").get (by rfl)) (by rfl) (a2 0) (by rfl))

/-- the root raises the leaf's error, and so does the ancestor job `fail_after(1, "S")` -/
example : Eval lib exRoot (.err ⟨"LibSubError", "S-deep"⟩) :=
  propagates exChain (evalFuel_sound (n := 10) (by rfl))

example : evalFuel lib 30 exRoot = some (.err ⟨"LibSubError", "S-deep"⟩) := by rfl

example : checkCache .backend .full Allowed.all ⟨none, some true, none⟩ = (.miss, none) := by decide
example : checkCache .backend .shallow Allowed.all ⟨none, some true, none⟩ = (.ultimate, some true) := by decide
example : getCache .ultimate true true = false := by decide
example : getCache .cse true true = true := by decide

end RedunModel.C12
