/-
C28 — Dry runs execute nothing and predict the real run.

Model: `RedunModel.Model.SchedCore` with `dryrun = true` (`_exec_job_main_thread` returns before
`executor.submit`, consumes no limits; the loop ends when the queue is empty).
-/
import RedunModel.Lemmas.SchedDry
import RedunModel.Lemmas.SchedDryConv
namespace RedunModel.C28
open RedunModel.SchedCore

/-- A dry run never hands a job to an executor (so no task function is called), for every program and
every state it can reach. -/
theorem no_submit (p : Prog) (hd : p.dryrun = true) (s : S) (h : Reachable p s) : s.submits = [] :=
  (reachable_dry p hd s h).sub

theorem nothing_in_flight (p : Prog) (hd : p.dryrun = true) (s : S) (h : Reachable p s) (j : JobId) :
    s.inflight j = false := (reachable_dry p hd s h).infl j

/-- …and never consumes a resource unit. -/
theorem consumes_nothing (p : Prog) (hd : p.dryrun = true) (s : S) (h : Reachable p s) (j : JobId) :
    s.holds j = false := ((reachable_inv p s h).core.dry hd).2 j

theorem dryInv_popN (p : Prog) (hd : p.dryrun = true) (n : Nat) (s : S) (h : DryInv s) : DryInv (popN p n s) := by
  induction n generalizing s with
  | zero => exact h
  | succ n ih => simp only [popN]; exact ih _ (pop_dry p hd s h)

/-- PARTIAL prediction theorem (lock-step): if during the first `n` events of the dry run every job is
served by a pending twin or by the cache (no job reaches the "would run" exit), then the real run on the
same backend state goes through exactly the same `n` states — same results, same settled/finished
flags — and submits nothing.  Missing for the full statement: that a dry run whose root settles had no
miss at all (liveness of the promise bookkeeping), and the converse for incomplete dry runs; both are
covered by the correspondence and the dry-then-real oracle. -/
theorem complete_predicts_partial (p : Prog) (n : Nat)
    (hno : ∀ k, k < n → missAtHead p (popN (asDry p) k init) = false) :
    popN p n init = popN (asDry p) n init ∧ (popN p n init).submits = [] := by
  have h1 := dry_real_lockstep p n init hno
  refine ⟨h1, ?_⟩
  rw [h1]
  exact (dryInv_popN (asDry p) rfl n init ⟨rfl, fun _ => rfl⟩).sub

/-! non-vacuity: a fully cached two-level program; the dry run completes in 7 events without a miss -/
def cachedProg : Prog :=
  { specs := [ { key := 0, ctx := 0, limits := [], scope := .backend, cseOk := true, prov := true, execOk := true,
                 fails := false, pre := .single, children := [1, 2] },
               { key := 1, ctx := 0, limits := [(0, 1)], scope := .backend, cseOk := true, prov := true, execOk := true,
                 fails := false, pre := .single, children := [] },
               { key := 2, ctx := 0, limits := [], scope := .backend, cseOk := true, prov := true, execOk := true,
                 fails := false, pre := .ultimate, children := [] } ],
    limit := fun _ => 1, dryrun := false }

example : ∀ k, k < 9 → missAtHead cachedProg (popN (asDry cachedProg) k init) = false := by decide
example : (popN (asDry cachedProg) 9 init).finished = true := by decide
/-- and a program with an uncached job: the dry run stops at the miss, nothing is submitted -/
def uncachedProg : Prog :=
  { specs := [ { key := 0, ctx := 0, limits := [], scope := .backend, cseOk := true, prov := true, execOk := true,
                 fails := false, pre := .miss, children := [] } ], limit := fun _ => 1, dryrun := false }

example : (popN (asDry uncachedProg) 3 init).queue = [] ∧ (popN (asDry uncachedProg) 3 init).finished = false := by decide


/-! ### the full prediction theorem -/

/-- FULL prediction theorem for completed dry runs: if the dry run (started from the same backend state
as the real run) has its root job RESOLVED after `n` events (and had not finished earlier), then no job
of the dry run took the "would run" exit (a job that misses stays pending or is rejected, and so does every
ancestor up to the root), hence the real run goes through exactly the same `n` states — same results,
resolved root, finished flag — and submits nothing. -/
theorem complete_predicts (p : Prog) (n : Nat)
    (hfin : ∀ k, k < n → (popN (asDry p) k init).finished = false)
    (hres : ((popN (asDry p) n init).jobs 0).status = Status.resolved) :
    popN p n init = popN (asDry p) n init ∧ (popN p n init).submits = [] ∧
      ((popN p n init).jobs 0).status = Status.resolved :=
  have h := complete_predicts_partial p n (no_miss_of_root_resolved (asDry p) rfl n hfin hres)
  ⟨h.1, h.2, by rw [h.1]; exact hres⟩

/-- the dry-run fact behind it -/
theorem resolved_root_had_no_miss (p : Prog) (hd : p.dryrun = true) (n : Nat)
    (hfin : ∀ k, k < n → (popN p k init).finished = false)
    (hres : ((popN p n init).jobs 0).status = Status.resolved) :
    ∀ k, k < n → missAtHead p (popN p k init) = false :=
  no_miss_of_root_resolved p hd n hfin hres

/-! non-vacuity of `complete_predicts`: the fully cached program resolves its root at event 9 -/
example : (∀ k, k < 9 → (popN (asDry cachedProg) k init).finished = false) ∧
    ((popN (asDry cachedProg) 9 init).jobs 0).status = Status.resolved := by decide
example : (popN cachedProg 9 init).submits = [] ∧ ((popN cachedProg 9 init).jobs 0).status = Status.resolved :=
  let h := complete_predicts cachedProg 9 (by decide) (by decide)
  ⟨h.2.1, h.2.2⟩
/-- and the hypothesis is not always true: with an uncached job the dry run's root never resolves -/
example : ((popN (asDry uncachedProg) 3 init).jobs 0).status = Status.pending := by decide

/-! ### the converse: a dry run that stops predicts a real run that executes something -/

/-- CONVERSE prediction theorem.  Suppose the dry run serves its first `n` events from twins and the cache
and its next event is the execution of a job `j` that misses both and has an executor (the point where
`_exec_job_main_thread` takes the "would run" exit).  Then the real run on the same backend state, with
feasible limits, goes through the same `n` states and at that very event hands `j` to its executor. -/
theorem incomplete_predicts (p : Prog) (hd : p.dryrun = false) (hf : Feasible p) (n : Nat)
    (hfin : ∀ k, k < n → (popN (asDry p) k init).finished = false)
    (hno : ∀ k, k < n → missAtHead p (popN (asDry p) k init) = false)
    (j : JobId) (rest : List Ev) (hq : (popN (asDry p) n init).queue = Ev.exec j :: rest)
    (hm : missAtHead p (popN (asDry p) n init) = true)
    (he : (spec p (popN (asDry p) n init) j).execOk = true) :
    popN p n init = popN (asDry p) n init ∧ (popN p (n + 1) init).submits = [j] ∧
      (popN p (n + 1) init).inflight j = true := by
  have h1 := dry_real_lockstep p n init hno
  have hr : Reachable (asDry p) (popN (asDry p) n init) := reachable_popN (asDry p) n hfin
  have hi := reachable_inv (asDry p) _ hr
  have hh := (hi.core.dry rfl).2
  have hu := used_zero_of_no_holder (asDry p) _ hi hh
  have hsub := (reachable_dry (asDry p) rfl _ hr).sub
  have := miss_submits p hd hf (popN (asDry p) n init) hu j rest hq hm he
  refine ⟨h1, ?_, ?_⟩
  · rw [popN_succ, h1, this.1, hsub]
    rfl
  · rw [popN_succ, h1]
    exact this.2

/-- …and so does EVERY real run (whatever the executors do): a reachable state of the real run is one of
those first `n + 1` common states, or at least one job has been handed to an executor. -/
theorem incomplete_every_run (p : Prog) (hd : p.dryrun = false) (hf : Feasible p) (n : Nat)
    (hfin : ∀ k, k < n → (popN (asDry p) k init).finished = false)
    (hno : ∀ k, k < n → missAtHead p (popN (asDry p) k init) = false)
    (j : JobId) (rest : List Ev) (hq : (popN (asDry p) n init).queue = Ev.exec j :: rest)
    (hm : missAtHead p (popN (asDry p) n init) = true)
    (he : (spec p (popN (asDry p) n init) j).execOk = true)
    (t : S) (ht : Reachable p t) : (∃ k, k ≤ n ∧ t = popN p k init) ∨ t.submits ≠ [] := by
  have hmain := incomplete_predicts p hd hf n hfin hno j rest hq hm he
  induction ht with
  | init => exact Or.inl ⟨0, Nat.zero_le _, rfl⟩
  | step hr hs ih =>
    rcases ih with ⟨k, hk, rfl⟩ | hne
    · have hlock : popN p k init = popN (asDry p) k init :=
        dry_real_lockstep p k init (fun i hi => hno i (Nat.lt_of_lt_of_le hi hk))
      cases hs with
      | pop _ _ =>
        rw [← popN_succ]
        by_cases hkn : k < n
        · exact Or.inl ⟨k + 1, hkn, rfl⟩
        · have : k = n := Nat.le_antisymm hk (Nat.le_of_not_lt hkn)
          subst this
          refine Or.inr ?_
          rw [hmain.2.1]
          simp
      | complete i _ hinf =>
        rw [hlock] at hinf
        have := (dryInv_popN (asDry p) rfl k init ⟨rfl, fun _ => rfl⟩).infl i
        rw [this] at hinf
        exact absurd hinf (by simp)
    · exact Or.inr (step_sub_ne p _ _ hs hne)

/-! non-vacuity: `uncachedProg` misses at its first event; the real run submits job 0 there -/
example : (popN uncachedProg 1 init).submits = [0] :=
  (incomplete_predicts uncachedProg rfl (by intro i r; rcases i with _ | i <;> exact Nat.zero_le _) 0
    (by intro k hk; omega) (by intro k hk; omega) 0 [] rfl (by decide) (by decide)).2.1

end RedunModel.C28
