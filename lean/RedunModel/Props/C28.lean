/-
C28 — Dry runs execute nothing and predict the real run.

Model: `RedunModel.Model.SchedCore` with `dryrun = true` (`_exec_job_main_thread` returns before
`executor.submit`, consumes no limits; the loop ends when the queue is empty).
-/
import RedunModel.Lemmas.SchedCse
namespace RedunModel.C28
open RedunModel.SchedCore

/-- A dry run never hands a job to an executor (so no task function is called), for every program and
every state it can reach. -/
theorem no_submit (p : Prog) (hd : p.dryrun = true) (s : S) (h : Reachable p s) : s.submits = [] :=
  (reachable_dry p hd s h).sub

theorem nothing_in_flight (p : Prog) (hd : p.dryrun = true) (s : S) (h : Reachable p s) (j : JobId) :
    s.inflight j = false := (reachable_dry p hd s h).infl j

/-- …and never consumes a resource unit. -/
theorem consumes_nothing (p : Prog) (hd : p.dryrun = true) (s : S) (h : Reachable p s) (j : JobId) :
    s.holds j = false := ((reachable_inv p s h).core.dry hd).2 j

theorem dryInv_popN (p : Prog) (hd : p.dryrun = true) (n : Nat) (s : S) (h : DryInv s) : DryInv (popN p n s) := by
  induction n generalizing s with
  | zero => exact h
  | succ n ih => simp only [popN]; exact ih _ (pop_dry p hd s h)

/-- PARTIAL prediction theorem (lock-step): if during the first `n` events of the dry run every job is
served by a pending twin or by the cache (no job reaches the "would run" exit), then the real run on the
same backend state goes through exactly the same `n` states — same results, same settled/finished
flags — and submits nothing.  Missing for the full statement: that a dry run whose root settles had no
miss at all (liveness of the promise bookkeeping), and the converse for incomplete dry runs; both are
covered by the correspondence and the dry-then-real oracle. -/
theorem complete_predicts_partial (p : Prog) (n : Nat)
    (hno : ∀ k, k < n → missAtHead p (popN (asDry p) k init) = false) :
    popN p n init = popN (asDry p) n init ∧ (popN p n init).submits = [] := by
  have h1 := dry_real_lockstep p n init hno
  refine ⟨h1, ?_⟩
  rw [h1]
  exact (dryInv_popN (asDry p) rfl n init ⟨rfl, fun _ => rfl⟩).sub

/-! non-vacuity: a fully cached two-level program; the dry run completes in 7 events without a miss -/
def cachedProg : Prog :=
  { specs := [ { key := 0, ctx := 0, limits := [], scope := .backend, cseOk := true, prov := true, execOk := true,
                 fails := false, pre := .single, children := [1, 2] },
               { key := 1, ctx := 0, limits := [(0, 1)], scope := .backend, cseOk := true, prov := true, execOk := true,
                 fails := false, pre := .single, children := [] },
               { key := 2, ctx := 0, limits := [], scope := .backend, cseOk := true, prov := true, execOk := true,
                 fails := false, pre := .ultimate, children := [] } ],
    limit := fun _ => 1, dryrun := false }

example : ∀ k, k < 9 → missAtHead cachedProg (popN (asDry cachedProg) k init) = false := by decide
example : (popN (asDry cachedProg) 9 init).finished = true := by decide
/-- and a program with an uncached job: the dry run stops at the miss, nothing is submitted -/
def uncachedProg : Prog :=
  { specs := [ { key := 0, ctx := 0, limits := [], scope := .backend, cseOk := true, prov := true, execOk := true,
                 fails := false, pre := .miss, children := [] } ], limit := fun _ => 1, dryrun := false }

example : (popN (asDry uncachedProg) 3 init).queue = [] ∧ (popN (asDry uncachedProg) 3 init).finished = false := by decide

end RedunModel.C28
