/-
C27 — Task options follow the documented precedence.

Property theorems only; helper lemmas live in `RedunModel.Lemmas.Options`.
Model: `RedunModel.Model.Options` (`rawOptions` = `Job.get_raw_options`, `evalOptions` = the evaluated options set in
`_evaluate_apply.options_then` = `Job.get_options()`, `inherited` = the parent's `Job.get_export_options`, `forced` = the
scheduler's `job_options`, `exportsStep` = `Job.export_options`, `jobInfo` = the job at the head of an ancestor chain,
`walk` = the jobs of a tree computed top-down as the scheduler does, `mkTask`/`TaskV.options`/`TaskV.exportOptions` =
`@task`/`Task.options`/`Task.export_options`, `runTree` = `Scheduler.run` of the root call incl. the backend's
bookkeeping of parentless jobs).
`CallWF`/`InfoWF`/`WF` (unique keys) is what a Python `dict` guarantees; `constructed_calls_wf` and `jobInfo_wf` show the
hypothesis is met by everything built from dicts.  `layers`/`rightmost` are the documented precedence
(docs/source/implementation/evaluation.md): definition < exported by ancestors < call-time < scheduler-imposed.
-/
import RedunModel.Lemmas.Options
namespace RedunModel.C27
open RedunModel.Options

/-! ### 1. precedence: the effective value of every key is that of the right-most layer defining it -/

theorem foldl_or_none (k : String) (rs : List (Dict CVal)) (acc : Option CVal) (hr : ∀ r ∈ rs, r.lookup k = none) :
    List.foldl (fun acc l => (List.lookup k l).or acc) acc rs = acc := by
  induction rs generalizing acc with
  | nil => rfl
  | cons r t ih =>
    rw [List.foldl_cons, hr r List.mem_cons_self, Option.none_or]
    exact ih acc (fun x hx => hr x (List.mem_cons_of_mem _ hx))

/-- `rightmost` is what its name says: a layer that defines `k`, with no layer to its right defining `k`, wins. -/
theorem rightmost_spec (ls rs : List (Dict CVal)) (l : Dict CVal) (k : String) (v : CVal)
    (hl : l.lookup k = some v) (hr : ∀ r ∈ rs, r.lookup k = none) : rightmost (ls ++ l :: rs) k = some v := by
  unfold rightmost
  rw [List.foldl_append, List.foldl_cons, hl, Option.some_or]
  exact foldl_or_none k rs _ hr

theorem rightmost_none (ls : List (Dict CVal)) (k : String) (h : ∀ l ∈ ls, l.lookup k = none) : rightmost ls k = none :=
  foldl_or_none k ls none h

/-- Full strength, one job: for every key, `Job.get_options()` holds the value of the right-most of the layers
[definition options, registered task's overrides, options exported by the parent, call-time options,
scheduler-imposed options, "no provenance ⇒ no cache"] that defines it — any parent, any call, any key. -/
theorem precedence_layers (u : Bool) (p : Option JobInfo) (c : Call) (k : String) (hc : CallWF c) (hp : InfoWF p) :
    (evalOptions u p c).lookup k = rightmost (layers u p c) k := lookup_evalOptions_layers u p c k hc hp

/-- The same for the unevaluated options (`Job.get_raw_options`). -/
theorem precedence_raw (u : Bool) (p : Option JobInfo) (c : Call) (k : String) (hc : CallWF c) (hp : InfoWF p) :
    (rawOptions u p c).lookup k =
      (((forced u p).lookup k).map embed).or ((c.var.over.lookup k).or
        ((((inherited p).lookup k).map embed).or ((c.reg.over.lookup k).or (c.reg.base.lookup k)))) :=
  lookup_rawOptions u p c k hc hp

/-- Full strength, every job of every tree: along any ancestor chain (any depth), the job at its head has, for every
key, the value of the right-most layer, where the "exported by ancestors" layer is computed from the parent's own
effective options — induction over the chain is inside `jobInfo`/`jobInfo_wf`. -/
theorem precedence (u : Bool) (c : Call) (anc : List Call) (k : String) (hwf : ∀ x ∈ c :: anc, CallWF x) :
    effective u (c :: anc) k = rightmost (layers u (jobInfo u anc) c) k :=
  lookup_evalOptions_layers u (jobInfo u anc) c k (hwf c List.mem_cons_self)
    (jobInfo_wf u anc fun x hx => hwf x (List.mem_cons_of_mem _ hx))

/-- Definition options are the lowest layer: they are what a job gets exactly when nothing above defines the key. -/
theorem definition_lowest (u : Bool) (p : Option JobInfo) (c : Call) (k : String) (hc : CallWF c) (hp : InfoWF p)
    (h1 : (inherited p).lookup k = none) (h2 : c.var.over.lookup k = none) (h3 : (forced u p).lookup k = none)
    (h4 : (provOffLayer u p c).lookup k = none) :
    (evalOptions u p c).lookup k = ((c.reg.over.lookup k).or (c.reg.base.lookup k)).map evalVal := by
  rw [precedence_layers u p c k hc hp]
  simp only [rightmost, layers, List.foldl_cons, List.foldl_nil, h1, h2, h3, h4, lookup_mapVals, Option.none_or,
    Option.or_none, map_or, Option.map_none]

/-- Call-time options beat exported and definition options: whatever the ancestors export and the definition says. -/
theorem call_time_over_inherited (u : Bool) (p : Option JobInfo) (c : Call) (k : String) (r : Val) (hc : CallWF c)
    (hp : InfoWF p) (h2 : c.var.over.lookup k = some r) (h3 : (forced u p).lookup k = none)
    (h4 : (provOffLayer u p c).lookup k = none) : (evalOptions u p c).lookup k = some (evalVal r) := by
  rw [precedence_layers u p c k hc hp]
  have := rightmost_spec [mapVals evalVal c.reg.base, mapVals evalVal c.reg.over, inherited p]
    [forced u p, provOffLayer u p c] (mapVals evalVal c.var.over) k (evalVal r) (by rw [lookup_mapVals, h2]; rfl)
    (by intro x hx; simp only [List.mem_cons, List.not_mem_nil, or_false] at hx; rcases hx with rfl | rfl <;> assumption)
  simpa [layers] using this

/-- non-vacuity: definition 1, exported 2, call-time 3 — the job gets 3; without the call-time option it gets 2 -/
example :
    (evalOptions true (some ⟨[("memory", .int 2)], ["memory"]⟩)
      ⟨⟨[("memory", .int 1)], [], []⟩, ⟨[("memory", .int 1)], [("memory", .int 3)], []⟩⟩).lookup "memory" = some (.int 3) ∧
    (evalOptions true (some ⟨[("memory", .int 2)], ["memory"]⟩)
      ⟨⟨[("memory", .int 1)], [], []⟩, ⟨[("memory", .int 1)], [], []⟩⟩).lookup "memory" = some (.int 2) := by
  constructor <;> rfl

/-! ### 2. exported names accumulate down the tree -/

/-- One step: a job exports what its parent exports, plus what its task definition and the call export. -/
theorem exports_accumulate (u : Bool) (p : Option JobInfo) (c : Call) (n : String) :
    n ∈ (jobStep u p c).exports ↔ n ∈ c.reg.exports ∨ n ∈ c.var.exports ∨ n ∈ parentExports p := by
  simp only [jobStep, exportsStep, List.mem_append, or_assoc]

/-- Along every path of every tree: a descendant (any number of levels below) exports every name an ancestor
exports.  Induction over the part of the chain below the ancestor. -/
theorem exports_accumulate_path (u : Bool) (below anc : List Call) (p j : JobInfo) (hp : jobInfo u anc = some p)
    (hj : jobInfo u (below ++ anc) = some j) (n : String) (hn : n ∈ p.exports) : n ∈ j.exports := by
  rw [jobInfo_exports u _ p hp] at hn
  rw [jobInfo_exports u _ j hj]
  exact mem_exportsOf_append below anc n hn

/-- Exactly the union: a job exports a name iff some job on its chain (itself included) exports it through its task
definition or its call. -/
theorem exports_exact (u : Bool) (chain : List Call) (j : JobInfo) (hj : jobInfo u chain = some j) (n : String) :
    n ∈ j.exports ↔ ∃ c ∈ chain, n ∈ c.reg.exports ∨ n ∈ c.var.exports := by
  rw [jobInfo_exports u _ j hj]; exact mem_exportsOf_iff chain n

/-- The top-down walk of a tree (every job computed from its parent job, as the scheduler does) yields, for every
node, the job of the node's ancestor chain: all chain theorems apply to every job of every tree. -/
theorem tree_jobs_are_chain_jobs (u : Bool) (t : JTree) :
    (walk u none t).map (fun ij => (ij.1, some ij.2)) = (chainsOf [] t).map (fun ic => (ic.1, jobInfo u ic.2)) :=
  walk_chains u [] t

/-- Every node of a tree is the root or has its parent (the tail of its chain) in the tree. -/
theorem tree_parent_in_tree (t : JTree) (e : String × List Call) (he : e ∈ chainsOf [] t) :
    ∃ c rest, e.2 = c :: rest ∧ (rest = [] ∨ ∃ e' ∈ chainsOf [] t, e'.2 = rest) := chains_parent [] t e he

/-- Monotone along every root-to-leaf path: each non-root node of a tree has its parent in the tree and exports at
least the parent's names (by transitivity: at least every ancestor's). -/
theorem tree_exports_monotone (t : JTree) (e : String × List Call) (he : e ∈ chainsOf [] t) :
    (∃ c, e.2 = [c]) ∨ ∃ e' ∈ chainsOf [] t, (∃ c, e.2 = c :: e'.2) ∧ ∀ n ∈ exportsOf e'.2, n ∈ exportsOf e.2 := by
  obtain ⟨c, rest, h1, h2⟩ := chains_parent [] t e he
  rcases h2 with h2 | ⟨e', he', h3⟩
  · exact Or.inl ⟨c, by rw [h1, h2]⟩
  · refine Or.inr ⟨e', he', ⟨c, by rw [h1, h3]⟩, ?_⟩
    intro n hn
    rw [h1, ← h3]
    exact mem_exportsOf_append [c] e'.2 n hn

/-- non-vacuity: grandchild of a job exporting `x` whose child exports `y` exports both -/
example : exportsOf [⟨emptyTask, emptyTask⟩, ⟨emptyTask, ⟨[], [("y", .int 1)], ["y"]⟩⟩, ⟨emptyTask, ⟨[], [("x", .int 1)], ["x"]⟩⟩]
    = ["y", "x"] := rfl

/-! ### 3. only exported keys are inherited -/

/-- The inherited layer is the parent's effective options restricted to the parent's exported names. -/
theorem inherited_only_exported (p : JobInfo) (k : String) (v : CVal) :
    (inherited (some p)).lookup k = some v ↔ k ∈ p.exports ∧ p.evalOpts.lookup k = some v := by
  rw [lookup_inherited]
  by_cases h : k ∈ p.exports <;> simp [h]

/-- A key that the parent does not export (and the scheduler does not impose) has the value the job would have
with no parent at all: nothing of the ancestors' options leaks through. -/
theorem unexported_not_inherited (u : Bool) (p : JobInfo) (c : Call) (k : String) (h1 : k ≠ "cache_scope") (h2 : k ≠ "prov")
    (hc : CallWF c) (hp : WF p.evalOpts) (hk : k ∉ p.exports) :
    (evalOptions u (some p) c).lookup k = (evalOptions true none c).lookup k := unexported_step u p c k h1 h2 hc hp hk

/-- An exported option reaches every descendant, any number of levels down, until a call sets it again.
Induction over the chain below the exporting ancestor. -/
theorem inherit_through (u : Bool) (k : String) (h1 : k ≠ "cache_scope") (h2 : k ≠ "prov") (below anc : List Call) (v : CVal)
    (hwf : ∀ c ∈ below ++ anc, CallWF c) (hex : k ∈ exportsOf anc) (hv : effective u anc k = some v)
    (hno : ∀ c ∈ below, c.var.over.lookup k = none) : effective u (below ++ anc) k = some v :=
  inherit_chain u k h1 h2 below anc v hwf hex hv hno

/-- non-vacuity: `x=7` exported two levels up arrives, although the job's task defines `x=0`; the unexported `y` does not -/
example :
    effective true [⟨⟨[("x", .int 0)], [], []⟩, ⟨[("x", .int 0)], [], []⟩⟩, ⟨emptyTask, emptyTask⟩,
      ⟨emptyTask, ⟨[], [("x", .int 7), ("y", .int 8)], ["x"]⟩⟩] "x" = some (.int 7) ∧
    effective true [⟨⟨[("x", .int 0)], [], []⟩, ⟨[("x", .int 0)], [], []⟩⟩, ⟨emptyTask, emptyTask⟩,
      ⟨emptyTask, ⟨[], [("x", .int 7), ("y", .int 8)], ["x"]⟩⟩] "y" = none := by
  constructor <;> rfl

/-! ### 4. scheduler-imposed options cannot be overridden -/

/-- A run without cache: whatever the definition, the ancestors and the call say about `cache_scope`, the job runs
with `CSE` (or `NONE` when it records no provenance). -/
theorem forced_no_cache (p : Option JobInfo) (c : Call) (hc : CallWF c) (hp : InfoWF p) :
    (evalOptions false p c).lookup "cache_scope" =
      some (if recProv (evalOptions false p c) then scopeC "CSE" else scopeC "NONE") := scope_no_cache p c hc hp

/-- … for every job of every tree. -/
theorem forced_no_cache_chain (c : Call) (anc : List Call) (hwf : ∀ x ∈ c :: anc, CallWF x) :
    effective false (c :: anc) "cache_scope" = some (scopeC "CSE") ∨
    effective false (c :: anc) "cache_scope" = some (scopeC "NONE") := by
  have := scope_no_cache (jobInfo false anc) c (hwf c List.mem_cons_self)
    (jobInfo_wf false anc fun x hx => hwf x (List.mem_cons_of_mem _ hx))
  rw [effective_cons, this]
  split
  · exact Or.inl rfl
  · exact Or.inr rfl

/-- Under a parent that records no provenance: `prov` is `False` and `cache_scope` is `NONE`, whatever the call asks. -/
theorem forced_prov_false (u : Bool) (p : JobInfo) (c : Call) (hc : CallWF c) (hp : WF p.evalOpts)
    (hoff : recProv p.evalOpts = false) :
    (evalOptions u (some p) c).lookup "prov" = some (.bool false) ∧
    (evalOptions u (some p) c).lookup "cache_scope" = some (scopeC "NONE") ∧
    recProv (evalOptions u (some p) c) = false := prov_off_step u p c hc hp hoff

/-- … and so for the whole subtree below a job that records no provenance (induction over the chain). -/
theorem prov_false_subtree (u : Bool) (below anc : List Call) (p : JobInfo) (hwf : ∀ c ∈ below ++ anc, CallWF c)
    (hp : jobInfo u anc = some p) (hoff : recProv p.evalOpts = false) (hne : below ≠ []) :
    ∃ j, jobInfo u (below ++ anc) = some j ∧ j.evalOpts.lookup "prov" = some (.bool false) ∧
      j.evalOpts.lookup "cache_scope" = some (scopeC "NONE") ∧ recProv j.evalOpts = false :=
  prov_off_chain u below anc p hwf hp hoff hne

/-- non-vacuity: the call asks for `prov=True, cache_scope=BACKEND` under a `prov=False` parent in a no-cache run -/
example :
    (evalOptions false (some ⟨[("prov", .bool false)], ["prov"]⟩)
      ⟨emptyTask, ⟨[], [("prov", .bool true), ("cache_scope", scopeV "BACKEND")], ["prov"]⟩⟩) =
    [("prov", .bool false), ("cache_scope", scopeC "NONE")] := rfl

example :
    (evalOptions false none ⟨emptyTask, ⟨[], [("cache_scope", scopeV "BACKEND")], []⟩⟩) = [("cache_scope", scopeC "CSE")] := rfl

/-! ### 5. expression-valued options are evaluated before use -/

/-- Every value in `Job.get_options()` is the evaluation of the raw option (or the imposed `NONE`), and — being a
`CVal` — contains no expression: read back as a raw value it spawns no job. -/
theorem options_evaluated (u : Bool) (p : Option JobInfo) (c : Call) (k : String) (v : CVal)
    (h : (evalOptions u p c).lookup k = some v) :
    ((k = "cache_scope" ∧ v = scopeC "NONE") ∨ ∃ r, (rawOptions u p c).lookup k = some r ∧ v = evalVal r) ∧
    calls (embed v) = [] := by
  refine ⟨?_, calls_embed v⟩
  rw [lookup_evalOptions] at h
  split at h
  · rename_i hk; cases h; exact Or.inl ⟨hk.1, rfl⟩
  · cases hr : (rawOptions u p c).lookup k with
    | none => rw [hr] at h; cases h
    | some r => rw [hr] at h; cases h; exact Or.inr ⟨r, rfl, rfl⟩

/-- Inherited (and imposed) values are already evaluated: evaluating them again changes nothing and creates no job;
the jobs created for a job's option expressions come from its own definition and call-time layers only. -/
theorem inherited_not_reevaluated (u : Bool) (p : Option JobInfo) (c : Call) :
    (∀ v : CVal, evalVal (embed v) = v ∧ calls (embed v) = []) ∧
    ∀ i ∈ optionJobs (rawOptions u p c), i ∈ optionJobs c.reg.base ∨ i ∈ optionJobs c.reg.over ∨ i ∈ optionJobs c.var.over := by
  refine ⟨fun v => ⟨evalVal_embed v, calls_embed v⟩, ?_⟩
  intro i hi
  unfold rawOptions taskOptions at hi
  rcases optionJobs_dmerge hi with h | h
  · rcases optionJobs_dmerge h with h | h
    · rcases optionJobs_dmerge h with h | h
      · rcases optionJobs_dmerge h with h | h
        · exact Or.inl h
        · exact Or.inr (Or.inl h)
      · rw [optionJobs_embed] at h; cases h
    · exact Or.inr (Or.inr h)
  · rw [optionJobs_embed] at h; cases h

/-- The jobs evaluating a job's option expressions are jobs of the option-less task under the job's PARENT: they
export what the parent exports and run with the parent's exported options plus the imposed ones — nothing of the
job whose options they compute. -/
theorem option_jobs_under_parent (u : Bool) (p : Option JobInfo) (id : String) (c : Call) (ch : List JTree) (hp : InfoWF p) :
    (∀ i ∈ optionJobs (rawOptions u p c), (i, jobStep u p plainCall) ∈ walkOpt u p (.node id c ch)) ∧
    (jobStep u p plainCall).exports = parentExports p ∧
    ∀ k, (jobStep u p plainCall).evalOpts.lookup k = rightmost [inherited p, forced u p, provOffLayer u p plainCall] k := by
  refine ⟨?_, ?_, ?_⟩
  · intro i hi
    simp only [walkOpt, List.mem_append, List.mem_map]
    exact Or.inl ⟨i, hi, rfl⟩
  · simp [jobStep, exportsStep, plainCall, emptyTask]
  · intro k
    have hc : CallWF plainCall := by simp [CallWF, plainCall, emptyTask, WF, keys]
    have := lookup_evalOptions_layers u p plainCall k hc hp
    simpa [jobStep, layers, rightmost, plainCall, emptyTask, mapVals] using this

/-- non-vacuity: `memory=val("e", val("f", 7))` is evaluated to 7 and creates the jobs `e` and `f` -/
example :
    evalOptions true none ⟨emptyTask, ⟨[], [("memory", .call "e" (.call "f" (.int 7)))], []⟩⟩ = [("memory", .int 7)] ∧
    optionJobs (rawOptions true none ⟨emptyTask, ⟨[], [("memory", .call "e" (.call "f" (.int 7)))], []⟩⟩) = ["e", "f"] := by
  constructor <;> rfl

/-! ### 6. well-formedness is preserved (the hypotheses above are met by everything built from dicts) -/

theorem evalOptions_wf (u : Bool) (p : Option JobInfo) (c : Call) (hc : CallWF c) : WF (evalOptions u p c) :=
  wf_evalOptions u p c hc

theorem jobInfo_wf (u : Bool) (chain : List Call) (h : ∀ c ∈ chain, CallWF c) : InfoWF (jobInfo u chain) :=
  Options.jobInfo_wf u chain h

/-- Tasks built by `@task(..)` and any sequence of `.options(..)` / `.export_options(..)` from dicts have dicts. -/
theorem constructed_calls_wf (opts defExport : Dict Val) (ops : List TaskOp) (reg var : TaskV) (ho : WF opts)
    (h1 : mkTask opts defExport = .ok reg) (h2 : applyOps reg reg ops = .ok var) : CallWF ⟨reg, var⟩ := by
  have hr := mkTask_wf ho h1
  have hv := applyOps_wf hr.1 hr.1 hr.2 h2
  exact ⟨hr.1, hr.2, hv.2⟩

/-! ### 7. task-level API (remarks outside the statement are named `_note`) -/

/-- `Task.export_options` keeps the names already exported and adds the new ones. -/
theorem export_options_accumulates (t t' : TaskV) (upd : Dict Val) (h : t.exportOptions upd = .ok t') :
    (∀ n ∈ t.exports, n ∈ t'.exports) ∧ (∀ n ∈ keys upd, n ∈ t'.exports) := exportOptions_exports h

/-- A Task VALUE that goes through pickle / the cache (`Task.__getstate__`/`__setstate__`) keeps every exported name
(and gains at most the automatic `prov`), keeps its call-time options up to the idempotent re-validation, and takes its
definition options from the registered task: calling it afterwards gives the same job options and exports. -/
theorem roundtrip_preserves_exports (reg t t' : TaskV) (h : t.roundtrip reg = .ok t') :
    (∀ n ∈ t.exports, n ∈ t'.exports) ∧ (∀ n ∈ t'.exports, n ∈ t.exports ∨ n = "prov") ∧
    normalize t.over = .ok t'.over ∧ normalize reg.base = .ok t'.base := by
  have he := roundtrip_exports h
  unfold TaskV.roundtrip at h
  obtain ⟨b, o, h1, h2, e1, e2, _⟩ := validate_ok h
  exact ⟨he.1, he.2, e2 ▸ h2, e1 ▸ h1⟩

/-- For any task value built by `@task` / `.options` / `.export_options` / an earlier round trip (anything that
came out of `_validate`), the round trip keeps the call-time options EXACTLY (re-validation is idempotent). -/
theorem roundtrip_preserves_options (reg t0 t t' : TaskV) (hv : validate t0 = .ok t) (h : t.roundtrip reg = .ok t') :
    t'.over = t.over := by
  obtain ⟨_, o, _, h2, _, e2, _⟩ := validate_ok hv
  have hi : normalize t.over = .ok t.over := by rw [e2]; exact normalize_idem h2
  have := (roundtrip_preserves_exports reg t t' h).2.2.1
  rw [hi] at this
  exact (Except.ok.inj this).symm

/-- non-vacuity: `f.export_options(x=1, cache=False)` pickled and restored still exports `x`, `cache`, `cache_scope` -/
example : (TaskV.roundtrip ⟨[("m", .int 1)], [("x", .int 1), ("cache_scope", scopeV "CSE")], ["x", "cache", "cache_scope"]⟩
      ⟨[("m", .int 1)], [], []⟩) =
    .ok ⟨[("m", .int 1)], [("x", .int 1), ("cache_scope", scopeV "CSE")], ["x", "cache", "cache_scope"]⟩ := rfl

/-- Remark (API level): `Task.options` builds the new task without `export_options`, so names exported earlier on the
same task object are dropped (only the automatic `prov` can remain). -/
theorem options_drops_exports_note (t t' : TaskV) (upd : Dict Val) (h : t.options upd = .ok t') :
    ∀ n ∈ t'.exports, n = "prov" := options_exports h

example : (TaskV.options ⟨[], [("x", .int 1)], ["x"]⟩ [("y", .int 2)]) = .ok ⟨[], [("x", .int 1), ("y", .int 2)], []⟩ := rfl

/-- Remark (API level): `@task(export_options={"cache": False})` stores `cache_scope` but exports the name `cache`
only (the synonym is added by `Task.export_options`, not by the decorator), so children do not inherit it. -/
theorem def_export_cache_note :
    mkTask [] [("cache", .bool false)] = .ok ⟨[("cache_scope", scopeV "CSE")], [], ["cache"]⟩ ∧
    emptyTask.exportOptions [("cache", .bool false)] = .ok ⟨[], [("cache_scope", scopeV "CSE")], ["cache", "cache_scope"]⟩ := by
  constructor <;> rfl

/-! ### 8. the run of a root call with expression-valued options (current code: finding) -/

/-- Full-strength statement "every run evaluates its options and yields the jobs of the tree" is FALSE of the current
code: a root call with an expression-valued option dies with `KeyError` in `record_job_start`
(finding C27-root-option-expression-crash; witness `f.options(memory=val("e", 1))("r")`). -/
theorem run_evaluates_options_refuted :
    ¬ ∀ (u : Bool) (t : JTree), runTree u t = .ok (walk u none t, walkOpt u none t) := by
  intro h
  have := h true (.node "r" ⟨emptyTask, ⟨[], [("memory", .call "e" (.int 1))], []⟩⟩ [])
  have e : runTree true (.node "r" ⟨emptyTask, ⟨[], [("memory", .call "e" (.int 1))], []⟩⟩ []) = .error .keyError := rfl
  rw [e] at this
  cases this

/-- What holds: a run whose root call has no expression-valued option yields the jobs of the tree (and then all
theorems above apply to every job, expression-valued options of non-root jobs included). -/
theorem run_evaluates_options_partial (u : Bool) (id : String) (c : Call) (ch : List JTree)
    (h : optionJobs (rawOptions u none c) = []) :
    runTree u (.node id c ch) = .ok (walk u none (.node id c ch), walkOpt u none (.node id c ch)) := by
  have : ¬ parentlessRecorded u c ≥ 2 := by
    unfold parentlessRecorded; rw [h]; split <;> simp
  simp only [runTree, this, if_false]

/-- The exact condition in the current code: the run dies iff at least two parentless jobs record their start. -/
theorem run_crash_iff (u : Bool) (id : String) (c : Call) (ch : List JTree) :
    runTree u (.node id c ch) = .error .keyError ↔ parentlessRecorded u c ≥ 2 := by
  unfold runTree
  split <;> simp_all

/-- non-vacuity of the partial theorem, and the surviving corner: one option expression under a root with `prov=False` -/
example : runTree true (.node "r" ⟨emptyTask, ⟨[], [("memory", .int 1)], []⟩⟩ []) =
    .ok ([("r", ⟨[("memory", .int 1)], []⟩)], []) := rfl
example : (runTree true (.node "r" ⟨emptyTask, ⟨[], [("memory", .call "e" (.int 1)), ("prov", .bool false)], ["prov"]⟩⟩ [])).isOk = true := rfl

end RedunModel.C27
