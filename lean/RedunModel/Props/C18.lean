/-
C18 — Expression identity matches the call it denotes.

Model: `RedunModel.Model.ExprHash` (`hashOf` = `Expression.get_hash`, with the repair of
findings_proposed/C18-scheduler-expression-options.fix.diff; `hashOfOld` = before it;
`getstate`/`setstate`).  Hashes are symbolic pre-images: `TypeRegistry.get_hash` on plain values and
`hash_bytes(pickle_dumps(options))` are injective labels (trusted).
-/
import RedunModel.Lemmas.ExprHash
namespace RedunModel.C18
open RedunModel.Pre RedunModel.ExprHash List

/-! ### equal hashes denote the same call -/

/-- What the statement calls "the same call" (one level deep; argument identity is the equality of the
argument hashes, to which the theorem applies again): same expression kind, same task / operator
name, same positional argument hashes, same keyword arguments (as a dict of hashes), same call-time
options, same exported options (as a set), same wrapped value. -/
structure SameCall (a b : Node) : Prop where
  kind : kind a = kind b
  name : nameOf a = nameOf b
  args : (argsOf a).map hashOf = (argsOf b).map hashOf
  kwargs : ((kwargsOf a).map (fun ka => (ka.1, hashOf ka.2))).Perm ((kwargsOf b).map (fun ka => (ka.1, hashOf ka.2)))
  opts : optsOf a = optsOf b
  exportOpts : (exportOf a).Perm (exportOf b)
  value : valueOf a = valueOf b

theorem taskArguments_inj {a a' : List Pre} {k k' : List (String × Pre)}
    (h : taskArguments a k = taskArguments a' k') : a = a' ∧ k.Perm k' := by
  simp only [taskArguments, Pre.hash.injEq, Pre.list.injEq, cons.injEq, Pre.dict.injEq, true_and, and_true] at h
  exact ⟨h.1, perm_of_sortKw_eq h.2⟩

/-- **Full-strength target**: two expressions (or plain values) with the same hash denote the same
call.  In particular Scheduler expressions with different options have different hashes. -/
theorem hash_eq_imp_same_call (a b : Node) (h : hashOf a = hashOf b) : SameCall a b := by
  cases a <;> cases b
  case lit.lit =>
    simp only [hashOf, Pre.val.injEq] at h
    subst h; exact ⟨rfl, rfl, rfl, Perm.refl _, rfl, Perm.refl _, rfl⟩
  case value.value =>
    simp only [hashOf, Pre.hash.injEq, Pre.list.injEq, cons.injEq, Pre.val.injEq, true_and, and_true] at h
    subst h; exact ⟨rfl, rfl, rfl, Perm.refl _, rfl, Perm.refl _, rfl⟩
  case simple.simple f a k f' a' k' =>
    simp only [hashOf, Pre.hash.injEq, Pre.list.injEq, cons.injEq, Pre.str.injEq, true_and, and_true] at h
    have := taskArguments_inj h.2
    exact ⟨rfl, h.1, by simpa [argsOf, hashList_eq_map] using this.1,
      by simpa [kwargsOf, hashKw_eq_map] using this.2, rfl, Perm.refl _, rfl⟩
  case task.task n a k o e l n' a' k' o' e' l' =>
    simp only [hashOf, Pre.hash.injEq, Pre.list.injEq, cons_append, nil_append, cons.injEq, Pre.str.injEq,
      true_and, Pre.opts.injEq] at h
    obtain ⟨hn, ha, ho, he⟩ := h
    have := taskArguments_inj ha
    refine ⟨rfl, hn, by simpa [argsOf, hashList_eq_map] using this.1,
      by simpa [kwargsOf, hashKw_eq_map] using this.2, ho, ?_, rfl⟩
    simp only [exportOf]
    by_cases h1 : e = [] <;> by_cases h2 : e' = [] <;> simp [h1, h2] at he
    · subst h1; subst h2; exact Perm.refl _
    · exact exportHash_inj he
  case sched.sched n a k o e l n' a' k' o' e' l' =>
    simp only [hashOf, Pre.hash.injEq, Pre.list.injEq, cons_append, nil_append, cons.injEq, Pre.str.injEq,
      true_and] at h
    obtain ⟨hn, ha, hrest⟩ := h
    have := taskArguments_inj ha
    refine ⟨rfl, hn, by simpa [argsOf, hashList_eq_map] using this.1,
      by simpa [kwargsOf, hashKw_eq_map] using this.2, ?_, ?_, rfl⟩ <;> simp only [optsOf, exportOf]
    · by_cases h1 : o = [] ∧ e = [] <;> by_cases h2 : o' = [] ∧ e' = [] <;> simp [h1, h2] at hrest
      · rw [h1.1, h2.1]
      · exact hrest.1
    · by_cases h1 : o = [] ∧ e = [] <;> by_cases h2 : o' = [] ∧ e' = [] <;> simp [h1, h2] at hrest
      · rw [h1.2, h2.2]
      · exact exportHash_inj hrest.2
  all_goals simp [hashOf] at h

/-- …hence Scheduler expressions that differ in their call-time options have different hashes -/
theorem sched_options_separate (n : String) (a : List Node) (k : List (String × Node)) (o o' : Opts)
    (e : List String) (l l' : Option Nat) (h : o ≠ o') :
    hashOf (.sched n a k o e l) ≠ hashOf (.sched n a k o' e l') :=
  fun he => h (hash_eq_imp_same_call _ _ he).opts

/-- and expressions of different kinds never share a hash -/
theorem kinds_separate (a b : Node) (h : kind a ≠ kind b) : hashOf a ≠ hashOf b :=
  fun he => h (hash_eq_imp_same_call _ _ he).kind

/-- The converse direction, for the parts the hash is meant to ignore: keyword order, the iteration
order of the export-option set, and `length`. -/
theorem hash_ignores_kw_order_export_order_length (n : String) (a : List Node) (k k' : List (String × Node))
    (o : Opts) (e e' : List String) (l l' : Option Nat) (hk : k.Perm k') (hn : (keys k).Nodup) (he : e.Perm e') :
    hashOf (.task n a k o e l) = hashOf (.task n a k' o e' l') ∧
    hashOf (.sched n a k o e l) = hashOf (.sched n a k' o e' l') := by
  have h1 : sortKw (hashKw k) = sortKw (hashKw k') := by
    rw [hashKw_eq_map, hashKw_eq_map]
    refine sortKw_eq_of_perm (hk.map _) ?_
    simpa [keys, Function.comp_def] using hn
  have h2 : e = [] ↔ e' = [] := by
    constructor <;> intro h <;> subst h
    · exact he.symm.eq_nil
    · exact he.eq_nil
  have h3 : exportHash e = exportHash e' := by simp [exportHash, sortS_eq_of_perm he]
  simp only [hashOf, taskArguments, h1, h2, h3, and_self]

/-! ### state round trip -/

/-- Serialising and deserialising an expression object gives back an object that denotes the same
node (hence the same hash, arguments, options, exported options, length, value) with the per-run
bookkeeping cleared. -/
theorem roundtrip (o : Obj) (h : kind o.node ≠ .lit) :
    setstate (kind o.node) (getstate o)
      = .ok { node := o.node, callHash := none, upstreams := none, hashCached := false } := by
  obtain ⟨n, c, u, hc⟩ := o
  cases n <;> first | exact absurd rfl h | rfl

theorem roundtrip_hash (o o' : Obj) (h : setstate (kind o.node) (getstate o) = .ok o') :
    hashOf o'.node = hashOf o.node ∧ o'.callHash = none ∧ o'.upstreams = none ∧ o'.hashCached = false := by
  by_cases hk : kind o.node = .lit
  · obtain ⟨n, c, u, hc⟩ := o
    cases n <;> simp [kind] at hk
    simp [setstate, kind] at h
  · rw [roundtrip o hk] at h
    cases h; exact ⟨rfl, rfl, rfl, rfl⟩

/-- States written by older versions (no `task_options` / `export_options` / `length` keys) load with
empty options; a state without the mandatory keys raises KeyError. -/
theorem setstate_legacy (n : String) (a : List Node) (k : List (String × Node)) :
    setstate .task { taskName := some n, args := some a, kwargs := some k }
      = .ok { node := .task n a k [] [] none, callHash := none, upstreams := none, hashCached := false } ∧
    setstate .task { args := some a, kwargs := some k } = .error .keyError := ⟨rfl, rfl⟩

/-! ### the code before the repair (finding F10) -/

/-- `catch(e, E, r)` vs `catch.options(cache_scope="NONE")(e, E, r)`: before the repair the two
Scheduler expressions have the same hash although their call-time options differ. -/
theorem refuted_old_scheduler_options :
    hashOfOld (.sched "redun.catch" [.lit 1, .lit 2, .lit 3] [] [] [] none)
      = hashOfOld (.sched "redun.catch" [.lit 1, .lit 2, .lit 3] [] [("cache_scope", 7)] [] none) := rfl

/-- …with the repair they differ (instance of `sched_options_separate`; non-vacuity of the target). -/
theorem fixed_scheduler_options :
    hashOf (.sched "redun.catch" [.lit 1, .lit 2, .lit 3] [] [] [] none)
      ≠ hashOf (.sched "redun.catch" [.lit 1, .lit 2, .lit 3] [] [("cache_scope", 7)] [] none) :=
  sched_options_separate _ _ _ _ _ _ _ _ (by simp)

example : hashOf (.task "f" [.lit 1] [("a", .value 2)] [] ["prov"] none)
    ≠ hashOf (.task "f" [.lit 1] [("a", .value 2)] [] [] none) := fun h => by
  have := (hash_eq_imp_same_call _ _ h).exportOpts.length_eq
  simp [exportOf] at this

example : hashOf (.task "f" [.task "g" [.lit 1] [] [] [] none] [] [] [] none)
    ≠ hashOf (.task "f" [.task "g" [.lit 2] [] [] [] none] [] [] [] none) := fun h => by
  have h1 := (hash_eq_imp_same_call _ _ h).args
  simp only [argsOf, map_cons, map_nil, cons.injEq, and_true] at h1
  have h2 := (hash_eq_imp_same_call _ _ h1).args
  simp [argsOf, hashOf] at h2

end RedunModel.C18
