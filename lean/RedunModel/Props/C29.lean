/-
C29 — Script tasks run exactly the given command with correct staging.

Property theorems only; helper lemmas live in `RedunModel.Lemmas.Script`.
Model: `RedunModel.Model.Script` (`prepare` = `prepare_command`, `commandEof` = `get_command_eof`,
`wrap` = `get_wrapped_command`, `tempFileOf` = what bash writes to the temp file for a wrapped script,
`scriptCall` = `script()`, `postprocess` = `postprocess_script`, `executedScript` = what `script_task`
finally runs).
-/
import RedunModel.Lemmas.Script
import RedunModel.Lemmas.ScriptExec
namespace RedunModel.C29
open RedunModel.Script

/-! ## the here-document terminator -/

/-- `get_command_eof` terminates: `len(lines) + 1` iterations of its `while True` loop always suffice
(pigeonhole over the pairwise distinct candidates `prefix, prefix1, prefix2, …`), for every command
text and every prefix. -/
theorem eof_fuel_suffices (cmd pfx : Str) : (commandEof cmd pfx).isSome = true := by
  obtain ⟨k, hk, _, _⟩ := commandEof_spec cmd pfx
  simp [hk]

/-- The terminator never equals a line of the command. -/
theorem eof_not_a_line (cmd pfx e : Str) (h : commandEof cmd pfx = some e) : e ∉ splitNL cmd := by
  obtain ⟨k, hk, hn, _⟩ := commandEof_spec cmd pfx
  rw [hk] at h; cases h; exact hn

/-- It is the first candidate that is not a line (so `EOF` itself whenever no line equals `EOF`). -/
theorem eof_is_first_free_candidate (cmd pfx e : Str) (h : commandEof cmd pfx = some e) :
    ∃ k, e = eofCand pfx k ∧ ∀ j, j < k → eofCand pfx j ∈ splitNL cmd := by
  obtain ⟨k, hk, _, hall⟩ := commandEof_spec cmd pfx
  rw [hk] at h; cases h; exact ⟨k, rfl, hall⟩

/-- non-vacuity: a command containing the lines `EOF` and `EOF1` gets `EOF2` -/
example : commandEof "echo\nEOF1\nEOF".toList "EOF".toList = some "EOF2".toList := by decide

/-! ## the wrapper reproduces the command byte for byte -/

/-- For every command text and every alphanumeric prefix: `get_wrapped_command` returns, and bash's
here-document reader applied to the wrapped script writes exactly `cmd + "\n"` to the temp file. -/
theorem heredoc_roundtrip (cmd pfx : Str) (hp : ∀ c ∈ pfx, c.isAlphanum = true) :
    ∃ w, wrap cmd pfx = some w ∧ tempFileOf w = some (cmd ++ ['\n']) := by
  obtain ⟨k, hk, hn, _⟩ := commandEof_spec cmd pfx
  refine ⟨wrapWith cmd (eofCand pfx k), by simp [wrap, hk], ?_⟩
  apply heredoc_wrapWith cmd _ hn
  have hpn : '\n' ∉ pfx := fun hm => by have := hp _ hm; revert this; decide
  unfold eofCand
  split
  · exact hpn
  · intro hm
    rcases List.mem_append.1 hm with h | h
    · exact hpn h
    · exact natChars_no_nl _ h

/-- What `script()` does with a user command `c`: the temp file holds exactly `prepare_command(c)`
followed by a newline. -/
theorem wrapped_runs_exact_text (c : Str) :
    ∃ w, wrap (prepare c) "EOF".toList = some w ∧ tempFileOf w = some (prepare c ++ ['\n']) :=
  heredoc_roundtrip (prepare c) "EOF".toList (by decide)

/-- non-vacuity: a command whose lines include the default terminator -/
example : ∃ w, wrap "cat <<EOF\nhi\nEOF".toList "EOF".toList = some w ∧
    tempFileOf w = some "cat <<EOF\nhi\nEOF\n".toList :=
  heredoc_roundtrip _ _ (by decide)

/-! ## default shell and shebang -/

theorem shebang_kept (c : Str) (h : startsShebang (strip (dedent c)) = true) :
    prepare c = strip (dedent c) := by
  simp [prepare, h]

theorem default_shell_prepended (c : Str) (h : startsShebang (strip (dedent c)) = false) :
    prepare c = defaultShell ++ '\n' :: strip (dedent c) := by
  simp [prepare, h]

/-- Whatever the text, the file that is executed starts with an interpreter line. -/
theorem prepared_has_interpreter (c : Str) : startsShebang (prepare c) = true := by
  cases h : startsShebang (strip (dedent c)) with
  | true => rw [shebang_kept c h]; exact h
  | false => rw [default_shell_prepended c h]; rfl

example : prepare "\n    echo hi\n    echo there\n  ".toList =
    "#!/usr/bin/env bash\nset -exo pipefail\necho hi\necho there".toList := by decide
example : prepare "\n  #!/bin/sh\n  echo hi\n".toList = "#!/bin/sh\necho hi".toList := by decide

/-! ## staging order in `script()` -/

/-- `command_parts` is `[cd tmp]? ++ stage commands ++ [wrapped command] ++ unstage commands`:
every input leaf's stage command lies before the wrapped user command, every (pre-processed) output
leaf's unstage command after it, and nothing else is in either part — for every nested
input/output structure. -/
theorem stage_before_unstage_after (cmd : Str) (ins outs : NV Leaf) (t : Option Str) (r : ScriptCall)
    (h : scriptCall cmd ins outs t = .ok r) :
    ∃ pre w post, r.parts = pre ++ w :: post ∧ r.full = joinNL r.parts ∧
      wrap (prepare cmd) "EOF".toList = some w ∧
      (∀ l ∈ iterNV ins, ∃ s, renderStage l = .ok s ∧ s ∈ pre) ∧
      (∀ l ∈ iterNV (mapNV preprocessOutput outs), ∀ s, renderUnstage l = some s → s ∈ post) ∧
      (∀ s ∈ pre, s ∈ cdPart t ∨ ∃ l ∈ iterNV ins, renderStage l = .ok s) ∧
      (∀ s ∈ post, ∃ l ∈ iterNV (mapNV preprocessOutput outs), renderUnstage l = some s) := by
  obtain ⟨stages, w, hs, hw, hp, hf, _, _⟩ := scriptCall_ok h
  have h2 := mapExcept_ok renderStage _ _ hs
  refine ⟨cdPart t ++ stages, w, (iterNV (mapNV preprocessOutput outs)).filterMap renderUnstage,
    by simp [hp], hf, hw, ?_, ?_, ?_, ?_⟩
  · intro l hl
    obtain ⟨s, hs', hr⟩ := all2_mem_left h2 l hl
    exact ⟨s, hr, List.mem_append_right _ hs'⟩
  · intro l hl s hs'
    exact List.mem_filterMap.2 ⟨l, hl, hs'⟩
  · intro s hs'
    rcases List.mem_append.1 hs' with h' | h'
    · exact Or.inl h'
    · obtain ⟨l, hl, hr⟩ := all2_mem_right h2 s h'
      exact Or.inr ⟨l, hl, hr⟩
  · intro s hs'
    obtain ⟨l, hl, hr⟩ := List.mem_filterMap.1 hs'
    exact ⟨l, hl, hr⟩

/-- Every leaf of `inputs` is a staging pair whose copy command `remote → local` is among the
commands before the user command (otherwise `script()` fails, as the code does). -/
theorem every_input_staged (cmd : Str) (ins outs : NV Leaf) (t : Option Str) (r : ScriptCall)
    (h : scriptCall cmd ins outs t = .ok r) (l : Leaf) (hl : l ∈ iterNV ins) :
    ∃ fam d loc rem, l = .staging fam d loc rem ∧
      ∃ pre w post, r.parts = pre ++ w :: post ∧ wrap (prepare cmd) "EOF".toList = some w ∧
        (if loc.path = rem.path then [] else shellCopy d rem.path loc.path) ∈ pre := by
  obtain ⟨pre, w, post, hp, _, hw, hin, _⟩ := stage_before_unstage_after cmd ins outs t r h
  obtain ⟨s, hs, hm⟩ := hin l hl
  cases l with
  | staging fam d loc rem =>
    simp [renderStage] at hs
    exact ⟨fam, d, loc, rem, rfl, pre, w, post, hp, hw, hs ▸ hm⟩
  | fref f => simp [renderStage] at hs
  | other tag => simp [renderStage] at hs
  | result => simp [renderStage] at hs

/-- Every staging pair among `outputs` is copied `local → remote` after the user command. -/
theorem every_output_unstaged (cmd : Str) (ins outs : NV Leaf) (t : Option Str) (r : ScriptCall)
    (h : scriptCall cmd ins outs t = .ok r) (fam : Fam) (d : Bool) (loc rem : FRef)
    (hl : Leaf.staging fam d loc rem ∈ iterNV outs) :
    ∃ pre w post, r.parts = pre ++ w :: post ∧ wrap (prepare cmd) "EOF".toList = some w ∧
      (if loc.path = rem.path then [] else shellCopy d loc.path rem.path) ∈ post := by
  obtain ⟨pre, w, post, hp, _, hw, _, hout, _⟩ := stage_before_unstage_after cmd ins outs t r h
  refine ⟨pre, w, post, hp, hw, hout (.staging fam d loc rem) ?_ _ (by simp [renderUnstage])⟩
  rw [iterNV_mapNV]
  exact List.mem_map.2 ⟨_, hl, by simp [preprocessOutput]⟩

/-! ## the returned value -/

/-- Specification of the leaf-wise result: stdout file ↦ the command's output, staging pair ↦ its
remote file (an object of the remote's own class), everything else (including self-staged output
files) ↦ itself. -/
def finalLeaf : Leaf → Leaf
  | .fref f => if !f.isDir && f.path = ['-'] then .result else .fref f
  | .staging _ _ _ rem => .fref rem
  | l => l

/-- The value `postprocess_script` returns for the outputs that `script()` passed on. -/
theorem output_leaves (outs : NV Leaf) :
    postprocess (mapNV preprocessOutput outs) = mapNV finalLeaf outs := by
  unfold postprocess
  rw [mapNV_comp]
  congr 1
  funext l
  cases l with
  | fref f =>
    by_cases hd : f.isDir = true
    · simp [preprocessOutput, postLeaf, finalLeaf, hd]
    · by_cases hp : f.path = ['-'] <;> simp [preprocessOutput, postLeaf, finalLeaf, hd, hp]
  | staging fam d loc rem => simp [preprocessOutput, postLeaf, finalLeaf]
  | other tag => simp [preprocessOutput, postLeaf, finalLeaf]
  | result => simp [preprocessOutput, postLeaf, finalLeaf]

/-- … and it has exactly the shape of `outputs`. -/
theorem output_shape (outs : NV Leaf) :
    shape (postprocess (mapNV preprocessOutput outs)) = shape outs := by
  rw [output_leaves, shape_mapNV]

/-- The `inputs` argument recorded for reactivity has the shape of `inputs`, staging pairs replaced
by their remote files. -/
theorem input_args_shape (cmd : Str) (ins outs : NV Leaf) (t : Option Str) (r : ScriptCall)
    (h : scriptCall cmd ins outs t = .ok r) :
    r.inputArgs = mapNV inputArg ins ∧ shape r.inputArgs = shape ins := by
  obtain ⟨_, _, _, _, _, _, hi, _⟩ := scriptCall_ok h
  exact ⟨hi, by rw [hi, shape_mapNV]⟩

/-- non-vacuity of the `scriptCall` hypotheses: one staged input, stdout and one staged output -/
example : ∃ r, scriptCall "cat in.local > out.local".toList
    (.node .list [.leaf (.staging .plain false ⟨.plain, false, "in.local".toList⟩ ⟨.plain, false, "in.remote".toList⟩)])
    (.node .tuple [.leaf (.fref ⟨.plain, false, "-".toList⟩),
      .leaf (.staging .plain false ⟨.plain, false, "out.local".toList⟩ ⟨.plain, false, "out.remote".toList⟩)])
    none = .ok r ∧ r.parts.length = 3 ∧ r.parts.head? = some "cp in.remote in.local".toList ∧
      r.parts.getLast? = some "cp out.local out.remote".toList := by
  refine ⟨_, rfl, ?_, ?_, ?_⟩ <;> decide

/-! ## the "no staging needed" test is equality of the two path strings -/

theorem shellCopy_ne_nil (d : Bool) (src dst : Str) : shellCopy d src dst ≠ [] := by
  cases d <;> simp [shellCopy]

/-- A staging pair renders no command exactly when its two paths are the same *string*; pairs that are
spelled differently (`x` / `./x`, relative / absolute) always get their copy command — whether the two
spellings denote one file depends on the directory the command runs in, which `script()` does not know
when it renders (it may start with `cd <tempdir>`). -/
theorem no_command_iff_same_string (fam : Fam) (d : Bool) (loc rem : FRef) :
    (renderStage (.staging fam d loc rem) = .ok [] ↔ loc.path = rem.path) ∧
    (renderUnstage (.staging fam d loc rem) = some [] ↔ loc.path = rem.path) := by
  constructor
  · simp only [renderStage]
    constructor
    · intro h
      by_cases e : loc.path = rem.path
      · exact e
      · simp only [e, if_false, Except.ok.injEq] at h; exact absurd h (shellCopy_ne_nil _ _ _)
    · intro e; simp [e]
  · simp only [renderUnstage]
    constructor
    · intro h
      by_cases e : loc.path = rem.path
      · exact e
      · simp only [e, if_false, Option.some.injEq] at h; exact absurd h (shellCopy_ne_nil _ _ _)
    · intro e; simp [e]

/-- Every input pair with different path strings is copied `remote → local` before the command … -/
theorem distinct_paths_staged_in (cmd : Str) (ins outs : NV Leaf) (t : Option Str) (r : ScriptCall)
    (h : scriptCall cmd ins outs t = .ok r) (fam : Fam) (d : Bool) (loc rem : FRef)
    (hl : Leaf.staging fam d loc rem ∈ iterNV ins) (hne : loc.path ≠ rem.path) :
    ∃ pre w post, r.parts = pre ++ w :: post ∧ wrap (prepare cmd) "EOF".toList = some w ∧
      shellCopy d rem.path loc.path ∈ pre ∧ shellCopy d rem.path loc.path ≠ [] := by
  obtain ⟨fam', d', loc', rem', he, pre, w, post, hp, hw, hm⟩ := every_input_staged cmd ins outs t r h _ hl
  cases he
  rw [if_neg hne] at hm
  exact ⟨pre, w, post, hp, hw, hm, shellCopy_ne_nil _ _ _⟩

/-- … and every output pair with different path strings is copied `local → remote` after it, with
or without `tempdir`. -/
theorem distinct_paths_unstaged_out (cmd : Str) (ins outs : NV Leaf) (t : Option Str) (r : ScriptCall)
    (h : scriptCall cmd ins outs t = .ok r) (fam : Fam) (d : Bool) (loc rem : FRef)
    (hl : Leaf.staging fam d loc rem ∈ iterNV outs) (hne : loc.path ≠ rem.path) :
    ∃ pre w post, r.parts = pre ++ w :: post ∧ wrap (prepare cmd) "EOF".toList = some w ∧
      shellCopy d loc.path rem.path ∈ post ∧ shellCopy d loc.path rem.path ≠ [] := by
  obtain ⟨pre, w, post, hp, hw, hm⟩ := every_output_unstaged cmd ins outs t r h fam d loc rem hl
  rw [if_neg hne] at hm
  exact ⟨pre, w, post, hp, hw, hm, shellCopy_ne_nil _ _ _⟩

/-- non-vacuity: `File("/cwd/result.txt").stage("result.txt")` under `tempdir` is copied back -/
example : ∃ r, scriptCall "echo hi > result.txt".toList (.node .list [])
    (.leaf (.staging .plain false ⟨.plain, false, "result.txt".toList⟩ ⟨.plain, false, "/cwd/result.txt".toList⟩))
    (some "/tmp/t.tempdir".toList) = .ok r ∧ r.parts.head? = some "cd /tmp/t.tempdir".toList ∧
      r.parts.getLast? = some "cp result.txt /cwd/result.txt".toList := by
  refine ⟨_, rfl, ?_, ?_⟩ <;> decide

/-! ## what `script_task` finally executes -/

/-- `script_task` does not run `full_command` as is: `get_task_command` applies `prepare_command`
(dedent, strip, default shell) to it once more.  That second pass leaves the user's command inside
the here-document untouched: the temp file written by the script that is really executed still holds
exactly `prepare_command(cmd) + "\n"` — for every command text and every nested input/output
structure whose staging paths (and temp dir) contain no newline. -/
theorem second_prepare_keeps_command (cmd : Str) (ins outs : NV Leaf) (t : Option Str) (r : ScriptCall)
    (h : scriptCall cmd ins outs t = .ok r)
    (hin : ∀ l ∈ iterNV ins, leafOk l) (hout : ∀ l ∈ iterNV outs, leafOk l) (ht : ∀ d, t = some d → '\n' ∉ d) :
    tempFileOf (executedScript r.full) = some (prepare cmd ++ ['\n']) := by
  obtain ⟨stages, w, hs, hw, hp, hf, _, _⟩ := scriptCall_ok h
  obtain ⟨k, hk, hn, _⟩ := commandEof_spec (prepare cmd) "EOF".toList
  have hw' : w = wrapWith (prepare cmd) (eofCand "EOF".toList k) := by
    unfold wrap at hw
    rw [hk] at hw
    exact (Option.some.inj hw).symm
  have h2 := mapExcept_ok renderStage _ _ hs
  unfold executedScript
  rw [hf, hp, hw', show cdPart t ++ stages ++ [wrapWith (prepare cmd) (eofCand "EOF".toList k)] ++
      List.filterMap renderUnstage (iterNV (mapNV preprocessOutput outs)) =
      (cdPart t ++ stages) ++ wrapWith (prepare cmd) (eofCand "EOF".toList k) ::
        List.filterMap renderUnstage (iterNV (mapNV preprocessOutput outs)) by simp]
  apply keep _ _ _ _ (prepare_lines cmd) hn (eofCand_EOF_props k).1 (eofCand_EOF_props k).2
  · intro p hp'
    rcases List.mem_append.1 hp' with e | e
    · exact cdPart_harmless t ht p e
    · obtain ⟨l, hl, hr⟩ := all2_mem_right h2 p e
      exact renderStage_harmless l (hin l hl) p hr
  · intro p hp'
    obtain ⟨l', hl', hr⟩ := List.mem_filterMap.1 hp'
    rw [iterNV_mapNV] at hl'
    obtain ⟨l, hl, rfl⟩ := List.mem_map.1 hl'
    exact renderUnstage_harmless l (hout l hl) p hr

set_option maxRecDepth 100000 in
/-- non-vacuity: the concrete script that is executed for one staged input and one staged output -/
example : ∃ r, scriptCall "  cat in.local > out.local\n  EOF\n".toList
    (.node .list [.leaf (.staging .plain false ⟨.plain, false, "in.local".toList⟩ ⟨.plain, false, "in.remote".toList⟩)])
    (.leaf (.staging .plain false ⟨.plain, false, "out.local".toList⟩ ⟨.plain, false, "out.remote".toList⟩))
    none = .ok r ∧
    tempFileOf (executedScript r.full) =
      some "#!/usr/bin/env bash\nset -exo pipefail\ncat in.local > out.local\nEOF\n".toList := by
  refine ⟨_, rfl, ?_⟩
  rfl

end RedunModel.C29
