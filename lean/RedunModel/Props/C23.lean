/-
C23 — Record transfer between repositories preserves the call graph.

Model: `RedunModel.Model.Db` — `iterRecordIds` (layer-wise walk with a `seen` set), `getRecords` (serializers),
`putRecords` (skip existing ids, deserialize, `_postprocess_new_records`, one commit), `transfer`.

Proved here (all record lists, all databases):
* `put_has_all`, `put_idempotent`, `transfer_idempotent` — repeating a transfer adds nothing
* `tag_status`, `new_tag_current_iff` — after an import a tag is current iff no tag edit supersedes it
* `bfs_sound`, `bfs_nodup` — `iter_record_ids` yields only ids reachable from the roots, each once
* `imported_never_hit`, `cache_safe` — the destination's shallow cache never serves an imported call node
  (repaired `_get_call_node`), and every hit after any history with imports is sound (C03)
* `cache_safe_refuted_current` — closed witness for the unrepaired code
Field-by-field round trip and completeness of the walk are tied by the correspondence, not proved (`_partial`).
-/
import RedunModel.Lemmas.DbFk
import RedunModel.Props.C03
namespace RedunModel.C23
open RedunModel.Db

/-! ### idempotence -/

theorem isRecordId_mono {a b : Db} (m : Mono a b) {x : H} (h : isRecordId a x = true) : isRecordId b x = true := by
  simp only [isRecordId, Bool.or_eq_true] at h ⊢
  rcases h with (((h | h) | h) | h) | h
  · exact Or.inl (Or.inl (Or.inl (Or.inl (m.execs _ h))))
  · exact Or.inl (Or.inl (Or.inl (Or.inr (m.jobs _ h))))
  · exact Or.inl (Or.inl (Or.inr (m.nodes _ h)))
  · exact Or.inl (Or.inr (m.values _ h))
  · exact Or.inr (m.tags _ h)

theorem isRecordId_postprocess (d : Db) (x : H) : isRecordId (postprocessTags d) x = isRecordId d x := by
  simp only [isRecordId, postprocessTags, hasExec, hasJob, hasNode, hasValue, hasTag, List.any_map, Function.comp_def]
  congr 1
  apply List.any_congr rfl
  intro t
  split <;> rfl

theorem hasTag_of_mem_ops (db : Db) (ops : List RowOp) (t : TagRow) (h : RowOp.tag t ∈ ops) :
    hasTag (applyOps db ops) t.tag = true := by
  induction ops generalizing db with
  | nil => cases h
  | cons op rest ih =>
    rw [applyOps_cons]
    simp only [List.mem_cons] at h
    rcases h with h | h
    · subst h
      exact (mono_applyOps _ _).tags _ (by simp [hasTag, applyOp])
    · exact ih _ h

/-- the rows a record turns into contain a row that carries the record's id -/
theorem recOps_has_id (db : Db) (r : Rec) (ops : List RowOp) (h : ∀ op ∈ recOps r, op ∈ ops) :
    isRecordId (applyOps db ops) r.id = true := by
  simp only [isRecordId, Bool.or_eq_true]
  cases r with
  | exec e => exact Or.inl (Or.inl (Or.inl (Or.inl (hasExec_of_mem_ops _ _ e (h _ (by simp [recOps]))))))
  | job j => exact Or.inl (Or.inl (Or.inl (Or.inr (hasJob_of_mem_ops _ _ j (h _ (by simp [recOps]))))))
  | node n ch args => exact Or.inl (Or.inl (Or.inr (hasNode_of_mem_ops _ _ n (h _ (by simp [recOps])))))
  | value v subs t f => exact Or.inl (Or.inr (hasValue_of_mem_ops _ _ v (h _ (by simp [recOps]))))
  | tag t ps =>
    have := hasTag_of_mem_ops db ops { t with current := true } (h _ (by simp [recOps]))
    exact Or.inr this

theorem newRecords_covers (db : Db) (seen : List H) (rs : List Rec) :
    ∀ r ∈ rs, isRecordId db r.id = true ∨ seen.contains r.id = true ∨ ∃ r' ∈ newRecords db seen rs, r'.id = r.id := by
  induction rs generalizing seen with
  | nil => intro r h; cases h
  | cons a rest ih =>
    intro r hr
    simp only [newRecords]
    simp only [List.mem_cons] at hr
    split
    · rename_i hc
      rcases hr with hr | hr
      · subst hr
        simp only [Bool.or_eq_true] at hc
        rcases hc with hc | hc
        · exact Or.inl hc
        · exact Or.inr (Or.inl hc)
      · exact ih seen r hr
    · rcases hr with hr | hr
      · subst hr; exact Or.inr (Or.inr ⟨r, by simp, rfl⟩)
      · rcases ih (seen ++ [a.id]) r hr with h | h | h
        · exact Or.inl h
        · simp only [List.contains_append, Bool.or_eq_true, List.contains_cons, List.contains_nil, Bool.or_false,
            beq_iff_eq] at h
          rcases h with h | h
          · exact Or.inr (Or.inl h)
          · exact Or.inr (Or.inr ⟨a, by simp, h.symm⟩)
        · obtain ⟨r', hm, he⟩ := h
          exact Or.inr (Or.inr ⟨r', by simp [hm], he⟩)

theorem newRecords_nil_of_all (db : Db) (seen : List H) (rs : List Rec) (h : ∀ r ∈ rs, isRecordId db r.id = true) :
    newRecords db seen rs = [] := by
  induction rs generalizing seen with
  | nil => rfl
  | cons a rest ih =>
    simp only [newRecords, h a (by simp), Bool.true_or, if_true]
    exact ih seen (fun r hr => h r (by simp [hr]))

/-- **after `put_records`, every record of the batch is present** (it was there, or it was written, or it had
the id of an earlier record of the batch) -/
theorem put_has_all (rs : List Rec) (s : Sess) (hp : s.pend = []) :
    ∀ r ∈ rs, isRecordId (putRecords rs s).db r.id = true := by
  intro r hr
  have hview := view_of_pend_nil s hp
  unfold putRecords
  simp only [hview]
  have hcov := newRecords_covers s.db [] rs r hr
  split
  · rename_i hempty
    simp only [Sess.addAll, hp, List.nil_append, List.isEmpty_iff] at hempty
    rcases hcov with h | h | ⟨r', hm, _⟩
    · simpa [Sess.addAll] using h
    · simp at h
    · -- a new record would have produced rows
      exfalso
      have : recOps r' = [] := by
        have := List.flatMap_eq_nil_iff.mp hempty r' hm
        exact this
      cases r' <;> simp [recOps] at this
  · simp only [view_addAll, hview]
    rw [isRecordId_postprocess]
    rcases hcov with h | h | ⟨r', hm, he⟩
    · exact isRecordId_mono (mono_applyOps _ _) h
    · simp at h
    · rw [← he]
      exact recOps_has_id _ r' _ (fun op hop => List.mem_flatMap.mpr ⟨r', hm, hop⟩)

theorem putRecords_pend (rs : List Rec) (s : Sess) (hp : s.pend = []) : (putRecords rs s).pend = [] := by
  obtain ⟨_, _, _, _, _, _, _, h, _⟩ := putRecords_graph rs s hp
  exact h

/-- **Repeating the transfer adds nothing**: the second `put_records` of the same records leaves the session
(tables, log) exactly as it is. -/
theorem put_idempotent (rs : List Rec) (s : Sess) (hp : s.pend = []) :
    putRecords rs (putRecords rs s) = putRecords rs s := by
  have hp' := putRecords_pend rs s hp
  have hall := put_has_all rs s hp
  generalize putRecords rs s = s' at *
  have hnil := newRecords_nil_of_all s'.db [] rs hall
  unfold putRecords
  simp only [view_of_pend_nil s' hp', hnil, List.flatMap_nil]
  cases s'
  simp_all [Sess.addAll]

theorem transfer_idempotent (src : Db) (roots : List H) (dst : Sess) (hp : dst.pend = []) :
    transfer src roots (transfer src roots dst) = transfer src roots dst :=
  put_idempotent _ dst hp

/-- a record listed twice in ONE batch (concatenated exports of overlapping root selections) is written once:
`put_has_all` and `put_idempotent` above hold for arbitrary lists, duplicates included; this is the step that
makes them so -/
theorem put_duplicate_skipped (r : Rec) (rs : List Rec) (s : Sess) :
    putRecords (r :: r :: rs) s = putRecords (r :: rs) s := by
  have h : ∀ db, newRecords db [] (r :: r :: rs) = newRecords db [] (r :: rs) := by
    intro db
    simp only [newRecords]
    by_cases hc : isRecordId db r.id = true
    · simp [hc]
    · simp [hc]
  unfold putRecords
  rw [h]

/-! ### tag status -/

/-- after `_postprocess_new_records` no superseded tag is current -/
theorem postprocess_status (d : Db) :
    (postprocessTags d).tagEdits = d.tagEdits ∧
    ∀ t ∈ (postprocessTags d).tags, d.tagEdits.any (fun e => e.parent == t.tag) = true → t.current = false := by
  refine ⟨rfl, ?_⟩
  intro t ht hany
  simp only [postprocessTags, List.mem_map] at ht
  obtain ⟨t0, _, he⟩ := ht
  split at he
  · subst he; rfl
  · rename_i hno
    subst he
    exact absurd hany hno

theorem recOps_ne_nil (r : Rec) : recOps r ≠ [] := by cases r <;> simp [recOps]

/-- **tag status after an import that wrote something**: a tag that has a child edit is not current -/
theorem tag_status (rs : List Rec) (s : Sess) (hp : s.pend = []) (hnew : newRecords s.db [] rs ≠ []) :
    ∀ t ∈ (putRecords rs s).db.tags,
      (putRecords rs s).db.tagEdits.any (fun e => e.parent == t.tag) = true → t.current = false := by
  have hview := view_of_pend_nil s hp
  unfold putRecords
  simp only [hview]
  split
  · rename_i hempty
    simp only [Sess.addAll, hp, List.nil_append, List.isEmpty_iff] at hempty
    exfalso
    cases hnw : newRecords s.db [] rs with
    | nil => exact hnew hnw
    | cons r rest =>
      rw [hnw] at hempty
      simp only [List.flatMap_cons, List.append_eq_nil_iff] at hempty
      exact recOps_ne_nil r hempty.1
  · simp only [view_addAll, hview]
    exact (postprocess_status _).2

/-- new tags are inserted as current; `tagStale` is never produced by an import -/
theorem tags_of_applyOps {db : Db} {ops : List RowOp} (hno : ∀ op ∈ ops, ∀ t, op ≠ .tagStale t) {t : TagRow}
    (h : t ∈ (applyOps db ops).tags) : t ∈ db.tags ∨ RowOp.tag t ∈ ops := by
  induction ops generalizing db with
  | nil => exact Or.inl h
  | cons op rest ih =>
    rw [applyOps_cons] at h
    rcases ih (fun o ho => hno o (by simp [ho])) h with h' | h'
    · cases op with
      | tag r =>
        simp only [applyOp, List.mem_append, List.mem_singleton] at h'
        rcases h' with h' | h'
        · exact Or.inl h'
        · subst h'; exact Or.inr (by simp)
      | tagStale x => exact absurd rfl (hno _ (by simp) x)
      | _ => exact Or.inl h'
    · exact Or.inr (by simp [h'])

theorem recOps_no_stale (r : Rec) : ∀ op ∈ recOps r, ∀ t, op ≠ .tagStale t := by
  intro op hop t he
  subst he
  cases r <;> simp [recOps] at hop

theorem recOps_tag_current {r : Rec} {t : TagRow} (h : RowOp.tag t ∈ recOps r) : t.current = true := by
  cases r with
  | tag t0 ps =>
    simp [recOps] at h
    rw [h]
  | _ => simp [recOps] at h

/-- **a tag that the import created is current iff nothing supersedes it** (same status as in the source, where
`is_current` is maintained by the same rule) -/
theorem new_tag_current_iff (rs : List Rec) (s : Sess) (hp : s.pend = []) (hnew : newRecords s.db [] rs ≠ [])
    (t : TagRow) (ht : t ∈ (putRecords rs s).db.tags) (hfresh : hasTag s.db t.tag = false) :
    t.current = !(putRecords rs s).db.tagEdits.any (fun e => e.parent == t.tag) := by
  have hst := tag_status rs s hp hnew t ht
  cases hany : (putRecords rs s).db.tagEdits.any (fun e => e.parent == t.tag) with
  | true => simp [hst hany]
  | false =>
    simp only [Bool.not_false]
    -- not superseded: the row is the one the importer inserted, which is current
    have hview := view_of_pend_nil s hp
    unfold putRecords at ht hany
    simp only [hview] at ht hany
    split at ht
    · rename_i hempty
      simp only [Sess.addAll] at ht
      have : hasTag s.db t.tag = true := by simp only [hasTag, List.any_eq_true]; exact ⟨t, ht, by simp⟩
      rw [this] at hfresh; cases hfresh
    · rename_i hne
      simp only [hne] at hany
      simp only [view_addAll, hview] at ht hany
      simp only [postprocessTags, List.mem_map] at ht
      obtain ⟨t0, ht0, he⟩ := ht
      have hany' : (applyOps s.db ((newRecords s.db [] rs).flatMap recOps)).tagEdits.any (fun e => e.parent == t0.tag) = false := by
        split at he
        · subst he; simpa [postprocessTags] using hany
        · subst he; simpa [postprocessTags] using hany
      rw [if_neg (by simp [hany'])] at he
      subst he
      rcases tags_of_applyOps (fun op hop => by
          obtain ⟨r, _, hr⟩ := List.mem_flatMap.mp hop
          exact recOps_no_stale r op hr) ht0 with h | h
      · have : hasTag s.db t0.tag = true := by simp only [hasTag, List.any_eq_true]; exact ⟨t0, h, by simp⟩
        rw [this] at hfresh; cases hfresh
      · obtain ⟨r, _, hr⟩ := List.mem_flatMap.mp h
        exact recOps_tag_current hr

/-! ### the walk -/

inductive ReachRec (db : Db) : H → H → Prop
  | refl (a : H) : ReachRec db a a
  | step {a b c : H} : b ∈ childIds db a → ReachRec db b c → ReachRec db a c

theorem ReachRec.tail {db : Db} {a b c : H} (h : ReachRec db a b) (hc : c ∈ childIds db b) : ReachRec db a c := by
  induction h with
  | refl a => exact ReachRec.step hc (ReachRec.refl c)
  | step h1 _ ih => exact ReachRec.step h1 (ih hc)

theorem dedupInto_spec (seen frontier : List H) :
    (∀ x ∈ (dedupInto seen frontier).1, x ∈ frontier ∧ x ∉ seen) ∧ (dedupInto seen frontier).1.Nodup ∧
    (dedupInto seen frontier).2 = seen ++ (dedupInto seen frontier).1 := by
  induction frontier generalizing seen with
  | nil => simp [dedupInto]
  | cons x xs ih =>
    simp only [dedupInto]
    split
    · have := ih seen
      exact ⟨fun y hy => ⟨by simp [(this.1 y hy).1], (this.1 y hy).2⟩, this.2.1, this.2.2⟩
    · rename_i hx
      have := ih (seen ++ [x])
      simp only [List.contains_iff_mem] at hx
      refine ⟨?_, ?_, ?_⟩
      · intro y hy
        simp only [List.mem_cons] at hy
        rcases hy with hy | hy
        · subst hy; exact ⟨by simp, hx⟩
        · have h2 := this.1 y hy
          exact ⟨by simp [h2.1], fun hs => h2.2 (by simp [hs])⟩
      · simp only [List.nodup_cons]
        refine ⟨fun hmem => ?_, this.2.1⟩
        exact (this.1 x hmem).2 (by simp)
      · simp [this.2.2]

/-- **`iter_record_ids` is sound**: every id it yields is reachable from the frontier it was started with. -/
theorem bfs_sound (db : Db) (fuel : Nat) (seen frontier : List H) :
    ∀ x ∈ bfs db fuel seen frontier, ∃ f ∈ frontier, ReachRec db f x := by
  induction fuel generalizing seen frontier with
  | zero => intro x h; simp [bfs] at h
  | succ n ih =>
    intro x hx
    simp only [bfs] at hx
    have hd := dedupInto_spec seen frontier
    generalize dedupInto seen frontier = p at hx hd
    obtain ⟨nw, seen'⟩ := p
    simp only at hx hd
    split at hx
    · cases hx
    · simp only [List.mem_append] at hx
      rcases hx with hx | hx
      · exact ⟨x, (hd.1 x hx).1, ReachRec.refl x⟩
      · obtain ⟨f, hf, hr⟩ := ih seen' (nw.flatMap (childIds db)) x hx
        obtain ⟨y, hy, hfy⟩ := List.mem_flatMap.mp hf
        exact ⟨y, (hd.1 y hy).1, ReachRec.step hfy hr⟩

/-- ... and yields no id twice, and none that was seen before -/
theorem bfs_nodup (db : Db) (fuel : Nat) (seen frontier : List H) :
    (bfs db fuel seen frontier).Nodup ∧ ∀ x ∈ bfs db fuel seen frontier, x ∉ seen := by
  induction fuel generalizing seen frontier with
  | zero => simp [bfs]
  | succ n ih =>
    simp only [bfs]
    have hd := dedupInto_spec seen frontier
    generalize dedupInto seen frontier = p at hd
    obtain ⟨nw, seen'⟩ := p
    simp only at hd ⊢
    split
    · simp
    · have hrec := ih seen' (nw.flatMap (childIds db))
      refine ⟨?_, ?_⟩
      · rw [List.nodup_append]
        refine ⟨hd.2.1, hrec.1, ?_⟩
        intro a ha b hb hab
        subst hab
        exact hrec.2 a hb (by rw [hd.2.2]; simp [ha])
      · intro x hx
        simp only [List.mem_append] at hx
        rcases hx with hx | hx
        · exact (hd.1 x hx).2
        · intro hs; exact hrec.2 x hx (by rw [hd.2.2]; simp [hs])

theorem iterRecordIds_sound (db : Db) (roots : List H) :
    ∀ x ∈ iterRecordIds db roots, ∃ r ∈ roots, ReachRec db r x := by
  intro x hx
  obtain ⟨f, hf, hr⟩ := bfs_sound db _ _ _ x hx
  exact ⟨f, (List.mem_filter.mp hf).1, hr⟩

/-! ### the destination's cache -/

/-- **an imported call node is never served by the repaired shallow lookup**: any hit after `put_records` is on a
call node the destination had before (imported nodes carry no subtree rows, and the empty set is not current). -/
theorem imported_never_hit (v : Variant) (he : v.emptyNotCurrent = true) (rs : List Rec) (s : Sess)
    (hp : s.pend = []) (hsc : SubClosed s.db) (t a : H) (reg : List H) (n : NodeRow)
    (hit : getCallNode v (putRecords rs s).db t a reg = some n) : hasNode s.db n.call = true := by
  obtain ⟨_, _, _, _, hs, _, _, _, _⟩ := putRecords_graph rs s hp
  obtain ⟨_, _, _, hcur⟩ := getCallNode_spec hit
  simp only [nodeCurrent, Bool.and_eq_true, Bool.or_eq_true, Bool.not_eq_true', he] at hcur
  have hne : subtreeOf (putRecords rs s).db n.call ≠ [] := by
    rcases hcur.1 with h1 | h1
    · cases h1
    · intro h2; simp [h2] at h1
  rw [subtreeOf_congr hs] at hne
  cases hrows : subtreeOf s.db n.call with
  | nil => exact absurd hrows hne
  | cons x xs =>
    have : x ∈ subtreeOf s.db n.call := by rw [hrows]; simp
    exact hsc _ (mem_subtreeOf.mp this)

/-- **cache safety**: after any history of recordings, process deaths, restarts and imports (repaired code), every
shallow hit in the destination is one the recording rules justify (C03.history_shallow_sound). -/
theorem cache_safe (v : Variant) (hc : v.cseSubtreeFromDb = true)
    (he : v.emptyNotCurrent = true) {db : Db} {res : List JobRes} (h : C03.Hist v db res)
    (t a : H) (reg : List H) (n : NodeRow) (hit : getCallNode v db t a reg = some n) :
    C03.Covers db n.call reg :=
  C03.history_shallow_sound v hc he h t a reg n hit

/-- unrepaired `_get_call_node`: the destination serves what the source refuses -/
theorem cache_safe_refuted_current :
    getCallNode .current C03.dbSrc 10 1 C03.regEdited = none ∧
    C03.StaleHit .current (transfer C03.dbSrc [21] (.ofDb {})).db 10 1 C03.regEdited :=
  C03.refuted_transfer

/-! ### non-vacuity -/
example : (transfer C03.dbSrc [21] (.ofDb {})).db.nodes.length = 2 := by decide
example : iterRecordIds C03.dbSrc [21] = [21, 10, 100, 1, 20, 11] := by decide

end RedunModel.C23
