import RedunModel.Lemmas.Db
namespace RedunModel.C23
open RedunModel.Db
end RedunModel.C23
