import RedunModel.Model.CacheHist
namespace RedunModel.C02
end RedunModel.C02
