/-
C02 - cached executions return what an uncached run would return.

Model: `RedunModel/Model/CacheHist.lean` (backend tables Evaluation / CallNode+CallSubtreeTask / the CSE view,
the cache cascade of `check_cache` + `_get_cache`, validity of cached values, `catch`'s private cache;
a history is a list of executions, each under the registry and file system produced by the edits made since
the previous one).  `Den` (Lemmas) is the meaning of an expression with no backend at all.

Full strength, for the code after the repairs proposed for C02/C03 (`Variant`: `cseSubtreeFromDb`, and
`simpleExprValid` - needed for `BodyOk` of template programs, see `tableProg_bodyOk`):
* `cacheSound_preserved`   every execution of every history keeps `Inv` (= CacheSound: each Evaluation entry keyed
                           by (task hash, argument) is what the body with that hash returns on that argument;
                           each successful CallNode is right under every registry holding its subtree tasks);
* `full_validity`          every execution of every history returns the denotation under the *current* code;
* `cached_eq_fresh`        ... which is what the same execution returns on an empty backend, whenever that ends;
  hypotheses: programs without `catch` (or the reference design in which `catch` has no private cache), and
  either no `check_valid="shallow"` task or task functions that do not observe the world
  (no `File(path)` stat in a body: shallow validity skips intermediate values by design);
* `tableProg_bodyOk/_cfp/_worldFree`  the template programs the driver runs satisfy the hypotheses.
Partial, `catch`'s private cache as implemented (histories without shallow tasks):
* `full_validity_catch_partial`, `cached_eq_fresh_catch_partial`   the same conclusion under `CatchStill`: at the start
                           of every execution every caught expression whose recovery is cached still raises its class
                           under the current code - the stale recovery is the only way `catch`'s cache goes wrong.
Refuted on the code as found (closed witnesses, the harness replays them on the real code):
* `refuted_catch`          DESIGN F1, still the behaviour of /repo: known finding;
* `refuted_simple_expr`    stale `File` under a lazy `+` (repaired by C02-simple-expression-validity.fix.diff);
* `refuted_cse_twin`       shallow task over a CSE-served child (repaired by C03-subtree-tasks.fix.diff).
-/
import RedunModel.Lemmas.CacheHist
import RedunModel.Lemmas.CacheHistCatch
namespace RedunModel.C02
open RedunModel.CacheHist

/-- `CacheSound` is an invariant of executions: one whole execution (any registry, any file system, any root
expression) on a backend satisfying it leaves a backend satisfying it - and returns the denotation. -/
theorem cacheSound_preserved {V : Variant} {P : Prog} (hC : V.cseSubtreeFromDb = true) (hB : BodyOk V P)
    (hK : CFP V P) (ri : RunIn) (hF : WorldFree P ∨ ∀ n, ri.code.shallow n = false) (hR : CF V ri.root)
    {c0 : Code} {w0 : World} {st st' : St} {r : Res} {u : List TH}
    (hI : Inv V P c0 w0 st) (h : runOne V P st ri = some (st', r, u)) :
    Inv V P ri.code ri.world st' ∧ Den P ri.code ri.world ri.root r := by
  have := eval_sound (c := ri.code) (w := ri.world) hC hB hK hF ri.fuel _ _ _ _ _ (inv_newExec ri.errRec hI) hR h
  exact ⟨this.1, this.2.1⟩

/-- an execution on an empty backend computes the denotation -/
theorem fresh_den {V : Variant} {P : Prog} (hC : V.cseSubtreeFromDb = true) (hB : BodyOk V P) (hK : CFP V P)
    (ri : RunIn) (hF : WorldFree P ∨ ∀ n, ri.code.shallow n = false) (hR : CF V ri.root)
    {fuel : Nat} {r : Res} (h : fresh V P ri fuel = some r) : Den P ri.code ri.world ri.root r := by
  unfold fresh at h
  cases he : eval V P ri.code ri.world fuel {} ri.root with
  | none => simp [he] at h
  | some x =>
    obtain ⟨st', r', u⟩ := x
    simp [he] at h
    subst h
    exact (eval_sound hC hB hK hF fuel _ _ _ _ _ (inv_empty V P ri.code ri.world) hR he).2.1

/-- **C02 on the model**: in every history of executions interleaved with arbitrary edits (each `RunIn`
carries the registry and the file system in force), every execution returns the denotation of its root
expression under the code current at that moment. -/
theorem full_validity {V : Variant} {P : Prog} (hC : V.cseSubtreeFromDb = true) (hB : BodyOk V P) (hK : CFP V P) :
    ∀ (hist : List RunIn), (WorldFree P ∨ ∀ ri ∈ hist, ∀ n, ri.code.shallow n = false) →
      (∀ ri ∈ hist, CF V ri.root) →
      ∀ {c0 : Code} {w0 : World} {st st' : St} {rs : List Res}, Inv V P c0 w0 st →
        runHist V P st hist = some (st', rs) →
        rs.length = hist.length ∧
        ∀ (i : Nat) (hi : i < hist.length) (hi' : i < rs.length),
          Den P hist[i].code hist[i].world hist[i].root rs[i] := by
  intro hist
  induction hist with
  | nil =>
    intro _ _ c0 w0 st st' rs _ h
    simp only [runHist, Option.some.injEq, Prod.mk.injEq] at h
    obtain ⟨_, rfl⟩ := h
    exact ⟨rfl, fun i hi => absurd hi (Nat.not_lt_zero i)⟩
  | cons ri rest ih =>
    intro hF hR c0 w0 st st' rs hI h
    simp only [runHist] at h
    split at h
    · cases h
    · next st1 r u h1 =>
      split at h
      · cases h
      · next st2 rs2 h2 =>
        simp only [Option.some.injEq, Prod.mk.injEq] at h
        obtain ⟨_, rfl⟩ := h
        have hF1 : WorldFree P ∨ ∀ n, ri.code.shallow n = false :=
          hF.imp id fun hh => hh ri List.mem_cons_self
        obtain ⟨hI1, hD1⟩ := cacheSound_preserved hC hB hK ri hF1 (hR ri List.mem_cons_self) hI h1
        obtain ⟨hlen, hall⟩ := ih (hF.imp id fun hh ri' hm => hh ri' (List.mem_cons_of_mem _ hm))
          (fun ri' hm => hR ri' (List.mem_cons_of_mem _ hm)) hI1 h2
        refine ⟨by simp [hlen], ?_⟩
        intro i hi hi'
        cases i with
        | zero => exact hD1
        | succ j => exact hall j (by simpa using hi) (by simpa using hi')

/-- ... and that is what the same execution returns against an empty backend (the property's oracle). -/
theorem cached_eq_fresh {V : Variant} {P : Prog} (hC : V.cseSubtreeFromDb = true) (hB : BodyOk V P) (hK : CFP V P)
    (hist : List RunIn) (hF : WorldFree P ∨ ∀ ri ∈ hist, ∀ n, ri.code.shallow n = false)
    (hR : ∀ ri ∈ hist, CF V ri.root) {st' : St} {rs : List Res}
    (h : runHist V P {} hist = some (st', rs)) (i : Nat) (hi : i < hist.length) (fuel : Nat) (r' : Res)
    (hf : fresh V P hist[i] fuel = some r') : rs[i]? = some r' := by
  obtain ⟨hlen, hall⟩ := full_validity hC hB hK hist hF hR
    (inv_empty V P ⟨fun _ => 0, fun _ => false, fun _ => false⟩ ⟨fun _ => 0, fun _ => 0, fun _ => false⟩) h
  have hi' : i < rs.length := hlen ▸ hi
  have hD := hall i hi hi'
  have hm : hist[i] ∈ hist := List.getElem_mem hi
  have hD' := fresh_den hC hB hK hist[i] (hF.imp id fun hh => hh _ hm) (hR _ hm) hf
  rw [List.getElem?_eq_getElem hi', den_det hD hD']

/-! ### `catch`'s private cache as implemented -/

/-- at the start of every execution of the history, every caught expression whose *recovery* is cached still raises
the caught class under the code current at that moment (i.e. no edit since has made it succeed or fail differently) -/
def CatchStill (V : Variant) (P : Prog) : St → List RunIn → Prop
  | _, [] => True
  | st, ri :: rest =>
    (∀ ck ce, (ck, ce) ∈ st.catches → ce ≠ ck.e → Den P ri.code ri.world ck.e (.err ck.cls)) ∧
    (∀ st1 r u, runOne V P st ri = some (st1, r, u) → CatchStill V P st1 rest)

theorem invC_empty (V P c w) : InvC V P c w {} := ⟨by simp, by simp, by simp⟩

/-- **C02 with `catch` as implemented (`_partial`)**: for histories without shallow tasks, every execution returns the
denotation under the current code provided `CatchStill` - the stale-recovery finding is the only way `catch`'s private
cache can go wrong. -/
theorem full_validity_catch_partial {V : Variant} {P : Prog} (hB : BodyOk V P) :
    ∀ (hist : List RunIn), (∀ ri ∈ hist, ∀ n, ri.code.shallow n = false) →
      ∀ {c0 : Code} {w0 : World} {st st' : St} {rs : List Res}, InvC V P c0 w0 st → CatchStill V P st hist →
        runHist V P st hist = some (st', rs) →
        rs.length = hist.length ∧
        ∀ (i : Nat) (hi : i < hist.length) (hi' : i < rs.length),
          Den P hist[i].code hist[i].world hist[i].root rs[i] := by
  intro hist
  induction hist with
  | nil =>
    intro _ c0 w0 st st' rs _ _ h
    simp only [runHist, Option.some.injEq, Prod.mk.injEq] at h
    obtain ⟨_, rfl⟩ := h
    exact ⟨rfl, fun i hi => absurd hi (Nat.not_lt_zero i)⟩
  | cons ri rest ih =>
    intro hNS c0 w0 st st' rs hI hCS h
    simp only [runHist] at h
    split at h
    · cases h
    · next st1 r u h1 =>
      split at h
      · cases h
      · next st2 rs2 h2 =>
        simp only [Option.some.injEq, Prod.mk.injEq] at h
        obtain ⟨_, rfl⟩ := h
        have hI0 : InvC V P ri.code ri.world (st.newExec ri.errRec) := by
          refine ⟨hI.evals, by simp [St.newExec], ?_⟩
          intro ck ce hm
          by_cases hce : ce = ck.e
          · exact .inl hce
          · rcases hI.catches ck ce hm with h' | ⟨h', _⟩
            · exact absurd h' hce
            · exact .inr ⟨h', hCS.1 ck ce hm hce⟩
        obtain ⟨hI1, hD1⟩ := eval_soundC hB (hNS ri List.mem_cons_self) ri.fuel _ _ _ _ _ hI0 h1
        obtain ⟨hlen, hall⟩ := ih (fun ri' hm => hNS ri' (List.mem_cons_of_mem _ hm)) hI1 (hCS.2 st1 r u h1) h2
        refine ⟨by simp [hlen], ?_⟩
        intro i hi hi'
        cases i with
        | zero => exact hD1
        | succ j => exact hall j (by simpa using hi) (by simpa using hi')

theorem fresh_den_catch {V : Variant} {P : Prog} (hB : BodyOk V P) (ri : RunIn) (hNS : ∀ n, ri.code.shallow n = false)
    {fuel : Nat} {r : Res} (h : fresh V P ri fuel = some r) : Den P ri.code ri.world ri.root r := by
  unfold fresh at h
  cases he : eval V P ri.code ri.world fuel {} ri.root with
  | none => simp [he] at h
  | some x =>
    obtain ⟨st', r', u⟩ := x
    simp [he] at h
    subst h
    exact (eval_soundC hB hNS fuel _ _ _ _ _ (invC_empty V P ri.code ri.world) he).2

/-- ... hence equal to the result on an empty backend -/
theorem cached_eq_fresh_catch_partial {V : Variant} {P : Prog} (hB : BodyOk V P) (hist : List RunIn)
    (hNS : ∀ ri ∈ hist, ∀ n, ri.code.shallow n = false) (hCS : CatchStill V P {} hist) {st' : St} {rs : List Res}
    (h : runHist V P {} hist = some (st', rs)) (i : Nat) (hi : i < hist.length) (fuel : Nat) (r' : Res)
    (hf : fresh V P hist[i] fuel = some r') : rs[i]? = some r' := by
  obtain ⟨hlen, hall⟩ := full_validity_catch_partial hB hist hNS
    (invC_empty V P ⟨fun _ => 0, fun _ => false, fun _ => false⟩ ⟨fun _ => 0, fun _ => 0, fun _ => false⟩) hCS h
  have hi' : i < rs.length := hlen ▸ hi
  have hD := hall i hi hi'
  have hm : hist[i] ∈ hist := List.getElem_mem hi
  have hD' := fresh_den_catch hB hist[i] (hNS _ hm) hf
  rw [List.getElem?_eq_getElem hi', den_det hD hD']

/-! ### the theorems apply to every template program (what the driver runs, what the harness generates) -/

theorem tableProg_bodyOk {V : Variant} (hS : V.simpleExprValid = true) (tbl : List (TH × Spec))
    (hcf : ∀ x ∈ tbl, SpecOk TmCatchFree x.2) : BodyOk V (tableProg tbl) := CacheHist.tableProg_bodyOk hS tbl hcf

theorem tableProg_cfp (V : Variant) (tbl : List (TH × Spec)) (h : ∀ x ∈ tbl, SpecOk TmCatchFree x.2) :
    CFP V (tableProg tbl) := CacheHist.tableProg_cfp V tbl h

theorem tableProg_worldFree (tbl : List (TH × Spec)) (h : ∀ x ∈ tbl, SpecOk TmFileFree x.2) :
    WorldFree (tableProg tbl) := CacheHist.tableProg_worldFree tbl h

/-- C02 for generated workflows on the repaired code: catch-free template programs, any edit history, tasks
with `check_valid="shallow"` only when no body stats a file. -/
theorem full_validity_table (tbl : List (TH × Spec)) (hcf : ∀ x ∈ tbl, SpecOk TmCatchFree x.2)
    (hist : List RunIn)
    (hF : (∀ x ∈ tbl, SpecOk TmFileFree x.2) ∨ ∀ ri ∈ hist, ∀ n, ri.code.shallow n = false)
    (hR : ∀ ri ∈ hist, CatchFree ri.root) {st' : St} {rs : List Res}
    (h : runHist .repaired (tableProg tbl) {} hist = some (st', rs)) (i : Nat) (hi : i < hist.length)
    (fuel : Nat) (r' : Res) (hf : fresh .repaired (tableProg tbl) hist[i] fuel = some r') : rs[i]? = some r' :=
  cached_eq_fresh (V := .repaired) rfl (tableProg_bodyOk rfl tbl hcf) (tableProg_cfp _ tbl hcf) hist
    (hF.imp (tableProg_worldFree tbl) id) (fun ri hm => .inr (hR ri hm)) h i hi fuel r' hf

/-! ### witnesses -/

def code (vs : List (Nat × Nat)) (sh : List Nat := []) : Code where
  ver n := (lookup n vs).getD 0
  shallow n := sh.contains n

def fsConst (s : Nat) : FS := fun _ => s

def i (z : Int) : Expr := .lit (.int z)

/-- F1.  t0(x) = catch(t1(x), E0, t2);  t1 raises E0 (version 0) / returns 5 (version 1);  t2(err) = 0. -/
def catchTbl : List (TH × Spec) :=
  [(⟨0, 0⟩, .ret (.catch (.call 1 .arg) 0 2)), (⟨1, 0⟩, .raise 0), (⟨1, 1⟩, .ret (.lit 5)), (⟨2, 0⟩, .ret (.lit 0))]

def catchHist : List RunIn :=
  [{ code := code [], fs := fsConst 1, root := .call 0 (i 0), fuel := 20 }, { code := code [(1, 1)], fs := fsConst 1, root := .call 0 (i 0), fuel := 20 }]

/-- **refuted (DESIGN F1, current behaviour of /repo)**: run; edit the caught task so that it returns 5; run again
on the same backend: the recovery value 0 is replayed, an empty backend gives 5.  (`Variant.repaired`: the other
two defects do not matter here.) -/
theorem refuted_catch :
    (runHist .repaired (tableProg catchTbl) {} catchHist).map (·.2) = some [.ok (.int 0), .ok (.int 0)] ∧
    fresh .repaired (tableProg catchTbl) catchHist[1] 20 = some (.ok (.int 5)) := by
  decide

/-- the same history is answered correctly by the reference design without `catch`'s private cache
(so `full_validity` with `noCatchCache` is not vacuous on programs with `catch`) -/
example : (runHist ⟨true, true, true⟩ (tableProg catchTbl) {} catchHist).map (·.2) = some [.ok (.int 0), .ok (.int 5)] := by
  decide

/-- non-vacuity of `full_validity_catch_partial`: the same workflow executed twice without an edit in between - the
recovery cached by the first execution is still justified at the start of the second -/
def catchRun : RunIn := { code := code [], fs := fsConst 1, root := .call 0 (i 0), fuel := 20 }

theorem catchRun_entry : (runOne .repaired (tableProg catchTbl) {} catchRun).map (fun x => x.1.catches) =
    some [(⟨.call 1 (.lit (.int 0)), 0, ⟨2, 0⟩⟩, .call 2 (.lit (.exc 0)))] := by decide

example : CatchStill .repaired (tableProg catchTbl) {} [catchRun, catchRun] := by
  refine ⟨by intro ck ce hm; simp at hm, ?_⟩
  intro st1 r u h
  have h1 := catchRun_entry
  rw [h] at h1
  simp only [Option.map_some, Option.some.injEq] at h1
  refine ⟨?_, fun _ _ _ _ => trivial⟩
  intro ck ce hm hne
  rw [h1] at hm
  simp only [List.mem_singleton, Prod.mk.injEq] at hm
  obtain ⟨rfl, rfl⟩ := hm
  exact .callRaise (.lit _) (by decide)

/-- t0(x) = t1(File(p0)) + 1;  t1(f) = content of f. -/
def fileTbl : List (TH × Spec) := [(⟨0, 0⟩, .ret (.add (.call 1 (.file 0)) (.lit 1))), (⟨1, 0⟩, .ret .numarg)]

def fileHist : List RunIn :=
  [{ code := code [], fs := fsConst 1, root := .call 0 (i 0), fuel := 20 }, { code := code [], fs := fsConst 2, root := .call 0 (i 0), fuel := 20 }]

/-- **refuted on the code as found** (`simpleExprValid = false`; repaired by C02-simple-expression-validity.fix.diff):
the file is rewritten between two executions, the cached `t1(File(p0, stamp 1)) + 1` is replayed. -/
theorem refuted_simple_expr :
    (runHist ⟨false, true, false⟩ (tableProg fileTbl) {} fileHist).map (·.2) = some [.ok (.int 2), .ok (.int 2)] ∧
    fresh ⟨false, true, false⟩ (tableProg fileTbl) fileHist[1] 20 = some (.ok (.int 3)) := by
  decide

/-- the repaired code on the same history (an instance of `full_validity_table`) -/
example : (runHist .repaired (tableProg fileTbl) {} fileHist).map (·.2) = some [.ok (.int 2), .ok (.int 3)] := by
  decide

/-- t0 = t1(t2(1)) (version 0) / t1(11) (version 1);  t1 (shallow) = t2(1);  t2(x) = t3(x);  t3(x) = x+10 / x+100. -/
def twinTbl : List (TH × Spec) :=
  [(⟨0, 0⟩, .ret (.call 1 (.call 2 (.lit 1)))), (⟨0, 1⟩, .ret (.call 1 (.lit 11))), (⟨1, 0⟩, .ret (.call 2 (.lit 1))),
   (⟨2, 0⟩, .ret (.call 3 .arg)), (⟨3, 0⟩, .ret (.add .arg (.lit 10))), (⟨3, 1⟩, .ret (.add .arg (.lit 100)))]

def twinHist : List RunIn :=
  [{ code := code [] [1], fs := fsConst 1, root := .call 0 (i 0), fuel := 30 }, { code := code [(0, 1), (3, 1)] [1], fs := fsConst 1, root := .call 0 (i 0), fuel := 30 }]

/-- **refuted on the code as found** (`cseSubtreeFromDb = false`; repaired by C03-subtree-tasks.fix.diff): the shallow
task t1 ran over a CSE-served t2(1) and recorded the subtree {t1, t2} without t3; after t3 is edited the shallow hit
returns the old 11, an empty backend gives 101. -/
theorem refuted_cse_twin :
    (runHist ⟨true, false, false⟩ (tableProg twinTbl) {} twinHist).map (·.2) = some [.ok (.int 11), .ok (.int 11)] ∧
    fresh ⟨true, false, false⟩ (tableProg twinTbl) twinHist[1] 30 = some (.ok (.int 101)) := by
  decide

example : (runHist .repaired (tableProg twinTbl) {} twinHist).map (·.2) = some [.ok (.int 11), .ok (.int 101)] := by
  decide

/-- non-vacuity of `full_validity_table`'s hypotheses on `twinTbl`/`twinHist` -/
example : (∀ x ∈ twinTbl, SpecOk TmCatchFree x.2) ∧ (∀ x ∈ twinTbl, SpecOk TmFileFree x.2) := by
  simp [twinTbl, SpecOk, TmCatchFree, TmFileFree]

end RedunModel.C02
