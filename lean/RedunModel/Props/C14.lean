/-
C14 — The canonical structure encoding behind every hash is injective.

Property theorems only; helper lemmas live in `RedunModel.Lemmas.BStruct`.
Model: `RedunModel.Model.BStruct` (`enc` = `bencode` on normalised structures, `norm` = what
`_bencode_to_file` accepts and how it canonicalises str/bytes, list/tuple and dict key order).
-/
import RedunModel.Lemmas.BStruct
namespace RedunModel.C14
open RedunModel.BStruct

/-- Unique parsing: an encoding followed by anything determines the structure and the rest.
Injectivity and prefix-freeness are the two corollaries below. -/
theorem enc_unique_parse (a b : BVal) (r1 r2 : List UInt8) (h : enc a ++ r1 = enc b ++ r2) :
    a = b ∧ r1 = r2 := enc_unique a b r1 r2 h

/-- Structures that differ encode differently (all pairs, no size bound). -/
theorem enc_injective (a b : BVal) (h : enc a = enc b) : a = b := by
  have := enc_unique a b [] [] (by simpa using h)
  exact this.1

/-- No encoding is a proper prefix of another: concatenated encodings (list items, dict items,
the `[tag, ...]` records fed to `hash_struct`) cannot be re-bracketed. -/
theorem enc_prefix_free (a b : BVal) (r : List UInt8) (h : enc a ++ r = enc b) : a = b ∧ r = [] := by
  have := enc_unique a b r [] (by simpa using h)
  exact this

/-- Lists: element boundaries cannot shift (`["ab","c"]` vs `["a","bc"]`). -/
theorem encList_injective (a b : BList) (h : encList a = encList b) : a = b := by
  have := encList_unique a b [] [] (by simpa using h)
  exact this.1

/-- Through `norm`: two Python structures get the same bytes iff they normalise to the same
structure (i.e. are equal up to str/utf-8 bytes, list/tuple, and dict item order — see
`norm_str_bytes`, `norm_list_tuple`). -/
theorem enc_norm_eq_iff (x y : PyVal) (a b : BVal) (hx : norm x = some a) (hy : norm y = some b) :
    enc a = enc b ↔ a = b := ⟨enc_injective a b, fun h => by rw [h]⟩

theorem norm_str_bytes (u : List UInt8) : norm (.str u) = norm (.bytes u) := by simp [norm]
theorem norm_list_tuple (l : PyList) : norm (.list l) = norm (.tuple l) := by simp [norm]

/-- Booleans, None and floats are rejected, at any depth of a list. -/
theorem rejects_bool (b : Bool) : norm (.bool b) = none := by simp [norm]
theorem rejects_none : norm .none = none := by simp [norm]
theorem rejects_float : norm .float = none := by simp [norm]
theorem rejects_in_list (v : PyVal) (t : PyList) (h : norm v = none) : norm (.list (.cons v t)) = none := by
  simp [norm, normList, h]
theorem rejects_nonstring_key (v : PyVal) (t : PyDict) : norm (.dict (.cons .other v t)) = none := by
  simp [norm, normDict, keyKind]

/-- non-vacuity: the classic boundary-shift pair is separated -/
example : enc (.list (.cons (.bytes [97, 98]) (.cons (.bytes [99]) .nil)))
    ≠ enc (.list (.cons (.bytes [97]) (.cons (.bytes [98, 99]) .nil))) := by
  intro h; have := enc_injective _ _ h; simp at this

end RedunModel.C14
