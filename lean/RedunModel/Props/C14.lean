/-
C14 — The canonical structure encoding behind every hash is injective.

Property theorems only; helper lemmas live in `RedunModel.Lemmas.BStruct`.
Model: `RedunModel.Model.BStruct` (`enc` = `bencode` on normalised structures, `norm` = what
`_bencode_to_file` accepts and how it canonicalises str/bytes, list/tuple and dict key order,
`decode` = `bdecode`).
-/
import RedunModel.Lemmas.BStructDec
namespace RedunModel.C14
open RedunModel.BStruct

/-- Unique parsing: an encoding followed by anything determines the structure and the rest.
Injectivity and prefix-freeness are the two corollaries below. -/
theorem enc_unique_parse (a b : BVal) (r1 r2 : List UInt8) (h : enc a ++ r1 = enc b ++ r2) :
    a = b ∧ r1 = r2 := enc_unique a b r1 r2 h

/-- Structures that differ encode differently (all pairs, no size bound). -/
theorem enc_injective (a b : BVal) (h : enc a = enc b) : a = b := by
  have := enc_unique a b [] [] (by simpa using h)
  exact this.1

/-- No encoding is a proper prefix of another: concatenated encodings (list items, dict items,
the `[tag, ...]` records fed to `hash_struct`) cannot be re-bracketed. -/
theorem enc_prefix_free (a b : BVal) (r : List UInt8) (h : enc a ++ r = enc b) : a = b ∧ r = [] := by
  have := enc_unique a b r [] (by simpa using h)
  exact this

/-- Lists: element boundaries cannot shift (`["ab","c"]` vs `["a","bc"]`). -/
theorem encList_injective (a b : BList) (h : encList a = encList b) : a = b := by
  have := encList_unique a b [] [] (by simpa using h)
  exact this.1

/-- Through `norm`: two Python structures get the same bytes iff they normalise to the same
structure (i.e. are equal up to str/utf-8 bytes, list/tuple, and dict item order — see
`norm_str_bytes`, `norm_list_tuple`). -/
theorem enc_norm_eq_iff (x y : PyVal) (a b : BVal) (hx : norm x = some a) (hy : norm y = some b) :
    enc a = enc b ↔ a = b := ⟨enc_injective a b, fun h => by rw [h]⟩

theorem norm_str_bytes (u : List UInt8) : norm (.str u) = norm (.bytes u) := by simp [norm]
theorem norm_list_tuple (l : PyList) : norm (.list l) = norm (.tuple l) := by simp [norm]

/-- Booleans, None and floats are rejected, at any depth of a list. -/
theorem rejects_bool (b : Bool) : norm (.bool b) = none := by simp [norm]
theorem rejects_none : norm .none = none := by simp [norm]
theorem rejects_float : norm .float = none := by simp [norm]
theorem rejects_in_list (v : PyVal) (t : PyList) (h : norm v = none) : norm (.list (.cons v t)) = none := by
  simp [norm, normList, h]
theorem rejects_nonstring_key (v : PyVal) (t : PyDict) : norm (.dict (.cons .other v t)) = none := by
  simp [norm, normDict, keyKind]

/-- non-vacuity: the classic boundary-shift pair is separated -/
example : enc (.list (.cons (.bytes [97, 98]) (.cons (.bytes [99]) .nil)))
    ≠ enc (.list (.cons (.bytes [97]) (.cons (.bytes [98, 99]) .nil))) := by
  intro h; have := enc_injective _ _ h; simp at this

/-! ## (1) key order never matters -/

/-- `norm` of a dict does not depend on the order of its items: any permutation of the item list of a
Python dict (distinct `str`/`bytes` keys) gives the same result — the same `BDict`, or `none`
(TypeError) for both.  Together with `enc` being a function: the same bytes. -/
theorem dict_key_order_irrelevant (kvs kvs' : List (PyKey × PyVal)) (hp : kvs.Perm kvs')
    (hd : DistinctKeys kvs) :
    norm (.dict (PyDict.ofItems kvs)) = norm (.dict (PyDict.ofItems kvs')) := by
  simp only [norm, normDict_perm hp hd 0]

theorem distinctKeys_of_nodup {kvs : List (PyKey × PyVal)} (hd : (kvs.map Prod.fst).Nodup) :
    DistinctKeys kvs := by
  unfold DistinctKeys
  rw [List.Nodup, List.pairwise_map] at hd
  refine hd.imp ?_
  intro a b hne
  cases ha : keyKind a.1 with
  | none => exact Or.inl rfl
  | some p =>
    cases hb : keyKind b.1 with
    | none => exact Or.inr (Or.inl rfl)
    | some q =>
      refine Or.inr (Or.inr ?_)
      intro e
      have : p = q := by simpa using e
      subst this
      exact hne (keyKind_inj ha hb)

/-- the same with the plain reading of "distinct keys" -/
theorem dict_key_order_irrelevant_nodup (kvs kvs' : List (PyKey × PyVal)) (hp : kvs.Perm kvs')
    (hd : (kvs.map Prod.fst).Nodup) :
    norm (.dict (PyDict.ofItems kvs)) = norm (.dict (PyDict.ofItems kvs')) :=
  dict_key_order_irrelevant kvs kvs' hp (distinctKeys_of_nodup hd)

/-- ... in particular the encoded bytes (or the TypeError) are the same -/
theorem dict_key_order_irrelevant_bytes (kvs kvs' : List (PyKey × PyVal)) (hp : kvs.Perm kvs')
    (hd : DistinctKeys kvs) :
    (norm (.dict (PyDict.ofItems kvs))).map enc = (norm (.dict (PyDict.ofItems kvs'))).map enc := by
  rw [dict_key_order_irrelevant kvs kvs' hp hd]

/-- non-vacuity: a two-item dict in both orders; and a str/bytes key mix fails in both orders -/
example : norm (.dict (PyDict.ofItems [(.str [98], .int 2), (.str [97], .int 1)]))
    = some (.dict (.cons [97] (.int 1) (.cons [98] (.int 2) .nil))) := by
  simp [PyDict.ofItems, norm, normDict, keyKind, insertItem, bytesLt]
example : norm (.dict (PyDict.ofItems [(.str [97], .int 1), (.bytes [98], .int 2)])) = none
    ∧ norm (.dict (PyDict.ofItems [(.bytes [98], .int 2), (.str [97], .int 1)])) = none := by
  simp [PyDict.ofItems, norm, normDict, keyKind]

/-! ## (2) the normal form is key-sorted, hence unique -/

/-- Every dict inside the result of `norm` has strictly increasing keys (`WF`), provided the Python
dicts have distinct keys (`PyDistinct` — true of every Python dict). -/
theorem norm_sorted (x : PyVal) (v : BVal) (hd : PyDistinct x) (h : norm x = some v) : WF v :=
  norm_wf x v hd h

/-- `WFDict` says "strictly increasing": the keys are pairwise `<` in list order. -/
theorem wfDict_keys_pairwise : ∀ d : BDict, WFDict d → (BDict.keys d).Pairwise (fun a b => bytesLt a b = true)
  | .nil, _ => by simp [BDict.keys]
  | .cons k v t, h => by
    simp only [WFDict] at h
    simp only [BDict.keys, List.pairwise_cons]
    exact ⟨h.2.1, wfDict_keys_pairwise t h.2.2⟩

/-- A key-sorted dict is determined by its set of items. -/
theorem sorted_dict_unique (a b : BDict) (ha : WFDict a) (hb : WFDict b)
    (h : ∀ p, p ∈ BDict.items a ↔ p ∈ BDict.items b) : a = b := wfDict_ext a b ha hb h

/-- Two Python dicts that are equal as finite maps (same set of items, whatever the insertion order)
normalise to the same `BDict` / fail alike. -/
theorem norm_same_finmap (kvs kvs' : List (PyKey × PyVal))
    (hd : (kvs.map Prod.fst).Nodup) (hd' : (kvs'.map Prod.fst).Nodup)
    (h : ∀ p, p ∈ kvs ↔ p ∈ kvs') :
    norm (.dict (PyDict.ofItems kvs)) = norm (.dict (PyDict.ofItems kvs')) := by
  have n1 : kvs.Nodup := by
    rw [List.Nodup, List.pairwise_map] at hd
    exact hd.imp (fun hne e => hne (by rw [e]))
  have n2 : kvs'.Nodup := by
    rw [List.Nodup, List.pairwise_map] at hd'
    exact hd'.imp (fun hne e => hne (by rw [e]))
  exact dict_key_order_irrelevant_nodup kvs kvs' ((List.perm_ext_iff_of_nodup n1 n2).mpr h) hd

/-! ## (3) decoding an encoding returns the structure

`decode` mirrors `bdecode`, including everything it accepts that no `bencode` call produces
(`i-0e`, `i03e`, `i 1_0 e`, `03:abc`, unsorted or duplicate dict keys, `None` dict values, `lle`, trailing
bytes).  The property only speaks about decoding *encodings*: `dec_enc`. -/

/-- For every structure `v` — every `BDict`, sorted or not, duplicates or not: the decoder returns the
item sequence of the stream — and any following bytes, decoding `enc v ++ rest` yields exactly `v` and
leaves exactly `rest`.  `Fits v` = what `bencode` can emit on CPython: ints within the 4300-digit cap of
`str()`/`int()` (beyond it `bencode` raises ValueError, see (4), and so would `int()` in `bdecode`) and no byte
string of 2^63 bytes or more (`Py_ssize_t`; `f.read(n)` raises OverflowError for such `n`). -/
theorem dec_enc (v : BVal) (rest : List UInt8) (h : Fits v) :
    decode (enc v ++ rest) = .ok (ofB v, rest) := decode_enc v rest h

mutual
  theorem ofB_inj : ∀ a b : BVal, ofB a = ofB b → a = b
    | .int _, .int _, h => by simpa [ofB] using h
    | .int _, .bytes _, h => by simp [ofB] at h
    | .int _, .list _, h => by simp [ofB] at h
    | .int _, .dict _, h => by simp [ofB] at h
    | .bytes _, .int _, h => by simp [ofB] at h
    | .bytes _, .bytes _, h => by simpa [ofB] using h
    | .bytes _, .list _, h => by simp [ofB] at h
    | .bytes _, .dict _, h => by simp [ofB] at h
    | .list _, .int _, h => by simp [ofB] at h
    | .list _, .bytes _, h => by simp [ofB] at h
    | .list a, .list b, h => by simp only [ofB, DVal.list.injEq] at h; rw [ofBList_inj a b h]
    | .list _, .dict _, h => by simp [ofB] at h
    | .dict _, .int _, h => by simp [ofB] at h
    | .dict _, .bytes _, h => by simp [ofB] at h
    | .dict _, .list _, h => by simp [ofB] at h
    | .dict a, .dict b, h => by simp only [ofB, DVal.dict.injEq] at h; rw [ofBDict_inj a b h]
  theorem ofBList_inj : ∀ a b : BList, ofBList a = ofBList b → a = b
    | .nil, .nil, _ => rfl
    | .nil, .cons _ _, h => by simp [ofBList] at h
    | .cons _ _, .nil, h => by simp [ofBList] at h
    | .cons v t, .cons w u, h => by
      simp only [ofBList, DList.cons.injEq] at h
      rw [ofB_inj v w h.1, ofBList_inj t u h.2]
  theorem ofBDict_inj : ∀ a b : BDict, ofBDict a = ofBDict b → a = b
    | .nil, .nil, _ => rfl
    | .nil, .cons _ _ _, h => by simp [ofBDict] at h
    | .cons _ _ _, .nil, h => by simp [ofBDict] at h
    | .cons k v t, .cons k' w u, h => by
      simp only [ofBDict, DDict.cons.injEq] at h
      rw [h.1, ofB_inj v w h.2.1, ofBDict_inj t u h.2.2]
end

/-- `ofB` (a structure seen as a decoder result) loses nothing. -/
theorem ofB_injective (a b : BVal) (h : ofB a = ofB b) : a = b := ofB_inj a b h

/-- Decoding is a left inverse of encoding on normalised structures, also through the Python-dict
view `canonD` (last binding wins, sorted by key): what `bdecode(bencode(x))` holds is `norm x`. -/
theorem dec_left_inverse (x : PyVal) (v : BVal) (hd : PyDistinct x) (hn : norm x = some v) (hf : Fits v) :
    decode (enc v) = .ok (ofB v, []) ∧ canonD (ofB v) = ofB v := by
  have := dec_enc v [] hf
  simp only [List.append_nil] at this
  exact ⟨this, canonD_ofB v (norm_sorted x v hd hn)⟩

/-- the decoder is total: the model's fuel always suffices -/
theorem decode_total (data : List UInt8) : decode data ≠ .error .fuel := decode_ne_fuel data

/-- non-vacuity of `dec_enc` and what `bdecode` accepts beyond encodings (closed instances) -/
example : decode (enc (.dict (.cons [97] (.list (.cons (.int (-7)) .nil)) .nil)) ++ [120])
    = .ok (ofB (.dict (.cons [97] (.list (.cons (.int (-7)) .nil)) .nil)), [120]) :=
  dec_enc _ _ (by simp [Fits, FitsDict, FitsList, intFits_of_lt_ten])

/-- `i-0e`, `i03e`, `i 1_0 e` decode although nothing encodes to them -/
theorem dec_accepts_non_encodings :
    decode [105, 45, 48, 101] = .ok (.int 0, [])                       -- i-0e
    ∧ decode [105, 48, 51, 101] = .ok (.int 3, [])                     -- i03e
    ∧ decode [105, 32, 49, 95, 48, 32, 101] = .ok (.int 10, [])        -- `i 1_0 e`
    ∧ decode [48, 51, 58, 97, 98, 99] = .ok (.bytes [97, 98, 99], [])  -- 03:abc
    ∧ decode [108, 108, 101] = .ok (.list (.cons (.list .nil) .nil), [])   -- lle  -> [[]]
    ∧ decode [100, 49, 58, 97, 101] = .ok (.dict (.cons [97] .none .nil), [])   -- d1:ae -> {'a': None}
    ∧ decode [100, 49, 58, 98, 105, 49, 101, 49, 58, 97, 105, 50, 101, 101]
        = .ok (.dict (.cons [98] (.int 1) (.cons [97] (.int 2) .nil)), [])      -- d1:bi1e1:ai2ee (unsorted)
    ∧ decode [108] = .error .type ∧ decode [105, 49] = .error .value
    ∧ decode [100, 105, 49, 101, 105, 50, 101, 101] = .error .assertion := by
  refine ⟨rfl, rfl, rfl, rfl, rfl, rfl, rfl, rfl, rfl, rfl⟩
/-- duplicate keys: the Python dict keeps the last binding -/
example : canonD (.dict (.cons [97] (.int 1) (.cons [97] (.int 2) .nil))) = .dict (.cons [97] (.int 2) .nil) := by
  simp [canonD, canonDDict, dHasKey, dInsert]

/-! ## (4) the int → decimal digit cap: over-cap ints are rejected, not encoded

`str(integer)` in `_encode_int` raises `ValueError` beyond 4300 decimal digits (Python ≥ 3.11), so
`bencode` rejects such ints; `encodeE` is `bencode` with its exception class.  Injectivity and
prefix-freeness hold for all of `enc` (above), in particular on what `bencode` emits: -/

/-- the cap in numbers: `str(z)` works iff `|z| < 10^4300` -/
theorem intFits_iff (z : Int) : intFits z = true ↔ z.natAbs < 10 ^ intMaxStrDigits := intFits_iff_lt z

theorem enc_unique_parse_encodable (a b : BVal) (r1 r2 : List UInt8) (_ha : encodable a = true)
    (_hb : encodable b = true) (h : enc a ++ r1 = enc b ++ r2) : a = b ∧ r1 = r2 := enc_unique_parse a b r1 r2 h

theorem enc_injective_encodable (a b : BVal) (_ha : encodable a = true) (_hb : encodable b = true)
    (h : enc a = enc b) : a = b := enc_injective a b h

theorem enc_prefix_free_encodable (a b : BVal) (r : List UInt8) (_ha : encodable a = true)
    (_hb : encodable b = true) (h : enc a ++ r = enc b) : a = b ∧ r = [] := enc_prefix_free a b r h

/-- `bencode` returns bytes exactly for the structures that normalise and whose ints are all within the cap -/
theorem encodeE_ok_iff (x : PyVal) (bs : List UInt8) :
    encodeE x = .ok bs ↔ ∃ v, norm x = some v ∧ encodable v = true ∧ bs = enc v := by
  unfold encodeE
  cases hn : norm x with
  | none => simp
  | some v =>
    by_cases he : encodable v = true
    · simp [he]; exact eq_comm
    · simp [he]

/-- the ValueError case: the structure is fine but holds an int beyond the cap -/
theorem encodeE_value_iff (x : PyVal) :
    encodeE x = .error .value ↔ ∃ v, norm x = some v ∧ encodable v = false := by
  unfold encodeE
  cases hn : norm x with
  | none => simp
  | some v =>
    by_cases he : encodable v = true
    · simp [he]
    · simp [he]

/-- two Python structures that `bencode` maps to the same bytes normalise to the same structure -/
theorem encodeE_injective (x y : PyVal) (bs : List UInt8) (hx : encodeE x = .ok bs) (hy : encodeE y = .ok bs) :
    norm x = norm y := by
  obtain ⟨a, ha, _, rfl⟩ := (encodeE_ok_iff x _).mp hx
  obtain ⟨b, hb, _, hab⟩ := (encodeE_ok_iff y _).mp hy
  rw [ha, hb, enc_injective a b hab]

/-- An int of more than 4300 digits is rejected with ValueError — it is never written in another base. -/
theorem rejects_beyond_cap (z : Int) (h : 10 ^ intMaxStrDigits ≤ z.natAbs) :
    encodeE (.int z) = .error .value := by
  have hf : intFits z = false := by
    cases hh : intFits z with
    | false => rfl
    | true => have := (intFits_iff z).mp hh; omega
  simp [encodeE, norm, encodable, hf]

theorem accepts_within_cap (z : Int) (h : z.natAbs < 10 ^ intMaxStrDigits) :
    encodeE (.int z) = .ok (enc (.int z)) := by
  simp [encodeE, norm, encodable, (intFits_iff z).mpr h]

/-- ... at any place of a list or as a dict value -/
theorem rejects_beyond_cap_nested (z : Int) (h : 10 ^ intMaxStrDigits ≤ z.natAbs) (k : List UInt8) :
    encodeE (.list (.cons (.int 1) (.cons (.int z) .nil))) = .error .value
    ∧ encodeE (.dict (.cons (.str k) (.tuple (.cons (.int z) .nil)) .nil)) = .error .value := by
  have hf : intFits z = false := by
    cases hh : intFits z with
    | false => rfl
    | true => have := (intFits_iff z).mp hh; omega
  constructor
  · simp [encodeE, norm, normList, encodable, encodableList, hf]
  · simp [encodeE, norm, normList, normDict, keyKind, insertItem, encodable, encodableList, encodableDict, hf]

/-- non-vacuity: `±10^4300` is rejected, `±(10^4300 - 1)` is encoded -/
example : encodeE (.int ((10 : Int) ^ intMaxStrDigits)) = .error .value
    ∧ encodeE (.int (-((10 : Int) ^ intMaxStrDigits))) = .error .value :=
  ⟨rejects_beyond_cap _ (by simp [Int.natAbs_pow]), rejects_beyond_cap _ (by simp [Int.natAbs_pow])⟩

end RedunModel.C14
