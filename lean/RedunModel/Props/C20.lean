/-
C20 — Recorded call graphs are a consistent Merkle record of the run.

Property theorems only; the model is `RedunModel.Model.Merkle` (symbolic hashes: a call hash is its
pre-image), helper lemmas and the invariants `Merkle`, `DbMerkle`, `FK` live in `RedunModel.Lemmas.Merkle`.

Reading guide.  `JT` is the job tree the scheduler built (a slot of `child_jobs` is a job of this parent
or a reference to a CSE twin that belongs elsewhere); `callHash` is `job.call_hash`; `Ev`/`run` replay the
database writes of the scheduler in the order they happened (`events` is the canonical fold over the tree,
every theorem about `run` holds for *all* event orders); `Db` holds the CallNode / CallEdge / Job /
Execution / Tag rows.
-/
import RedunModel.Lemmas.Merkle
namespace RedunModel.C20
open RedunModel.Merkle List

/-- `sorted(child_call_hashes)` does not depend on the order in which the children were collected
(= the order in which the child jobs were created, which depends on completion order). -/
theorem sortH_perm {l1 l2 : List H} (h : l1.Perm l2) : sortH l1 = sortH l2 := Merkle.sortH_perm h

/-- **Merkle equation, every job tree.** A job that ended and computed its own call hash (it
succeeded, or it failed while recording provenance) has the hash of its task hash, argument hash,
result hash and the sorted call hashes of the jobs its `child_jobs` showed, and those are given by the
same equation one level down (`views`/`callHash` recurse through the whole tree). -/
theorem callHash_merkle (i : Info) (l s : Bool) (kids : List JT)
    (h : i.fin = .ok ∨ (i.fin = .fail ∧ i.prov = true)) :
    callHash (.job i l s kids) = some (.call i.task i.args i.result (sortH (views kids))) ∧
    views kids = kids.flatMap (fun k => if k.visible then (callHash k).toList else []) := by
  refine ⟨?_, views_eq_flatMap kids⟩
  rw [callHash_job]; unfold finHash hashCallNode
  rcases h with h | ⟨h, hp⟩
  · simp [h]
  · simp [h, hp]

/-- The id of a job does not depend on the order of its children. -/
theorem callHash_perm (i : Info) (l s : Bool) {k1 k2 : List JT} (h : k1.Perm k2) :
    callHash (.job i l s k1) = callHash (.job i l s k2) := by
  rw [callHash_job, callHash_job]; exact finHash_perm i (views_perm h)

/-- **Database invariant, every history.** Starting from the empty database, after any sequence of
job starts / job ends (any trees, any interleaving, any number of executions): every CallNode id is
the pre-image of the row's own fields and a child list; every CallEdge leaving it sits at a position
of that list and points to a recorded node; edges start at recorded nodes; ids are unique. -/
theorem merkle_run (evs : List Ev) : Merkle (run {} evs) := Merkle.merkle_run merkle_empty evs

/-- Every job that ended with provenance has a CallNode carrying its hash and its task / argument /
result hashes (also when the node had been recorded before by an equal call). -/
theorem finish_records_node {db : Db} (m : Merkle db) (e : Nat) (p : Option Nat) (i : Info) (l s : Bool)
    (kids : List JT) (hp : i.prov = true) (hc : i.fin = .ok ∨ i.fin = .fail) :
    ∃ r ∈ (finishJob db e p (.job i l s kids)).nodes,
      some r.id = callHash (.job i l s kids) ∧ r.task = i.task ∧ r.args = i.args ∧ r.result = i.result :=
  Merkle.finish_records_node m e p i l s kids hp (by rcases hc with h | h <;> simp [h, Fin.computed])

/-- **Edges mirror the job tree.** When a job is the first to record its node, the CallEdge rows
leaving that node are exactly: one per slot `n` of its child list whose hash `c` is a recorded node,
as `(parent, c, n)`; all other edges are untouched. -/
theorem fresh_edges_mirror {db : Db} (e : Nat) (p : Option Nat) (i : Info) (l s : Bool)
    (kids : List JT) (hp : i.prov = true) (hc : i.fin = .ok ∨ i.fin = .fail) (h : H)
    (hh : callHash (.job i l s kids) = some h) (hfresh : db.hasNode h = false) (x c : H) (n : Nat) :
    (x, c, n) ∈ (finishJob db e p (.job i l s kids)).edges ↔
      (x, c, n) ∈ db.edges ∨
        (x = h ∧ (views kids)[n]? = some c ∧ (finishJob db e p (.job i l s kids)).hasNode c = true) := by
  have hc' : i.fin.computed = true := by rcases hc with h | h <;> simp [h, Fin.computed]
  rw [callHash_job, finHash_computed hp hc'] at hh
  injection hh with hh
  subst hh
  rw [fresh_edges e p i l s kids hp hc' hfresh, mem_append, mem_newEdges]
  rfl

/-- … and no edge of the old database left that node (so the `↔` above describes all its edges). -/
theorem fresh_node_had_no_edges {db : Db} (m : Merkle db) (h c : H) (n : Nat) (hfresh : db.hasNode h = false) :
    (h, c, n) ∉ db.edges := by
  intro hm; have := m.closed _ _ _ hm; simp [hfresh] at this

/-- **Ids recomputable from the rows alone (induction over trees).** If every job of a tree records
provenance and is seen by its parent, then after the canonical fold over the tree — from any database
that already has the property — every CallNode id equals the hash of the row's own fields and of the
children listed by its CallEdge rows, and the root's node is recorded. -/
theorem dbMerkle_run_tree (t : JT) (db : Db) (e : Nat) (p : Option Nat) (m : Merkle db) (d : DbMerkle db)
    (hall : AllProv t = true) :
    DbMerkle (run db (events e p t)) ∧ ∃ h, callHash t = some h ∧ (run db (events e p t)).hasNode h = true :=
  dbMerkle_tree t db e p m d hall

/-- **Job rows.** The end of a job that records provenance leaves a Job row with the job's id, the
call hash it ended with (for a collapsed or cache-served job — also one whose *error* was served by CSE —
the hash handed over: it shares the twin's CallNode), its cached flag;
a row written at the start keeps parent, execution and task. -/
theorem job_row_after_finish (db : Db) (e : Nat) (p : Option Nat) (i : Info) (l s : Bool) (kids : List JT)
    (hp : i.prov = true) (hf : i.fin = .ok ∨ i.fin = .fail ∨ ∃ h, i.fin = .hit h) :
    ∃ r ∈ (finishJob db e p (.job i l s kids)).jobs,
      r.jid = i.jid ∧ r.call = callHash (.job i l s kids) ∧ r.cached = i.cached ∧ r.ended = true ∧
      (∀ r0 ∈ db.jobs, r0.jid = i.jid → ∃ r' ∈ (finishJob db e p (.job i l s kids)).jobs,
          r'.jid = i.jid ∧ r'.parent = r0.parent ∧ r'.exec = r0.exec ∧ r'.task = r0.task ∧
          r'.call = callHash (.job i l s kids)) := by
  have hf' : i.fin.computed = true ∨ ∃ h, i.fin = .hit h := by
    rcases hf with h | h | h
    · exact .inl (by simp [h, Fin.computed])
    · exact .inl (by simp [h, Fin.computed])
    · exact .inr h
  obtain ⟨db1, hj, hfin⟩ := finishJob_jobs_of_prov (db := db) (e := e) (p := p) (l := l) (s := s) (kids := kids) hp hf'
  obtain ⟨r, hr, h1, h2, h3, h4, h5, _⟩ := jobEnd_row db1 e p i (callHash (.job i l s kids))
  rw [hfin]
  exact ⟨r, hr, h1, h2, h3, h4, fun r0 hr0 => h5 r0 (hj ▸ hr0)⟩

/-- The start of a job that records provenance writes the Job row with the parent link of the tree. -/
theorem job_row_after_start (db : Db) (e : Nat) (p : Option Nat) (i : Info) (l s : Bool) (kids : List JT)
    (hp : i.prov = true) :
    ({ jid := i.jid, parent := p, exec := e, task := i.task, call := none, cached := false, ended := false } : JobRow)
      ∈ (startJob db e p (.job i l s kids)).jobs ∧
    (∀ r ∈ db.jobs, r ∈ (startJob db e p (.job i l s kids)).jobs) := by
  simp only [startJob, hp, jobStart, if_true, mem_append, mem_singleton, or_true, true_and]
  exact fun r hr => .inl hr

/-- The execution's root job: the start of a job without parent writes `Execution(id, job_id)`;
jobs with a parent never write an Execution row; jobs without provenance write nothing. -/
theorem exec_root (db : Db) (e : Nat) (p : Option Nat) (i : Info) (l s : Bool) (kids : List JT) :
    (startJob db e p (.job i l s kids)).execs =
      if i.prov = true ∧ p = none then db.execs ++ [(e, i.jid)] else db.execs := by
  simp only [startJob]
  cases hp : i.prov <;> cases p <;> simp [jobStart]

/-- **Tags.** When a job that records provenance ends, each tag it applied is attached to the entity
it was meant for: value tags to the value hash, job tags to this job, execution tags to this
execution, task tags to the task hash. -/
theorem tags_attached (db : Db) (e : Nat) (p : Option Nat) (i : Info) (l s : Bool) (kids : List JT)
    (hp : i.prov = true) (hf : i.fin = .ok ∨ i.fin = .fail ∨ ∃ h, i.fin = .hit h) :
    (∀ v ∈ i.vtags, (⟨.value v.1, v.2.1, v.2.2⟩ : Tag) ∈ (finishJob db e p (.job i l s kids)).tags) ∧
    (∀ v ∈ i.jtags, (⟨.job i.jid, v.1, v.2⟩ : Tag) ∈ (finishJob db e p (.job i l s kids)).tags) ∧
    (∀ v ∈ i.etags, (⟨.exec e, v.1, v.2⟩ : Tag) ∈ (finishJob db e p (.job i l s kids)).tags) ∧
    (∀ v ∈ i.ttags, (⟨.task i.task, v.1, v.2⟩ : Tag) ∈ (finishJob db e p (.job i l s kids)).tags) := by
  have hf' : i.fin.computed = true ∨ ∃ h, i.fin = .hit h := by
    rcases hf with h | h | h
    · exact .inl (by simp [h, Fin.computed])
    · exact .inl (by simp [h, Fin.computed])
    · exact .inr h
  have key := fun t => finishJob_tags (db := db) (e := e) (p := p) (l := l) (s := s) (kids := kids) hp hf' t
  refine ⟨?_, ?_, ?_, ?_⟩ <;> intro v hv <;> rw [key] <;> right <;> simp only [jobTags, mem_append, mem_map]
  · exact .inl (.inl (.inl ⟨v, hv, rfl⟩))
  · exact .inl (.inl (.inr ⟨v, hv, rfl⟩))
  · exact .inl (.inr ⟨v, hv, rfl⟩)
  · exact .inr ⟨v, hv, rfl⟩

/-- No other tag appears: a tag in the database after any event was there before or is one of the
tags of the job that just ended with provenance (jobs without provenance and unfinished jobs add none). -/
theorem tags_only_intended (db : Db) (ev : Ev) (t : Tag) (ht : t ∈ (step db ev).tags) :
    t ∈ db.tags ∨ ∃ e p i l s kids, ev = .finish e p (.job i l s kids) ∧ i.prov = true ∧ t ∈ jobTags e i := by
  cases ev with
  | start e p t' =>
    left
    cases t' with
    | ref _ => exact ht
    | job i l s kids =>
      simp only [step, startJob] at ht
      cases hp : i.prov <;> simpa [hp] using ht
  | finish e p t' =>
    cases t' with
    | ref _ => exact .inl ht
    | job i l s kids =>
      simp only [step] at ht
      cases hp : i.prov
      · rw [finishJob_tags_noop (.inl hp)] at ht; exact .inl ht
      · cases hf : i.fin
        · rw [finishJob_tags hp (.inl (by simp [hf, Fin.computed]))] at ht
          exact ht.imp id fun h => ⟨e, p, i, l, s, kids, rfl, hp, h⟩
        · rw [finishJob_tags hp (.inl (by simp [hf, Fin.computed]))] at ht
          exact ht.imp id fun h => ⟨e, p, i, l, s, kids, rfl, hp, h⟩
        · rw [finishJob_tags hp (.inr ⟨_, hf⟩)] at ht
          exact ht.imp id fun h => ⟨e, p, i, l, s, kids, rfl, hp, h⟩
        · rw [finishJob_tags_noop (.inr hf)] at ht; exact .inl ht

/-- Replays and duplicates: ending the same job a second time (an equal call recorded again, a
cached replay that recomputes the same hash) changes neither CallNode nor CallEdge rows. -/
theorem finish_idempotent_nodes (db : Db) (e : Nat) (p : Option Nat) (t : JT) :
    (finishJob (finishJob db e p t) e p t).nodes = (finishJob db e p t).nodes ∧
    (finishJob (finishJob db e p t) e p t).edges = (finishJob db e p t).edges := finish_idempotent db e p t

/-- `Job.call_hash` always references a recorded CallNode, provided hashes handed over by the cache or
by a CSE twin are hashes of recorded nodes (true of the code since jobs without provenance are no
longer collapse targets; before that fix a collapsed job could inherit an unrecorded hash and
`record_job_end` failed on the foreign key). -/
theorem job_call_hash_recorded {db : Db} (fk : FK db) (ev : Ev)
    (hhit : ∀ e p i l s kids h, ev = .finish e p (.job i l s kids) → i.fin = .hit h → db.hasNode h = true) :
    FK (step db ev) := by
  cases ev with
  | start e p t => exact fk_startJob fk e p t
  | finish e p t => exact fk_finishJob fk e p t (fun i l s kids h ht hf => hhit e p i l s kids h (by rw [ht]) hf)

/-- **Edges are durable with their node.** In every durable state of `record_call_node` (every point at
which the process can die or a failed attempt is rolled back), a CallNode that this call wrote is there
together with exactly its edges: one per slot of the child list whose hash is a recorded node. -/
theorem edges_durable_with_node {db : Db} (m : Merkle db) (t a r : Nat) (kids : List H)
    (hfresh : db.hasNode (hashCallNode t a r kids) = false) :
    ∀ d ∈ recordCallNodeDurable db t a r kids, d.hasNode (hashCallNode t a r kids) = true →
      ∀ c n, (hashCallNode t a r kids, c, n) ∈ d.edges ↔ (kids[n]? = some c ∧ d.hasNode c = true) := by
  intro d hd hn c n
  simp only [recordCallNodeDurable, mem_cons, mem_nil_iff, or_false, or_self] at hd
  rcases hd with rfl | rfl
  · simp [hfresh] at hn
  · rw [recordCallNode_new hfresh]
    simp only [mem_append, mem_newEdges, true_and]
    constructor
    · rintro (h | h)
      · exact absurd h (fresh_node_had_no_edges m _ c n hfresh)
      · exact h
    · exact fun h => .inr h

/-- … hence a second attempt from any durable state (db_retry after a transient error, or a re-run after a
process death — `record_call_node` skips a node that exists) ends with the same CallNode and CallEdge rows
as an uninterrupted call. -/
theorem retry_from_durable_same_graph (db : Db) (t a r : Nat) (kids : List H) :
    ∀ d ∈ recordCallNodeDurable db t a r kids,
      (recordCallNode d t a r kids).1.nodes = (recordCallNode db t a r kids).1.nodes ∧
      (recordCallNode d t a r kids).1.edges = (recordCallNode db t a r kids).1.edges := by
  intro d hd
  simp only [recordCallNodeDurable, mem_cons, mem_nil_iff, or_false, or_self] at hd
  rcases hd with rfl | rfl
  · exact ⟨rfl, rfl⟩
  · rw [recordCallNode_old (recordCallNode_hasNode_self db t a r kids)]
    exact ⟨rfl, rfl⟩

/-- Contrast (not the code): if the CallNode were committed before its edges are added, the middle durable
state has the node, and a second attempt from it adds no edge at all — whatever recorded children the id
contains (for instance a recorded `c` at slot `n`, which `edges_durable_with_node` requires an edge for). -/
theorem split_commit_loses_edges (db : Db) (t a r : Nat) (kids : List H)
    (hfresh : db.hasNode (hashCallNode t a r kids) = false) :
    ∃ d ∈ splitDurable db t a r kids, d.hasNode (hashCallNode t a r kids) = true ∧
      (recordCallNode d t a r kids).1.edges = db.edges := by
  refine ⟨{ db with nodes := db.nodes ++ [{ id := hashCallNode t a r kids, task := t, args := a, result := r }] }, ?_, ?_, ?_⟩
  · simp [splitDurable, hfresh]
  · simp [Db.hasNode, hasNodeL, H.eqb_iff]
  · rw [recordCallNode_old (by simp [Db.hasNode, hasNodeL, H.eqb_iff])]

/-- A content-addressed value table stays keyed by the hash of its values (`record_value`). -/
theorem values_keyed {V : Type} (vh : V → Nat) (st : List (Nat × V)) (v : V)
    (h : ∀ q ∈ st, q.1 = vh q.2) : ∀ q ∈ recordValue vh st v, q.1 = vh q.2 := by
  unfold recordValue
  split
  · exact h
  · intro q hq
    simp only [mem_append, mem_singleton] at hq
    rcases hq with hq | rfl
    · exact h q hq
    · rfl

/-! ### non-vacuity: concrete instances -/
private def leafI (jid args res : Nat) : Info :=
  { jid := jid, task := 7, args := args, result := res, prov := true, cached := false, fin := .ok,
    vtags := [], jtags := [], etags := [], ttags := [] }
private def tLeaf1 : JT := .job (leafI 1 10 20) true true []
private def tLeaf2 : JT := .job (leafI 2 11 21) true true []
private def tRoot : JT := .job { leafI 0 12 22 with jtags := [(1, 2)], vtags := [(22, 3, 4)] } true true [tLeaf1, tLeaf2]
private def tRootSwapped : JT := .job { leafI 0 12 22 with jtags := [(1, 2)], vtags := [(22, 3, 4)] } true true [tLeaf2, tLeaf1]

example : callHash tRoot = callHash tRootSwapped := callHash_perm _ _ _ (Perm.swap _ _ _)
example : AllProv tRoot = true := by decide
/-- the hypotheses of `dbMerkle_run_tree`, `finish_records_node`, `job_row_after_finish`, `tags_attached` hold of `tRoot` -/
example : DbMerkle (run {} (events 5 none tRoot)) :=
  (dbMerkle_run_tree tRoot {} 5 none merkle_empty (by intro r hr; simp at hr) (by decide)).1
example : ∃ r ∈ (finishJob {} 5 none tRoot).nodes, some r.id = callHash tRoot ∧ r.task = 7 :=
  let ⟨r, hr, h1, h2, _⟩ := finish_records_node merkle_empty 5 none _ true true [tLeaf1, tLeaf2] rfl (.inl rfl)
  ⟨r, hr, h1, h2⟩
example : (⟨.job 0, 1, 2⟩ : Tag) ∈ (finishJob {} 5 none tRoot).tags :=
  (tags_attached {} 5 none _ true true [tLeaf1, tLeaf2] rfl (.inl rfl)).2.1 (1, 2) (by simp)
/-- a child without provenance is in the parent's id (and gets no edge: `fresh_edges_mirror` asks for a recorded node) -/
example : callHash (.job (leafI 0 12 22) true true [.job { leafI 1 10 20 with prov := false } true true []])
    = some (.call 7 12 22 [.call 7 10 20 []]) := by
  simp [callHash, views, finHash, hashCallNode, sortH, JT.visible, leafI]

end RedunModel.C20
