/-
C32 — The remote job protocol reproduces local execution.

Property theorems only; helper lemmas live in `RedunModel.Lemmas.RemoteProto`.
Model: `RedunModel.Model.RemoteProto` (`jobName` = `get_batch_job_name`, `hashFromJobName` =
`get_hash_from_job_name`, `isArrayJobName`, `writeArrayFiles` = `write_array_job_scratch_files`,
`oneshotElement` = the array-index projections of `redun oneshot --array-job`, `resultPath`/`errorPath` =
where `parse_job_result`/`parse_job_error` read, `gather` = `gather_inflight_jobs`, `reunite` = the
reunite branch of `AWSBatchExecutor._submit`).  Pickling and the task body are not in the model.
-/
import RedunModel.Lemmas.RemoteProto
namespace RedunModel.C32
open RedunModel.RemoteProto
open RedunModel.Script (Str splitNL joinNL)

/-! ## job names -/

/-- The hash parsed back from a job name is the hash the name was built from — for every prefix
without a newline (prefixes containing `-`, or ending in `-array`, included), every non-empty hex
hash, array or not. -/
theorem name_roundtrip (p h : Str) (a : Bool) (hp : '\n' ∉ p) (hh : IsHex h) :
    hashFromJobName (jobName p h a) = some h := by
  unfold hashFromJobName jobName
  cases a with
  | true =>
    simp only [if_true]
    rw [show p ++ '-' :: h ++ arraySuffix = (p ++ '-' :: h) ++ arraySuffix by simp, stripArraySuffix_array]
    exact scanHash_prefix p h none hp hh.1 (hex_ne_dash hh) (hex_ne_nl hh)
  | false =>
    simp only [Bool.false_eq_true, if_false, List.append_nil]
    unfold stripArraySuffix
    rw [not_isSuffix_of_hex p h hh]
    exact scanHash_prefix p h none hp hh.1 (hex_ne_dash hh) (hex_ne_nl hh)

/-- … and so is the array flag. -/
theorem array_flag_roundtrip (p h : Str) (a : Bool) (hh : IsHex h) : isArrayJobName (jobName p h a) = a := by
  unfold isArrayJobName jobName
  cases a with
  | true =>
    simp only [if_true]
    rw [show p ++ '-' :: h ++ arraySuffix = (p ++ '-' :: h) ++ arraySuffix by simp]
    exact isSuffix_arraySuffix_append _
  | false =>
    simp only [Bool.false_eq_true, if_false, List.append_nil]
    exact not_isSuffix_of_hex p h hh

example : hashFromJobName "redun-job-array-0a1b-array".toList = some "0a1b".toList := by decide
example : hashFromJobName (jobName "my-array".toList "beef".toList false) = some "beef".toList :=
  name_roundtrip _ _ _ (by decide) ⟨by decide, by decide⟩

/-- Whatever the name, a parsed hash is a non-empty `-`-free segment of the name (after removing one
`-array` suffix) that directly follows a `-`. -/
theorem parsed_hash_is_a_segment (n h : Str) (hr : hashFromJobName n = some h) :
    IsSegment (stripArraySuffix n) h := by
  have := scanHash_some (stripArraySuffix n) none [] h (by intro x hx; cases hx) hr
  simpa using this

/-- Names of unrelated jobs (no `-` at all, e.g. a head-node job) have no hash. -/
theorem unrelated_none (n : Str) (h : '-' ∉ n) : hashFromJobName n = none := by
  unfold hashFromJobName
  apply scanHash_no_dash
  unfold stripArraySuffix
  split
  · intro hm; exact h (List.mem_of_mem_take hm)
  · exact h

example : hashFromJobName "liveratlas_automation_headnode".toList = none := by decide

/-! ## array jobs -/

/-- Array element `i` reads the `i`-th job's arguments and writes its result / error exactly where the
scheduler side reads them for that job. -/
theorem array_projection {α β : Type} (scratch : Str) (jobs : List (RJob α β)) (i : Nat) (hi : i < jobs.length) :
    ∃ e, oneshotElement (writeArrayFiles scratch jobs) i = .ok e ∧
      e.args = jobs[i].args ∧ e.kwargs = jobs[i].kwargs ∧
      e.outputPath = resultPath scratch jobs[i] ∧ e.errorPath = errorPath scratch jobs[i] := by
  refine ⟨⟨jobs[i].args, jobs[i].kwargs, resultPath scratch jobs[i], errorPath scratch jobs[i]⟩, ?_, rfl, rfl, rfl, rfl⟩
  simp only [oneshotElement, writeArrayFiles, idx_map _ _ _ hi]
  rfl

/-- An index outside the array is an error (`IndexError`), never another job's files. -/
theorem array_projection_out_of_range {α β : Type} (scratch : Str) (jobs : List (RJob α β)) (i : Nat)
    (hi : jobs.length ≤ i) : oneshotElement (writeArrayFiles scratch jobs) i = .error .indexError := by
  simp only [oneshotElement, writeArrayFiles]
  rw [idx_oob _ _ (by simpa using hi)]
  rfl

/-- Scratch files of different eval hashes, and the output and error file of one job, never coincide. -/
theorem job_paths_injective (scratch h1 h2 n1 n2 : Str) (hh1 : IsHex h1) (hh2 : IsHex h2)
    (hn1 : n1 = fOutput ∨ n1 = fError) (hn2 : n2 = fOutput ∨ n2 = fError)
    (he : jobFile scratch h1 n1 = jobFile scratch h2 n2) : h1 = h2 ∧ n1 = n2 := by
  have f1 : ∀ t, n1 ≠ '/' :: t := by rcases hn1 with e | e <;> subst e <;> intro t <;> simp [fOutput, fError]
  have f2 : ∀ t, n2 ≠ '/' :: t := by rcases hn2 with e | e <;> subst e <;> intro t <;> simp [fOutput, fError]
  rw [jobFile_eq _ _ _ hh1.1 (hex_ne_slash hh1) f1, jobFile_eq _ _ _ hh2.1 (hex_ne_slash hh2) f2] at he
  simp only [List.append_assoc, List.cons_append] at he
  have he' := List.append_cancel_left he
  simp only [List.cons.injEq, true_and] at he'
  exact split_at_slash h1 h2 n1 n2 (hex_ne_slash hh1) (hex_ne_slash hh2) he'

/-- In an array whose jobs have pairwise different (hex) eval hashes, two different elements never
share an output or error path, and no output path is an error path. -/
theorem element_paths_distinct {α β : Type} (scratch : Str) (jobs : List (RJob α β))
    (hhex : ∀ j ∈ jobs, IsHex j.evalHash) (i k : Nat) (hi : i < jobs.length) (hk : k < jobs.length) :
    (resultPath scratch jobs[i] = resultPath scratch jobs[k] → jobs[i].evalHash = jobs[k].evalHash) ∧
    (errorPath scratch jobs[i] = errorPath scratch jobs[k] → jobs[i].evalHash = jobs[k].evalHash) ∧
    resultPath scratch jobs[i] ≠ errorPath scratch jobs[k] := by
  have h1 := hhex jobs[i] (List.getElem_mem hi)
  have h2 := hhex jobs[k] (List.getElem_mem hk)
  refine ⟨fun e => ?_, fun e => ?_, fun e => ?_⟩
  · exact (job_paths_injective scratch _ _ _ _ h1 h2 (Or.inl rfl) (Or.inl rfl) e).1
  · exact (job_paths_injective scratch _ _ _ _ h1 h2 (Or.inr rfl) (Or.inr rfl) e).1
  · have := (job_paths_injective scratch _ _ _ _ h1 h2 (Or.inl rfl) (Or.inr rfl) e).2
    revert this; decide

/-- The eval-hash file written for an array reads back as the jobs' eval hashes, in order. -/
theorem eval_file_roundtrip {α β : Type} (scratch : Str) (jobs : List (RJob α β)) (hne : jobs ≠ [])
    (hhex : ∀ j ∈ jobs, IsHex j.evalHash) :
    evalLines (writeArrayFiles scratch jobs).evalText = jobs.map (·.evalHash) := by
  have hl : ∀ l ∈ jobs.map (·.evalHash), '\n' ∉ l := by
    intro l hl
    obtain ⟨j, hj, rfl⟩ := List.mem_map.1 hl
    exact hex_ne_nl (hhex j hj)
  have hsplit := splitNL_joinNL (jobs.map (·.evalHash)) (by simpa using hne) hl
  unfold evalLines writeArrayFiles
  simp only
  split
  · rename_i hnil
    rw [hnil] at hsplit
    cases jobs with
    | nil => exact absurd rfl hne
    | cons j js =>
      have := (hhex j (by simp)).1
      simp [splitNL] at hsplit
      cases js <;> simp_all
  · exact hsplit

/-! ## every failure of an array element is recorded in that element's own files -/

/-- Whatever the point at which array element `i` fails — extracting the code package, importing the
workflow script, looking up the task, or in the task itself — the only files it removes or writes are
job `i`'s own error and output file; a failure is recorded in job `i`'s own error file (and no output
is written), a success in its own output file (and no error is written). -/
theorem element_records_in_own_files {α β : Type} (scratch : Str) (jobs : List (RJob α β)) (i : Nat)
    (hi : i < jobs.length) (cache : Bool) (fail : Option FailAt) :
    ∃ ops, oneshotOps (writeArrayFiles scratch jobs) i cache fail = .ok ops ∧
      (∀ op ∈ ops, op.path = errorPath scratch jobs[i] ∨ op.path = resultPath scratch jobs[i]) ∧
      (fail ≠ none → FileOp.writeError (errorPath scratch jobs[i]) ∈ ops ∧ ∀ p, FileOp.writeOutput p ∉ ops) ∧
      (fail = none → FileOp.writeOutput (resultPath scratch jobs[i]) ∈ ops ∧ ∀ p, FileOp.writeError p ∉ ops) := by
  have he : idx (writeArrayFiles scratch jobs).errorPaths i = .ok (errorPath scratch jobs[i]) := by
    simp only [writeArrayFiles, idx_map _ _ _ hi]; rfl
  have ho : idx (writeArrayFiles scratch jobs).outputPaths i = .ok (resultPath scratch jobs[i]) := by
    simp only [writeArrayFiles, idx_map _ _ _ hi]; rfl
  cases fail with
  | none =>
    refine ⟨_, by simp only [oneshotOps, he, ho]; rfl, ?_, by simp, ?_⟩
    · cases cache <;> simp [FileOp.path]
    · intro _; cases cache <;> simp
  | some f =>
    cases f with
    | task =>
      refine ⟨_, by simp only [oneshotOps, he, ho]; rfl, ?_, ?_, by simp⟩
      · cases cache <;> simp [FileOp.path]
      · intro _; cases cache <;> simp
    | code =>
      refine ⟨_, by simp only [oneshotOps, he]; rfl, ?_, by simp, by simp⟩
      simp [FileOp.path]
    | importScript =>
      refine ⟨_, by simp only [oneshotOps, he]; rfl, ?_, by simp, by simp⟩
      simp [FileOp.path]
    | taskLookup =>
      refine ⟨_, by simp only [oneshotOps, he]; rfl, ?_, by simp, by simp⟩
      simp [FileOp.path]

theorem ne_slash_cons_of_head {m : Str} (h : m.head? ≠ some '/') : ∀ t, m ≠ '/' :: t := by
  intro t e; subst e; simp at h

/-- … and those files are never one of the array's shared spec files (`input`, `output`, `error`,
`eval_hashes` under `array_jobs/<id>/`), so no element can disturb another element's lookup. -/
theorem own_files_are_not_spec_files (scratch h a n m : Str) (hh : IsHex h) (ha : IsHex a)
    (hn : n = fOutput ∨ n = fError) (hm : m = fInput ∨ m = fOutput ∨ m = fError ∨ m = fHashes) :
    jobFile scratch h n ≠ arrayFile scratch a m := by
  apply jobFile_ne_arrayFile scratch h a n m hh.1 (hex_ne_slash hh) ha.1 (hex_ne_slash ha)
  · rcases hn with e | e <;> subst e <;> exact ne_slash_cons_of_head (by decide)
  · rcases hm with e | e | e | e <;> subst e <;> exact ne_slash_cons_of_head (by decide)

/-- non-vacuity: element 1 of a two-job array failing at script import -/
example := element_records_in_own_files "s".toList
  [(⟨"0a".toList, 1, 1⟩ : RJob Nat Nat), ⟨"0b".toList, 2, 2⟩] 1 (by decide) true (some .importScript)

/-- A re-run under the default cache scope whose existing output is missing or no longer valid, and whose task
now raises, leaves **no** output file (whatever was there before is removed first) and an error file: the scratch
directory says "failed", so executors that infer success from the output file's existence agree with the local call. -/
theorem rerun_failure_leaves_no_output {α β : Type} (scratch : Str) (jobs : List (RJob α β)) (i : Nat)
    (hi : i < jobs.length) (hhex : ∀ j ∈ jobs, IsHex j.evalHash) (existing : Option Bool) (hex : existing ≠ some true)
    (outBefore errBefore : Bool) :
    ∃ ops, oneshotRerunOps (writeArrayFiles scratch jobs) i true existing (some .task) = .ok ops ∧
      presentAfter (resultPath scratch jobs[i]) outBefore ops = false ∧
      presentAfter (errorPath scratch jobs[i]) errBefore ops = true := by
  have he : idx (writeArrayFiles scratch jobs).errorPaths i = .ok (errorPath scratch jobs[i]) := by
    simp only [writeArrayFiles, idx_map _ _ _ hi]; rfl
  have ho : idx (writeArrayFiles scratch jobs).outputPaths i = .ok (resultPath scratch jobs[i]) := by
    simp only [writeArrayFiles, idx_map _ _ _ hi]; rfl
  have hne : errorPath scratch jobs[i] ≠ resultPath scratch jobs[i] :=
    fun e => (element_paths_distinct scratch jobs hhex i i hi hi).2.2 e.symm
  have hcond : (true && existing == some true && ((some FailAt.task == none) || (some FailAt.task == some FailAt.task))) = false := by
    cases existing with
    | none => rfl
    | some b => cases b <;> simp_all
  refine ⟨[.remove (errorPath scratch jobs[i]), .remove (resultPath scratch jobs[i]), .writeError (errorPath scratch jobs[i])], ?_, ?_, ?_⟩
  · simp only [oneshotRerunOps, he, hcond, oneshotOps, ho]; rfl
  · simp [presentAfter, hne]
  · simp [presentAfter]


/-! ## job reuniting -/

/-- Every binding `eval hash ↦ Batch job id` that `gather_inflight_jobs` produces comes from a
non-array job whose name parses to that hash, or from child `i` of an array job whose eval-hash file
has that hash on line `i` — for every list of in-flight jobs and every scratch state. -/
theorem gather_sound (ef : Str → Option (List Str)) (jobs : List Inflight) (pre : Pre)
    (hg : gather ef jobs = .ok pre) (h id : Str) (hb : pre.get h = some id) : Bound ef jobs h id :=
  gather_bound ef jobs pre hg (h, id) (get_mem pre h id hb)

/-- A job of this deployment: named by `get_batch_job_name` from a hex hash / array id. -/
def RedunNamed (j : Inflight) : Prop := ∃ p h a, '\n' ∉ p ∧ IsHex h ∧ j.name = jobName p h a
/-- Any other job that shares the queue: not an array name, and whatever its name parses to is not a
possible eval hash. -/
def Unrelated (j : Inflight) : Prop :=
  isArrayJobName j.name = false ∧ ∀ h, hashFromJobName j.name = some h → ¬ IsHex h

/-- `id` is a Batch job that was created for eval hash `e`: a single job named with `e`, or child `i`
of an array job (array id `u`) whose eval-hash file lists `e` at index `i`. -/
def CreatedFor (ef : Str → Option (List Str)) (j : Inflight) (id e : Str) : Prop :=
  (∃ p, j.name = jobName p e false ∧ id = j.jobId) ∨
  (∃ p u hs i, IsHex u ∧ j.name = jobName p u true ∧ ef u = some hs ∧ (id, i) ∈ j.children ∧ hs[i]? = some e)

/-- `_submit` reunites a job only with an in-flight Batch job created for the same eval hash, only
under cache scope BACKEND, and only if the Batch API still knows that job. -/
theorem reunite_same_hash (ef : Str → Option (List Str)) (jobs : List Inflight) (pre pre' : Pre)
    (hw : ∀ j ∈ jobs, RedunNamed j ∨ Unrelated j) (hg : gather ef jobs = .ok pre)
    (backend : Bool) (e id : Str) (he : IsHex e) (alive : Str → Bool)
    (hr : reunite pre backend e alive = (pre', some id)) :
    backend = true ∧ alive id = true ∧ ∃ j ∈ jobs, CreatedFor ef j id e := by
  unfold reunite at hr
  cases backend with
  | false => simp at hr
  | true =>
    simp only [if_true] at hr
    cases hget : pre.get e with
    | none => simp [hget] at hr
    | some id0 =>
      simp only [hget, Prod.mk.injEq] at hr
      have hal : alive id0 = true ∧ id0 = id := by
        cases ha : alive id0 <;> simp [ha] at hr
        exact ⟨rfl, hr.2⟩
      obtain ⟨hal, rfl⟩ := hal
      refine ⟨rfl, hal, ?_⟩
      rcases gather_sound ef jobs pre hg e id0 hget with ⟨j, hj, hna, hpar, hid⟩ | ⟨j, hj, harr, parent, hs, i, hpar, hef, hc, hi⟩
      · rcases hw j hj with ⟨p, h, a, hp, hh, hn⟩ | ⟨_, hun⟩
        · have ha : a = false := by rw [hn, array_flag_roundtrip p h a hh] at hna; exact hna
          subst ha
          rw [hn, name_roundtrip p h false hp hh] at hpar
          have := Option.some.inj hpar; subst this
          exact ⟨j, hj, Or.inl ⟨p, hn, hid⟩⟩
        · exact absurd he (hun e hpar)
      · rcases hw j hj with ⟨p, h, a, hp, hh, hn⟩ | ⟨hna, _⟩
        · have ha : a = true := by rw [hn, array_flag_roundtrip p h a hh] at harr; exact harr
          subst ha
          rw [hn, name_roundtrip p h true hp hh] at hpar
          have := Option.some.inj hpar; subst this
          exact ⟨j, hj, Or.inr ⟨p, h, hs, i, hh, hn, hef, hc, hi⟩⟩
        · rw [hna] at harr; cases harr

/-! ## only in-flight Batch jobs are reunited with -/

theorem mem_listJobs {queue pfx : Str} {statuses : List Status} {jobs : List BatchJob} {j : BatchJob}
    (h : j ∈ listJobs queue pfx statuses jobs) :
    j ∈ jobs ∧ j.status ∈ statuses ∧ j.queue = queue ∧ pfx.isPrefixOf j.name = true := by
  unfold listJobs at h
  obtain ⟨st, hst, hj⟩ := List.mem_flatMap.1 h
  obtain ⟨hmem, hp⟩ := List.mem_filter.1 hj
  simp only [decide_eq_true_eq] at hp
  exact ⟨hmem, hp.1 ▸ hst, hp.2.1, hp.2.2⟩

theorem mem_listChildren {statuses : List Status} {j : BatchJob} {id : Str} {i : Nat}
    (h : (id, i) ∈ listChildren statuses j) : ∃ st, (id, i, st) ∈ j.children ∧ st ∈ statuses := by
  unfold listChildren at h
  obtain ⟨st, hst, hc⟩ := List.mem_flatMap.1 h
  obtain ⟨c, hcm, hce⟩ := List.mem_map.1 hc
  obtain ⟨hmem, hp⟩ := List.mem_filter.1 hcm
  simp only [decide_eq_true_eq] at hp
  obtain ⟨cid, ci, cst⟩ := c
  simp only [Prod.mk.injEq] at hce
  obtain ⟨rfl, rfl⟩ := hce
  exact ⟨cst, hmem, by simp only at hp; rw [hp]; exact hst⟩

/-- Reuniting against the real queue, where finished jobs of earlier runs are still listed by the Batch
API: a job is attached only to a Batch job (or array child) that is **in flight**, lies in the
executor's queue, carries its job-name prefix, and was created for the job's own eval hash. -/
theorem reunited_is_inflight_same_hash (ef : Str → Option (List Str)) (queue pfx : Str) (jobs : List BatchJob)
    (pre pre' : Pre) (hw : ∀ j ∈ jobs, RedunNamed (toInflight j) ∨ Unrelated (toInflight j))
    (hg : gatherQueue ef queue pfx jobs = .ok pre) (backend : Bool) (e id : Str) (he : IsHex e)
    (alive : Str → Bool) (hr : reunite pre backend e alive = (pre', some id)) :
    ∃ j ∈ jobs, j.queue = queue ∧ pfx.isPrefixOf j.name = true ∧ j.status ∈ inflightStatuses ∧
      ((∃ p, j.name = jobName p e false ∧ id = j.jobId) ∨
       (∃ p u hs i st, IsHex u ∧ j.name = jobName p u true ∧ ef u = some hs ∧ (id, i, st) ∈ j.children ∧
          st ∈ inflightStatuses ∧ hs[i]? = some e)) := by
  unfold gatherQueue at hg
  have hw' : ∀ x ∈ (listJobs queue pfx inflightStatuses jobs).map toInflight, RedunNamed x ∨ Unrelated x := by
    intro x hx
    obtain ⟨j, hj, rfl⟩ := List.mem_map.1 hx
    exact hw j (mem_listJobs hj).1
  obtain ⟨_, _, x, hx, hc⟩ := reunite_same_hash ef _ pre pre' hw' hg backend e id he alive hr
  obtain ⟨j, hj, rfl⟩ := List.mem_map.1 hx
  obtain ⟨hmem, hst, hq, hp⟩ := mem_listJobs hj
  refine ⟨j, hmem, hq, hp, hst, ?_⟩
  rcases hc with ⟨p, hn, hid⟩ | ⟨p, u, hs, i, hu, hn, hef, hch, hi⟩
  · exact Or.inl ⟨p, hn, hid⟩
  · obtain ⟨st, hcm, hcst⟩ := mem_listChildren hch
    exact Or.inr ⟨p, u, hs, i, st, hu, hn, hef, hcm, hcst, hi⟩

/-- Consequently a job whose only namesakes are finished (or foreign-queue / foreign-prefix) Batch jobs is
not attached to anything: it is submitted afresh. -/
theorem finished_namesake_not_reunited (ef : Str → Option (List Str)) (queue pfx : Str) (jobs : List BatchJob)
    (pre : Pre) (hw : ∀ j ∈ jobs, RedunNamed (toInflight j) ∨ Unrelated (toInflight j))
    (hg : gatherQueue ef queue pfx jobs = .ok pre) (backend : Bool) (e : Str) (he : IsHex e) (alive : Str → Bool)
    (hfin : ∀ j ∈ jobs, j.queue = queue → pfx.isPrefixOf j.name = true → j.status ∈ inflightStatuses →
      (∀ p, j.name ≠ jobName p e false) ∧
      (∀ p u hs i st id, j.name = jobName p u true → ef u = some hs → (id, i, st) ∈ j.children →
        st ∈ inflightStatuses → hs[i]? ≠ some e)) :
    (reunite pre backend e alive).2 = none := by
  cases hres : reunite pre backend e alive with
  | mk pre' r =>
    cases r with
    | none => rfl
    | some id =>
      exfalso
      obtain ⟨j, hj, hq, hp, hst, hc⟩ :=
        reunited_is_inflight_same_hash ef queue pfx jobs pre pre' hw hg backend e id he alive hres
      obtain ⟨h1, h2⟩ := hfin j hj hq hp hst
      rcases hc with ⟨p, hn, _⟩ | ⟨p, u, hs, i, st, _, hn, hef, hcm, hcst, hi⟩
      · exact h1 p hn
      · exact h2 p u hs i st id hn hef hcm hcst hi

/-- non-vacuity: a SUCCEEDED job with the same name is not bound, the RUNNING one is -/
example :
    gatherQueue (fun _ => none) "q".toList "redun-job".toList
      [⟨"redun-job-0c".toList, "old".toList, "q".toList, .succeeded, []⟩,
       ⟨"redun-job-0d".toList, "live".toList, "q".toList, .running, []⟩,
       ⟨"redun-job-0e".toList, "other-queue".toList, "q2".toList, .running, []⟩]
      = .ok [("0d".toList, "live".toList)] := by rfl

/-- non-vacuity: a single job and an array child are both found -/
example :
    let ef : Str → Option (List Str) := fun u => if u = "ab".toList then some ["0a".toList, "0b".toList] else none
    gather ef [⟨"redun-job-0c".toList, "J1".toList, []⟩,
               ⟨"redun-job-ab-array".toList, "A".toList, [("A:1".toList, 1)]⟩]
      = .ok [("0b".toList, "A:1".toList), ("0c".toList, "J1".toList)] := by rfl

end RedunModel.C32
