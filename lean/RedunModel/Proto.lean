/-
Line protocol shared by all model drivers (core Lean only, no imports).

One request per line, one reply per line.  A line is an S-expression:
  atom  ::= any run of characters other than space, '(' and ')'
  sexp  ::= atom | '(' sexp* ')'
By convention atoms are `i<int>` (decimal, optional '-'), `s<hex of utf-8>`, `b<hex>`,
`N`, `T`, `F`, or a bare operation name.
-/
namespace RedunModel

inductive Sexp where
  | atom (s : String)
  | list (l : List Sexp)
  deriving Repr, Inhabited, BEq

namespace Sexp

def tokenize (s : String) : List String :=
  let rec go (cs : List Char) (cur : List Char) (acc : List String) : List String :=
    let flush (cur : List Char) (acc : List String) : List String :=
      if cur.isEmpty then acc else String.ofList cur.reverse :: acc
    match cs with
    | [] => (flush cur acc).reverse
    | c :: cs =>
      if c = '(' ∨ c = ')' then go cs [] (String.singleton c :: flush cur acc)
      else if c = ' ' ∨ c = '\n' ∨ c = '\r' ∨ c = '\t' then go cs [] (flush cur acc)
      else go cs (c :: cur) acc
  go s.toList [] []

/-- Parse a token list. `stack` holds the partially built enclosing lists (innermost first). -/
def parseToks : List String → List (List Sexp) → List Sexp → Option (List Sexp)
  | [], [], cur => some cur.reverse
  | [], _ :: _, _ => none
  | t :: ts, stack, cur =>
    if t = "(" then parseToks ts (cur :: stack) []
    else if t = ")" then
      match stack with
      | [] => none
      | up :: stack => parseToks ts stack (Sexp.list cur.reverse :: up)
    else parseToks ts stack (Sexp.atom t :: cur)

/-- Parse a whole line into the list of top-level S-expressions. -/
def parseLine (s : String) : Option (List Sexp) := parseToks (tokenize s) [] []

partial def render : Sexp → String
  | atom s => s
  | list l => "(" ++ " ".intercalate (l.map render) ++ ")"

end Sexp

/-! hex helpers -/
def hexDigit (n : Nat) : Char :=
  if n < 10 then Char.ofNat (48 + n) else Char.ofNat (87 + n)

def hexOfBytes (bs : List UInt8) : String :=
  String.ofList (bs.flatMap fun b => [hexDigit (b.toNat / 16), hexDigit (b.toNat % 16)])

def hexVal (c : Char) : Option Nat :=
  if '0' ≤ c ∧ c ≤ '9' then some (c.toNat - 48)
  else if 'a' ≤ c ∧ c ≤ 'f' then some (c.toNat - 87)
  else if 'A' ≤ c ∧ c ≤ 'F' then some (c.toNat - 55)
  else none

def bytesOfHexChars : List Char → Option (List UInt8)
  | [] => some []
  | [_] => none
  | a :: b :: rest => do
    let x ← hexVal a
    let y ← hexVal b
    let r ← bytesOfHexChars rest
    pure (UInt8.ofNat (x * 16 + y) :: r)

def bytesOfHex (s : String) : Option (List UInt8) := bytesOfHexChars s.toList

def hexOfString (s : String) : String := hexOfBytes s.toUTF8.toList

def stringOfHex (s : String) : Option String := do
  let bs ← bytesOfHex s
  String.fromUTF8? (ByteArray.mk bs.toArray)

/-- `i<int>` atom payload. -/
def intOfAtom (s : String) : Option Int :=
  match s.toList with
  | 'i' :: rest => (String.ofList rest).toInt?
  | _ => none

def natOfAtom (s : String) : Option Nat :=
  match s.toList with
  | 'i' :: rest => (String.ofList rest).toNat?
  | _ => none

def strOfAtom (s : String) : Option String :=
  match s.toList with
  | 's' :: rest => stringOfHex (String.ofList rest)
  | _ => none

def bytesOfAtom (s : String) : Option (List UInt8) :=
  match s.toList with
  | 'b' :: rest => bytesOfHex (String.ofList rest)
  | _ => none

def atomOfInt (z : Int) : String := "i" ++ toString z
def atomOfStr (s : String) : String := "s" ++ hexOfString s
def atomOfBytes (b : List UInt8) : String := "b" ++ hexOfBytes b

/-- Generic driver loop: read lines, answer each with `f line`. State threaded through. -/
partial def driverLoop {σ : Type} (h : IO.FS.Stream) (st : σ) (f : σ → String → σ × String) : IO Unit := do
  let line ← h.getLine
  if line.isEmpty then return ()
  let (st', out) := f st line
  IO.println out
  driverLoop h st' f

end RedunModel
