/-
Vocabulary for C36 (schema migrations); hand-written, core Lean only.
`RedunModel.Generated.Migrations` (regenerated from /repo by harness/translate_migrations.py on every
run) lists every alembic revision in this vocabulary; `RedunModel.Model.Migrate` gives it its meaning.
-/
namespace RedunModel.MigrateOps

/-- the dialect test an operation sits under -/
inductive Guard where
  | any | sqlite | notSqlite | postgresql | notPostgresql
  deriving DecidableEq, Repr

/-- name, rendered type, nullable -/
structure ColSpec where
  name : String
  ty : String
  nullable : Bool
  deriving DecidableEq, Repr

inductive Op where
  | createTable (t : String) (cols : List ColSpec) (pk : List String) (fks : List (List String × List String))
  | createIndex (name t : String) (cols : List String) (unique partialIdx : Bool)
  | addColumn (t : String) (c : ColSpec)
  | alterColumn (t col : String) (newType : Option String) (nullable : Option Bool)
  | createFK (name t ref : String) (cols refCols : List String)
  | execSql (sha : String)      -- `op.execute(<sql>)`, identified by the sha1 of the normalised text
  | pyData (sha : String)       -- Python data migration block, identified by the sha1 of its ast
  deriving DecidableEq, Repr

structure GOp where
  guard : Guard
  op : Op
  deriving DecidableEq, Repr

structure Rev where
  id : String
  down : Option String
  ops : List GOp
  deriving DecidableEq, Repr

end RedunModel.MigrateOps
