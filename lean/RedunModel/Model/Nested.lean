/-
Nested values — model of `iter_nested_value_children`, `iter_nested_value` and the structural part of
`map_nested_value` (redun/utils.py).  Core Lean only; shared by several properties.

A nested value is a tree whose inner nodes are the container types the code descends into
(exact `list`, exact `tuple`, namedtuple, exact `set`, exact `dict`, dataclass instance) and whose
leaves are everything else (scalars, `frozenset`, subclasses of list/dict, expressions, files ...).

Classification of a Python value (both functions use the same tests, in this order): exact `list`, exact `tuple`,
namedtuple, exact `set`, exact `dict`, dataclass instance, else leaf.  `ntuple cls xs` is a NAMEDTUPLE in the sense
of the predicate `isNamedtuple(v) := isinstance(v, tuple) and hasattr(v, "_fields")` — any instance of a tuple
subclass whose type has `_fields`: classes made by `collections.namedtuple` / `typing.NamedTuple` AND their
subclasses (with or without extra methods); not "a class whose direct base is `tuple`".  `cls` is the concrete
class, which is what the rebuild calls (`value_type(*items)`).

Conventions
* `set xs`      — the elements in the set's iteration order.
* `dict ks vs`  — keys and values in insertion order (`value.keys()`, `value.values()`); a value that
                  comes from Python has `ks.length = vs.length` (`NV.WF`).
* `dcls c xs`   — field values in declaration order (`dataclasses.fields`); the field names and their
                  `init` flags are class data (`DClass.fields`); well-formed when
                  `xs.length = c.fields.length`.
-/
namespace RedunModel.Nested

/-- What the code depends on of a dataclass *type*. -/
structure DClass where
  name : String
  /-- (field name, `field.init`) in declaration order -/
  fields : List (String × Bool)
  /-- `@dataclass(frozen=True)` -/
  frozen : Bool := false
  /-- instances have a `__dict__` (false for `slots=True`) -/
  hasDict : Bool := true
  deriving DecidableEq, Repr, Inhabited

inductive NV (α : Type) where
  | leaf (a : α)
  | list (xs : List (NV α))
  | tuple (xs : List (NV α))
  | ntuple (cls : String) (xs : List (NV α))
  | set (xs : List (NV α))
  | dict (ks vs : List (NV α))
  | dcls (cls : DClass) (xs : List (NV α))
  deriving Repr, Inhabited

namespace NV
variable {α β γ : Type}

/-- Convenience constructor from key/value pairs. -/
def dictOf (kvs : List (NV α × NV α)) : NV α := .dict (kvs.map Prod.fst) (kvs.map Prod.snd)

/-- `iter_nested_value_children` for a container (in yield order); a leaf has no children here
(the code yields the leaf itself with `is_leaf = True`). -/
def children : NV α → List (NV α)
  | .leaf _ => []
  | .list xs => xs
  | .tuple xs => xs
  | .ntuple _ xs => xs
  | .set xs => xs
  | .dict ks vs => ks ++ vs
  | .dcls _ xs => xs

def isLeaf : NV α → Bool
  | .leaf _ => true
  | _ => false

mutual
  /-- Number of nodes. -/
  def size : NV α → Nat
    | .leaf _ => 1
    | .list xs => 1 + sizes xs
    | .tuple xs => 1 + sizes xs
    | .ntuple _ xs => 1 + sizes xs
    | .set xs => 1 + sizes xs
    | .dict ks vs => 1 + (sizes ks + sizes vs)
    | .dcls _ xs => 1 + sizes xs
  def sizes : List (NV α) → Nat
    | [] => 0
    | x :: xs => size x + sizes xs
end

mutual
  /-- The structural part of `map_nested_value`: same container at every node, `f` at every leaf. -/
  def mapNV (f : α → β) : NV α → NV β
    | .leaf a => .leaf (f a)
    | .list xs => .list (mapNVs f xs)
    | .tuple xs => .tuple (mapNVs f xs)
    | .ntuple c xs => .ntuple c (mapNVs f xs)
    | .set xs => .set (mapNVs f xs)
    | .dict ks vs => .dict (mapNVs f ks) (mapNVs f vs)
    | .dcls c xs => .dcls c (mapNVs f xs)
  def mapNVs (f : α → β) : List (NV α) → List (NV β)
    | [] => []
    | x :: xs => mapNV f x :: mapNVs f xs
end

/-- The shape of a nested value: its container skeleton with the leaves erased. -/
def shape (v : NV α) : NV Unit := mapNV (fun _ => ()) v

mutual
  /-- Leaves in depth-first, left-to-right order (children in `iter_nested_value_children` order). -/
  def leavesDfs : NV α → List α
    | .leaf a => [a]
    | .list xs => leavesDfsL xs
    | .tuple xs => leavesDfsL xs
    | .ntuple _ xs => leavesDfsL xs
    | .set xs => leavesDfsL xs
    | .dict ks vs => leavesDfsL ks ++ leavesDfsL vs
    | .dcls _ xs => leavesDfsL xs
  def leavesDfsL : List (NV α) → List α
    | [] => []
    | x :: xs => leavesDfs x ++ leavesDfsL xs
end

/-- The order in which `iter_nested_value` yields the leaves: the explicit stack pops the *last*
pushed child first, so it is the mirror image of depth-first order (`iterLoop_eq_leaves` proves that
the stack machine below computes exactly this). -/
def leaves (v : NV α) : List α := (leavesDfs v).reverse

theorem sizes_append (a b : List (NV α)) : sizes (a ++ b) = sizes a + sizes b := by
  induction a with
  | nil => simp [sizes]
  | cons x xs ih => simp [sizes, ih, Nat.add_assoc]

theorem sizes_reverse (a : List (NV α)) : sizes a.reverse = sizes a := by
  induction a with
  | nil => rfl
  | cons x xs ih => simp [sizes_append, sizes, ih, Nat.add_comm]

/-- One `while stack:` run of `iter_nested_value`.  The list head is the top of the Python stack
(`stack.pop()` takes the last element, `stack.extend(children)` leaves the last child on top).
A popped leaf is yielded (the code first re-pushes it as `(True, leaf)` and yields it on the next
pop; the two steps are merged here). -/
def iterLoop : List (NV α) → List α
  | [] => []
  | .leaf a :: st => a :: iterLoop st
  | .list xs :: st => iterLoop (xs.reverse ++ st)
  | .tuple xs :: st => iterLoop (xs.reverse ++ st)
  | .ntuple _ xs :: st => iterLoop (xs.reverse ++ st)
  | .set xs :: st => iterLoop (xs.reverse ++ st)
  | .dict ks vs :: st => iterLoop (vs.reverse ++ (ks.reverse ++ st))   -- = (ks ++ vs).reverse ++ st
  | .dcls _ xs :: st => iterLoop (xs.reverse ++ st)
termination_by st => sizes st
decreasing_by
  all_goals simp only [List.unattach_reverse, List.unattach_attach, sizes, size, sizes_append, sizes_reverse]
  all_goals omega

/-- `iter_nested_value(value)` -/
def iterNested (v : NV α) : List α := iterLoop [v]

/-! ### The order in which `map_nested_value` calls `func` -/

/-- `a₁ b₁ a₂ b₂ …` (dict comprehension `{map(k): map(v) for k, v in items()}`); total on lists of
different lengths so that no well-formedness hypothesis is needed. -/
def interleave {γ : Type} : List γ → List γ → List γ
  | a :: as, b :: bs => a :: b :: interleave as bs
  | [], bs => bs
  | as, [] => as

/-- The entries of `xs` whose flag equals `want`; entries without a flag count as `init = True`. -/
def pick {γ : Type} (want : Bool) : List Bool → List γ → List γ
  | _, [] => []
  | [], x :: xs => if want then x :: xs else []
  | fl :: fls, x :: xs => if fl = want then x :: pick want fls xs else pick want fls xs

/-- `field.init` flags of a dataclass in declaration order. -/
def _root_.RedunModel.Nested.DClass.initFlags (c : DClass) : List Bool := c.fields.map Prod.snd

mutual
  /-- Leaves in the order `map_nested_value` applies `func` to them: containers left to right, a dict
  as key₁ value₁ key₂ value₂ …, a dataclass first its `init` fields then its non-`init` fields. -/
  def visited : NV α → List α
    | .leaf a => [a]
    | .list xs => (visitedEach xs).flatten
    | .tuple xs => (visitedEach xs).flatten
    | .ntuple _ xs => (visitedEach xs).flatten
    | .set xs => (visitedEach xs).flatten
    | .dict ks vs => (interleave (visitedEach ks) (visitedEach vs)).flatten
    | .dcls c xs => (pick true c.initFlags (visitedEach xs)).flatten ++ (pick false c.initFlags (visitedEach xs)).flatten
  def visitedEach : List (NV α) → List (List α)
    | [] => []
    | x :: xs => visited x :: visitedEach xs
end

mutual
  /-- Well-formed: what a Python value can be (dict has as many keys as values, a dataclass instance
  has one value per declared field). -/
  def WF : NV α → Prop
    | .leaf _ => True
    | .list xs => WFs xs
    | .tuple xs => WFs xs
    | .ntuple _ xs => WFs xs
    | .set xs => WFs xs
    | .dict ks vs => ks.length = vs.length ∧ WFs ks ∧ WFs vs
    | .dcls c xs => xs.length = c.fields.length ∧ WFs xs
  def WFs : List (NV α) → Prop
    | [] => True
    | x :: xs => WF x ∧ WFs xs
end

end NV
end RedunModel.Nested
