/-
Model of redun's configuration object (property C35).  Core Lean only.  Text is `List Char`.

Mirrors, as they are in /repo (plus the proposed repair, see `getConfigDict`):
  * `configparser.ExtendedInterpolation._interpolate_some` / `before_get` / `before_set` (Python 3.12 source)
    with `RedunExtendedInterpolation.before_get` (environment variables take part in `${name}` lookups)
                                                          → `loop`, `getItem`, `beforeSetOk`
  * `RawConfigParser.get / options / read_dict / set`    → `rawGet`, `sectionKeys`, `readDict`
  * `Config._parse_sections`                             → `insertPath`, `parseSections`
  * `Config.get_config_dict` (`convert_to_dict`, `substitute_config_dir`) → `flattenKids`, `replaceAll`, `getConfigDict`
INI text parsing (`read_string`) is outside the model: a configuration is the parser's raw option table.
-/
namespace RedunModel.Config

abbrev Str := List Char
abbrev Opts := List (Str × Str)

/-- `parser._defaults` and `parser._sections` (insertion ordered, raw values). -/
structure Cfg where
  defaults : Opts
  sections : List (Str × Opts)
  deriving Repr

inductive Err where
  | depth      -- InterpolationDepthError
  | syntax     -- InterpolationSyntaxError
  | missing    -- InterpolationMissingOptionError
  | valueError -- before_set: invalid interpolation syntax
  | typeError  -- _parse_sections: a section name is a proper dotted prefix of an earlier one's path
  deriving Repr, DecidableEq

def defaultSect : Str := ['D', 'E', 'F', 'A', 'U', 'L', 'T']

/-! ### small text functions -/

/-- `s.split(sep)` for a one-character separator -/
def splitOn (sep : Char) : Str → List Str
  | [] => [[]]
  | c :: t =>
    if c = sep then [] :: splitOn sep t
    else match splitOn sep t with
      | h :: r => (c :: h) :: r
      | [] => [[c]]

/-- `sep.join(parts)` -/
def joinWith (sep : Char) : List Str → Str
  | [] => []
  | [p] => p
  | p :: q :: r => p ++ sep :: joinWith sep (q :: r)

/-- text up to the first `}` and the text after it -/
def spanBrace : Str → Option (Str × Str)
  | [] => none
  | c :: t =>
    if c = '}' then some ([], t)
    else match spanBrace t with
      | some (n, r) => some (c :: n, r)
      | none => none

/-- `_KEYCRE = \$\{([^}]+)\}` matched right after the `${`: the name (non-empty) and the rest after `}` -/
def takeRef (s : Str) : Option (Str × Str) :=
  match spanBrace s with
  | some (n, r) => if n = [] then none else some (n, r)
  | none => none

theorem spanBrace_length {s n r : Str} (h : spanBrace s = some (n, r)) : r.length < s.length := by
  induction s generalizing n r with
  | nil => simp [spanBrace] at h
  | cons c t ih =>
    simp only [spanBrace] at h
    split at h
    · cases h; simp
    · cases hs : spanBrace t with
      | none => simp [hs] at h
      | some p =>
        obtain ⟨n', r'⟩ := p
        simp only [hs, Option.some.injEq, Prod.mk.injEq] at h
        have := ih hs
        rw [← h.2]; simp; omega

theorem takeRef_length {s n r : Str} (h : takeRef s = some (n, r)) : r.length < s.length := by
  unfold takeRef at h
  cases hs : spanBrace s with
  | none => simp [hs] at h
  | some p =>
    obtain ⟨n', r'⟩ := p
    simp only [hs] at h
    split at h
    · cases h
    · cases h; exact spanBrace_length hs

/-! ### raw access -/

/-- `parser._sections[s]`, with `DEFAULT` standing for the defaults only; `none` = `NoSectionError` -/
def sectionOpts (cfg : Cfg) (s : Str) : Option Opts :=
  if s = defaultSect then some [] else cfg.sections.lookup s

def orElse (a b : Option Str) : Option Str :=
  match a with
  | some x => some x
  | none => b

/-- `parser.get(s, opt, raw=True)`; `none` = `NoSectionError` / `NoOptionError` -/
def rawGet (cfg : Cfg) (s opt : Str) : Option Str :=
  match sectionOpts cfg s with
  | none => none
  | some o => orElse (o.lookup opt) (cfg.defaults.lookup opt)

/-- `dict(parser.items(s, raw=True))` as a lookup function (only called for a section that exists). -/
def rawMap (cfg : Cfg) (s : Str) : Str → Option Str := fun k =>
  match sectionOpts cfg s with
  | some o => orElse (o.lookup k) (cfg.defaults.lookup k)
  | none => cfg.defaults.lookup k

/-- `{**ChainMap(section, defaults), **os.environ}`: what `${name}` sees at the top level (redun's subclass) -/
def topMap (cfg : Cfg) (env : Opts) (s : Str) : Str → Option Str := fun k =>
  orElse (env.lookup k) (rawMap cfg s k)

/-- the `try:` block of `_interpolate_some`: value and the section it came from -/
def resolve (cfg : Cfg) (sect : Str) (map : Str → Option Str) : List Str → Except Err (Str × Str)
  | [opt] =>
    match map opt with
    | some v => .ok (v, sect)
    | none => .error .missing
  | [s, opt] =>
    match rawGet cfg s opt with
    | some v => .ok (v, s)
    | none => .error .missing
  | _ => .error .syntax

/-- `_interpolate_some`.  `d` = how many more nested levels are allowed (`MAX_INTERPOLATION_DEPTH = 10`, the
top level is depth 1, so the top call has `d = 9`; a nested call at `d = 0` is the `InterpolationDepthError`). -/
def loop (cfg : Cfg) (d : Nat) (rest : Str) (sect : Str) (map : Str → Option Str) : Except Err Str :=
  match rest with
  | [] => .ok []
  | c :: r =>
    if c ≠ '$' then
      match loop cfg d r sect map with
      | .ok out => .ok (c :: out)
      | .error e => .error e
    else
      match r with
      | '$' :: r' =>
        match loop cfg d r' sect map with
        | .ok out => .ok ('$' :: out)
        | .error e => .error e
      | '{' :: r' =>
        match h : takeRef r' with
        | none => .error .syntax
        | some (name, r'') =>
          match resolve cfg sect map (splitOn ':' name) with
          | .error e => .error e
          | .ok (v, sect') =>
            let sub : Except Err Str :=
              if '$' ∈ v then
                match d with
                | 0 => .error .depth
                | d' + 1 => loop cfg d' v sect' (rawMap cfg sect')
              else .ok v
            match sub with
            | .error e => .error e
            | .ok out =>
              match loop cfg d r'' sect map with
              | .ok out2 => .ok (out ++ out2)
              | .error e => .error e
      | _ => .error .syntax
termination_by (d, rest.length)
decreasing_by
  all_goals simp_wf
  · exact Prod.Lex.right _ (by show _ < _; omega)
  · exact Prod.Lex.right _ (by show _ < _; omega)
  · exact Prod.Lex.left _ _ (by show _ < _; omega)
  · exact Prod.Lex.right _ (by show _ < _; have := takeRef_length h; omega)

/-- `parser.get(sect, k)` (interpolated); the key is looked up in the section, then in DEFAULT -/
def getItem (cfg : Cfg) (env : Opts) (sect k : Str) : Except Err Str :=
  match rawGet cfg sect k with
  | none => .error .missing
  | some v => loop cfg 9 v sect (topMap cfg env sect)

/-- `parser.options(sect)`: the section's own keys, then DEFAULT keys it does not have -/
def sectionKeys (cfg : Cfg) (sect : Str) : List Str :=
  match cfg.sections.lookup sect with
  | none => []
  | some o => o.map (·.1) ++ (cfg.defaults.map (·.1)).filter fun k => !(o.any fun p => p.1 == k)

def mapMExcept {α β : Type} (f : α → Except Err β) : List α → Except Err (List β)
  | [] => .ok []
  | a :: t =>
    match f a with
    | .error e => .error e
    | .ok b =>
      match mapMExcept f t with
      | .error e => .error e
      | .ok r => .ok (b :: r)

/-- `dict(section_proxy.items())`: effective (interpolated) items of one section -/
def sectionItems (cfg : Cfg) (env : Opts) (sect : Str) : Except Err Opts :=
  mapMExcept (fun k => match getItem cfg env sect k with
                       | .ok v => .ok (k, v)
                       | .error e => .error e) (sectionKeys cfg sect)

/-- effective values of every section, in parser order -/
def effective (cfg : Cfg) (env : Opts) : Except Err (List (Str × Opts)) :=
  mapMExcept (fun (s : Str × Opts) => match sectionItems cfg env s.1 with
                                     | .ok it => .ok (s.1, it)
                                     | .error e => .error e) cfg.sections

/-! ### `before_set` -/

/-- `value.replace('$$', '')` -/
def removeDD : Str → Str
  | '$' :: '$' :: t => removeDD t
  | c :: t => c :: removeDD t
  | [] => []

/-- `_KEYCRE.sub('', tmp)` (fuel = length; each step consumes at least one character) -/
def removeRefsAux : Nat → Str → Str
  | 0, s => s
  | _ + 1, [] => []
  | n + 1, '$' :: '{' :: t =>
    match takeRef t with
    | some (_, r) => removeRefsAux n r
    | none => '$' :: removeRefsAux n ('{' :: t)
  | n + 1, c :: t => c :: removeRefsAux n t

def removeRefs (s : Str) : Str := removeRefsAux s.length s

/-- `ExtendedInterpolation.before_set` (called by `set` only for a non-empty value): `true` = accepted -/
def beforeSetOk (v : Str) : Bool := !(removeRefs (removeDD v)).contains '$'

/-! ### `_parse_sections` and `convert_to_dict` -/

/-- the nested dict: a leaf is a `SectionProxy` (we keep the full section name), a node is a dict -/
inductive Node where
  | leaf (full : Str)
  | node (kids : List (Str × Node))
  deriving Repr

/-- `d[k] = v` on an insertion-ordered dict -/
def setKey {α : Type} (kids : List (Str × α)) (k : Str) (v : α) : List (Str × α) :=
  match kids with
  | [] => [(k, v)]
  | (k', v') :: t => if k' = k then (k, v) :: t else (k', v') :: setKey t k v

/-- the body of the `for full_section` loop: walk `parts[:-1]` creating dicts, assign `parts[-1]`.
Walking into something that is not a dict (a `SectionProxy`) ends in `TypeError`. -/
def insertPath : List (Str × Node) → List Str → Str → Except Err (List (Str × Node))
  | kids, [], _ => .ok kids            -- `split` never returns an empty list
  | kids, [p], full => .ok (setKey kids p (.leaf full))
  | kids, p :: q :: ps, full =>
    match kids.lookup p with
    | none =>
      match insertPath [] (q :: ps) full with
      | .ok sub => .ok (setKey kids p (.node sub))
      | .error e => .error e
    | some (.node sub) =>
      match insertPath sub (q :: ps) full with
      | .ok sub' => .ok (setKey kids p (.node sub'))
      | .error e => .error e
    | some (.leaf _) => .error .typeError

def parseSections : List Str → List (Str × Node) → Except Err (List (Str × Node))
  | [], acc => .ok acc
  | n :: t, acc =>
    match insertPath acc (splitOn '.' n) n with
    | .ok acc' => parseSections t acc'
    | .error e => .error e

mutual
/-- `convert_to_dict(path, obj)`: (constructed dotted path, real section name) of every leaf, depth first.
In `flattenKids`, `path = none` is the root (the repair: the original code used `""` for the root and tested
`if path`, which also dropped a leading empty component: `[.c]` came out as `c`). -/
def flattenNode (path : Str) : Node → List (Str × Str)
  | .leaf full => [(path, full)]
  | .node kids => flattenKids (some path) kids
def flattenKids (path : Option Str) : List (Str × Node) → List (Str × Str)
  | [] => []
  | (k, n) :: t =>
    flattenNode (match path with
                 | some p => p ++ '.' :: k
                 | none => k) n ++ flattenKids path t
end

/-! ### `get_config_dict` and `read_dict` -/

/-- `str.replace(pat, rep)`, non-overlapping, left to right (fuel = length + 1) -/
def replaceAux (pat rep : Str) : Nat → Str → Str
  | 0, s => s
  | _ + 1, [] => if pat = [] then rep else []
  | n + 1, c :: t =>
    if pat = [] then rep ++ c :: replaceAux pat rep n t
    else if pat.isPrefixOf (c :: t) then rep ++ replaceAux pat rep n ((c :: t).drop pat.length)
    else c :: replaceAux pat rep n t

def replaceAll (pat rep s : Str) : Str := replaceAux pat rep (s.length + 1) s

/-- the repair: a literal `$` in an effective value is written `$$` so that `read_dict` reads it back -/
def escape : Str → Str
  | [] => []
  | c :: t => if c = '$' then '$' :: '$' :: escape t else c :: escape t

/-- `get_config_dict(replace_config_dir)`: for every leaf of the nested sections (depth first) the
interpolated items, config-dir substituted, `$` escaped.  `localDir` = `get_config_dir()`. -/
def getConfigDict (cfg : Cfg) (env : Opts) (localDir : Str) (replace : Option Str) :
    Except Err (List (Str × Opts)) :=
  match parseSections (cfg.sections.map (·.1)) [] with
  | .error e => .error e
  | .ok trie =>
    let conv (v : Str) : Str :=
      escape (match replace with
              | some r => replaceAll localDir r v
              | none => v)
    (flattenKids none trie).foldl (fun acc pf =>
      match acc with
      | .error e => .error e
      | .ok res =>
        match sectionItems cfg env pf.2 with
        | .error e => .error e
        | .ok items => .ok (setKey res pf.1 (items.map fun kv => (kv.1, conv kv.2)))) (.ok [])

/-- `parser.set(section, k, v)` inside `read_dict` (section exists; `""`/`DEFAULT` address the defaults) -/
def setOpt (cfg : Cfg) (sect k v : Str) : Cfg :=
  if sect = [] ∨ sect = defaultSect then { cfg with defaults := setKey cfg.defaults k v }
  else
    { cfg with sections := cfg.sections.map fun s => if s.1 = sect then (s.1, setKey s.2 k v) else s }

/-- `add_section` as used by `read_dict` (`DuplicateSectionError` / `ValueError` for DEFAULT are swallowed) -/
def addSection (cfg : Cfg) (sect : Str) : Cfg :=
  if sect = defaultSect ∨ (cfg.sections.any fun s => s.1 == sect) then cfg
  else { cfg with sections := cfg.sections ++ [(sect, [])] }

def readOpts (cfg : Cfg) (sect : Str) : Opts → Except Err Cfg
  | [] => .ok cfg
  | (k, v) :: t =>
    if v ≠ [] ∧ beforeSetOk v = false then .error .valueError
    else readOpts (setOpt cfg sect k v) sect t

/-- `RawConfigParser.read_dict` -/
def readDictInto (cfg : Cfg) : List (Str × Opts) → Except Err Cfg
  | [] => .ok cfg
  | (s, opts) :: t =>
    match readOpts (addSection cfg s) s opts with
    | .error e => .error e
    | .ok cfg' => readDictInto cfg' t

/-- `Config(config_dict=d)`: read into an empty parser, then `_parse_sections` (which may raise) -/
def readDict (d : List (Str × Opts)) : Except Err Cfg :=
  match readDictInto ⟨[], []⟩ d with
  | .error e => .error e
  | .ok cfg =>
    match parseSections (cfg.sections.map (·.1)) [] with
    | .error e => .error e
    | .ok _ => .ok cfg

end RedunModel.Config
