/-
Model of redun/job_array.py `JobArrayer` as a two-thread transition system (core Lean only).

Threads: `S` — the thread that calls `add_job` (in redun: the scheduler thread), running
`add_job` and, through its last line, `start()`; `M` — the array-monitor thread
(`_monitor_stale_jobs`, `get_stale_descrs`, `submit_pending_jobs`), created by `start()`.
One transition per LINE event of those methods (Python 3.12 `sys.monitoring`): program counters are
named after the source line they execute (`a164` = line 164 of the unchanged file, an `x` suffix =
second visit of a `with` line when the block is left, `E` = visit on the exception path).

`Cfg` selects between the code as found (`lockScan = lockDec = false`: `get_stale_descrs` reads
`pending`/`pending_timestamps` without the lock; `num_pending -= len(jobs)` runs outside the lock
and is a read followed by a write) and the repaired code (both under `self._lock`).

Externals are parameters: the clock (`time.time`, advanced by the environment step `tick`), the
`submit_jobs` callback (recorded in `submitted`), `on_error` (recorded in `errors`).  `stop()`
and the exit flag are outside the model (property C11 quantifies over `add_job` calls and the
monitor thread).
-/
namespace RedunModel.Arrayer

/-! ### insertion-ordered dictionaries -/
abbrev Dict (α : Type) := List (Nat × α)

def dget {α : Type} : Dict α → Nat → Option α
  | [], _ => none
  | (k', v) :: r, k => if k' = k then some v else dget r k

/-- `d[k] = v`: in place when the key exists, at the end otherwise (Python dict order). -/
def dset {α : Type} : Dict α → Nat → α → Dict α
  | [], k, v => [(k, v)]
  | (k', v') :: r, k, v => if k' = k then (k', v) :: r else (k', v') :: dset r k v

/-- `del d[k]` (keys are unique in every reachable state — `Lemmas.Arrayer.Inv.keysNodup` — so removing
every entry with key `k` is removing the entry) -/
def derase {α : Type} : Dict α → Nat → Dict α
  | [], _ => []
  | (k', v') :: r, k => if k' = k then derase r k else (k', v') :: derase r k

def dkeys {α : Type} (d : Dict α) : List Nat := d.map Prod.fst

/-! ### data -/
structure Job where
  id : Nat
  descr : Nat          -- JobDescription key (task name + sorted options)
  script : Bool
  deriving DecidableEq, Repr

structure Cfg where
  lockScan : Bool      -- `get_stale_descrs` scans under `self._lock`
  lockDec : Bool       -- `num_pending -= len(jobs)` under `self._lock`
  deriving DecidableEq, Repr

def Cfg.current : Cfg := ⟨false, false⟩
def Cfg.fixed : Cfg := ⟨true, true⟩

structure Params where
  minSize : Nat
  maxSize : Nat
  staleTime : Int
  deriving Repr

inductive Err where
  | keyError
  | runtimeError       -- "dictionary changed size during iteration"
  deriving DecidableEq, Repr

inductive Tid where
  | S | M
  deriving DecidableEq, Repr

/-- program counter of the adding thread (`add_job`, `start`) -/
inductive APc where
  | a158 | a159 | a160 | a162 | a163 | a164 | a165 | a166 | a163x | a168
  | s136 | s137 | s139 | s140 | s144 | s145 | s146
  | done
  deriving DecidableEq, Repr

/-- program counter of the monitor thread -/
inductive MPc where
  | none                                   -- no monitor thread started yet
  | m122 | m123 | m124
  | g172 | gLock | g175a | g173a | g175b | g176 | g174 | g173b | g173e | gUnlock | gUnlockE | g178
  | m126 | m127
  | p183 | p184 | p185 | p183x | p183xE
  | p188 | p189 | p190 | p191 | p193 | p194 | p195 | p193x
  | p197 | p198 | p199 | p201
  | pdLock | p203 | p203w | pdUnlock
  | m128 | m132
  | mExit                                  -- `_monitor_stale_jobs` has returned; the thread is still alive until its teardown ends
  | dead
  deriving DecidableEq, Repr

structure Adder where
  pc : APc
  cur : Job            -- job of the add_job call in progress
  todo : List Job      -- calls still to be made
  deriving Repr

structure Mon where
  pc : MPc
  currtime : Nat := 0
  iterUsed : Nat := 0      -- dict size when the key iterator was created (`di_used`)
  iterRest : List Nat := [] -- keys the iterator has still to yield
  descr : Nat := 0
  isStale : Bool := false
  acc : List Nat := []     -- list under construction in the comprehension
  stales : List Nat := []  -- rest of `for descr in stales`
  jobs : List Job := []
  remainder : List Job := []
  timestamp : Nat := 0
  loopJobs : List Job := []  -- rest of `for job in jobs`
  job : Job := ⟨0, 0, false⟩
  decRead : Int := 0
  err : Err := .keyError
  deriving Repr

structure State where
  pending : Dict (List Job) := []
  stamps : Dict Nat := []
  num : Int := 0
  lock : Option Tid := Option.none
  clock : Nat := 0
  submitted : List (List Job) := []
  errors : List Err := []
  added : List Job := []       -- ghost: jobs that entered the arrayer (appended or passed through)
  started : Nat := 0           -- ghost: number of monitor threads created
  ad : Adder
  mon : Mon := { pc := .none }
  deriving Repr

def nextCall (a : Adder) : Adder :=
  match a.todo with
  | [] => { a with pc := .done }
  | j :: r => { pc := .a158, cur := j, todo := r }

def init (jobs : List Job) : State :=
  match jobs with
  | [] => { ad := { pc := .done, cur := ⟨0, 0, false⟩, todo := [] } }
  | j :: r => { ad := { pc := .a158, cur := j, todo := r } }

def monAlive (m : Mon) : Bool := m.pc != .none && m.pc != .dead

def isStaleAt (p : Params) (currtime ts : Nat) : Bool := decide ((currtime : Int) - (ts : Int) > p.staleTime)

/-- One step of the adding thread. `none` = not enabled (finished, or blocked on the lock). -/
def stepS (p : Params) (s : State) : Option State :=
  let a := s.ad
  let go (pc : APc) : Option State := some { s with ad := { a with pc := pc } }
  match a.pc with
  | .a158 => if a.cur.script || p.minSize == 0 then go .a159 else go .a162
  | .a159 => some { s with submitted := s.submitted ++ [[a.cur]], added := s.added ++ [a.cur], ad := { a with pc := .a160 } }
  | .a160 => some { s with ad := nextCall a }
  | .a162 => go .a163
  | .a163 => match s.lock with
    | Option.none => some { s with lock := some .S, ad := { a with pc := .a164 } }
    | some _ => Option.none
  | .a164 => some { s with
      pending := dset s.pending a.cur.descr (((dget s.pending a.cur.descr).getD []) ++ [a.cur]),
      added := s.added ++ [a.cur], ad := { a with pc := .a165 } }
  | .a165 => some { s with stamps := dset s.stamps a.cur.descr s.clock, ad := { a with pc := .a166 } }
  | .a166 => some { s with num := s.num + 1, ad := { a with pc := .a163x } }
  | .a163x => some { s with lock := Option.none, ad := { a with pc := .a168 } }
  | .a168 => go .s136
  | .s136 => if p.minSize == 0 then go .s137 else go .s139
  | .s137 => some { s with ad := nextCall a }
  | .s139 => if monAlive s.mon then go .s140 else go .s144
  | .s140 => some { s with ad := nextCall a }
  | .s144 => go .s145
  | .s145 => go .s146
  | .s146 => some { s with mon := { pc := .m122 }, started := s.started + 1, ad := nextCall a }
  | .done => Option.none

/-- where the comprehension goes when the iterator is exhausted -/
def afterScan (c : Cfg) : MPc := if c.lockScan then .gUnlock else .g178
def afterScanErr (c : Cfg) : MPc := if c.lockScan then .gUnlockE else .m128
def decEntry (c : Cfg) : MPc := if c.lockDec then .pdLock else .p203

/-- `next()` of the dict key iterator: CPython raises RuntimeError when the dict's size differs from the
size at iterator creation, otherwise yields the next key.  While the size is unchanged the key sequence
is the one at creation (the only concurrent mutation of `pending` during a scan is `add_job` inserting a
new key, which changes the size; deletions are done by the scanning thread itself, outside scans), so the
iterator is modelled as the key list taken at creation plus the size check. -/
def iterNext (c : Cfg) (s : State) (m : Mon) : Mon :=
  if s.pending.length != m.iterUsed then { m with err := .runtimeError, pc := .g173e }
  else match m.iterRest with
    | k :: r => { m with descr := k, iterRest := r, pc := .g175b }
    | [] => { m with stales := m.acc, pc := afterScan c }

def stepM (c : Cfg) (p : Params) (s : State) : Option State :=
  let m := s.mon
  let go (pc : MPc) : Option State := some { s with mon := { m with pc := pc } }
  let acquire (pc : MPc) : Option State :=
    match s.lock with
    | Option.none => some { s with lock := some .M, mon := { m with pc := pc } }
    | some _ => Option.none
  let release (pc : MPc) : Option State := some { s with lock := Option.none, mon := { m with pc := pc } }
  match m.pc with
  | .none => Option.none
  | .dead => Option.none
  | .m122 => go .m123
  | .m123 => go .m124
  | .m124 => go .g172
  | .g172 => some { s with mon := { m with currtime := s.clock, pc := if c.lockScan then .gLock else .g175a } }
  | .gLock => acquire .g175a
  | .g175a => go .g173a
  | .g173a => some { s with mon := iterNext c s { m with iterUsed := s.pending.length, iterRest := dkeys s.pending, acc := [] } }
  | .g175b => go .g176
  | .g176 => match dget s.stamps m.descr with
    | Option.none => some { s with mon := { m with err := .keyError, pc := .g173e } }
    | some ts => some { s with mon := { m with isStale := isStaleAt p m.currtime ts, pc := .g174 } }
  | .g174 => some { s with mon := { m with acc := if m.isStale then m.acc ++ [m.descr] else m.acc, pc := .g173b } }
  | .g173b => some { s with mon := iterNext c s m }
  | .g173e => go (afterScanErr c)
  | .gUnlock => release .g178
  | .gUnlockE => release .m128
  | .g178 => go .m126
  | .m126 => match m.stales with
    | [] => go .m123
    | d :: r => some { s with mon := { m with descr := d, stales := r, pc := .m127 } }
  | .m127 => go .p183
  | .p183 => acquire .p184
  | .p184 => match dget s.pending m.descr with
    | Option.none => some { s with mon := { m with err := .keyError, pc := .p183xE } }
    | some js => some { s with pending := derase s.pending m.descr, mon := { m with jobs := js, pc := .p185 } }
  | .p185 => match dget s.stamps m.descr with
    | Option.none => some { s with mon := { m with err := .keyError, pc := .p183xE } }
    | some t => some { s with stamps := derase s.stamps m.descr, mon := { m with timestamp := t, pc := .p183x } }
  | .p183x => release .p188
  | .p183xE => release .m128
  | .p188 => if m.jobs.length > p.maxSize then go .p189 else go .p197
  | .p189 => some { s with mon := { m with remainder := m.jobs.drop p.maxSize, pc := .p190 } }
  | .p190 => some { s with mon := { m with jobs := m.jobs.take p.maxSize, pc := .p191 } }
  | .p191 => some { s with submitted := s.submitted ++ [m.jobs], mon := { m with pc := .p193 } }
  | .p193 => acquire .p194
  | .p194 => some { s with
      pending := dset s.pending m.descr (((dget s.pending m.descr).getD []) ++ m.remainder),
      mon := { m with pc := .p195 } }
  | .p195 => some { s with stamps := dset s.stamps m.descr m.timestamp, mon := { m with pc := .p193x } }
  | .p193x => release (decEntry c)
  | .p197 => if m.jobs.length < p.minSize then some { s with mon := { m with loopJobs := m.jobs, pc := .p198 } } else go .p201
  | .p198 => match m.loopJobs with
    | [] => go (decEntry c)
    | j :: r => some { s with mon := { m with job := j, loopJobs := r, pc := .p199 } }
  | .p199 => some { s with submitted := s.submitted ++ [[m.job]], mon := { m with pc := .p198 } }
  | .p201 => some { s with submitted := s.submitted ++ [m.jobs], mon := { m with pc := decEntry c } }
  | .pdLock => acquire .p203
  | .p203 =>
    if c.lockDec then some { s with num := s.num - m.jobs.length, mon := { m with pc := .pdUnlock } }
    else some { s with mon := { m with decRead := s.num, pc := .p203w } }
  | .p203w => some { s with num := m.decRead - m.jobs.length, mon := { m with pc := .m126 } }
  | .pdUnlock => release .m126
  | .m128 => go .m132
  | .m132 => some { s with errors := s.errors ++ [m.err], mon := { m with pc := .mExit } }
  | .mExit => go .dead

/-- schedule letters: a thread step or the environment advancing the clock -/
inductive Ev where
  | thr (t : Tid)
  | tick (n : Nat)
  deriving DecidableEq, Repr

def step (c : Cfg) (p : Params) (s : State) : Ev → Option State
  | .thr .S => stepS p s
  | .thr .M => stepM c p s
  | .tick n => some { s with clock := s.clock + n }

/-- Run a schedule; a letter whose step is not enabled is skipped (returned in the second list). -/
def run (c : Cfg) (p : Params) : State → List Ev → State
  | s, [] => s
  | s, e :: es => match step c p s e with
    | some s' => run c p s' es
    | Option.none => run c p s es

inductive Reachable (c : Cfg) (p : Params) (jobs : List Job) : State → Prop where
  | init : Reachable c p jobs (init jobs)
  | step {s s' : State} (e : Ev) : Reachable c p jobs s → step c p s e = some s' → Reachable c p jobs s'

/-! ### observables -/
/-- all jobs stored in a `pending`-shaped dict, in order -/
def flat (d : Dict (List Job)) : List Job := (d.map Prod.snd).flatten

def pendingJobs (s : State) : List Job := flat s.pending

/-- jobs the monitor has taken out of `pending` and not yet passed to `submit_jobs` or put back -/
def inHand (m : Mon) : List Job :=
  match m.pc with
  | .p185 | .p183x | .p188 | .p189 | .p197 | .p201 => m.jobs
  | .p190 => m.jobs                      -- still the full list; `remainder` is a copy of its tail
  | .p191 => m.jobs ++ m.remainder
  | .p193 | .p194 => m.remainder
  | .p198 => m.loopJobs
  | .p199 => m.job :: m.loopJobs
  | _ => []

/-- the monitor is between two polls (or not running) and the adder is between two calls -/
def quiescent (s : State) : Bool :=
  (s.ad.pc == .done) && (s.mon.pc == .m123 || s.mon.pc == .none || s.mon.pc == .dead)

end RedunModel.Arrayer
