/-
Model for C36: what `RedunBackendDb.migrate()` (alembic `upgrade` to the newest revision, sqlite dialect)
does to the recorded data.  The list of revisions and their operations is REGENERATED from
/repo (`RedunModel.Generated.Migrations`); this file gives the operations their meaning on an abstract
database (tables = lists of rows, rows = column ↦ value).  Core Lean only.

Structural operations get their meaning from their arguments.  The Python / raw-SQL data migrations
are identified by the hash of their text and given hand-written meaning here (`dataSem`); an unknown
hash is an error (`Props/C36.chain_classified` then fails).
-/
import RedunModel.Generated.Migrations
namespace RedunModel.Migrate
open RedunModel.MigrateOps RedunModel.Generated.Migrations

/-- sqlite storage values. A DATETIME text `YYYY-MM-DD HH:MM:SS[.ffffff]` is split into the whole-second
part (as seconds since the epoch, UTC) and the fractional part as written (`""` or `".ffffff"`). -/
inductive Val where
  | null
  | int (i : Int)
  | text (s : String)
  | blob (hex : String)
  | ts (sec : Int) (frac : String)
  deriving DecidableEq, Repr, Inhabited

abbrev Row := List (String × Val)

structure Table where
  name : String
  cols : List String
  rows : List Row
  deriving DecidableEq, Repr, Inhabited

abbrev Db := List Table

def getCol (c : String) : Row → Option Val
  | [] => none
  | (k, v) :: rest => if k = c then some v else getCol c rest

def getD (c : String) (r : Row) : Val := (getCol c r).getD .null

def findTable (tn : String) : Db → Option Table
  | [] => none
  | t :: rest => if t.name = tn then some t else findTable tn rest

def rowsOf (tn : String) (db : Db) : List Row := match findTable tn db with | some t => t.rows | none => []

/-- the value of column `c` in row number `i` of table `tn` -/
def cell (db : Db) (tn : String) (i : Nat) (c : String) : Option Val :=
  match findTable tn db with
  | none => none
  | some t => match t.rows[i]? with
    | none => none
    | some r => getCol c r

def modifyTable (tn : String) (f : Table → Table) : Db → Db
  | [] => []
  | t :: rest => if t.name = tn then f t :: rest else t :: modifyTable tn f rest

def setCol (c : String) (g : Row → Val → Val) (r : Row) : Row :=
  r.map fun p => if p.1 = c then (p.1, g r p.2) else p

/-! ### effects -/

inductive Effect where
  | ident
  | addTable (t : Table)
  | addCol (tn c : String)                         -- new column, NULL in every existing row
  | appendRows (tn : String) (rows : List Row)
  | mapCol (tn c : String) (g : Row → Val → Val)   -- rewrite one column row by row
  | requireNotNull (tn c : String)                 -- NOT NULL constraint check: identity or failure

def applyEffect (db : Db) : Effect → Except String Db
  | .ident => .ok db
  | .addTable t => if (findTable t.name db).isSome then .error ("table exists: " ++ t.name) else .ok (db ++ [t])
  | .addCol tn c =>
    match findTable tn db with
    | none => .error ("no table " ++ tn)
    | some t =>
      if t.cols.contains c then .error ("duplicate column " ++ c)
      else .ok (modifyTable tn (fun t => { t with cols := t.cols ++ [c], rows := t.rows.map (· ++ [(c, .null)]) }) db)
  | .appendRows tn rows =>
    match findTable tn db with
    | none => .error ("no table " ++ tn)
    | some _ => .ok (modifyTable tn (fun t => { t with rows := t.rows ++ rows }) db)
  | .mapCol tn c g =>
    match findTable tn db with
    | none => .error ("no table " ++ tn)
    | some _ => .ok (modifyTable tn (fun t => { t with rows := t.rows.map (setCol c g) }) db)
  | .requireNotNull tn c =>
    match findTable tn db with
    | none => .error ("no table " ++ tn)
    | some t => if t.rows.any (fun r => getD c r == .null) then .error ("NOT NULL constraint failed: " ++ tn ++ "." ++ c)
                else .ok db

def applyEffects (db : Db) : List Effect → Except String Db
  | [] => .ok db
  | e :: rest => match applyEffect db e with
    | .ok db' => applyEffects db' rest
    | .error x => .error x

/-! ### the data migrations (hand-written meaning, keyed by the hash of their text) -/

/-- first four fractional digits (zero padded) as a number: `".678901" ↦ 6789`, `"" ↦ 0` -/
def first4 (frac : String) : Nat :=
  (((frac.toList.drop 1) ++ ['0', '0', '0', '0']).take 4).foldl (fun acc c => acc * 10 + (c.toNat - 48)) 0

/-- sqlite keeps times in whole milliseconds, rounded: a fraction ≥ .9995 carries into the next second -/
def roundsUp (frac : String) : Bool := decide (9995 ≤ first4 frac)

/-- sqlite `datetime(x, 'utc')` with TZ=UTC: re-renders the timestamp as `YYYY-MM-DD HH:MM:SS`: the
fractional seconds are dropped (after rounding to milliseconds, so `.9995` and above give the next second);
NULL stays NULL; an unparsable value gives NULL. -/
def dtUtc : Val → Val
  | .ts s f => .ts (if roundsUp f then s + 1 else s) ""
  | _ => .null

/-- `backfill_values_for_lonely_tasks`: a Value row for every Task row that has none. -/
def backfillValues (db : Db) : List Row :=
  let values := rowsOf "value" db
  (rowsOf "task" db).filterMap fun t =>
    let h := getD "hash" t
    if values.any (fun v => getD "value_hash" v == h) then none
    else some [("value_hash", h), ("type", .text "redun.Task"), ("format", .text "application/python-pickle"),
               ("value", .blob "PICKLE")]

def execFor (db : Db) (jobId : Val) : Option Val :=
  ((rowsOf "execution" db).find? fun e => getD "job_id" e == jobId).map (getD "id")

def stubId : Val → Val
  | .text s => .text ("stub:" ++ s)
  | v => v

/-- "Create stub executions for root jobs (parent_id is null) that have no execution." The real ids are
fresh uuids; the model names them `stub:<job id>` (the harness renames accordingly). -/
def stubExecutions (db : Db) : List Row :=
  (rowsOf "job" db).filterMap fun j =>
    let jid := getD "id" j
    if getD "parent_id" j == .null && (execFor db jid).isNone then
      some [("id", stubId jid), ("args", .text "\"Stub Execution\""), ("job_id", jid)]
    else none

/-- `tmp_ancestors`: the execution of the nearest ancestor-or-self job that is the root job of an execution -/
def ancestorExec : Nat → Db → Val → Val → Val
  | 0, _, _, _ => .null
  | fuel + 1, db, jid, pid =>
    match execFor db jid with
    | some e => e
    | none =>
      if pid == .null then .null
      else match (rowsOf "job" db).find? (fun r => getD "id" r == pid) with
        | none => .null
        | some p => ancestorExec fuel db pid (getD "parent_id" p)

def backfillExecId (db : Db) : Effect :=
  .mapCol "job" "execution_id" fun r _ => ancestorExec ((rowsOf "job" db).length + 1) db (getD "id" r) (getD "parent_id" r)

inductive DataSem where
  | effects (f : Db → List Effect)
  | unknown

def dataSem : Op → DataSem
  | .pyData "1067eb2f7b09" => .effects fun db => [.appendRows "value" (backfillValues db)]
  | .pyData "63689f7eda35" => .effects fun db => [.appendRows "execution" (stubExecutions db)]
  | .execSql "f801a64d688a" => .effects fun _ => [.ident]      -- drop table if exists tmp_ancestors
  | .execSql "ec88e544b927" => .effects fun _ => [.ident]      -- create table tmp_ancestors as (recursive ancestors)
  | .execSql "23fd3e23b803" => .effects fun _ => [.ident]      -- create index on tmp_ancestors
  | .execSql "588db9c0df93" => .effects fun db => [backfillExecId db]   -- update job set execution_id = (...)
  | .execSql "33b5f1af2f79" => .effects fun _ => [.ident]      -- drop table tmp_ancestors
  | .execSql "4015b57a143a" => .effects fun _ => [.ident]      -- commit
  | .execSql "40f4b052f7a9" => .effects fun _ =>               -- update job set start_time = datetime(start_time,'utc'), end_time = ...
      [.mapCol "job" "start_time" (fun _ v => dtUtc v), .mapCol "job" "end_time" (fun _ v => dtUtc v)]
  | _ => .unknown

/-! ### operations -/

def isStructural : Op → Bool
  | .createTable .. | .createIndex .. | .addColumn .. | .alterColumn .. | .createFK .. => true
  | _ => false

def isKnown (op : Op) : Bool :=
  isStructural op || match dataSem op with | .effects _ => true | .unknown => false

/-- does an operation under this guard run on sqlite? -/
def appliesSqlite : Guard → Bool
  | .any | .sqlite | .notPostgresql => true
  | .postgresql | .notSqlite => false

def effectsOf (db : Db) : Op → Except String (List Effect)
  | .createTable t cols _ _ => .ok [.addTable ⟨t, cols.map (·.name), []⟩]
  | .createIndex .. => .ok [.ident]
  | .addColumn t c => .ok (if c.nullable then [.addCol t c.name] else [.addCol t c.name, .requireNotNull t c.name])
  | .alterColumn t col _ nullable => .ok (if nullable == some false then [.requireNotNull t col] else [.ident])
  | .createFK .. => .ok [.ident]
  | op => match dataSem op with
    | .effects f => .ok (f db)
    | .unknown => .error "unknown data migration (hash not in dataSem)"

def applyOp (db : Db) (op : Op) : Except String Db :=
  match effectsOf db op with
  | .ok es => applyEffects db es
  | .error x => .error x

def applyOps (db : Db) : List GOp → Except String Db
  | [] => .ok db
  | g :: rest =>
    if appliesSqlite g.guard then
      match applyOp db g.op with
      | .ok db' => applyOps db' rest
      | .error x => .error x
    else applyOps db rest

/-! ### the chain -/

def nextRev (revs : List Rev) (cur : String) : Option Rev := revs.find? fun r => r.down == some cur

/-- revisions above `cur`, oldest first -/
def chainFrom (revs : List Rev) : Nat → String → List Rev
  | 0, _ => []
  | fuel + 1, cur => match nextRev revs cur with
    | none => []
    | some r => r :: chainFrom revs fuel r.id

def applyRevs (db : Db) : List Rev → Except String Db
  | [] => .ok db
  | r :: rest => match applyOps db r.ops with
    | .ok db' => applyRevs db' rest
    | .error x => .error x

def root : Option Rev := revisions.find? fun r => r.down == none

/-- ids of the whole chain, oldest first -/
def chainIds : List String := match root with
  | none => []
  | some r => r.id :: (chainFrom revisions revisions.length r.id).map (·.id)

def latestMajor : Nat := match dbVersions.getLast? with | some v => v.2.1 | none => 0

/-- `RedunBackendDb.migrate()` of a database whose newest applied revision is `start`: alembic upgrade to head,
then (if anything was applied) one `redun_version` row. -/
def migrate (start : String) (db : Db) : Except String Db :=
  let revs := chainFrom revisions revisions.length start
  match applyRevs db revs with
  | .error x => .error x
  | .ok db' =>
    if revs.isEmpty then .ok db'
    else applyEffect db' (.appendRows "redun_version"
      [[("id", .text "NEW"), ("version", .int latestMajor), ("timestamp", .null)]])

end RedunModel.Migrate
