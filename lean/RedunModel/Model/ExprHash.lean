/-
Model of expression identity (C18), redun/expression.py:
  TaskExpression / SchedulerExpression / SimpleExpression / ValueExpression `_calc_hash`
  and `__getstate__` / `__setstate__`.
`hashOf` mirrors the code with the repair of findings_proposed/C18-scheduler-expression-options.fix.diff
(`hashOfOld`: `SchedulerExpression._calc_hash` before it, which omits the options).
Core Lean only.  Pre-images as in Model/Pre.lean.
-/
import RedunModel.Model.Pre
namespace RedunModel.ExprHash
open RedunModel.Pre

/-- an ordered options dict (`task_options`); values are abstract labels.  Its hash
`hash_bytes(pickle_dumps(d))` is the injective leaf `Pre.opts d`. -/
abbrev Opts := List (String × Nat)

/-- Anything that can be an argument of an expression: a plain value or an expression. -/
inductive Node where
  /-- a plain (non-expression) value with value-hash label `n` -/
  | lit (n : Nat)
  /-- `TaskExpression(task_name, args, kwargs, task_options, export_options, length)` -/
  | task (name : String) (args : List Node) (kwargs : List (String × Node)) (opts : Opts)
      (exportOpts : List String) (length : Option Nat)
  /-- `SchedulerExpression(…)` (same constructor as TaskExpression) -/
  | sched (name : String) (args : List Node) (kwargs : List (String × Node)) (opts : Opts)
      (exportOpts : List String) (length : Option Nat)
  /-- `SimpleExpression(func_name, args, kwargs)` -/
  | simple (func : String) (args : List Node) (kwargs : List (String × Node))
  /-- `ValueExpression(value)` with value-hash label `n` -/
  | value (n : Nat)

def insertS (a : String) : List String → List String
  | [] => [a]
  | b :: t => if a ≤ b then a :: b :: t else b :: insertS a t

/-- `sorted(export_options)` (a set of option names) -/
def sortS (l : List String) : List String := l.foldr insertS []

/-- `hash_struct(list(sorted(self._export_options)))` -/
def exportHash (ex : List String) : Pre := .hash (.list ((sortS ex).map .str))

mutual
  /-- `TypeRegistry.get_hash(x)`: for an expression `x.get_hash()` = `_calc_hash()`. -/
  def hashOf : Node → Pre
    | .lit n => .val n
    | .task name args kwargs opts ex _ =>
      .hash (.list ([.str "TaskExpression", .str name, taskArguments (hashList args) (hashKw kwargs), .opts opts]
        ++ (if ex = [] then [] else [exportHash ex])))
    | .sched name args kwargs opts ex _ =>
      .hash (.list ([.str "SchedulerExpression", .str name, taskArguments (hashList args) (hashKw kwargs)]
        ++ (if opts = [] ∧ ex = [] then [] else [.opts opts, exportHash ex])))
    | .simple func args kwargs =>
      .hash (.list [.str "SimpleExpression", .str func, taskArguments (hashList args) (hashKw kwargs)])
    | .value n => .hash (.list [.str "ValueExpression", .val n])
  def hashList : List Node → List Pre
    | [] => []
    | a :: t => hashOf a :: hashList t
  def hashKw : List (String × Node) → List (String × Pre)
    | [] => []
    | (k, a) :: t => (k, hashOf a) :: hashKw t
end

mutual
  /-- the code before the repair: `SchedulerExpression._calc_hash` hashes name and arguments only -/
  def hashOfOld : Node → Pre
    | .lit n => .val n
    | .task name args kwargs opts ex _ =>
      .hash (.list ([.str "TaskExpression", .str name, taskArguments (hashListOld args) (hashKwOld kwargs), .opts opts]
        ++ (if ex = [] then [] else [exportHash ex])))
    | .sched name args kwargs _ _ _ =>
      .hash (.list [.str "SchedulerExpression", .str name, taskArguments (hashListOld args) (hashKwOld kwargs)])
    | .simple func args kwargs =>
      .hash (.list [.str "SimpleExpression", .str func, taskArguments (hashListOld args) (hashKwOld kwargs)])
    | .value n => .hash (.list [.str "ValueExpression", .val n])
  def hashListOld : List Node → List Pre
    | [] => []
    | a :: t => hashOfOld a :: hashListOld t
  def hashKwOld : List (String × Node) → List (String × Pre)
    | [] => []
    | (k, a) :: t => (k, hashOfOld a) :: hashKwOld t
end

/-! ### what a call is -/

inductive Kind where
  | lit | task | sched | simple | value
  deriving DecidableEq, Repr

def kind : Node → Kind
  | .lit _ => .lit
  | .task .. => .task
  | .sched .. => .sched
  | .simple .. => .simple
  | .value _ => .value

/-- task name / operator name -/
def nameOf : Node → String
  | .task n .. => n
  | .sched n .. => n
  | .simple f .. => f
  | _ => ""

def argsOf : Node → List Node
  | .task _ a .. => a
  | .sched _ a .. => a
  | .simple _ a _ => a
  | _ => []

def kwargsOf : Node → List (String × Node)
  | .task _ _ k .. => k
  | .sched _ _ k .. => k
  | .simple _ _ k => k
  | _ => []

def optsOf : Node → Opts
  | .task _ _ _ o .. => o
  | .sched _ _ _ o .. => o
  | _ => []

def exportOf : Node → List String
  | .task _ _ _ _ e _ => e
  | .sched _ _ _ _ e _ => e
  | _ => []

def lengthOf : Node → Option Nat
  | .task _ _ _ _ _ l => l
  | .sched _ _ _ _ _ l => l
  | _ => none

/-- the wrapped value of a ValueExpression / the value itself -/
def valueOf : Node → Option Nat
  | .lit n => some n
  | .value n => some n
  | _ => none

/-! ### `__getstate__` / `__setstate__` -/

/-- An expression object: what it denotes plus the per-run bookkeeping. -/
structure Obj where
  node : Node
  /-- `call_hash` (Task/Scheduler expressions) -/
  callHash : Option Nat
  /-- `_upstreams`: `none` = the class default (`[args, kwargs]`, or `[]` for a ValueExpression),
  `some l` = replaced, e.g. by `derive_expression` -/
  upstreams : Option (List Nat)
  /-- `_hash is not None` -/
  hashCached : Bool

/-- The pickled state dict; `none` = key absent. `registry.serialize`/`deserialize` of argument
tuples/dicts and values are modelled as the identity (trusted). -/
structure State where
  taskName : Option String := none
  funcName : Option String := none
  args : Option (List Node) := none
  kwargs : Option (List (String × Node)) := none
  taskOptions : Option Opts := none
  exportOptions : Option (List String) := none
  length : Option (Option Nat) := none
  value : Option Nat := none

def getstate (o : Obj) : State :=
  match o.node with
  | .task n a k op ex l =>
    { taskName := some n, args := some a, kwargs := some k, taskOptions := some op,
      exportOptions := some ex, length := some l }
  | .sched n a k op ex l =>
    { taskName := some n, args := some a, kwargs := some k, taskOptions := some op,
      exportOptions := some ex, length := some l }
  | .simple f a k => { funcName := some f, args := some a, kwargs := some k }
  | .value n => { value := some n }
  | .lit _ => {}

inductive Err where
  | keyError
  | notAnExpression
  deriving DecidableEq, Repr

/-- `cls.__new__(cls).__setstate__(state)` for the class of kind `k`: `state["…"]` raises KeyError on a
missing key, `state.get("…", default)` does not. -/
def setstate (k : Kind) (s : State) : Except Err Obj :=
  let fresh (n : Node) : Obj := { node := n, callHash := none, upstreams := none, hashCached := false }
  match k with
  | .task =>
    match s.taskName, s.args, s.kwargs with
    | some n, some a, some kw =>
      .ok (fresh (.task n a kw (s.taskOptions.getD []) (s.exportOptions.getD []) (s.length.getD none)))
    | _, _, _ => .error .keyError
  | .sched =>
    match s.taskName, s.args, s.kwargs with
    | some n, some a, some kw =>
      .ok (fresh (.sched n a kw (s.taskOptions.getD []) (s.exportOptions.getD []) (s.length.getD none)))
    | _, _, _ => .error .keyError
  | .simple =>
    match s.funcName, s.args, s.kwargs with
    | some f, some a, some kw => .ok (fresh (.simple f a kw))
    | _, _, _ => .error .keyError
  | .value =>
    match s.value with
    | some n => .ok (fresh (.value n))
    | none => .error .keyError
  | .lit => .error .notAnExpression

end RedunModel.ExprHash
