/-
Value hashing — model of `TypeRegistry.get_hash` for plain Python values (redun/value.py:
`ProxyValue.get_hash` = hash of the pickle of the value, `Set.get_hash` = hash of the pickle of
`sorted(value)` — or, when that raises TypeError, of the elements sorted by their own value hash — under
the tag "Value.set", used only when the value itself is an exact `set`).

What pickle does is modelled structurally: the pickle of a value is determined by, and determines, the
value *as laid out in memory order* — every `set`/`frozenset` node contributes its elements in the
order in which the interpreter iterates over them (which depends on PYTHONHASHSEED for str/bytes
elements and on the insertion history for colliding elements).  A `V` is therefore an *ordered* tree:
`set xs` / `fset xs` list the elements in iteration order.  Two processes (or two insertion orders)
holding "the same value" hold two `V`s related by `Sim` (equal up to permutation of the children of
every set/frozenset node).  The hash pre-image of a value is `(tag, laid-out tree)`; SHA-512 and the
byte format of pickle are outside the model.

Which proxy hashes a value: `TypeRegistry.get_value` looks the value's type up along its MRO
(`_get_proxy_type`), so an instance of a SUBCLASS of a registered type is hashed by that type's proxy: a
`class Tags(set)` value goes to `Set.get_hash` exactly like an exact `set` (`sorted(value)` is a plain list, so
the class does not even enter the pre-image), while subclasses of list / dict / tuple / frozenset / str / int have
no registered proxy and are pickled as laid out (`copyreg` writes the class by reference and `builtin(value)`).
Core Lean only.
-/
namespace RedunModel.ValueHash

inductive V where
  | none
  | bool (b : Bool)
  | int (z : Int)
  | float (bits : Nat)              -- IEEE-754 binary64 bit pattern (what pickle writes: BINFLOAT)
  | str (cps : List Nat)            -- code points
  | bytes (bs : List Nat)
  | list (xs : List V)
  | tuple (xs : List V)
  | dict (ks vs : List V)           -- insertion order (part of the value as far as pickle is concerned)
  | set (xs : List V)               -- iteration order
  | fset (xs : List V)              -- iteration order
  | obj (cls : String) (xs : List V) -- dataclass instance: class by reference, `__dict__` values in field order
  | sub (cls : String) (base : V)    -- instance of a SUBCLASS `cls` of a builtin type; `base` = `builtin(value)` as laid out
  deriving Repr, Inhabited

/-! ### Python's `<` / `==` on the values that can be set elements, as far as `sorted(set)` needs them -/

inductive Cmp where
  | lt | eq | gt
  | typeErr        -- `<` raises TypeError
  | unknown        -- not modelled (frozenset subset order, dataclass equality, unhashable operands)
  deriving DecidableEq, Repr

def numVal : V → Option Int
  | .int z => some z
  | .bool b => some (if b then 1 else 0)
  | _ => Option.none

def cmpInt (a b : Int) : Cmp := if a < b then .lt else if a = b then .eq else .gt
def cmpNats (a b : List Nat) : Cmp := if a < b then .lt else if a = b then .eq else .gt

mutual
  /-- three-way comparison as the tuple comparison uses it: `==` first, `<` on the first difference -/
  def pyCmp : V → V → Cmp
    | .none, .none => .eq
    | .int a, y => match numVal y with
      | some b => cmpInt a b
      | Option.none => .typeErr
    | .bool a, y => match numVal y with
      | some b => cmpInt (if a then 1 else 0) b
      | Option.none => .typeErr
    | .str a, .str b => cmpNats a b
    | .bytes a, .bytes b => cmpNats a b
    | .tuple xs, .tuple ys => pyCmpL xs ys
    | .float _, _ => .unknown
    | _, .float _ => .unknown
    | .sub _ _, _ => .unknown
    | _, .sub _ _ => .unknown
    | .fset _, .fset _ => .unknown
    | .obj _ _, .obj _ _ => .unknown
    | .list _, _ => .unknown
    | .dict _ _, _ => .unknown
    | .set _, _ => .unknown
    | _, .list _ => .unknown
    | _, .dict _ _ => .unknown
    | _, .set _ => .unknown
    | _, _ => .typeErr
  /-- lexicographic, Python tuple rich comparison -/
  def pyCmpL : List V → List V → Cmp
    | [], [] => .eq
    | [], _ :: _ => .lt
    | _ :: _, [] => .gt
    | x :: xs, y :: ys =>
      match pyCmp x y with
      | .eq => pyCmpL xs ys
      | c => c
end

/-- `a < b` evaluates to True -/
def ltV (a b : V) : Bool := pyCmp a b == .lt

inductive Kind where
  | num | float | str | bytes | none | tuple | fset | obj | unhashable
  deriving DecidableEq, Repr

def kind : V → Kind
  | .none => .none
  | .bool _ => .num
  | .int _ => .num
  | .float _ => .float
  | .str _ => .str
  | .bytes _ => .bytes
  | .tuple _ => .tuple
  | .fset _ => .fset
  | .obj _ _ => .obj
  | .list _ => .unhashable
  | .dict _ _ => .unhashable
  | .set _ => .unhashable
  | .sub _ _ => .unhashable       -- as a set element: comparisons of subclass instances are not modelled

/-! ### `sorted` -/

/-- insert before the first element that is greater -/
def insertBy (lt : V → V → Bool) (x : V) : List V → List V
  | [] => [x]
  | y :: ys => if lt x y then x :: y :: ys else y :: insertBy lt x ys

/-- Insertion sort.  On a strict total order every correct sort (Python's included) returns this list
(`Lemmas.ValueHash.isort_eq_of_perm`). -/
def isort (lt : V → V → Bool) : List V → List V
  | [] => []
  | x :: xs => insertBy lt x (isort lt xs)

inductive SortRes where
  | ok (l : List V)
  | typeError
  | unspecified      -- the result depends on the sorting algorithm / on comparisons that are not modelled
  deriving Repr

/-- every ordered pair of distinct positions compares as `lt` or `gt` -/
def allPairsOrdered : List V → Bool
  | [] => true
  | x :: xs => xs.all (fun y => pyCmp x y == .lt || pyCmp x y == .gt) && allPairsOrdered xs

/-- two elements of different kinds -/
def mixedKinds (xs : List V) : Bool := xs.any fun a => xs.any fun b => kind a != kind b
def allKind (k : Kind) (xs : List V) : Bool := xs.all fun a => kind a == k

/-- `sorted(s)` for the elements `xs` of a set (pairwise distinct under `==`).  Every test below looks at
the elements as a collection, never at their order.
* 0 or 1 element: no comparison is made.
* elements of two different kinds (number / str / bytes / None / tuple / frozenset / object): some comparison
  across kinds is unavoidable and raises `TypeError`.
* numbers, strs, bytes: totally ordered.  tuples: totally ordered when every pair compares without error.
* dataclass instances (no `order=True`): every comparison raises.
* frozensets (subset order is partial), tuples with incomparable components, floats (numeric comparison of
  binary64 values, also against ints): not modelled. -/
def pySorted (xs : List V) : SortRes :=
  if xs.length ≤ 1 then .ok xs
  else if xs.any (fun y => kind y == .unhashable || kind y == .float) then .unspecified
  else if mixedKinds xs || allKind .obj xs || allKind .none xs then .typeError
  else if allKind .num xs || allKind .str xs || allKind .bytes xs then .ok (isort ltV xs)
  else if allKind .tuple xs && allPairsOrdered xs then .ok (isort ltV xs)
  else .unspecified

/-! ### `get_hash` -/

/-- What is fed to SHA-512: the tag and the laid-out structure that is pickled. -/
inductive Pre where
  | value (v : V)               -- hash_tag_bytes("Value", pickle_dumps(v))
  | valueSet (sorted : List V)  -- hash_tag_bytes("Value.set", pickle_dumps(items))
  deriving Repr

inductive HashRes where
  | ok (p : Pre)
  | typeError
  | unspecified
  deriving Repr

/-- order of two elements by their own value hashes (`sorted(..., key=get_hash)`: hex digests compared as
strings; a digest is modelled as the number `H pre-image`).  An element of a set is hashable, hence never an
exact `set`: its hash is the hash of its pickle. -/
def ltByHash (H : Pre → Nat) (a b : V) : Bool := decide (H (.value a) < H (.value b))

/-- `TypeRegistry.get_hash(value)`.  `H` is the digest function (SHA-512/160 of tag + pickle), a parameter.
The `Set` proxy is selected only for an exact top-level `set`: it pickles `sorted(value)`, and when that raises
`TypeError`, the elements sorted by their own value hash.  Everything else (frozenset included) is pickled as
it is laid out. -/
def getHash (H : Pre → Nat) : V → HashRes
  | .set xs =>
    match pySorted xs with
    | .ok l => .ok (.valueSet l)
    | .typeError => .ok (.valueSet (isort (ltByHash H) xs))
    | .unspecified => .unspecified
  | .sub _ (.set xs) =>       -- MRO walk: a subclass of `set` is hashed by the `Set` proxy
    match pySorted xs with
    | .ok l => .ok (.valueSet l)
    | .typeError => .ok (.valueSet (isort (ltByHash H) xs))
    | .unspecified => .unspecified
  | v => .ok (.value v)

/-- the values that reach the `Set` proxy: an exact `set`, or an instance of a subclass of `set` (MRO walk) -/
def isSetLike : V → Bool
  | .set _ => true
  | .sub _ (.set _) => true
  | _ => false

/-! ### the `data` path: what the backend records

`RedunBackendDb.record_value(value)` serialises the value (`value_interface.serialize()` = the pickle of the
value as laid out) and stores `value_interface.get_hash(data=data)`; this is the hash recorded for every task
argument (`Argument.value_hash`) and result (`CallNode.value_hash`, `Value.value_hash`). -/

/-- `ProxyValue.serialize`: the pickle of the instance, i.e. the value as laid out. -/
def serialize (v : V) : V := v

/-- `value_interface.get_hash(data=…)`: `ProxyValue.get_hash` hashes the caller's bytes under the tag "Value";
`Set.get_hash` IGNORES `data` (the serialisation of a set is not canonical) and sorts as always. -/
def getHashData (H : Pre → Nat) (v : V) (data : Option V) : HashRes :=
  match v, data with
  | .set xs, _ => getHash H (.set xs)
  | .sub c (.set xs), _ => getHash H (.sub c (.set xs))
  | _, some d => .ok (.value d)
  | w, Option.none => getHash H w

/-- the value hash `record_value` stores -/
def recordValue (H : Pre → Nat) (v : V) : HashRes := getHashData H v (some (serialize v))

/-! ### "the same value" in two processes / after two insertion orders -/

mutual
  /-- no `set`/`frozenset` node anywhere -/
  def SetFree : V → Prop
    | .none | .bool _ | .int _ | .float _ | .str _ | .bytes _ => True
    | .list xs => SetFrees xs
    | .tuple xs => SetFrees xs
    | .dict ks vs => SetFrees ks ∧ SetFrees vs
    | .set _ => False
    | .fset _ => False
    | .obj _ xs => SetFrees xs
    | .sub _ b => SetFree b
  def SetFrees : List V → Prop
    | [] => True
    | x :: xs => SetFree x ∧ SetFrees xs
end

mutual
  /-- every `set`/`frozenset` node has at most one element (then there is nothing to lay out differently) -/
  def Rigid : V → Prop
    | .none | .bool _ | .int _ | .float _ | .str _ | .bytes _ => True
    | .list xs => Rigids xs
    | .tuple xs => Rigids xs
    | .dict ks vs => Rigids ks ∧ Rigids vs
    | .set xs => xs.length ≤ 1 ∧ Rigids xs
    | .fset xs => xs.length ≤ 1 ∧ Rigids xs
    | .obj _ xs => Rigids xs
    | .sub _ b => Rigid b
  def Rigids : List V → Prop
    | [] => True
    | x :: xs => Rigid x ∧ Rigids xs
end

mutual
  /-- Equal up to the order of the children of every set / frozenset node. -/
  inductive Sim : V → V → Prop where
    | none : Sim .none .none
    | bool (b) : Sim (.bool b) (.bool b)
    | int (z) : Sim (.int z) (.int z)
    | float (b) : Sim (.float b) (.float b)
    | str (s) : Sim (.str s) (.str s)
    | bytes (s) : Sim (.bytes s) (.bytes s)
    | list {xs ys} : Sims xs ys → Sim (.list xs) (.list ys)
    | tuple {xs ys} : Sims xs ys → Sim (.tuple xs) (.tuple ys)
    | dict {ks ks' vs vs'} : Sims ks ks' → Sims vs vs' → Sim (.dict ks vs) (.dict ks' vs')
    | set {xs zs ys} : xs.Perm zs → Sims zs ys → Sim (.set xs) (.set ys)
    | fset {xs zs ys} : xs.Perm zs → Sims zs ys → Sim (.fset xs) (.fset ys)
    | obj (c) {xs ys} : Sims xs ys → Sim (.obj c xs) (.obj c ys)
    | sub (c) {a b} : Sim a b → Sim (.sub c a) (.sub c b)
  inductive Sims : List V → List V → Prop where
    | nil : Sims [] []
    | cons {x y xs ys} : Sim x y → Sims xs ys → Sims (x :: xs) (y :: ys)
end

end RedunModel.ValueHash
