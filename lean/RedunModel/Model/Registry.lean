/-
Model of `redun.task.TaskRegistry` (`add`, `rename`, `_decrement_hash_count`, `task_hashes`, `get`)
and of `wraps_task`'s `create_tasks` / `recursive_rename` (redun/task.py).

* `_tasks : dict[str, Task]` is an insertion ordered association list `key ↦ Task`; the key is kept
  separately from the task's own `fullname` (that they agree is a theorem, not a definition).
* `_task_hash_counts : defaultdict[str, int]` is an insertion ordered association list.
* A task is the record of the fields the registry code reads or writes: `namespace`, `name`, `hash`
  (assigned once by `Task.__init__`; `rename` does NOT recompute it - mirrored), the `wrapped_task`
  option, and an object identity `oid` (Python mutates the registered object in place; the identity is
  used only to find "the same object" again inside `recursive_rename`).
* Hashes are opaque (`H`): every theorem is for arbitrary hash assignments.
Core Lean only.
-/
namespace RedunModel.Registry

abbrev H := String

structure Task where
  oid : Nat
  ns : String
  name : String
  hash : H
  wrapped : Option String
  deriving Repr, DecidableEq, Inhabited

/-- `Task._format_fullname`: `namespace + "." + name` if the namespace is non-empty, else `name`. -/
def fullname (ns name : String) : String := if ns = "" then name else ns ++ "." ++ name

def Task.fullname (t : Task) : String := Registry.fullname t.ns t.name

structure Reg where
  tasks : List (String × Task)
  counts : List (H × Nat)
  deriving Repr, DecidableEq, Inhabited

def Reg.empty : Reg := ⟨[], []⟩

/-! ### dict primitives -/

def lookup {β : Type} (k : String) : List (String × β) → Option β
  | [] => none
  | (k', v) :: rest => if k' = k then some v else lookup k rest

def erase {β : Type} (k : String) : List (String × β) → List (String × β)
  | [] => []
  | (k', v) :: rest => if k' = k then erase k rest else (k', v) :: erase k rest

/-- `d[k] = v` on an insertion ordered dict: overwrite in place if present, else append. -/
def setKey {β : Type} (k : String) (v : β) : List (String × β) → List (String × β)
  | [] => [(k, v)]
  | (k', v') :: rest => if k' = k then (k, v) :: rest else (k', v') :: setKey k v rest

/-! ### TaskRegistry -/

/-- `_decrement_hash_count`: absent → nothing; count 1 → pop the entry; else count - 1.
(The code asserts `count > 0`; a zero entry is left alone here and excluded by the invariant.) -/
def decr (h : H) (c : List (H × Nat)) : List (H × Nat) :=
  match lookup h c with
  | none => c
  | some n => if n = 1 then erase h c else setKey h (n - 1) c

/-- `self._task_hash_counts[task.hash] += 1` on a `defaultdict(int)`. -/
def incr (h : H) (c : List (H × Nat)) : List (H × Nat) :=
  match lookup h c with
  | none => setKey h 1 c
  | some n => setKey h (n + 1) c

/-- `TaskRegistry.add`: pop the task registered under the same full name (decrementing its hash),
store the new task under its full name (`pop` followed by assignment puts the key last), count it. -/
def add (t : Task) (r : Reg) : Reg :=
  let key := t.fullname
  let counts := match lookup key r.tasks with
    | some old => decr old.hash r.counts
    | none => r.counts
  ⟨erase key r.tasks ++ [(key, t)], incr t.hash counts⟩

inductive Err where
  | assertion      -- `assert old_name in self._tasks`
  | attribute      -- `None.get_task_option` (wrapped task name not registered)
  | recursion      -- fuel exhausted (Python: RecursionError); never reached on a finite acyclic chain
  deriving Repr, DecidableEq

/-- `TaskRegistry.rename`; returns the renamed task. -/
def rename (old : String) (newNs newName : String) (r : Reg) : Except Err (Task × Reg) :=
  match lookup old r.tasks with
  | none => .error .assertion
  | some t =>
    let r1 : Reg := ⟨erase old r.tasks, decr t.hash r.counts⟩
    let t' := { t with ns := newNs, name := newName }
    .ok (t', add t' r1)

/-- `TaskRegistry.get(task_name=...)`. -/
def get (name : String) (r : Reg) : Option Task := lookup name r.tasks

/-- `TaskRegistry.get(hash=...)`: the first registered task (in `_tasks` order) with that hash. Read-only. -/
def getByHash (h : H) (r : Reg) : Option Task := (r.tasks.find? fun p => p.2.hash == h).map (·.2)

/-- `TaskRegistry.task_hashes` (as a list, in `_task_hash_counts` order). -/
def taskHashes (r : Reg) : List H := (r.counts.filter fun p => p.2 > 0).map (·.1)

/-! ### wraps_task -/

/-- In-place mutation `task_._task_options_base["wrapped_task"] = p` of the object `oid`
(visible through the registry iff that object is registered). -/
def setWrapped (oid : Nat) (p : String) (r : Reg) : Reg :=
  ⟨r.tasks.map fun (k, t) => if t.oid = oid then (k, { t with wrapped := some p }) else (k, t), r.counts⟩

/-- `recursive_rename(task_, suffix)`: innermost first. Returns the new full name.
On an error the registry reached so far is returned with it (the real code leaves it mutated). -/
def recursiveRename (fuel : Nat) (t : Task) (suffix : String) (r : Reg) : Reg × Except Err String :=
  match fuel with
  | 0 => (r, .error .recursion)
  | fuel + 1 =>
    let inner : Reg × Except Err (Option String) :=
      match t.wrapped with
      | none => (r, .ok none)
      | some w =>
        match get w r with
        | none => (r, .error .attribute)
        | some it =>
          match recursiveRename fuel it suffix r with
          | (r', .ok p) => (setWrapped t.oid p r', .ok (some p))
          | (r', .error e) => (r', .error e)
    match inner with
    | (r1, .error e) => (r1, .error e)
    | (r1, .ok _) =>
      let newNs := if t.ns ≠ "" then t.ns ++ "." ++ suffix else suffix
      match rename t.fullname newNs t.name r1 with
      | .error e => (r1, .error e)
      | .ok (t', r2) => (r2, .ok t'.fullname)

/-- `create_tasks(inner_task)` for an inner task object `t` (already registered by `@task`):
hide it (recursively), then register the wrapper under the visible name. `whash` is the wrapper's hash
as a function of the hidden task's hash (`hash_includes=[hidden_inner_task]`), `woid` its identity. -/
def wrap (t : Task) (wname : String) (woid : Nat) (whash : H → H) (r : Reg) : Reg × Option Err :=
  let visName := t.name
  let visNs := t.ns
  match recursiveRename (r.tasks.length + 1) t wname r with
  | (r1, .error e) => (r1, some e)
  | (r1, .ok hiddenFullname) =>
    -- `hidden_inner_task.fullname` after the in-place rename = the name `recursive_rename` returned
    -- (the task passed in is the object registered under its own name, see `step`); its hash is
    -- unchanged by the rename.
    let w : Task := ⟨woid, visNs, visName, whash t.hash, some hiddenFullname⟩
    (add w r1, none)

/-! ### operations of the property (a history is a list of these) -/

inductive Op where
  | define (t : Task)                 -- `@task(name=, namespace=)`: `registry.add(Task(...))` (also a redefinition)
  | rename (old newNs newName : String)
  | wrap (target : String) (wname : String) (woid : Nat) (wh : H → H)   -- wrapper applied to the task registered as `target`
  | getName (name : String)           -- `registry.get(task_name=...)`   (read-only queries: the answer is `get` /
  | getHash (h : H)                   -- `registry.get(hash=...)`         `getByHash` of the current registry,
  | iterate                           -- `list(registry)`                 the registry itself is unchanged)

def step (r : Reg) : Op → Reg
  | .define t => add t r
  | .rename o ns n => match rename o ns n r with
    | .ok (_, r') => r'
    | .error _ => r
  | .wrap target wname woid wh =>
    match get target r with
    | none => r
    | some t => (wrap t wname woid wh r).1
  | .getName _ => r
  | .getHash _ => r
  | .iterate => r

def run (ops : List Op) : Reg := ops.foldl step Reg.empty

end RedunModel.Registry
