/-
Symbolic hash pre-images (DESIGN §2, §3.1) shared by C15 (cache keys), C17 (task hashes) and
C18 (expression hashes).  Core Lean only.

`hash_struct s` is modelled as `Pre.hash s` (a perfect hash: the digest *is* the structure that was
hashed).  Leaves that the real code obtains from `TypeRegistry.get_hash(value)` or from
`hash_bytes(pickle_dumps(options))` are abstract injective labels (`val`, `opts`).
The structure inside `hash` is what `redun/hashing.py: hash_struct` is given: strings, lists and
string-keyed dicts, the latter in canonical (key-sorted) order as `bencode` emits them (C14).
-/
namespace RedunModel.Pre

inductive Pre where
  /-- a text element: record tag, task name, source text, version, option name -/
  | str (s : String)
  /-- `TypeRegistry.get_hash(v)` of the plain value with label `n` (abstract, injective in `n`) -/
  | val (n : Nat)
  /-- `hash_bytes(pickle_dumps(d))` of the ordered options dict `d` (abstract, injective in `d`) -/
  | opts (d : List (String × Nat))
  /-- digest of `hash_struct p` -/
  | hash (p : Pre)
  | list (l : List Pre)
  /-- a string-keyed dict, items in bencode's canonical key order -/
  | dict (d : List (String × Pre))

/-- Insert an item into a key-sorted item list (bencode's `sorted(items)`; keys of a Python dict
are unique, so ties never arise on real inputs). -/
def insertKw {α : Type} (a : String × α) : List (String × α) → List (String × α)
  | [] => [a]
  | b :: t => if a.1 ≤ b.1 then a :: b :: t else b :: insertKw a t

/-- `sorted(d.items())` for a string-keyed dict given as its insertion-ordered item list. -/
def sortKw {α : Type} (l : List (String × α)) : List (String × α) := l.foldr insertKw []

/-- Python `d[k] = v` on an insertion-ordered dict. -/
def dictSet {α : Type} : List (String × α) → String → α → List (String × α)
  | [], k, v => [(k, v)]
  | (k', v') :: t, k, v => if k' = k then (k', v) :: t else (k', v') :: dictSet t k v

/-- Python `{**a, **b}`. -/
def dictMerge {α : Type} (a b : List (String × α)) : List (String × α) :=
  b.foldl (fun d kv => dictSet d kv.1 kv.2) a

def keys {α : Type} (d : List (String × α)) : List String := d.map (·.1)

/-- `hash_arguments(registry, args, kwargs)` of `redun/hashing.py` on already hashed arguments:
`hash_struct(["TaskArguments", [h...], {k: h...}])`. -/
def taskArguments (args : List Pre) (kwargs : List (String × Pre)) : Pre :=
  .hash (.list [.str "TaskArguments", .list args, .dict (sortKw kwargs)])

/-- `hash_eval`: `hash_struct(["Eval", task_hash, args_hash])`. -/
def evalHash (taskHash argsHash : Pre) : Pre :=
  .hash (.list [.str "Eval", taskHash, argsHash])

/-- Leading tag of a record pre-image. -/
def leadTag : Pre → Option String
  | .hash (.list (.str t :: _)) => some t
  | _ => none

end RedunModel.Pre
