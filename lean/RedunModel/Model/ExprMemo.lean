/-
ExprMemo — `Scheduler._pending_expr`: per parent job, the table "expression hash -> evaluation"
consulted and filled by `Scheduler._evaluate_apply` (redun/scheduler.py).

`_evaluate_apply(expr, parent_job)`:
    promise_expr = self._pending_expr[parent_job].get(expr.get_hash())
    if promise_expr: return the pending promise (no new Job, no new scheduler-task call)
    ... start the evaluation (a new Job for a TaskExpression) ...
    self._pending_expr[parent_job][expr.get_hash()] = (promise, expr)
`_finalize_job(job)` pops the table of `job`; a job body's result is evaluated under `job` only
between `done_job(job)` and its finalization.

An evaluation is identified by its number in creation order (for a TaskExpression: the Job object).
Core Lean only.
-/
namespace RedunModel.ExprMemo

/-- the tables of all parents: (parent, expression hash) -> evaluation id -/
structure Tables where
  entries : List ((Nat × Nat) × Nat) := []
  next : Nat := 0                          -- evaluations started so far
  deriving Repr, Inhabited

def lookup (t : Tables) (k : Nat × Nat) : Option Nat :=
  (t.entries.find? (fun e => e.1 == k)).map (·.2)

inductive Op where
  | eval (parent hash : Nat)               -- `_evaluate_apply(expr, parent_job)`
  | finalize (parent : Nat)                -- `_pending_expr.pop(job)`
  deriving Repr, DecidableEq

/-- what one operation reports: the evaluation handed back and whether it was started now -/
structure Out where
  id : Nat
  started : Bool
  deriving Repr, DecidableEq

def step (t : Tables) : Op → Tables × Option Out
  | .eval par h =>
    match lookup t (par, h) with
    | some i => (t, some { id := i, started := false })
    | none => ({ entries := t.entries ++ [((par, h), t.next)], next := t.next + 1 },
               some { id := t.next, started := true })
  | .finalize par => ({ t with entries := t.entries.filter (fun e => e.1.1 != par) }, none)

/-- one `eval` of the log: parent, expression hash, what was handed back -/
structure Item where
  parent : Nat
  hash : Nat
  out : Out
  deriving Repr, DecidableEq

/-- run a history; the log has one item per `eval`, in order -/
def run (t : Tables) : List Op → List Item
  | [] => []
  | .eval par h :: ops =>
    match step t (.eval par h) with
    | (t', some o) => { parent := par, hash := h, out := o } :: run t' ops
    | (t', none) => run t' ops
  | .finalize par :: ops => run (step t (.finalize par)).1 ops

end RedunModel.ExprMemo
