/-
C30 — the object-level state machine: python file value objects with their cached `_hash`, operated on through
redun's methods (and, for the `ext*` ops, mutated behind redun's back).  Mirrors redun/file.py (see
`Model/FileSys.lean` for the class-by-class reading).
-/
import RedunModel.Model.FileSys
namespace RedunModel.FileOps
open RedunModel.FileSys

structure St where
  fs : FS
  objs : List Obj

def St.init : St := ⟨FS.empty, []⟩

inductive Op
  | new (v : Val)
  | hash (i : Nat)
  | updateHash (i : Nat)
  | isValid (i : Nat)
  /-- `File.write(data, mode="wb")` -/
  | write (i : Nat) (data : Bytes) (t : Int)
  /-- `File.write(data, mode="ab")` -/
  | append (i : Nat) (data : Bytes) (t : Int)
  /-- `with objs[i].open(mode) as f: f.write(data)` (a read-only stream just reads) -/
  | openMode (i : Nat) (mode : List Char) (data : Bytes) (t : Int)
  | remove (i : Nat)
  | touch (i : Nat) (t : Int)
  /-- `objs[i].copy_to(objs[j], skip_if_exists=skip)` on two file values -/
  | copyTo (i j : Nat) (skip : Bool) (t : Int)
  /-- `StagingFile(local=objs[i], remote=objs[j]).stage()` -/
  | stage (i j : Nat) (t : Int)
  | unstage (i j : Nat) (t : Int)
  | mkdir (i : Nat)
  /-- `Dir.rmdir(recursive=True)` -/
  | rmdir (i : Nat)
  /-- `objs[i].copy_to(objs[j], skip_if_exists=skip)` on two Dir values -/
  | dirCopyTo (i j : Nat) (skip : Bool) (t : Int)
  | stageDir (i j : Nat) (t : Int)
  | unstageDir (i j : Nat) (t : Int)
  /-- mutations that do not go through redun -/
  | extWrite (p : Path) (data : Bytes) (t : Int)
  | extRemove (p : Path)
  deriving Repr

inductive Out
  | ok
  | skipped
  | bool (b : Bool)
  | h (h : H)
  | err (e : Err)
  /-- op applied to an object of the wrong kind / outside the modelled domain -/
  | bad
  deriving DecidableEq, Repr

def St.setObj (s : St) (i : Nat) (o : Obj) : St := { s with objs := s.objs.set i o }

/-- `src.copy_to(dst)` for file objects at indices `i` (source) and `j` (destination) -/
def copyFile (U : List Path) (s : St) (i j : Nat) (skip : Bool) (t : Int) : St × Out :=
  match s.objs[i]?, s.objs[j]? with
  | some ⟨.file _ ps, _⟩, some ⟨.file fj pd, cj⟩ =>
    match s.fs.copyTo ps pd skip t with
    | .error e => (s, .err e)
    | .ok none => (s, .skipped)
    | .ok (some fs') => ({ fs := fs', objs := s.objs.set j (Obj.updateHash U fs' ⟨.file fj pd, cj⟩) }, .ok)
  | _, _ => (s, .bad)

def overlapping (p q : Path) : Bool := p ≠ q && (p.isPrefixOf q || q.isPrefixOf p)

/-- `src.copy_to(dst)` for Dir objects (repaired code: ends with `dest_dir.update_hash()`) -/
def copyDir (U : List Path) (s : St) (i j : Nat) (skip : Bool) (t : Int) : St × Out :=
  match s.objs[i]?, s.objs[j]? with
  | some ⟨.dir _ ps, _⟩, some ⟨.dir fj pd, cj⟩ =>
    if overlapping ps pd then (s, .bad)
    else match s.fs.copyMembers ps pd skip t (members U s.fs (under ps)) with
      | .error e => (s, .err e)
      | .ok fs' => ({ fs := fs', objs := s.objs.set j (Obj.updateHash U fs' ⟨.dir fj pd, cj⟩) }, .ok)
  | _, _ => (s, .bad)

def valPath? : Val → Option Path
  | .file _ p => some p
  | .dir _ p => some p
  | _ => none

def step (U : List Path) (s : St) : Op → St × Out
  | .new v => ({ s with objs := s.objs ++ [⟨v, none⟩] }, .ok)
  | .hash i =>
    match s.objs[i]? with
    | none => (s, .bad)
    | some o => let r := o.hash U s.fs; (s.setObj i r.2, .h r.1)
  | .updateHash i =>
    match s.objs[i]? with
    | none => (s, .bad)
    | some o => (s.setObj i (o.updateHash U s.fs), .ok)
  | .isValid i =>
    match s.objs[i]? with
    | none => (s, .bad)
    | some o => let r := o.isValid U s.fs; (s.setObj i r.2, .bool r.1)
  | .write i data t =>
    match s.objs[i]? with
    | some ⟨.file fam p, c⟩ =>
      let fs' := s.fs.write p data t
      ({ fs := fs', objs := s.objs.set i (Obj.updateHash U fs' ⟨.file fam p, c⟩) }, .ok)
    | _ => (s, .bad)
  | .append i data t =>
    match s.objs[i]? with
    | some ⟨.file fam p, c⟩ =>
      let fs' := s.fs.append p data t
      ({ fs := fs', objs := s.objs.set i (Obj.updateHash U fs' ⟨.file fam p, c⟩) }, .ok)
    | _ => (s, .bad)
  | .openMode i mode data t =>
    match s.objs[i]?, parseMode mode with
    | some ⟨.file fam p, c⟩, some (base, plus) =>
      -- what the operating system does with the file
      let r : Except Err FS :=
        match base, s.fs p with
        | .r, none => .error .redunNotFound
        | .r, some n => .ok (if plus then s.fs.set p (some ⟨overwriteAt0 n.bytes data, t⟩) else s.fs)
        | .w, _ => .ok (s.fs.write p data t)
        | .a, _ => .ok (s.fs.append p data t)
        | .x, some _ => .error .redunOS
        | .x, none => .ok (s.fs.write p data t)
      match r with
      | .error e => (s, .err e)
      | .ok fs' =>
        -- what redun does on close: the hook exists iff the mode string contains one of w a x +
        ({ fs := fs', objs := if hookInstalled mode then s.objs.set i (Obj.updateHash U fs' ⟨.file fam p, c⟩) else s.objs }, .ok)
    | _, _ => (s, .bad)
  | .remove i =>
    match s.objs[i]? with
    | some ⟨.file _ p, _⟩ => ({ s with fs := s.fs.remove p }, .ok)
    | _ => (s, .bad)
  | .touch i t =>
    match s.objs[i]? with
    | some ⟨.file _ p, _⟩ => ({ s with fs := s.fs.touch p t }, .ok)
    | _ => (s, .bad)
  | .copyTo i j skip t => copyFile U s i j skip t
  | .stage i j t =>
    match s.objs[i]?, s.objs[j]? with
    | some ⟨.file _ pl, _⟩, some ⟨.file _ pr, _⟩ =>
      if pl = pr then (s, .skipped) else copyFile U s j i false t
    | _, _ => (s, .bad)
  | .unstage i j t =>
    match s.objs[i]?, s.objs[j]? with
    | some ⟨.file _ pl, _⟩, some ⟨.file _ pr, _⟩ =>
      if pl = pr then (s, .skipped) else copyFile U s i j false t
    | _, _ => (s, .bad)
  | .mkdir i =>
    match s.objs[i]? with
    | some ⟨.dir fam p, c⟩ => (s.setObj i (Obj.updateHash U s.fs ⟨.dir fam p, c⟩), .ok)
    | _ => (s, .bad)
  | .rmdir i =>
    match s.objs[i]? with
    | some ⟨.dir fam p, c⟩ =>
      let fs' := s.fs.rmtree p
      ({ fs := fs', objs := s.objs.set i (Obj.updateHash U fs' ⟨.dir fam p, c⟩) }, .ok)
    | _ => (s, .bad)
  | .dirCopyTo i j skip t => copyDir U s i j skip t
  | .stageDir i j t =>
    match s.objs[i]?, s.objs[j]? with
    | some ⟨.dir _ pl, _⟩, some ⟨.dir _ pr, _⟩ =>
      if pl = pr then (s, .skipped) else copyDir U s j i false t
    | _, _ => (s, .bad)
  | .unstageDir i j t =>
    match s.objs[i]?, s.objs[j]? with
    | some ⟨.dir _ pl, _⟩, some ⟨.dir _ pr, _⟩ =>
      if pl = pr then (s, .skipped) else copyDir U s i j false t
    | _, _ => (s, .bad)
  | .extWrite p data t => ({ s with fs := s.fs.write p data t }, .ok)
  | .extRemove p => ({ s with fs := s.fs.remove p }, .ok)

def run (U : List Path) (s : St) : List Op → St
  | [] => s
  | op :: ops => run U (step U s op).1 ops

/-- the object a redun-mediated write / copy / stage operates on (whose hash the property speaks about) -/
def target : Op → Option Nat
  | .write i _ _ => some i
  | .append i _ _ => some i
  | .openMode i mode _ _ => if hookInstalled mode then some i else none
  | .copyTo _ j _ _ => some j
  | .stage i _ _ => some i
  | .unstage _ j _ => some j
  | .mkdir i => some i
  | .rmdir i => some i
  | .dirCopyTo _ j _ _ => some j
  | .stageDir i _ _ => some i
  | .unstageDir _ j _ => some j
  | _ => none

/-- the cached hash of object `i` equals the hash recomputed from the filesystem -/
def Fresh (U : List Path) (s : St) (i : Nat) : Prop :=
  ∃ o, s.objs[i]? = some o ∧ o.cached = some (calcHash U s.fs o.val)

end RedunModel.FileOps
