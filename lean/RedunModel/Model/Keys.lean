/-
Model of the cache key of a task call (C15):
  redun/scheduler.py  get_arg_defaults            (defaults not supplied by the call)
  redun/scheduler.py  _evaluate / args_then        `{**default_kwargs, **kwargs}`
  redun/task.py       hash_args_eval               (config args / JobInfo filtering, variadics)
  redun/hashing.py    hash_arguments, hash_eval    (pre-images, see Model/Pre.lean)
Core Lean only.  The functions without suffix mirror the code with the proposed repair
(findings_proposed/C15-variadic-binding.fix.diff); the `…Old` functions mirror the code before it
and exist only to state the refutation witnesses and to let the harness recognise the old tree.
-/
import RedunModel.Model.Pre
namespace RedunModel.Keys
open RedunModel.Pre

/-- `inspect.Parameter.kind` -/
inductive Kind where
  | posOnly | posOrKw | varPos | kwOnly | varKw
  deriving DecidableEq, Repr

/-- An argument value as the key sees it: its value hash (label) and whether it is a
`redun.scheduler.JobInfo` instance. -/
structure Arg where
  h : Nat
  ji : Bool
  deriving DecidableEq, Repr

structure Param where
  name : String
  kind : Kind
  default : Option Arg      -- `param.default is not param.empty`
  deriving DecidableEq, Repr

abbrev Sig := List Param
abbrev Kwargs := List (String × Arg)

/-- `param.kind in (POSITIONAL_ONLY, POSITIONAL_OR_KEYWORD)` -/
def Kind.positional : Kind → Bool
  | .posOnly => true
  | .posOrKw => true
  | _ => false

def hasKey (kw : Kwargs) (k : String) : Bool := kw.any (fun e => e.1 == k)

/-- One iteration of the loop in `get_arg_defaults` (repaired): parameter `p` at index `i`. -/
def defaultOf (nargs : Nat) (kw : Kwargs) (p : Param) (i : Nat) : Option (String × Arg) :=
  if i < nargs ∧ p.kind.positional = true then none      -- supplied positionally
  else if hasKey kw p.name = true then none              -- supplied by keyword
  else match p.default with
    | some d => some (p.name, d)
    | none => none

/-- `get_arg_defaults(task, args, kwargs)` -/
def getArgDefaults (sig : Sig) (nargs : Nat) (kw : Kwargs) : Kwargs :=
  sig.zipIdx.filterMap (fun pi => defaultOf nargs kw pi.1 pi.2)

/-- The same loop before the repair: `if i < len(args): continue` for every parameter kind. -/
def defaultOfOld (nargs : Nat) (kw : Kwargs) (p : Param) (i : Nat) : Option (String × Arg) :=
  if i < nargs then none
  else if hasKey kw p.name = true then none
  else match p.default with
    | some d => some (p.name, d)
    | none => none

def getArgDefaultsOld (sig : Sig) (nargs : Nat) (kw : Kwargs) : Kwargs :=
  sig.zipIdx.filterMap (fun pi => defaultOfOld nargs kw pi.1 pi.2)

/-- name of the `*args` parameter, `None` if there is none -/
def varPosName (sig : Sig) : Option String := (sig.find? (fun p => p.kind == .varPos)).map (·.name)

/-- names of the parameters positional arguments bind to, in order -/
def posNames (sig : Sig) : List String := (sig.filter (fun p => p.kind.positional)).map (·.name)

/-- `keep_arg(param_name, value)`; `param_name` may be `None` (never a member of `config_args`). -/
def keepArg (cfg : List String) (name : Option String) (a : Arg) : Bool :=
  (match name with
   | some n => !(cfg.contains n)
   | none => true) && !a.ji

/-- `args2` of `hash_args_eval` (repaired). -/
def filterArgs (cfg : List String) (sig : Sig) (args : List Arg) : List Arg :=
  (((posNames sig).zip args).filter (fun na => keepArg cfg (some na.1) na.2)).map (·.2)
    ++ (args.drop (posNames sig).length).filter (fun a => keepArg cfg (varPosName sig) a)

/-- `args2` before the repair: zip with *all* parameter names; the tail is kept or dropped as a
whole, without the JobInfo test. -/
def filterArgsOld (cfg : List String) (sig : Sig) (args : List Arg) : List Arg :=
  (((sig.map (·.name)).zip args).filter (fun na => keepArg cfg (some na.1) na.2)).map (·.2)
    ++ (args.drop sig.length).filter (fun _ => match varPosName sig with
          | some n => !(cfg.contains n)
          | none => true)

/-- `kwargs2` of `hash_args_eval`. -/
def filterKwargs (cfg : List String) (kw : Kwargs) : Kwargs :=
  kw.filter (fun ka => keepArg cfg (some ka.1) ka.2)

def argHash (a : Arg) : Pre := .val a.h

def hashKw (kw : Kwargs) : List (String × Pre) := kw.map (fun ka => (ka.1, argHash ka.2))

/-- `hash_args_eval(type_registry, task, args, kwargs)` → `(eval_hash, args_hash)` -/
def hashArgsEval (taskHash : Pre) (cfg : List String) (sig : Sig) (args : List Arg) (kw : Kwargs) :
    Pre × Pre :=
  let ah := taskArguments ((filterArgs cfg sig args).map argHash) (hashKw (filterKwargs cfg kw))
  (evalHash taskHash ah, ah)

def hashArgsEvalOld (taskHash : Pre) (cfg : List String) (sig : Sig) (args : List Arg) (kw : Kwargs) :
    Pre × Pre :=
  let ah := taskArguments ((filterArgsOld cfg sig args).map argHash) (hashKw (filterKwargs cfg kw))
  (evalHash taskHash ah, ah)

/-- The key of the call `task(*args, **kwargs)` as the scheduler computes it:
defaults merged under the explicit keywords, then `hash_args_eval`. -/
def callKey (taskHash : Pre) (cfg : List String) (sig : Sig) (args : List Arg) (kw : Kwargs) : Pre × Pre :=
  hashArgsEval taskHash cfg sig args (dictMerge (getArgDefaults sig args.length kw) kw)

def callKeyOld (taskHash : Pre) (cfg : List String) (sig : Sig) (args : List Arg) (kw : Kwargs) : Pre × Pre :=
  hashArgsEvalOld taskHash cfg sig args (dictMerge (getArgDefaultsOld sig args.length kw) kw)

/-- Python binding of positional argument `i`: the `i`-th positional parameter, else `*args`. -/
def slotOfPos (sig : Sig) (i : Nat) : Option String :=
  if h : i < (posNames sig).length then some ((posNames sig)[i]) else varPosName sig

/-- `slot ∈ config_args` -/
def isConfig (cfg : List String) : Option String → Bool
  | some n => cfg.contains n
  | none => false

/-- Leading tags of every record kind hashed with `hash_struct` in hashing.py, task.py,
expression.py and handle.py (the harness compares this table with the literals in the source). -/
def recordTags : List String :=
  ["Eval", "TaskArguments", "Tag", "CallNode", "Task", "PartialTask", "TaskExpression",
   "SchedulerExpression", "SimpleExpression", "ValueExpression", "Handle"]

end RedunModel.Keys
