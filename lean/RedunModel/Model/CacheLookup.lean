/-
CacheLookup — the decision logic of one cache lookup (used by C12 and C38):
  redun/backends/db/__init__.py  RedunBackendDb.check_cache   (which of CSE / ultimate / single answers)
  redun/scheduler.py             Scheduler._get_cache          (is the answer used)
The three database look-ups themselves are inputs (`Facts`): what the same-execution query, the call-node
(ultimate reduction) query and the Evaluation-table (single reduction) query return for the key at hand,
each `none` (nothing found) or `some isError` (a value was found; is it an `ErrorValue`).
-/
namespace RedunModel.CacheLookup

inductive CacheResult where
  | cse | single | ultimate | miss
  deriving DecidableEq, Repr, Inhabited

inductive Scope where
  | none | cse | backend
  deriving DecidableEq, Repr, Inhabited

inductive CheckValid where
  | full | shallow
  deriving DecidableEq, Repr, Inhabited

/-- `allowed_cache_results` (`None` in the code = all three) -/
structure Allowed where
  cse : Bool
  single : Bool
  ultimate : Bool
  deriving DecidableEq, Repr, Inhabited

def Allowed.all : Allowed := ⟨true, true, true⟩

structure Facts where
  /-- a Job of the *same execution* (and context) with this task hash whose CallNode has these argument hashes -/
  cse : Option Bool
  /-- newest CallNode for (task hash, args hash) whose recorded subtree task hashes are all current -/
  ultimate : Option Bool
  /-- Evaluation row for the eval hash -/
  single : Option Bool
  deriving DecidableEq, Repr, Inhabited

/-- `check_cache`: (cache type, `some isError` when a result is returned) -/
def checkCache (scope : Scope) (cv : CheckValid) (al : Allowed) (f : Facts) : CacheResult × Option Bool :=
  if scope = .none then (.miss, none) else
  match (if al.cse then f.cse else none) with
  | some e => (.cse, some e)
  | none =>
    let ult : Option Bool := if scope = .backend ∧ cv = .shallow ∧ al.ultimate then f.ultimate else none
    match ult with
    | some e => (.ultimate, some e)
    | none =>
      if scope = .backend ∧ al.single then
        match f.single with
        | some e => (.single, some e)
        | none => (.miss, none)
      else (.miss, none)

/-- `_get_cache` after `check_cache`: is the returned result used (`job.was_cached`) -/
def getCache (ct : CacheResult) (isErr valid : Bool) : Bool :=
  if ct = .cse then true
  else if isErr then false
  else if ct = .miss then false
  else valid

/-- the async-task adjustment at the top of `_get_cache` -/
def asyncAdjust (isAsync : Bool) (scope : Scope) (cv : CheckValid) (al : Allowed) : CheckValid × Allowed :=
  if isAsync ∧ scope = .backend then (.shallow, { al with single := false }) else (cv, al)

/-- `_evaluate_apply`: in a run started with `cache=False` (`redun run --no-cache`) every job gets the scheduler-level
override `cache_scope = CSE`, whatever the task definition or the call-time options say -/
def runScope (useCache : Bool) (scope : Scope) : Scope := if useCache then scope else .cse

/-- the cache options `subrun` gives `_subrun_root_task` -/
def subrunAllowed : Allowed := ⟨true, false, true⟩

end RedunModel.CacheLookup
