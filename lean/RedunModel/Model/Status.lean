/-
Model for C33: what `CallGraphQuery.filter_job_statuses` / `filter_execution_statuses` return
(the regenerated filter terms of `RedunModel.Generated.Status`, evaluated with SQL semantics over
`job ⟕ call_node ⟕ value`), what `Job.status` / `Execution.status` display (the regenerated decision
list of `Job.calc_status`), and the recorder (`record_value`, `record_call_node`, `record_job_start`,
`record_job_end`) as a transition system over an abstract database.  Core Lean only.
-/
import RedunModel.Generated.Status
namespace RedunModel.Status
open RedunModel.StatusSql RedunModel.Generated.Status

/-! ### row level: filter -/

/-- does the job row survive the two joins of `_join_values`? An inner join on `call_node` needs the
call node row, an inner join on `value` needs the value row (a NULL key never matches). -/
def joinsKeep (js : List Join) (r : Row) : Bool :=
  match js with
  | [j1, j2] =>
    (j1 == .outer || r.link == .danglingValue || r.link == .error || r.link == .other) &&
    (j2 == .outer || r.link == .error || r.link == .other)
  | _ => false

/-- `reduce(sa.or_, map(self._job_status_term, statuses))`; `none` for the empty list (`assert statuses`). -/
def clause : List St → Option Term
  | [] => none
  | s :: rest => some (rest.foldl (fun acc s' => .or acc (jobStatusTerm s')) (jobStatusTerm s))

/-- is the (joined) job row returned by the WHERE clause? SQL returns a row iff the term is TRUE. -/
def rowMatches (js : List Join) (t : Term) (r : Row) : Bool := joinsKeep js r && (t.eval r == .t)

/-- `filter_job_statuses(ss)` on one job row; `none` = AssertionError (empty status list) -/
def jobMatches (ss : List St) (r : Row) : Option Bool := (clause ss).map fun t => rowMatches jobValueJoins t r

/-! ### row level: display -/

/-- `Job.calc_status(result_type)` -/
def calcStatus (r : Row) : St :=
  match calcStatusRules.find? (fun p => p.1.eval r) with
  | some p => p.2
  | none => calcStatusDefault

inductive DispErr where
  | attributeError      -- `self.call_node.value.type` with the value row missing
  deriving DecidableEq, Repr

/-- `Job.status` on a freshly loaded row: `result_type = self.call_node.value.type if self.call_node else None` -/
def display (r : Row) : Except DispErr St :=
  if r.link == .danglingValue then .error .attributeError else .ok (calcStatus r)

def displayIn (ss : List St) (r : Row) : Bool :=
  match display r with
  | .ok s => ss.contains s
  | .error _ => false

/-! ### executions -/

/-- an execution row with its root job row (`none`: `execution.job_id` matches no job) -/
structure ExecRow where
  job : Option Row
  deriving DecidableEq, Repr

/-- `job_statuses = list(execution_statuses); if X in job_statuses: job_statuses.append(Y)` -/
def execStatuses (ss : List St) : List St :=
  execExtra.foldl (fun acc p => if acc.contains p.1 then acc ++ [p.2] else acc) ss

/-- `filter_execution_statuses(ss)`: `execution ⋈ job` (inner; the translator rejects anything else),
then the value joins, then the OR of the root job's status terms. -/
def execMatches (ss : List St) (e : ExecRow) : Option Bool :=
  (clause (execStatuses ss)).map fun t =>
    match e.job with
    | none => false
    | some r => rowMatches execValueJoins t r

/-- `Execution.status` -/
def execDisplay (e : ExecRow) : Except DispErr St :=
  match e.job with
  | none => .ok (execOfJob none)
  | some r => match display r with
    | .ok s => .ok (execOfJob (some s))
    | .error x => .error x

def execDisplayIn (ss : List St) (e : ExecRow) : Bool :=
  match execDisplay e with
  | .ok s => ss.contains s
  | .error _ => false

/-- statuses an execution can be filtered by (`--exec-status RUNNING,FAILED,DONE`) -/
def execStatusDomain : List St := [.running, .failed, .done]

/-! ### rows the recorder can produce -/

/-- `record_job_start` writes `(end_time NULL, cached false, call_hash NULL)`; `record_job_end` writes
`end_time`, `cached`, and the hash of a recorded call node (which has a value row). -/
def RecInv (r : Row) : Bool :=
  (r.endNull == (r.link == .noCall)) && (!r.endNull || !r.cached) &&
  (r.link == .noCall || r.link == .error || r.link == .other)

/-! ### database level -/

structure JobRec where
  id : Nat
  endNull : Bool
  cached : Bool
  callHash : Option Nat
  deriving DecidableEq, Repr

structure Db where
  jobs : List JobRec
  calls : List (Nat × Nat)      -- call_node: call_hash ↦ value_hash
  values : List (Nat × Bool)    -- value: value_hash ↦ (type = error type name)
  execs : List (Nat × Nat)      -- execution: id ↦ job_id
  deriving Repr

def Db.empty : Db := ⟨[], [], [], []⟩

def alookup {β : Type} (k : Nat) : List (Nat × β) → Option β
  | [] => none
  | (k', v) :: rest => if k' = k then some v else alookup k rest

def linkOf (db : Db) (j : JobRec) : Link :=
  match j.callHash with
  | none => .noCall
  | some ch =>
    match alookup ch db.calls with
    | none => .danglingCall
    | some vh =>
      match alookup vh db.values with
      | none => .danglingValue
      | some true => .error
      | some false => .other

def rowOf (db : Db) (j : JobRec) : Row := ⟨j.endNull, j.cached, linkOf db j⟩

def findJob (db : Db) (id : Nat) : Option JobRec := db.jobs.find? (fun j => j.id == id)

def execRowOf (db : Db) (e : Nat × Nat) : ExecRow := ⟨(findJob db e.2).map (rowOf db)⟩

/-- ids of the jobs returned by `CallGraphQuery(session).filter_job_statuses(ss).all()` -/
def queryJobs (ss : List St) (db : Db) : Option (List Nat) :=
  (clause ss).map fun t => (db.jobs.filter fun j => rowMatches jobValueJoins t (rowOf db j)).map (·.id)

/-- ids of the jobs whose displayed status is in `ss` -/
def displayedJobs (ss : List St) (db : Db) : List Nat :=
  (db.jobs.filter fun j => displayIn ss (rowOf db j)).map (·.id)

def queryExecs (ss : List St) (db : Db) : Option (List Nat) :=
  (clause (execStatuses ss)).map fun _ =>
    (db.execs.filter fun e => (execMatches ss (execRowOf db e)) == some true).map (·.1)

def displayedExecs (ss : List St) (db : Db) : List Nat :=
  (db.execs.filter fun e => execDisplayIn ss (execRowOf db e)).map (·.1)

/-! ### the recorder -/

inductive RecOp where
  | recordValue (vh : Nat) (isErr : Bool)
  | recordCallNode (ch vh : Nat)
  | jobStart (id : Nat) (exec : Option Nat) (known : Option Nat)
      -- `exec = some e`: root job, the Execution row `e` is added with it;
      -- `known`: `job.call_hash` at that moment (a cache hit that already recovered its CallNode)
  | jobEnd (id : Nat) (cached : Bool) (ch : Nat)
  deriving Repr

/-- the `call_hash` `record_job_start` puts into the new row: the regenerated `startWritesCallHash` says
whether `Job(...)` is constructed with `call_hash=job.call_hash` -/
def startCallHash (known : Option Nat) : Option Nat := if startWritesCallHash then known else none

def fkMissing (ch : Option Nat) (db : Db) : Bool :=
  match ch with
  | some c => (alookup c db.calls).isNone
  | none => false

def startJob (db : Db) (id : Nat) (ex : Option Nat) (known : Option Nat) : Db :=
  if db.jobs.any (fun j => j.id == id) || fkMissing (startCallHash known) db then db   -- primary / foreign key violation: rejected
  else { db with jobs := db.jobs ++ [⟨id, true, false, startCallHash known⟩],
                 execs := match ex with | some e => db.execs ++ [(e, id)] | none => db.execs }

def recStep (db : Db) : RecOp → Db
  | .recordValue vh e =>
    if (alookup vh db.values).isSome then db else { db with values := db.values ++ [(vh, e)] }
  | .recordCallNode ch vh =>
    if (alookup ch db.calls).isSome then db
    else if (alookup vh db.values).isNone then db     -- foreign key call_node.value_hash: rejected
    else { db with calls := db.calls ++ [(ch, vh)] }
  | .jobStart id ex known => startJob db id ex known
  | .jobEnd id c ch =>
    if (alookup ch db.calls).isNone then db           -- foreign key job.call_hash: rejected
    else
      let db' := startJob db id none (some ch)        -- "Create the job if needed"
      { db' with jobs := db'.jobs.map fun j =>
          if j.id == id then { j with endNull := false, cached := c, callHash := some ch } else j }

def runRec (ops : List RecOp) : Db := ops.foldl recStep Db.empty

end RedunModel.Status
