/-
Abstract local filesystem and redun's file value classes (redun/file.py), shared by C04 and C30.

What is mirrored (read from /repo/redun/file.py):
* `LocalFileSystem.get_hash`: `hash_struct(["File","local",path,size,str(mtime)])`, size = mtime = -1 for a
  missing path                                                            → `statH`
* `ContentFile._calc_hash`: `[ "ContentFile", path, hash_stream(bytes) ]`; a missing file hashes with the
  empty content hash `""` (repaired code; the unrepaired code raised)     → `contentH`
* `IFile/IFileSet/IDir._calc_hash`: `[cls, path-or-pattern]`               → `H.imm`
* `FileSet._calc_hash`: `[cls, pattern] ++ sorted(hash of classes.File(p) for p in glob(pattern) if isfile(p))`
* `Dir._calc_hash`: `[cls, path] ++ sorted(FileSystem.iter_file_hashes(path))` and `iter_file_hashes` iterates
  the *plain* `Dir(path)`, so the members of a `ContentDir` are hashed by size/mtime  → `H.coll`
* `StagingFile/StagingDir.get_hash`: `[type_name, local.path, remote.path]`, `is_valid` = `Value.is_valid` = True
* `File.is_valid` / `FileSet.is_valid` (also used by Dir, IDir, Content*), `IFile.is_valid`, `IFileSet.is_valid`
* `File.hash` / `update_hash`, the close hook of `File.open` for writing modes, `File.copy_to`, `File.remove`,
  `File.touch`, `Dir.mkdir`, `Dir.rmdir(recursive=True)`, `Dir.copy_to`, `Staging*.stage/unstage`.

Hashes are symbolic: a hash *is* its pre-image (`H`).  The sorted list of member digests becomes the list of
member pre-images in the order of a fixed universe `U` of file paths (a canonical order; every member
pre-image contains its own path, so the multiset is determined by it).
A filesystem is a function from paths to file nodes; directories are implicit (a directory exists for the
model iff it has a file below it — enough for hashing, which only lists files).
-/
namespace RedunModel.FileSys

abbrev Path := List String
abbrev Bytes := List UInt8

structure Node where
  bytes : Bytes
  mtime : Int
  deriving DecidableEq, Repr, Inhabited

abbrev FS := Path → Option Node

def FS.empty : FS := fun _ => none
def FS.set (fs : FS) (p : Path) (n : Option Node) : FS := fun q => if q = p then n else fs q

/-- class family: `File`, `IFile`, `ContentFile` (and the matching FileSet / Dir / Staging classes) -/
inductive Fam | plain | imm | content
  deriving DecidableEq, Repr, Inhabited

inductive Val
  | file (fam : Fam) (p : Path)
  /-- `FileSet(d/*)` (`recursive = false`) or `FileSet(d/**)` -/
  | fset (fam : Fam) (d : Path) (recursive : Bool)
  | dir (fam : Fam) (p : Path)
  | staging (isDir : Bool) (fam : Fam) (loc rem : Path)
  deriving DecidableEq, Repr, Inhabited

/-- hash pre-image of one file as seen by a collection -/
inductive HF
  | stat (p : Path) (size : Int) (mtime : Int)
  | content (p : Path) (data : Option Bytes)
  deriving DecidableEq, Repr, Inhabited

inductive H
  | f (h : HF)
  | imm (cls : String) (p : Path)
  | coll (cls : String) (p : Path) (members : List HF)
  | staging (cls : String) (loc rem : Path)
  deriving DecidableEq, Repr, Inhabited

def statH (fs : FS) (p : Path) : HF :=
  match fs p with
  | some n => .stat p n.bytes.length n.mtime
  | none => .stat p (-1) (-1)

def contentH (fs : FS) (p : Path) : HF := .content p ((fs p).map (·.bytes))

/-- strictly below directory `d` (what `glob(d/**)` + `isfile` lists) -/
def under (d p : Path) : Bool := d.isPrefixOf p && decide (d.length < p.length)
/-- direct child of `d` (what `glob(d/*)` + `isfile` lists) -/
def childOf (d p : Path) : Bool := d.isPrefixOf p && decide (p.length = d.length + 1)

def sel (d : Path) (recursive : Bool) (p : Path) : Bool := if recursive then under d p else childOf d p

/-- existing files of the universe selected by `s`, in universe order -/
def members (U : List Path) (fs : FS) (s : Path → Bool) : List Path :=
  U.filter (fun p => s p && (fs p).isSome)

def patOf (d : Path) (recursive : Bool) : Path := d ++ [if recursive then "**" else "*"]

def famPrefix : Fam → String
  | .plain => ""
  | .imm => "I"
  | .content => "Content"

/-- `_calc_hash` of each class on the current filesystem (total: see header for the missing ContentFile). -/
def calcHash (U : List Path) (fs : FS) : Val → H
  | .file .plain p => .f (statH fs p)
  | .file .imm p => .imm "IFile" p
  | .file .content p => .f (contentH fs p)
  | .fset .plain d r => .coll "FileSet" (patOf d r) ((members U fs (sel d r)).map (statH fs))
  | .fset .imm d r => .imm "IFileSet" (patOf d r)
  | .fset .content d r => .coll "ContentFileSet" (patOf d r) ((members U fs (sel d r)).map (contentH fs))
  | .dir .plain p => .coll "Dir" p ((members U fs (under p)).map (statH fs))
  | .dir .imm p => .imm "IDir" p
  | .dir .content p => .coll "ContentDir" p ((members U fs (under p)).map (statH fs))
  | .staging isDir fam l r => .staging (famPrefix fam ++ (if isDir then "StagingDir" else "StagingFile")) l r

/-- classes whose `is_valid` is the constant True: `IFile`, `IFileSet` (overrides) and the Staging classes
(`Value.is_valid`).  `IDir` is *not* here: it inherits `FileSet.is_valid` and compares hashes. -/
def alwaysValid : Val → Bool
  | .file .imm _ => true
  | .fset .imm _ _ => true
  | .staging .. => true
  | _ => false

/-- a python object: the value and its cached `_hash` -/
structure Obj where
  val : Val
  cached : Option H
  deriving DecidableEq, Repr, Inhabited

/-- `obj.hash` (property): compute and cache when unset. Staging values have no cache (get_hash recomputes). -/
def Obj.hash (U : List Path) (fs : FS) (o : Obj) : H × Obj :=
  match o.val with
  | .staging .. => (calcHash U fs o.val, o)
  | _ =>
    match o.cached with
    | some h => (h, o)
    | none => let h := calcHash U fs o.val; (h, { o with cached := some h })

def Obj.updateHash (U : List Path) (fs : FS) (o : Obj) : Obj :=
  match o.val with
  | .staging .. => o
  | _ => { o with cached := some (calcHash U fs o.val) }

/-- `obj.is_valid()` -/
def Obj.isValid (U : List Path) (fs : FS) (o : Obj) : Bool × Obj :=
  if alwaysValid o.val then (true, o)
  else match o.cached with
    | none => (true, o.updateHash U fs)
    | some h => (h == calcHash U fs o.val, o)

/-- validity of a *recorded* value (unpickled: `_hash` = recorded hash, always set) -/
def validRec (U : List Path) (fs : FS) (v : Val) (h : H) : Bool :=
  alwaysValid v || h == calcHash U fs v

/-! ### filesystem mutations -/

def FS.write (fs : FS) (p : Path) (data : Bytes) (t : Int) : FS := fs.set p (some ⟨data, t⟩)
def FS.append (fs : FS) (p : Path) (data : Bytes) (t : Int) : FS :=
  fs.set p (some ⟨(match fs p with | some n => n.bytes | none => []) ++ data, t⟩)
def FS.remove (fs : FS) (p : Path) : FS := fs.set p none
/-- `LocalFileSystem.touch(path, (t,t))`: create empty if missing (mtime from the clock, which the harness sets
to `t`), else `os.utime`. -/
def FS.touch (fs : FS) (p : Path) (t : Int) : FS :=
  fs.set p (some ⟨(match fs p with | some n => n.bytes | none => []), t⟩)
/-- `shutil.rmtree(d)` -/
def FS.rmtree (fs : FS) (d : Path) : FS := fun q => if under d q then none else fs q

inductive Err
  | fileNotFound
  | sameFile
  /-- `FileSystem.open` re-raises FileNotFoundError as RedunFileNotFoundError … -/
  | redunNotFound
  /-- … and any other OSError (here: FileExistsError of the `x` modes) as RedunOSError -/
  | redunOS
  deriving DecidableEq, Repr, Inhabited

/-! ### `File.open(mode)`: the mode string

`File.open` installs the close hook (→ `update_hash()`) iff `set(mode) & {"w","a","x","+"}` is non-empty. -/

/-- the test in `File.open`, on the characters of the mode string -/
def hookInstalled (mode : List Char) : Bool := mode.any fun c => c == 'w' || c == 'a' || c == 'x' || c == '+'

inductive Base | r | w | a | x
  deriving DecidableEq, Repr, Inhabited

/-- Python's reading of a mode string: exactly one of r/w/a/x, optional `+`, optional b/t; anything else is a ValueError -/
def parseMode (mode : List Char) : Option (Base × Bool) :=
  let bases := mode.filterMap fun c =>
    if c == 'r' then some Base.r else if c == 'w' then some Base.w else if c == 'a' then some Base.a
    else if c == 'x' then some Base.x else none
  let ok := mode.all fun c => c == 'r' || c == 'w' || c == 'a' || c == 'x' || c == '+' || c == 'b' || c == 't'
  match bases with
  | [b] => if ok && (mode.filter (· == '+')).length ≤ 1 && (mode.filter fun c => c == 'b' || c == 't').length ≤ 1
           then some (b, mode.contains '+') else none
  | _ => none

/-- the stream permits writing -/
def canWrite (m : Base × Bool) : Bool := m.1 != Base.r || m.2

/-- write `data` at position 0 of an existing file without truncating (`r+`) -/
def overwriteAt0 (old data : Bytes) : Bytes := data ++ old.drop data.length

/-- `LocalFileSystem.copy` = `shutil.copyfile(src, dst)`; the new file's mtime is the clock `t` -/
def FS.copy (fs : FS) (src dst : Path) (t : Int) : Except Err FS :=
  match fs src with
  | none => .error .fileNotFound
  | some n => if src = dst then .error .sameFile else .ok (fs.set dst (some ⟨n.bytes, t⟩))

/-- `File.copy_to(dest, skip_if_exists)` at filesystem level: `none` = skipped (nothing copied). -/
def FS.copyTo (fs : FS) (src dst : Path) (skip : Bool) (t : Int) : Except Err (Option FS) :=
  if skip && (fs dst).isSome then .ok none
  else match fs.copy src dst t with
    | .ok fs' => .ok (some fs')
    | .error e => .error e

/-- relative path of `p` below `d` -/
def relTo (d p : Path) : Path := p.drop d.length

/-- the loop of `Dir.copy_to`: the member list is the glob snapshot taken before the loop -/
def FS.copyMembers (fs : FS) (src dst : Path) (skip : Bool) (t : Int) : List Path → Except Err FS
  | [] => .ok fs
  | p :: ps =>
    match fs.copyTo p (dst ++ relTo src p) skip t with
    | .error e => .error e
    | .ok none => FS.copyMembers fs src dst skip t ps
    | .ok (some fs') => FS.copyMembers fs' src dst skip t ps

end RedunModel.FileSys
