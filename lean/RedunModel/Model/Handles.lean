/-
Model of the handle lineage kept by `RedunBackendDb` (redun/backends/db/__init__.py):
`advance_handle`, `rollback_handle`, `is_valid_handle`, and of the way the scheduler drives them for a chain of
handle-writing tasks (`_preprocess_args`, `_get_cache` + `_is_valid_value`, `_perform_rollbacks`,
`_postprocess_result`; redun/scheduler.py, redun/handle.py).  Core Lean only.

A handle state is identified by its hash; hashing is symbolic (`H` is any type with decidable equality: small
numbers in the raw-history driver, the terms `HT` below in the workflow model — `HandleInfo.get_hash`'s
pre-images).

Two variants of the backend are modelled, selected by `fixed : Bool`:
* `fixed = false` — the code as it is: `rollback_handle` only follows edges that leave a *currently valid*
  handle, and the fork parents that `advance_handle` records for an unrecorded forked parent get no edge;
* `fixed = true` — the code after harness/findings_proposed/C25-*.fix.diff: every edge of the same-name
  lineage is followed, and the skipped fork edges are recorded.
-/
namespace RedunModel.Handles

variable {H : Type} [DecidableEq H]

/-- what the backend reads off a handle object: `__handle__.hash`, `__handle__.fullname` -/
structure HRef (H : Type) where
  hash : H
  name : String
  deriving DecidableEq, Repr

/-- row of table `handle` (`key`, `value_hash` are functions of the hash) -/
structure Row (H : Type) where
  hash : H
  name : String
  valid : Bool
  deriving DecidableEq, Repr

/-- tables `handle` and `handle_edge` -/
structure St (H : Type) where
  rows : List (Row H) := []
  edges : List (H × H) := []
  deriving Repr

inductive Err where
  | fuel      -- the descendant search did not end within the fuel (proved unreachable)
  deriving DecidableEq, Repr

/-- `get_or_create(session, Handle, {hash, fullname, key, value_hash}, {"is_valid": True})` on the rows of
table `handle`: an existing row is forced valid, a missing one is inserted valid -/
def touchRows (rows : List (Row H)) (h : HRef H) : List (Row H) :=
  if rows.any (fun r => decide (r.hash = h.hash)) then
    rows.map fun r => if r.hash = h.hash then { r with valid := true } else r
  else rows ++ [⟨h.hash, h.name, true⟩]

/-- `get_or_create(session, HandleEdge, {parent_id, child_id})` on the rows of table `handle_edge` -/
def addE (edges : List (H × H)) (e : H × H) : List (H × H) :=
  if e ∈ edges then edges else edges ++ [e]

/-- A parent handle as `advance_handle` sees it: the object's `is_recorded` flag and the chain of its
`fork_parent` pointers (`fork_parent`, `fork_parent.fork_parent`, …; empty for a handle that is not a fork). -/
structure Parent (H : Type) where
  ref : HRef H
  recorded : Bool
  forkChain : List (HRef H)
  deriving Repr

/-- `(fork_parent, fork)` links of an unrecorded forked parent, bottom up -/
def chainEdges (ref : HRef H) : List (HRef H) → List (H × H)
  | [] => []
  | fp :: rest => (fp.hash, ref.hash) :: chainEdges fp rest

/-- the parents whose fork ancestors `advance_handle` records first ("skipped recording") -/
def skipped (parents : List (Parent H)) : List (Parent H) :=
  parents.filter fun p => !p.recorded && !p.forkChain.isEmpty

/-- the handle rows `advance_handle` gets or creates, in code order: the fork ancestors of unrecorded forked
parents, the child, the parents -/
def touchedRefs (parents : List (Parent H)) (child : HRef H) : List (HRef H) :=
  (skipped parents).flatMap (·.forkChain) ++ child :: parents.map (·.ref)

/-- the edge rows it gets or creates: parent → child; the repaired code also files the skipped fork links -/
def recordedEdges (fixed : Bool) (parents : List (Parent H)) (child : HRef H) : List (H × H) :=
  parents.map (fun p => (p.ref.hash, child.hash)) ++
    (if fixed then (skipped parents).flatMap fun p => chainEdges p.ref p.forkChain else [])

/-- `advance_handle(parent_handles, child_handle)` (the two tables are written independently: all handle rows,
all edge rows) -/
def St.advance (fixed : Bool) (st : St H) (parents : List (Parent H)) (child : HRef H) : St H :=
  { rows := (touchedRefs parents child).foldl touchRows st.rows,
    edges := (recordedEdges fixed parents child).foldl addE st.edges }

/-- `lookups[x]`: children of `x` in the joined relation -/
def childrenIn (pairs : List (H × H)) (x : H) : List H :=
  (pairs.filter fun e => decide (e.1 = x)).map (·.2)

/-- the `while queue:` loop of `rollback_handle`: `queue.pop()` takes the head of `queue` here (the list is kept
in reverse), `queue.extend(l)` pushes `l` -/
def dfs (pairs : List (H × H)) : Nat → List H → List H → Option (List H)
  | 0, _, _ => none
  | _ + 1, [], vis => some vis
  | f + 1, x :: q, vis =>
    if x ∈ vis then dfs pairs f q vis
    else dfs pairs f ((childrenIn pairs x).reverse ++ q) (x :: vis)

/-- `SELECT handle.hash, handle_edge.child_id FROM handle JOIN handle_edge ON parent_id = hash
    WHERE handle.fullname = :name [AND handle.is_valid]` -/
def St.joined (fixed : Bool) (st : St H) (name : String) : List (H × H) :=
  st.edges.filter fun e => st.rows.any fun r => decide (r.hash = e.1) && decide (r.name = name) && (fixed || r.valid)

def St.rollback (fixed : Bool) (st : St H) (h : HRef H) : Except Err (St H) :=
  let pairs := st.joined fixed h.name
  let queue := (childrenIn pairs h.hash).reverse
  match dfs pairs (pairs.length + queue.length + 1) queue [] with
  | some inv => .ok { st with rows := st.rows.map fun r => if r.hash ∈ inv then { r with valid := false } else r }
  | none => .error .fuel

/-- `is_valid_handle`: recorded and flagged valid (an unrecorded handle is not valid) -/
def St.isValid (st : St H) (h : H) : Bool :=
  match st.rows.find? (fun r => decide (r.hash = h)) with
  | some r => r.valid
  | none => false

inductive Op (H : Type) where
  | advance (parents : List (Parent H)) (child : HRef H)
  | rollback (h : HRef H)
  deriving Repr

def St.step (fixed : Bool) (st : St H) : Op H → Except Err (St H)
  | .advance ps c => .ok (st.advance fixed ps c)
  | .rollback h => st.rollback fixed h

def run (fixed : Bool) : St H → List (Op H) → Except Err (St H)
  | st, [] => .ok st
  | st, op :: ops =>
    match st.step fixed op with
    | .ok st' => run fixed st' ops
    | .error e => .error e

/-! ### the reference lineage model -/

/-- `b` is derived from `a`: a non-empty chain of lineage edges -/
inductive Desc (E : List (H × H)) : H → H → Prop where
  | edge {a b : H} : (a, b) ∈ E → Desc E a b
  | step {a b c : H} : Desc E a b → (b, c) ∈ E → Desc E a c

/-- reference state: the set of valid states and the derivation edges -/
structure Spec (H : Type) where
  valid : H → Prop
  edges : List (H × H)

/-- the states an `advance` touches, and the derivation links it declares -/
def touched (parents : List (Parent H)) (child : HRef H) : List H :=
  (touchedRefs parents child).map (·.hash)

def declared (parents : List (Parent H)) (child : HRef H) : List (H × H) :=
  recordedEdges true parents child

def Spec.step (sp : Spec H) : Op H → Spec H
  | .advance ps c => { valid := fun x => sp.valid x ∨ x ∈ touched ps c, edges := sp.edges ++ declared ps c }
  | .rollback h => { valid := fun x => sp.valid x ∧ ¬ Desc sp.edges h.hash x, edges := sp.edges }

def Spec.run : Spec H → List (Op H) → Spec H
  | sp, [] => sp
  | sp, op :: ops => Spec.run (sp.step op) ops

def Spec.init : Spec H := { valid := fun _ => False, edges := [] }

/-! ### the scheduler driving the backend: a chain of handle-writing tasks `tₙ(… t₂(t₁(Handle(name))))`

Handle states are the pre-images of `HandleInfo.get_hash`: the initial state, `fork` (hash of the parent state
and the key) and `call` (the key is reset, the hash is that of the evaluation: task hash and argument hashes,
i.e. the task and the forked state it received). -/
inductive HT where
  | init (name : String)
  | fork (p : HT) (key : String)
  | call (p : HT) (task : String)
  deriving DecidableEq, Repr

def HT.name : HT → String
  | .init n => n
  | .fork p _ => p.name
  | .call p _ => p.name

def HT.ref (h : HT) : HRef HT := ⟨h, h.name⟩

/-- backend tables, the evaluation cache (keys `(task hash, argument state)`; the cached result of such an
evaluation is always `call arg task`), and the external system the handle stands for: `ext[i]` is the task
(version) whose write produced the current content at depth `i`; a write at depth `i` makes everything
deeper stale. -/
structure WSt where
  st : St HT := {}
  cache : List (String × HT) := []
  ext : List String := []
  deriving Repr

/-- One job of the chain, as `_exec_job_main_thread` runs it for a task called with the handle `v` as its
argument: `_preprocess_args` forks the handle (key `k` = the call order of this handle state under the parent job) and
records the fork;
`_get_cache` replays the cached result only if it is still valid; otherwise `_perform_rollbacks` on the fork,
the task runs (writes to the external system), `_postprocess_result` derives the result state and records it,
`set_cache`. Returns the new state, the job's result and whether the task ran. -/
def runTask (fixed : Bool) (k : String) (w : WSt) (depth : Nat) (t : String) (v : HT) : Except Err (WSt × HT × Bool) :=
  let f := HT.fork v k
  let st1 := w.st.advance fixed [⟨v.ref, true, []⟩] f.ref
  let r := HT.call f t
  if (t, f) ∈ w.cache ∧ st1.isValid r = true then .ok ({ w with st := st1 }, r, false)
  else
    match st1.rollback fixed f.ref with
    | .error e => .error e
    | .ok st2 =>
      let st3 := st2.advance fixed [⟨f.ref, true, []⟩] r.ref
      .ok ({ st := st3, cache := if (t, f) ∈ w.cache then w.cache else (t, f) :: w.cache,
             ext := w.ext.take depth ++ [t] }, r, true)

/-- evaluate the chain inside-out; returns the final handle and the tasks that ran, in order -/
def runChain (fixed : Bool) (k : String) : WSt → Nat → List String → HT → List String → Except Err (WSt × HT × List String)
  | w, _, [], v, ran => .ok (w, v, ran)
  | w, depth, t :: ts, v, ran =>
    match runTask fixed k w depth t v with
    | .error e => .error e
    | .ok (w', r, didRun) => runChain fixed k w' (depth + 1) ts r (if didRun then ran ++ [t] else ran)

/-- one execution `scheduler.run(root_task(quote(tₙ(… t₁(Handle(name))))))`: every job of the chain is a child of
the root job and every handle state is passed to exactly one call, so the call order (fork key) is `"1"`. -/
def runWorkflow (fixed : Bool) (w : WSt) (name : String) (tasks : List String) : Except Err (WSt × HT × List String) :=
  runChain fixed "1" w 0 tasks (.init name) []

def runWorkflows (fixed : Bool) (name : String) : WSt → List (List String) → Except Err WSt
  | w, [] => .ok w
  | w, ts :: rest =>
    match runWorkflow fixed w name ts with
    | .error e => .error e
    | .ok (w', _, _) => runWorkflows fixed name w' rest

/-! ### durability: what a process death leaves behind

`rollback_handle` issues its `UPDATE … SET is_valid = 0` and returns without committing; the change becomes durable
with the next `session.commit()` of the backend (`advance_handle`, `record_job_start`, … all end with one).
`ses` is the database as the backend's session sees it, `dur` what a fresh connection — or the next process,
after this one died — sees. -/
structure DB where
  ses : St HT
  dur : St HT
  deriving Repr

def DB.commit (d : DB) : DB := ⟨d.ses, d.ses⟩
/-- the process dies: everything not yet committed is lost -/
def DB.crash (d : DB) : DB := ⟨d.dur, d.dur⟩
/-- `advance_handle` ends with `session.commit()` -/
def DB.advance (fixed : Bool) (d : DB) (ps : List (Parent HT)) (c : HRef HT) : DB :=
  DB.commit ⟨d.ses.advance fixed ps c, d.dur⟩
/-- `rollback_handle` does not commit -/
def DB.rollback (fixed : Bool) (d : DB) (h : HRef HT) : Except Err DB :=
  match d.ses.rollback fixed h with
  | .ok s => .ok ⟨s, d.dur⟩
  | .error e => .error e

/-- `_perform_rollbacks`: `rollback_handle` on EVERY Handle-valued leaf of the (preprocessed) arguments, one call per
argument state — two states of one handle name are two calls -/
def DB.rollbackAll (fixed : Bool) : DB → List (HRef HT) → Except Err DB
  | d, [] => .ok d
  | d, h :: hs =>
    match d.rollback fixed h with
    | .ok d' => DB.rollbackAll fixed d' hs
    | .error e => .error e

/-- `_exec_job_main_thread` from the cache miss to the moment the task function is entered; `fs` are the handle
states among the job's arguments.
`early = true` is the code's order: `_perform_rollbacks`, (limits), `record_job_start` — which commits —, submit.
`early = false` is the other order (`record_job_start` first, `_perform_rollbacks` right before the submit): the
task then starts with the rollbacks still pending. -/
def enterTask (fixed early : Bool) (d : DB) (fs : List (HRef HT)) : Except Err DB :=
  if early then
    match d.rollbackAll fixed fs with
    | .ok d' => .ok d'.commit
    | .error e => .error e
  else d.commit.rollbackAll fixed fs

/-- The job of `runTask`, but the process dies right after the task function was entered and made its first write
to the external system (`ext`).  Returns what the next process finds, and whether the task had started (on a
cache hit there is nothing to kill). -/
def crashTask (fixed early : Bool) (k : String) (w : WSt) (depth : Nat) (t : String) (v : HT) : Except Err (WSt × Bool) :=
  let f := HT.fork v k
  let d1 := DB.advance fixed ⟨w.st, w.st⟩ [⟨v.ref, true, []⟩] f.ref
  let r := HT.call f t
  if (t, f) ∈ w.cache ∧ d1.ses.isValid r = true then .ok ({ w with st := d1.dur }, false)
  else
    match enterTask fixed early d1 [f.ref] with
    | .error e => .error e
    | .ok d2 => .ok ({ st := d2.crash.dur, cache := w.cache, ext := w.ext.take depth ++ [t] }, true)

/-- a chain execution whose process dies in the task at position `cd` (if that task runs at all) -/
def runChainCrash (fixed early : Bool) (k : String) : WSt → Nat → List String → HT → Nat → Except Err WSt
  | w, _, [], _, _ => .ok w
  | w, depth, t :: ts, v, 0 =>
    match crashTask fixed early k w depth t v with
    | .error e => .error e
    | .ok (w', true) => .ok w'
    | .ok (w', false) =>
      match runChain fixed k w' (depth + 1) ts (HT.call (HT.fork v k) t) [] with
      | .error e => .error e
      | .ok (w'', _, _) => .ok w''
  | w, depth, t :: ts, v, cd + 1 =>
    match runTask fixed k w depth t v with
    | .error e => .error e
    | .ok (w', r, _) => runChainCrash fixed early k w' (depth + 1) ts r cd

/-- an execution of a history: completes, or is killed in its `cd`-th task -/
inductive Exec where
  | ok (tasks : List String)
  | killed (tasks : List String) (cd : Nat)
  deriving Repr

def runExecs (fixed early : Bool) (name : String) : WSt → List Exec → Except Err WSt
  | w, [] => .ok w
  | w, .ok ts :: rest =>
    match runWorkflow fixed w name ts with
    | .error e => .error e
    | .ok (w', _, _) => runExecs fixed early name w' rest
  | w, .killed ts cd :: rest =>
    match runChainCrash fixed early "1" w 0 ts (.init name) cd with
    | .error e => .error e
    | .ok w' => runExecs fixed early name w' rest

end RedunModel.Handles
