/-
Specification of the repaired monitor hand-off (property C10): the monitor's decision to leave and the
clearing of `is_running` happen under one lock, and so do the submitter's test of `is_running`, its
setting and the start of a new monitor thread.  There is no code in /repo that this mirrors (the five
executors as found are `RedunModel.Monitor`); it is the protocol a repair has to implement:

    def _submit(self, job):                      def _monitor(self):
        self._pending[id] = job        # ins          while True:
        self._start()                                     with self._lock:                  # lock
    def _start(self):                                         if not (self._is_running and self._pending):   # test
        with self._lock:               # lock                     self._is_running = False  # clear
            if not self._is_running:   # test                     break                     # (leaves the `with`: unlockExit)
                self._is_running = True    # set                                            # unlock
                self._thread = Thread(..)  # new          for job in poll(list(self._pending)):   # snap / forHead
                self._thread.start()       # start            self._process(job)                  # proc
                                       # unlock       (no write to is_running after the loop)

One transition per line; the fake API completes every job.  Core Lean only.
-/
namespace RedunModel.MonitorLocked

abbrev Job := Nat

inductive Tid where
  | S | M | O (k : Nat)
  deriving DecidableEq, Repr

inductive SPh where
  | ins | lock | test | set | new | start | unlock | done
  deriving DecidableEq, Repr

inductive MPh where
  | unstarted | lock | test | clear | unlockExit | unlock | snap | forHead | proc | dead
  deriving DecidableEq, Repr

structure Mon where
  ph : MPh
  iter : List Job := []
  cur : Job := 0
  deriving DecidableEq, Repr

structure State where
  flag : Bool := false
  pending : List Job := []
  lock : Option Tid := none
  reported : List Job := []
  submitted : List Job := []      -- ghost
  sph : SPh
  cur : Job := 0
  todo : List Job := []
  mon : Mon := { ph := .dead }    -- the thread `self._thread` refers to (`dead` also stands for "none yet")
  old : List Mon := []            -- monitor threads created earlier
  deriving Repr

def init (jobs : List Job) : State :=
  match jobs with
  | [] => { sph := .done }
  | j :: r => { sph := .ins, cur := j, todo := r }

def finishS (s : State) : State :=
  match s.todo with
  | [] => { s with sph := .done }
  | j :: r => { s with sph := .ins, cur := j, todo := r }

def stepS (s : State) : Option State :=
  match s.sph with
  | .ins => some { s with pending := s.pending ++ [s.cur], submitted := s.submitted ++ [s.cur], sph := .lock }
  | .lock => match s.lock with
    | none => some { s with lock := some .S, sph := .test }
    | some _ => none
  | .test => if s.flag then some { s with sph := .unlock } else some { s with sph := .set }
  | .set => some { s with flag := true, sph := .new }
  | .new => some { s with old := s.old ++ [s.mon], mon := { ph := .unstarted }, sph := .start }
  | .start => some { s with mon := { s.mon with ph := .lock }, sph := .unlock }
  | .unlock => some (finishS { s with lock := none })
  | .done => none

/-- one step of a monitor thread `m` whose thread id is `me`; returns the new shared state and thread state -/
def stepMon (s : State) (me : Tid) (m : Mon) : Option (State × Mon) :=
  match m.ph with
  | .unstarted => none
  | .dead => none
  | .lock => match s.lock with
    | none => some ({ s with lock := some me }, { m with ph := .test })
    | some _ => none
  | .test =>
    if s.flag && !s.pending.isEmpty then some (s, { m with ph := .unlock }) else some (s, { m with ph := .clear })
  | .clear => some ({ s with flag := false }, { m with ph := .unlockExit })
  | .unlockExit => some ({ s with lock := none }, { m with ph := .dead })
  | .unlock => some ({ s with lock := none }, { m with ph := .snap })
  | .snap => some (s, { m with iter := s.pending, ph := .forHead })
  | .forHead =>
    match m.iter with
    | [] => some (s, { m with ph := .lock })
    | j :: r => some (s, { m with cur := j, iter := r, ph := .proc })
  | .proc =>
    if s.pending.contains m.cur then
      some ({ s with pending := s.pending.erase m.cur, reported := s.reported ++ [m.cur] }, { m with ph := .forHead })
    else some (s, { m with ph := .forHead })

def step (s : State) : Tid → Option State
  | .S => stepS s
  | .M => match stepMon s .M s.mon with
    | none => none
    | some (s', m') => some { s' with mon := m' }
  | .O k => match s.old[k]? with
    | none => none
    | some m => match stepMon s (.O k) m with
      | none => none
      | some (s', m') => some { s' with old := s'.old.set k m' }

def run : State → List Tid → State
  | s, [] => s
  | s, t :: ts => match step s t with
    | some s' => run s' ts
    | none => run s ts

inductive Reachable (jobs : List Job) : State → Prop where
  | init : Reachable jobs (init jobs)
  | step {s s' : State} (t : Tid) : Reachable jobs s → step s t = some s' → Reachable jobs s'

/-- the submitter has finished and no monitor thread is left -/
def quiescent (s : State) : Prop :=
  s.sph = .done ∧ (s.mon.ph = .dead ∨ s.mon.ph = .unstarted) ∧ ∀ m ∈ s.old, m.ph = .dead ∨ m.ph = .unstarted

end RedunModel.MonitorLocked
