/-
C31 — where the bytes of a recorded value live: the `Value` row, the value store, or a `FileCache` file.

Mirrors (read from /repo):
* backends/db/__init__.py `record_value`: `data = serialize()`; `len(data) > max_value_size` ⇒ RedunDatabaseError;
  `value_hash = get_hash(data)`; if a value store is configured and `sys.getsizeof(data) >= value_store_min_size`:
  `value_store.put(hash, data)` and the row gets the empty placeholder `b""`; an existing row is left alone.
* `_get_value_data` / `get_value`: no row ⇒ `(None, False)`; non-empty row value ⇒ deserialize it; placeholder ⇒
  `value_store.get` (missing file ⇒ `(b"", False)` ⇒ absent); placeholder without a configured store ⇒ AssertionError.
* backends/value_store.py `put` (no overwrite: `if self.has(hash): return`), `get`.
* value.py `FileCache.serialize` (write `<base>/<hash_bytes(payload)>` — overwriting —, the serialisation is the
  file name) and `FileCache.deserialize` (file missing ⇒ InvalidValueError ⇒ `_deserialize_value` ⇒ absent).

Hashing is symbolic: the hash of a value is (its kind, its serialised bytes) — `hash_tag_bytes("Value", data)` is a
function of `data`; the kind is added because the row also stores the type name used to deserialize (pickle bytes
and file names never coincide).  `fn` is the content-address naming function of FileCache
(`payload ↦ base_path/hash_bytes(payload)`), a parameter.  `overhead` is `sys.getsizeof(b"")` (CPython: 33).
-/
namespace RedunModel.ValueStore

abbrev Bytes := List UInt8

inductive Val
  /-- an ordinary value, identified with its pickle -/
  | plain (data : Bytes)
  /-- a value of a `FileCache`-registered type, identified with its user serialisation -/
  | fcache (payload : Bytes)
  deriving DecidableEq, Repr

abbrev Key := Bool × Bytes

def ser (fn : Bytes → Bytes) : Val → Bytes
  | .plain d => d
  | .fcache p => fn p

def isFc : Val → Bool
  | .plain _ => false
  | .fcache _ => true

def key (fn : Bytes → Bytes) (v : Val) : Key := (isFc v, ser fn v)

def overhead : Nat := 33

def lookup {α β : Type} [DecidableEq α] (k : α) : List (α × β) → Option β
  | [] => none
  | (a, b) :: t => if a = k then some b else lookup k t

def dropKey {α β : Type} [DecidableEq α] (k : α) (l : List (α × β)) : List (α × β) := l.filter (fun e => e.1 ≠ k)

structure St where
  /-- `Value` rows: hash ↦ value column (`[]` = placeholder "bytes are in the value store") -/
  db : List (Key × Bytes)
  /-- files of the value store; `none` = no value store configured -/
  store : Option (List (Key × Bytes))
  /-- FileCache files: name ↦ content -/
  fc : List (Bytes × Bytes)

def St.init (withStore : Bool) : St := ⟨[], if withStore then some [] else none, []⟩

structure Cfg where
  minSize : Nat
  maxSize : Nat

inductive Err | tooLarge | noStore
  deriving DecidableEq, Repr

/-- the side effect of `serialize()`: a FileCache value writes (overwrites) its file -/
def serialize (fn : Bytes → Bytes) (v : Val) (s : St) : St :=
  match v with
  | .plain _ => s
  | .fcache p => { s with fc := (fn p, p) :: dropKey (fn p) s.fc }

/-- `ValueStore.put` -/
def put (st : List (Key × Bytes)) (k : Key) (data : Bytes) : List (Key × Bytes) :=
  if (lookup k st).isSome then st else (k, data) :: st

/-- `record_value(value)` with the thresholds in force for this call -/
def record (fn : Bytes → Bytes) (v : Val) (cfg : Cfg) (s : St) : St × Except Err Key :=
  let s1 := serialize fn v s
  let data := ser fn v
  if data.length > cfg.maxSize then (s1, .error .tooLarge)
  else
    let k := key fn v
    let offload := match s1.store with
      | some _ => decide (data.length + overhead ≥ cfg.minSize)
      | none => false
    let store' := if offload then s1.store.map (fun st => put st k data) else s1.store
    let rowData := if offload then [] else data
    let db' := if (lookup k s1.db).isSome then s1.db else (k, rowData) :: s1.db
    ({ db := db', store := store', fc := s1.fc }, .ok k)

/-- `TypeRegistry.deserialize(row.type, data)`: the kind is the one recorded with the row -/
def deser (s : St) (k : Key) (data : Bytes) : Option Val :=
  if k.1 then (lookup data s.fc).map .fcache else some (.plain data)

/-- `get_value(hash)`: `ok none` = `(None, False)` (absent) -/
def get (k : Key) (s : St) : Except Err (Option Val) :=
  match lookup k s.db with
  | none => .ok none
  | some d =>
    if d ≠ [] then .ok (deser s k d)
    else match s.store with
      | none => .error .noStore
      | some st =>
        match lookup k st with
        | none => .ok none
        | some b => .ok (deser s k b)

/-- a read while the value store is unreachable (its directory moved away for the duration of the call): every store
object looks missing; the state itself is untouched.  Several backends (processes) may share one database and one
store: they are handles on the same `St`, the model has no per-process state. -/
def getAway (k : Key) (s : St) : Except Err (Option Val) := get k { s with store := s.store.map fun _ => [] }

/-- Does the store hold an object for `k`? -/
def hasObject (k : Key) (s : St) : Bool :=
  match s.store with
  | some st => (lookup k st).isSome
  | none => false

/-- Re-recording a value whose store object exists, while *another* backend reads that value at the moment the
recorder would be between "object opened for writing" and "closed".  `ValueStore.put` returns before opening an
object that exists, so there is no in-progress object: the reader sees the state right after `serialize()`.
`none` = the object does not exist (a first write; no interleaving is staged).  A write fault (ENOSPC) injected into
the same window cannot strike either, for the same reason: a fault-injected re-record is `record`. -/
def recordWatch (fn : Bytes → Bytes) (v : Val) (cfg : Cfg) (s : St) :
    (St × Except Err Key) × Option (Except Err (Option Val)) :=
  (record fn v cfg s, if hasObject (key fn v) s then some (get (key fn v) (serialize fn v s)) else none)

/-- `record_value` of a FileCache value whose `serialize()` fails while writing its file (ENOSPC right after the file was
opened with "wb"): the file exists, empty; nothing else happened (rows and store are touched only later). -/
def faultFc (fn : Bytes → Bytes) (p : Bytes) (s : St) : St := { s with fc := (fn p, []) :: dropKey (fn p) s.fc }

/-! mutations of the environment -/
def dropStore (k : Key) (s : St) : St := { s with store := s.store.map (dropKey k) }
def dropFc (f : Bytes) (s : St) : St := { s with fc := dropKey f s.fc }
/-- configure a value store on a backend that had none -/
def attachStore (s : St) : St := { s with store := some (s.store.getD []) }

end RedunModel.ValueStore
