/-
Model of task hashing (C17):
  redun/utils.py  get_func_source      (decorator trimming; with the repair of
                                        findings_proposed/C17-async-def-source.fix.diff;
                                        `…Old` = the code before it)
  redun/task.py   Task._calc_hash, Task.options, PartialTask._calc_hash, wraps_task (hash_includes of
                  the hidden task)
Core Lean only.  Pre-images as in Model/Pre.lean.
-/
import RedunModel.Model.Pre
namespace RedunModel.TaskHash
open RedunModel.Pre

/-! ### get_func_source -/

/-- `[ \t]` -/
def isWs (c : Char) : Bool := c = ' ' || c = '\t'

def dropWs : List Char → List Char
  | [] => []
  | c :: t => if isWs c then dropWs t else c :: t

/-- `re.match(r"^[ \t]*(async[ \t]+)?def[ \t]", line)` (repaired pattern).  The optional group
cannot be skipped after it has matched a prefix, because a line that starts with `a` does not start
with `def`; so the backtracking search is this deterministic scan. -/
def isDefLine (line : List Char) : Bool :=
  let r := dropWs line
  let r := match r with
    | 'a' :: 's' :: 'y' :: 'n' :: 'c' :: c :: t => if isWs c then dropWs t else r
    | _ => r
  match r with
  | 'd' :: 'e' :: 'f' :: c :: _ => isWs c
  | _ => false

def dropSpaces : List Char → List Char
  | [] => []
  | c :: t => if c = ' ' then dropSpaces t else c :: t

/-- `re.match(r"^ *def ", line)` (the pattern before the repair) -/
def isDefLineOld (line : List Char) : Bool :=
  match dropSpaces line with
  | 'd' :: 'e' :: 'f' :: ' ' :: _ => true
  | _ => false

/-- the loop of `get_func_source`: the lines from the first one that satisfies `p`, all lines if none does -/
def cutAt (p : List Char → Bool) : List String → Option (List String)
  | [] => none
  | l :: t => if p l.toList then some (l :: t) else cutAt p t

/-- `get_func_source(func)` on `inspect.getsource(func).split("\n")`; the result is `"\n".join(lines)` -/
def funcSourceWith (p : List Char → Bool) (lines : List String) : String :=
  "\n".intercalate ((cutAt p lines).getD lines)

def funcSource (lines : List String) : String := funcSourceWith isDefLine lines
def funcSourceOld (lines : List String) : String := funcSourceWith isDefLineOld lines

/-! ### Task._calc_hash -/

/-- One `hash_includes` item: its hash pre-image and the rank of its digest among all digests
(`sorted(map(get_hash, hash_includes))` sorts digests; the digest order is an arbitrary total order,
supplied from outside). -/
abbrev Inc := Nat × Pre

def insertR (a : Inc) : List Inc → List Inc
  | [] => [a]
  | b :: t => if a.1 ≤ b.1 then a :: b :: t else b :: insertR a t

def sortR (l : List Inc) : List Inc := l.foldr insertR []

structure TaskDef where
  name : String
  ns : String                      -- namespace, "" if none
  srcLines : List String           -- inspect.getsource(func).split("\n")
  srcGiven : Option String         -- the `source=` argument
  version : Option String
  compat : List String
  includes : Option (List Inc)     -- `hash_includes`
  base : Nat                       -- definition-time options (`_task_options_base`), abstract
  override : Option Nat            -- value hash label of a non-empty `_task_options_override`, none if empty

/-- `Task._format_fullname` -/
def fullname (t : TaskDef) : String := if t.ns ≠ "" then t.ns ++ "." ++ t.name else t.name

/-- `self.source if self.source else get_func_source(self.func)`, where `self.source` is the given
source or `get_func_source(func)` -/
def taskSource (t : TaskDef) : String :=
  match t.srcGiven with
  | some s => if s ≠ "" then s else funcSource t.srcLines
  | none => funcSource t.srcLines

def taskSourceOld (t : TaskDef) : String :=
  match t.srcGiven with
  | some s => if s ≠ "" then s else funcSourceOld t.srcLines
  | none => funcSourceOld t.srcLines

def inclHashes (t : TaskDef) : List Pre :=
  match t.includes with
  | some l => (sortR l).map (·.2)
  | none => []

def optsHash (t : TaskDef) : List Pre :=
  match t.override with
  | some n => [.val n]
  | none => []

/-- the `"source", source` / `"version", version` pair -/
def codeId (src : TaskDef → String) (t : TaskDef) : List Pre :=
  match t.version with
  | none => [.str "source", .str (src t)]
  | some v => [.str "version", .str v]

def calcHashWith (src : TaskDef → String) (t : TaskDef) : Pre :=
  match t.compat with
  | c :: _ => .str c               -- `return self.compat[0]`
  | [] => .hash (.list ([.str "Task", .str (fullname t)] ++ codeId src t ++ inclHashes t ++ optsHash t))

/-- `Task._calc_hash` -/
def calcHash (t : TaskDef) : Pre := calcHashWith taskSource t
def calcHashOld (t : TaskDef) : Pre := calcHashWith taskSourceOld t

/-! ### Task.options -/

/-- `self.source` as set by `Task.__init__` -/
def selfSource (t : TaskDef) : String :=
  match t.srcGiven with
  | some s => s
  | none => funcSource t.srcLines

/-- `Task.options(**update)` / `Task.export_options(**update)` with the repair of
findings_proposed/C17-options-keep-hash-includes.fix.diff: a new Task of the same function, name,
namespace, version, compat, `source=self.source`, base options and `hash_includes`, with the merged
overrides (`n` = value-hash label of the merged, non-empty dict). -/
def withOptions (t : TaskDef) (n : Nat) : TaskDef :=
  { t with srcGiven := some (selfSource t), override := some n }

/-- before the repair `hash_includes` is not passed on to the new Task -/
def withOptionsOld (t : TaskDef) (n : Nat) : TaskDef :=
  { t with srcGiven := some (selfSource t), override := some n, includes := none }

/-! ### PartialTask._calc_hash -/

/-- `hash_struct(["PartialTask", self.task._calc_hash(), hash_arguments(registry, args, kwargs)])` -/
def partialHash (inner : Pre) (args : List Pre) (kwargs : List (String × Pre)) : Pre :=
  .hash (.list [.str "PartialTask", inner, taskArguments args kwargs])

/-! ### wraps_task -/

structure Wrapper where
  funcLines : List String          -- source of the function returned by `wrapper_func(hidden_inner_task)`
  includes : List Inc              -- `wrapper_hash_includes`
  version : Option String
  base : Nat

/-- The visible task built by `wraps_task`: name and namespace of the wrapped task, the wrapper's
function, `hash_includes = wrapper_hash_includes + [hidden_inner_task]` (a Task hashes to its `.hash`,
computed when the inner task was created). `rank` = rank of the inner task's digest. -/
def wrapTask (w : Wrapper) (rank : Nat) (inner : TaskDef) : TaskDef :=
  { name := inner.name, ns := inner.ns, srcLines := w.funcLines, srcGiven := none, version := w.version,
    compat := [], includes := some (w.includes ++ [(rank, calcHash inner)]), base := w.base, override := none }

end RedunModel.TaskHash
