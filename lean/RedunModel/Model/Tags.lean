/-
Model of the tag history kept by `RedunBackendDb` (redun/backends/db/__init__.py):
`record_tags` (with its `update` / `new` modes and the walk down the edit graph), `delete_tags`,
`get_tags`, exactly as the three CLI commands `redun tag add | update | rm` (redun/cli.py) call them.
Core Lean only.

Hashing is symbolic: a tag *is* its pre-image `(entity_id, key, json(value), parents)` (`hash_tag`), and the
model names every distinct pre-image by a small number, its `id` (creation order).  Two tags have the same
hash iff their pre-images are equal (SHA collisions are outside the claim).  `value` is the normalised JSON
text (`json_dumps`), the same text the JSON column stores and compares.

The model mirrors the code after the three small repairs proposed with this property
(harness/findings_proposed/C24-tags.fix.diff, committed to /repo as a `fix:` commit): one row per distinct tag of a
command, JSON `null` compared as JSON, `rm` without any pair or key matches nothing (instead of every tag of the
entity).
-/
namespace RedunModel.Tags

/-- Pre-image of `hash_tag`: `["Tag", entity_id, key, json_dumps(value), sorted(parents)]`. -/
structure Pre where
  ent : String
  key : String
  val : String
  parents : List Nat
  deriving DecidableEq, Repr

/-- A row of table `tag`: primary key (`id` stands for `tag_hash`), the hashed columns, `is_current`. -/
structure Row where
  id : Nat
  pre : Pre
  cur : Bool
  deriving DecidableEq, Repr

/-- Tables `tag` and `tag_edit` (`(parent_id, child_id)`); `next` = number of distinct tags seen so far. -/
structure St where
  rows : List Row := []
  edges : List (Nat × Nat) := []
  next : Nat := 0
  deriving Repr

inductive Err where
  | fuel          -- the walk down the edit graph did not end within the fuel (proved unreachable)
  deriving DecidableEq, Repr

/-! ### `sorted(parents)` -/
def insertSorted (a : Nat) : List Nat → List Nat
  | [] => [a]
  | b :: l => if a ≤ b then a :: b :: l else b :: insertSorted a l

def sortIds : List Nat → List Nat
  | [] => []
  | a :: l => insertSorted a (sortIds l)

/-- `list({row.tag_hash: row for row in tag_rows}.values())`: first occurrences, in order. -/
def dedup : List Pre → List Pre
  | [] => []
  | a :: l => a :: (dedup l).filter (fun b => decide (b ≠ a))

/-! ### queries -/
/-- `SELECT tag_hash FROM tag WHERE tag_hash = hash(p)` -/
def St.lookup (st : St) (p : Pre) : Option Nat := (st.rows.find? (fun r => decide (r.pre = p))).map (·.id)

/-- `SELECT parent_id FROM tag_edit WHERE parent_id = i` is non-empty -/
def St.hasChild (st : St) (i : Nat) : Bool := st.edges.any (fun e => decide (e.1 = i))

/-- the tag was superseded: it exists and has an outgoing edit -/
def St.superseded (st : St) (p : Pre) : Bool :=
  match st.lookup p with
  | some i => st.hasChild i
  | none => false

/-- `update=True`: current tags of the entity whose key is one of `keys` -/
def St.currentWithKeys (st : St) (ent : String) (keys : List String) : List Nat :=
  (st.rows.filter fun r => r.cur && decide (r.pre.ent = ent) && decide (r.pre.key ∈ keys)).map (·.id)

/-- `delete_tags`: current tags of the entity matching one of the pairs or one of the keys -/
def St.currentMatching (st : St) (ent : String) (pairs : List (String × String)) (keys : List String) : List Nat :=
  (st.rows.filter fun r => r.cur && decide (r.pre.ent = ent) &&
    (decide ((r.pre.key, r.pre.val) ∈ pairs) || decide (r.pre.key ∈ keys))).map (·.id)

/-- `get_tags([ent])[ent]` as a list of pairs (one per current row). -/
def St.current (st : St) (ent : String) : List (String × String) :=
  (st.rows.filter fun r => r.cur && decide (r.pre.ent = ent)).map fun r => (r.pre.key, r.pre.val)

/-! ### writes -/
/-- `new_tags`: a tag that is not yet in the table is added, current (`is_current` defaults to True). -/
def St.insertTag (st : St) (p : Pre) : St :=
  match st.lookup p with
  | some _ => st
  | none => { st with rows := st.rows ++ [⟨st.next, p, true⟩], next := st.next + 1 }

def St.insertAll (st : St) : List Pre → St
  | [] => st
  | p :: ps => (st.insertTag p).insertAll ps

/-- `new_tag_edits`: an edit that is not yet in the table is added. -/
def St.addEdge (st : St) (e : Nat × Nat) : St :=
  if e ∈ st.edges then st else { st with edges := st.edges ++ [e] }

def St.addEdges (st : St) : List (Nat × Nat) → St
  | [] => st
  | e :: es => (st.addEdge e).addEdges es

/-- `tag_edits = [TagEdit(parent, tag.tag_hash) for tag in tag_rows for parent in parents]` -/
def St.candEdges (st : St) (pres : List Pre) (parents : List Nat) : List (Nat × Nat) :=
  pres.flatMap fun p =>
    match st.lookup p with
    | some i => parents.map fun par => (par, i)
    | none => []

/-- `UPDATE tag SET is_current = False WHERE tag_hash IN parents` -/
def St.invalidate (st : St) (ps : List Nat) : St :=
  { st with rows := st.rows.map fun r => if r.id ∈ ps then { r with cur := false } else r }

/-- The tail of `record_tags` ("Add new tags" … "Write to db") for the tag rows `pres`. -/
def St.commit (st : St) (pres : List Pre) (parents : List Nat) : St :=
  let st1 := st.insertAll pres
  let st2 := st1.addEdges (st1.candEdges pres parents)
  st2.invalidate parents

/-- The recursive call `record_tags(entity_type, entity_id, [(key, value)], parents=[i], new=True)` made for a
superseded tag `i`: propose the same pair with `parents=[i]`; if that tag is superseded too, recurse on it
(and then run the tail with no tag rows left); otherwise run the tail for it. -/
def walk : Nat → St → String → String → String → Nat → Except Err St
  | 0, _, _, _, _, _ => .error .fuel
  | f + 1, st, ent, key, val, i =>
    let parents := sortIds [i]
    let p : Pre := ⟨ent, key, val, parents⟩
    match st.lookup p with
    | some j =>
      if st.hasChild j then
        match walk f st ent key val j with
        | .ok st' => .ok (st'.commit [] parents)
        | .error e => .error e
      else .ok (st.commit [p] parents)
    | none => .ok (st.commit [p] parents)

/-- the walks for the superseded tag rows, one after the other (each call commits) -/
def walkAll (st0 : St) (ent : String) : St → List Pre → Except Err St
  | st, [] => .ok st
  | st, p :: ps =>
    match st0.lookup p with
    | some i =>
      match walk (st.next + 1) st ent p.key p.val i with
      | .ok st' => walkAll st0 ent st' ps
      | .error e => .error e
    | none => walkAll st0 ent st ps

/-- `record_tags(entity_type, ent, kvs, parents, update, new)` as called from the CLI commands and from
`delete_tags`. -/
def St.record (st : St) (ent : String) (kvs : List (String × String)) (parents : List Nat)
    (update new : Bool) : Except Err St :=
  if kvs.isEmpty then .ok st else
  let parents := if update then parents ++ st.currentWithKeys ent (kvs.map (·.1)) else parents
  let new := new || update
  let parents := sortIds parents
  let pres := dedup (kvs.map fun kv => (⟨ent, kv.1, kv.2, parents⟩ : Pre))
  if new then
    let sup := pres.filter fun p => st.superseded p
    let rest := pres.filter fun p => !st.superseded p
    match walkAll st ent st sup with
    | .ok st' => .ok (st'.commit rest parents)
    | .error e => .error e
  else .ok (st.commit pres parents)

/-- The three `redun tag` sub-commands for one entity. -/
inductive Op where
  | add (ent : String) (kvs : List (String × String))
  | update (ent : String) (kvs : List (String × String))
  | rm (ent : String) (pairs : List (String × String)) (keys : List String)
  deriving Repr

/-- `Tag.get_delete_tag()`: entity type Null, entity id `""`, key `""`, value `None`. -/
def deleteKV : String × String := ("", "null")

def St.step (st : St) : Op → Except Err St
  | .add e kvs => st.record e kvs [] false true
  | .update e kvs => st.record e kvs [] true false
  | .rm e pairs keys => st.record "" [deleteKV] (st.currentMatching e pairs keys) false false

def run : St → List Op → Except Err St
  | st, [] => .ok st
  | st, op :: ops =>
    match st.step op with
    | .ok st' => run st' ops
    | .error e => .error e

def init : St := {}

/-! ### the reference: a key-value collection per entity -/
/-- `(entity, key, value)` triples; only membership matters (the property does not fix multiplicities). -/
abbrev Spec := List (String × String × String)

def Spec.step (sp : Spec) : Op → Spec
  | .add e kvs => sp ++ kvs.map fun kv => (e, kv.1, kv.2)
  | .update e kvs =>
    (sp.filter fun t => !(decide (t.1 = e) && decide (t.2.1 ∈ kvs.map (·.1)))) ++ kvs.map fun kv => (e, kv.1, kv.2)
  | .rm e pairs keys =>
    sp.filter fun t => !(decide (t.1 = e) && (decide ((t.2.1, t.2.2) ∈ pairs) || decide (t.2.1 ∈ keys)))

def Spec.run : Spec → List Op → Spec
  | sp, [] => sp
  | sp, op :: ops => Spec.run (sp.step op) ops

end RedunModel.Tags
