/-
EvalLib — the concrete task table used by the correspondence runs of C01 / C12 / C38: a hand-written
counterpart of every task in harness/props/_evallib.py (namespace `ev`) and of the redun.functools
tasks they are composed with (`redun.identity`, `const`, `apply_func`, `compose_apply`, `flatten`,
`flat_map`, `zip_`).  Modelled, not verified: the Python bodies are a few lines each; every one is
exercised by the generated programs, so a divergence shows up as a correspondence mismatch.

The theorems of Props/C01, C12, C38 quantify over *every* `Lib`; this file only provides the instance the
driver evaluates.
-/
import RedunModel.Model.EvalCore
namespace RedunModel.EvalLib
open RedunModel.EvalCore

/-! ## Python call binding (`func(*args, **kwargs)`); defaults are already explicit in `kwargs` -/

def kwLookup : List String → List Expr → String → Option Expr
  | k :: ks, v :: vs, name => if k == name then some v else kwLookup ks vs name
  | _, _, _ => none

structure Bound where
  env : List (String × Expr)
  restArgs : List Expr
  usedKw : List String

/-- bind parameters in order; `none` = Python would raise a TypeError about the call itself (not modelled) -/
def bindAux (kwn : List String) (kwv : List Expr) : List Param → List Expr → List (String × Expr) → List String →
    Option (List (String × Expr) × List Expr × List String)
  | [], args, env, used => some (env, args, used)
  | p :: ps, args, env, used =>
    match p.kind with
    | .pos =>
      match args with
      | a :: rest =>
        if kwn.contains p.name then none else bindAux kwn kwv ps rest (env ++ [(p.name, a)]) used
      | [] =>
        match kwLookup kwn kwv p.name with
        | some v => bindAux kwn kwv ps [] (env ++ [(p.name, v)]) (p.name :: used)
        | none => none
    | .varPos => bindAux kwn kwv ps [] (env ++ [(p.name, .cont .tuple args)]) used
    | .kwOnly =>
      match kwLookup kwn kwv p.name with
      | some v => bindAux kwn kwv ps args (env ++ [(p.name, v)]) (p.name :: used)
      | none => none
    | .varKw =>
      let restN := kwn.filter (fun k => !(used.contains k))
      let restV := (kwn.zip kwv).filterMap (fun (k, v) => if used.contains k then none else some v)
      bindAux kwn kwv ps args (env ++ [(p.name, .dict (restN.map .str) restV)]) (restN ++ used)

def bindParams (ps : List Param) (args : List Expr) (kwn : List String) (kwv : List Expr) :
    Option (List (String × Expr)) :=
  match bindAux kwn kwv ps args [] [] with
  | some (env, [], used) => if kwn.all (fun k => used.contains k) && kwn.length == kwv.length then some env else none
  | _ => none

def envGet (env : List (String × Expr)) (name : String) : Expr :=
  match env.find? (fun q => q.1 == name) with
  | some q => q.2
  | none => .none

def mkTask (ps : List Param) (f : (String → Expr) → Out) : TaskDef :=
  { params := ps
    body := fun args kwn kwv =>
      match bindParams ps args kwn kwv with
      | some env => f (envGet env)
      | none => .unk }

def p (name : String) : Param := ⟨name, .pos, none⟩
def pd (name : String) (d : Expr) : Param := ⟨name, .pos, some d⟩
def star (name : String) : Param := ⟨name, .varPos, none⟩
def kw (name : String) : Param := ⟨name, .kwOnly, none⟩
def kwd (name : String) (d : Expr) : Param := ⟨name, .kwOnly, some d⟩
def starstar (name : String) : Param := ⟨name, .varKw, none⟩

/-! ## tables -/

def superOf : String → Option String
  | "ZeroDivisionError" => some "ArithmeticError"
  | "ArithmeticError" => some "Exception"
  | "KeyError" => some "LookupError"
  | "IndexError" => some "LookupError"
  | "LookupError" => some "Exception"
  | "ValueError" => some "Exception"
  | "TypeError" => some "Exception"
  | "NotImplementedError" => some "RuntimeError"
  | "RuntimeError" => some "Exception"
  | "LibSubError" => some "LibError"
  | "BusyError" => some "LibError"
  | "LibError" => some "Exception"
  | "Exception" => some "BaseException"
  | _ => none

def isSubFuel : Nat → String → String → Bool
  | 0, c, d => c == d
  | n + 1, c, d => c == d || (match superOf c with
    | some s => isSubFuel n s d
    | none => false)

def isSub (c d : String) : Bool := isSubFuel 6 c d

def fieldsOf : String → List String
  | "P" => ["x", "y"]
  | "D" => ["a", "b"]
  | _ => []

def intsOf : List Expr → Option (List Int)
  | [] => some []
  | .int z :: xs => (intsOf xs).map (z :: ·)
  | _ => none

def sumInts (xs : List Expr) : Out :=
  match intsOf xs with
  | some zs => .ok (.int (zs.foldl (· + ·) 0))
  | none => .unk

def pyFunc (name : String) (args : List Expr) (kwn : List String) (_kwv : List Expr) : Out :=
  if !kwn.isEmpty then .unk else
  match name, args with
  | "len", [.cont .list xs] | "len", [.cont .tuple xs] | "len", [.cont .set xs] | "len", [.cont (.ntuple _) xs] =>
    .ok (.int xs.length)
  | "len", [.dict ks _] => .ok (.int ks.length)
  | "len", [.str s] => .ok (.int s.length)
  | "sum", [.cont .list xs] | "sum", [.cont .tuple xs] => sumInts xs
  | "py_double", [x] => pyAdd x x
  | "py_swap", [a, b] => .ok (.cont .tuple [b, a])
  -- plain helpers whose VALUE is a container of task calls (to be reduced like any value)
  | "py_fan", [.int n] => .ok (L ((List.range n.toNat).map fun (i : Nat) => .call "ev.inc" [.int (Int.ofNat i)] [] [] [] []))
  | "py_plan", [x, .str k] =>
    .ok (.dict [.str "a", .str "b"] [.call "ev.inc" [x] [] [] [] [],
      .cont .tuple [x, .call "ev.raiser" [.str k, .str "pf"] [] [] [] []]])
  | "py_plan", [x, .none] =>
    .ok (.dict [.str "a", .str "b"] [.call "ev.inc" [x] [] [] [] [], .cont .tuple [x, .call "ev.twice" [x] [] [] [] []]])
  -- class Plan(n, kind): attribute `steps` is a bound method, `plan.steps()` a list of calls, `plan[i]` a tuple with a call
  | "getattr:Plan", [.int n, k, .str "steps"] => .ok (.objv "Plan.steps" [.int n, k])
  | "getattr:Plan", [.int n, _, .str "n"] => .ok (.int n)
  | "call:Plan.steps", [.int n, k] =>
    let calls := (List.range n.toNat).map fun (i : Nat) => Expr.call "ev.inc" [.int (Int.ofNat i)] [] [] [] []
    match k with
    | .str kind => .ok (L (calls ++ [.call "ev.raiser" [.str kind, .str "plan"] [] [] [] []]))
    | .none => .ok (L calls)
    | _ => .unk
  | "getitem:Plan", [.int n, _, .int i] => .ok (.cont .tuple [.int i, .call "ev.inc" [.int (i + n)] [] [] [] []])
  | _, _ => .unk

/-- library without tasks: enough for Python-level application inside task bodies -/
def pyLib : Lib := { task := fun _ => none, isSub := isSub, pyfunc := pyFunc, fields := fieldsOf }

def tcall (t : String) (args : List Expr) : Expr := .call t args [] [] [] []

def rangeE (n : Int) : List Expr := (List.range n.toNat).map (fun (i : Nat) => Expr.int (Int.ofNat i))

def errClassOf : String → Option String
  | "V" => some "ValueError"
  | "K" => some "KeyError"
  | "L" => some "LibError"
  | "S" => some "LibSubError"
  | "Z" => some "ZeroDivisionError"
  | "T" => some "TypeError"
  | _ => none

/-- `"%s" % x` for the values used as tags -/
def fmtS : Expr → Option String
  | .str s => some s
  | .int z => some (toString z)
  | _ => none

def raiserE (kind tag : Expr) : Out :=
  match kind, fmtS tag with
  | .str k, some t =>
    match errClassOf k with
    | some c => .err ⟨c, k ++ "-" ++ t⟩
    | none => .unk
  | _, _ => .unk

/-- `err.args[0]` when args is a single str -/
def errArg0 (x : Err) : Option String :=
  if x.msg.startsWith "!" then none else some x.msg

def countErrs (xs : List Expr) : Int :=
  (xs.filter (fun v => match v with | .errv _ => true | _ => false)).length

def seqItems : Expr → Option (List Expr)
  | .cont .list xs | .cont .tuple xs => some xs
  | _ => none

def concatSeqs : List Expr → Option (List Expr)
  | [] => some []
  | x :: xs => match seqItems x, concatSeqs xs with
    | some a, some b => some (a ++ b)
    | _, _ => none

/-- `list(zip(*lists))` -/
def zipAll : Nat → List (List Expr) → List Expr
  | 0, _ => []
  | n + 1, ls =>
    if ls.isEmpty || ls.any List.isEmpty then []
    else .cont .tuple (ls.filterMap List.head?) :: zipAll n (ls.map List.tail)

def composeApply (tasks args : List Expr) (kwn : List String) (kwv : List Expr) : Out :=
  match tasks.reverse with
  | [] => .unk      -- StopIteration inside the task: not modelled
  | t :: rest =>
    rest.foldl (fun acc t' => match acc with
        | .ok r => applyCallable pyLib t' [r] [] []
        | o => o)
      (applyCallable pyLib t args kwn kwv)

def tagPairs (ps : List (String × Expr)) : Expr := L (ps.map fun (k, v) => .cont .tuple [.str k, v])

def libTask : String → Option TaskDef
  | "ev.inc" => some <| mkTask [p "x"] fun a => pyAdd (a "x") (.int 1)
  | "ev.add" => some <| mkTask [p "a", pd "b" (.int 10)] fun a => pyAdd (a "a") (a "b")
  | "ev.mul" => some <| mkTask [p "a", p "b"] fun a => pyMul (a "a") (a "b")
  | "ev.neg" => some <| mkTask [p "x"] fun a =>
      match numOf (a "x") with
      | some z => .ok (.int (-z))
      | none => .unk
  | "ev.mklist" => some <| mkTask [p "n"] fun a =>
      match a "n" with
      | .int n => .ok (L (rangeE n))
      | _ => .unk
  | "ev.pair" => some <| mkTask [p "a", p "b"] fun a => .ok (.cont .tuple [a "a", a "b"])
  | "ev.total" => some <| mkTask [p "xs"] fun a =>
      match seqItems (a "xs") with
      | some xs => sumInts xs
      | none => .unk
  | "ev.raiser" => some <| mkTask [p "kind", p "tag"] fun a => raiserE (a "kind") (a "tag")
  | "ev.busy" | "ev.busy_lambda" | "ev.busy_local" => some <| mkTask [p "tag"] fun a =>
      match fmtS (a "tag") with
      | some t => .err ⟨"BusyError", "B-" ++ t⟩
      | none => .unk
  | "ev.mkplan" => some <| mkTask [p "n", pd "kind" .none] fun a => .ok (.objv "Plan" [a "n", a "kind"])
  | "ev.maybe_fail" => some <| mkTask [p "x", p "bad"] fun a =>
      match a "x", pyEq (a "x") (a "bad") with
      | .int z, some true => .err ⟨"ValueError", "bad-" ++ toString z⟩
      | _, some true => .unk
      | x, some false => .ok x
      | _, none => .unk
  | "ev.first" => some <| mkTask [p "xs"] fun a => pyGetitem (a "xs") (.int 0)
  | "ev.kwonly" => some <| mkTask [p "a", kwd "k" (.int 3), kw "m"] fun a =>
      match a "a", a "k", a "m" with
      | .int x, .int k, .int m => .ok (.int (x * 100 + k * 10 + m))
      | _, _, _ => .unk
  | "ev.varsum" => some <| mkTask [p "a", star "rest", kwd "scale" (.int 1)] fun a =>
      match a "a", a "rest", a "scale" with
      | .int x, .cont .tuple rest, .int s =>
        match intsOf rest with
        | some zs => .ok (.int ((x + zs.foldl (· + ·) 0) * s))
        | none => .unk
      | _, _, _ => .unk
  | "ev.addx" => some <| mkTask [p "a", pd "b" (tcall "ev.inc" [.int 1])] fun a => pyAdd (a "a") (a "b")
  | "ev.addxx" => some <| mkTask
      [p "a", pd "b" (tcall "ev.inc" [tcall "ev.inc" [.int 5]]), pd "c" (tcall "ev.add" [.int 1])] fun a =>
      .ok (L [a "a", a "b", a "c"])
  | "ev.dflt_fail" => some <| mkTask [p "a", pd "b" (tcall "ev.raiser" [.str "V", .str "dflt"])] fun a => .ok (a "a")
  | "ev.twice" => some <| mkTask [p "x"] fun a => .ok (tcall "ev.inc" [tcall "ev.inc" [a "x"]])
  | "ev.fan" => some <| mkTask [p "n"] fun a =>
      match a "n" with
      | .int n => .ok (L ((rangeE n).map fun i => tcall "ev.inc" [i]))
      | _ => .unk
  | "ev.rsum" => some <| mkTask [p "n"] fun a =>
      match a "n" with
      | .int n => if n ≤ 0 then .ok (.int 0) else .ok (tcall "ev.add" [.int n, tcall "ev.rsum" [.int (n - 1)]])
      | _ => .unk
  | "ev.countdown" => some <| mkTask [p "n"] fun a =>
      match a "n" with
      | .int n => if n ≤ 0 then .ok (.int n) else .ok (tcall "ev.countdown" [.int (n - 1)])
      | _ => .unk
  | "ev.apply2" => some <| mkTask [p "f", p "x"] fun a =>
      match applyCallable pyLib (a "f") [a "x"] [] [] with
      | .ok inner => applyCallable pyLib (a "f") [inner] [] []
      | o => o
  | "ev.choose" => some <| mkTask [p "c", p "a", p "b"] fun a =>
      .ok (.cond [a "c", tcall "ev.inc" [a "a"], tcall "ev.neg" [a "b"]])
  | "ev.guard" => some <| mkTask [p "x", p "bad"] fun a =>
      .ok (.catch (tcall "ev.maybe_fail" [a "x", a "bad"]) [.cls "ValueError"] [.taskv "ev.rec_val"])
  | "ev.guard_deep" => some <| mkTask [p "kind", p "tag"] fun a =>
      .ok (.catch (tcall "ev.inc" [tcall "ev.raiser" [a "kind", a "tag"]])
        [.cont .tuple [.cls "LibError", .cls "KeyError"], .cls "ValueError"]
        [.taskv "ev.rec_val", .taskv "ev.rec_raise"])
  | "ev.rec_val" => some <| mkTask [p "err"] fun a =>
      match a "err" with
      | .errv x => match errArg0 x with
        | some m => .ok (L [.str "rec", .str x.cls, .str m])
        | none => .unk
      | _ => .unk
  | "ev.rec_raise" => some <| mkTask [p "err"] fun a =>
      match a "err" with
      | .errv x => match errArg0 x with
        | some m => .err ⟨"LibError", "re-" ++ m⟩
        | none => .unk
      | _ => .unk
  | "ev.rec_zero" => some <| mkTask [p "err"] fun _ => .ok (.int 0)
  | "ev.rec_reraise" => some <| mkTask [p "err"] fun a =>
      match a "err" with
      | .errv x => .err x
      | _ => .unk
  | "ev.rec_count" => some <| mkTask [p "values"] fun a =>
      match seqItems (a "values") with
      | some xs => .ok (.int (countErrs xs))
      | none => .unk
  | "ev.rec_count_raise" => some <| mkTask [p "values"] fun a =>
      match seqItems (a "values") with
      | some xs => .err ⟨"LibError", "n=" ++ toString (countErrs xs)⟩
      | none => .unk
  | "ev.mkdict" => some <| mkTask [p "k", p "v"] fun a =>
      .ok (.dict [a "k", .str "n"] [tcall "ev.inc" [a "v"], L [a "v", tcall "ev.inc" [a "v"]]])
  | "ev.wrap_nt" => some <| mkTask [p "a", p "b"] fun a => .ok (.cont (.ntuple "P") [tcall "ev.inc" [a "a"], a "b"])
  | "ev.wrap_dc" => some <| mkTask [p "a", p "b"] fun a =>
      .ok (.cont (.dcls "D") [tcall "ev.inc" [a "a"], L [a "b", tcall "ev.inc" [a "b"]]])
  | "ev.nt_sum" => some <| mkTask [p "p"] fun a =>
      match a "p" with
      | .cont (.ntuple "P") [x, y] => pyAdd x y
      | _ => .unk
  | "ev.forker" => some <| mkTask [p "x"] fun a => .ok (.fork (tcall "ev.inc" [a "x"]))
  | "ev.joiner" => some <| mkTask [p "th"] fun a => .ok (.join (a "th"))
  | "ev.fork_join" => some <| mkTask [p "x"] fun a => .ok (tcall "ev.joiner" [tcall "ev.forker" [a "x"]])
  | "ev.fire_forget" => some <| mkTask [p "x", p "kind"] fun a =>
      .ok (tcall "redun.const" [a "x", .fork (tcall "ev.raiser" [a "kind", .str "ff"])])
  | "ev.fork_fail_join" => some <| mkTask [p "kind"] fun a =>
      .ok (tcall "ev.joiner" [.fork (tcall "ev.raiser" [a "kind", .str "fj"])])
  | "ev.fork_seq" => some <| mkTask [p "n"] fun a =>
      match a "n" with
      | .int n => .ok (.fork (.seq ((rangeE n).map fun i => tcall "ev.inc" [i])))
      | _ => .unk
  | "ev.fork_cond" => some <| mkTask [p "x"] fun a =>
      .ok (.fork (.cond [.op "eq" [tcall "ev.inc" [a "x"], .int 1], tcall "ev.twice" [.int 10],
        tcall "ev.neg" [tcall "ev.inc" [a "x"]]]))
  | "ev.fork_map" => some <| mkTask [p "n"] fun a => .ok (.fork (.map_ (.taskv "ev.inc") (tcall "ev.mklist" [a "n"])))
  | "ev.fork_catch" => some <| mkTask [p "kind"] fun a =>
      .ok (.fork (.catch (tcall "ev.inc" [tcall "ev.raiser" [a "kind", .str "fc"]]) [.cls "Exception"] [.taskv "ev.rec_val"]))
  | "ev.fork_lazy_call" => some <| mkTask [p "x"] fun a =>
      .ok (.fork (.op "call" [tcall "ev.first" [L [.taskv "ev.inc", a "x"]], .cont .tuple [a "x"], .dict [] []]))
  | "ev.fork_deep" => some <| mkTask [p "n", p "kind"] fun a =>
      .ok (.fork (.seq [tcall "ev.inc" [.int 1], tcall "ev.fail_after" [a "n", a "kind"], tcall "ev.inc" [.int 2]]))
  | "ev.join_all" => some <| mkTask [p "ths"] fun a =>
      match seqItems (a "ths") with
      | some ths => .ok (L (ths.map .join))
      | none => .unk
  | "ev.tagit" => some <| mkTask [p "x"] fun a =>
      .ok (.applyTags (tcall "ev.inc" [a "x"]) (tagPairs [("tk", .str "tv")]) (tagPairs [("jk", .int 1)])
        (tagPairs [("ek", .str "ev")]))
  | "ev.seq_list" => some <| mkTask [p "n"] fun a =>
      match a "n" with
      | .int n => .ok (.seq ((rangeE n).map fun i => tcall "ev.inc" [i]))
      | _ => .unk
  | "ev.mapper" => some <| mkTask [p "n"] fun a => .ok (.map_ (.taskv "ev.inc") (tcall "ev.mklist" [a "n"]))
  | "ev.fail_after" => some <| mkTask [p "n", p "kind"] fun a =>
      match a "n" with
      | .int n => if n ≤ 0 then .ok (tcall "ev.raiser" [a "kind", .str "deep"])
                  else .ok (tcall "ev.fail_after" [.int (n - 1), a "kind"])
      | _ => .unk
  | "ev.fail_in_list" => some <| mkTask [p "n", p "bad"] fun a =>
      match a "n" with
      | .int n => .ok (L ((rangeE n).map fun i => tcall "ev.maybe_fail" [i, a "bad"]))
      | _ => .unk
  | "ev.sub_twice" => some <| mkTask [p "x", pd "new_execution" (.bool false)] fun a =>
      match a "new_execution" with
      | .bool ne => .ok (.subrun (tcall "ev.twice" [a "x"]) ne)
      | _ => .unk
  | "ev.s_inc" => some <| mkTask [p "x"] fun a => pyAdd (a "x") (.int 1)
  | "ev.s_raiser" => some <| mkTask [p "kind", p "tag"] fun a => raiserE (a "kind") (a "tag")
  | "ev.s_fail_after" => some <| mkTask [p "n", p "kind"] fun a =>
      match a "n" with
      | .int n => if n ≤ 0 then .ok (tcall "ev.s_raiser" [a "kind", .str "sdeep"])
                  else .ok (tcall "ev.s_fail_after" [.int (n - 1), a "kind"])
      | _ => .unk
  -- tasks reading the context through default arguments / in their body
  | "ev.ctx_scale" => some <| mkTask [p "x", pd "k" (.getCtx "k" (.int 1)), pd "m" (.getCtx "m" (.int 1))] fun a =>
      match pyMul (a "x") (a "k") with
      | .ok xk => pyMul xk (a "m")
      | o => o
  | "ev.ctx_offset" => some <| mkTask [p "x", pd "j" (.getCtx "j" (.int 0))] fun a => pyAdd (a "x") (a "j")
  | "ev.ctx_flow" => some <| mkTask [p "x"] fun a =>
      match pyAdd (a "x") (.int 1) with
      | .ok x1 => .ok (L [tcall "ev.ctx_offset" [tcall "ev.ctx_scale" [a "x"]], tcall "ev.ctx_scale" [x1]])
      | o => o
  | "ev.ctx_body" => some <| mkTask [p "x"] fun a => .ok (L [a "x", .getCtx "k" (.int (-1)), .getCtx "q" .none])
  | "ev.ctx_inner_override" => some <| mkTask [p "x"] fun a =>
      .ok (L [.call "ev.ctx_scale" [a "x"] [] [] ["k"] [.int 9], tcall "ev.ctx_scale" [a "x"]])
  | "ev.a_inc" => some <| mkTask [p "x"] fun a => pyAdd (a "x") (.int 1)
  -- `y = await inc(x); return inc(y)`: the awaited expression is evaluated under the same job
  | "ev.a_twice" => some <| mkTask [p "x"] fun a => .ok (tcall "ev.inc" [tcall "ev.inc" [a "x"]])
  | "ev.a_fail" => some <| mkTask [p "tag"] fun a =>
      match fmtS (a "tag") with
      | some t => .err ⟨"LibError", "L-" ++ t⟩
      | none => .unk
  | "ev.a_await_fail" => some <| mkTask [p "kind", p "tag"] fun a => .ok (tcall "ev.raiser" [a "kind", a "tag"])
  -- redun.functools
  | "redun.identity" => some <| mkTask [p "x"] fun a => .ok (a "x")
  | "redun.const" => some <| mkTask [p "x", p "_"] fun a => .ok (a "x")
  | "redun.apply_func" => some
      { params := [p "func", star "args", starstar "kwargs"]
        body := fun args kwn kwv =>
          match args with
          | f :: rest => if kwn.contains "func" then .unk else applyCallable pyLib f rest kwn kwv
          | [] => .unk }
  | "redun.compose_apply" => some
      { params := [p "tasks", star "args", starstar "kwargs"]
        body := fun args kwn kwv =>
          match args with
          | ts :: rest =>
            if kwn.contains "tasks" then .unk else
            match seqItems ts with
            | some tasks => composeApply tasks rest kwn kwv
            | none => .unk
          | [] => .unk }
  | "redun.flatten" => some <| mkTask [p "list_of_lists"] fun a =>
      match seqItems (a "list_of_lists") with
      | some xs => match concatSeqs xs with
        | some ys => .ok (L ys)
        | none => .unk
      | none => .unk
  | "redun.flat_map" => some <| mkTask [p "a_task", p "values"] fun a =>
      .ok (tcall "redun.flatten" [.map_ (a "a_task") (a "values")])
  | "redun.zip_" => some
      { params := [star "lists"]
        body := fun args kwn _ =>
          if !kwn.isEmpty then .unk else
          match args.mapM seqItems with
          | some ls => .ok (L (zipAll (ls.foldl (fun m l => max m l.length) 0) ls))
          | none => .unk }
  | _ => none

def lib : Lib := { task := libTask, isSub := isSub, pyfunc := pyFunc, fields := fieldsOf }

end RedunModel.EvalLib
