/-
SchedCore — the scheduler's job bookkeeping (redun/scheduler.py) as a transition system.

Mirrors, event by event, `_exec_job_main_thread`, `_done_job_main_thread`, `_resolve_job_main_thread`,
`_reject_job_main_thread`, `_check_jobs_pending_limits`, `_check_pending_job`, `Job.collapse`,
`_finalize_job` (with the `fix:` commits of /repo: release-once flag `holds_limits`, re-check of
waiting jobs on the CSE / cache early exits, registration by provenance-recording jobs only via
setdefault, own-registration-only pop).

A *program* is a finite forest of job specifications (static positions, `SpecId`): evaluating the
result of a job with specification `i` creates one NEW job (fresh `JobId`, like a fresh Python `Job`
object) for every element of `children i` (all at once, arguments already values).  The only nondeterminism is which
in-flight job an executor thread reports next (`Step.complete`); everything else is the
deterministic processing of the FIFO event queue on the scheduler thread (`pop`).

Core Lean only.
-/
namespace RedunModel.SchedCore

abbrev JobId := Nat
abbrev SpecId := Nat
abbrev Res := Nat

inductive Scope where
  | none | cse | backend
  deriving DecidableEq, Repr, Inhabited

/-- What the backend already holds for a call before this execution starts. -/
inductive Pre where
  | miss
  | single      -- Evaluation entry: the task's own result is replayed, its children are evaluated again
  | ultimate    -- shallow-validity call-node hit: the final value is replayed, no children
  deriving DecidableEq, Repr, Inhabited

structure Spec where
  key : Nat                   -- eval hash (task hash + argument hash)
  ctx : Nat                   -- context hash; 0 = empty context (context_hash is None)
  limits : List (Res × Nat)   -- Job.get_limits() (list form = count 1 each)
  scope : Scope               -- evaluated cache_scope (NONE is forced when prov = false)
  cseOk : Bool                -- allowed_cache_results is None or contains CSE
  prov : Bool                 -- recording_provenance()
  execOk : Bool               -- executor exists and supports the task kind
  fails : Bool                -- the task function raises
  pre : Pre                   -- backend state before the execution (only consulted for scope = backend)
  children : List SpecId      -- specifications of the jobs created by evaluating the task's result
  deriving Repr, Inhabited

structure Prog where
  specs : List Spec           -- index = SpecId; specification 0 is the root call
  limit : Res → Nat           -- configured limit (1 for an unconfigured name)
  dryrun : Bool

def Prog.specAt (p : Prog) (i : SpecId) : Spec := p.specs.getD i default

inductive Ev where
  | exec (j : JobId)          -- `_exec_job` queued `_exec_job_main_thread`
  | done (j : JobId) (final : Bool)   -- `done_job`; final = the result needs no further evaluation
  | reject (j : JobId)        -- `reject_job`
  | resolve (j : JobId)       -- `_resolve_job`
  deriving DecidableEq, Repr, Inhabited

inductive Status where
  | pending | resolved | rejected
  deriving DecidableEq, Repr, Inhabited

structure JobSt where
  created : Bool := false
  wasCached : Bool := false
  status : Status := .pending       -- state of `result_promise`
  waiting : Nat := 0                -- children whose promise has not resolved yet (Promise.all)
  evalFailed : Bool := false        -- evaluation of the result already rejected
  parent : Option JobId := none
  twins : List JobId := []          -- jobs collapsed onto this one, in registration order
  deriving Repr, Inhabited

/-- One recorded (Job, CallNode) pair visible to the same-execution CSE query. -/
structure CseEntry where
  key : Nat
  ctx : Nat
  isErr : Bool
  deriving DecidableEq, Repr, Inhabited

structure S where
  next : Nat                        -- number of Job objects created so far (fresh ids are ≥ next)
  specOf : JobId → SpecId           -- the specification a job was created for (never changes)
  jobs : JobId → JobSt
  inflight : JobId → Bool           -- handed to an executor, completion not yet reported
  holds : JobId → Bool              -- `job.holds_limits`
  used : Res → Int                  -- `limits_used`
  pendingLimits : List JobId        -- `_jobs_pending_limits`
  pendingJobs : List ((Nat × Nat) × JobId)   -- `_pending_jobs`, keyed by (eval_hash, context_hash)
  cse : List CseEntry
  evalTable : List Nat              -- Evaluation rows written by this execution (`set_cache`)
  queue : List Ev                   -- `events_queue` (FIFO)
  submits : List JobId              -- log: jobs handed to an executor, in order
  finished : Bool                   -- the workflow promise has settled

def init : S :=
  { next := 1
    specOf := fun _ => 0
    jobs := fun j => if j = 0 then { created := true } else {}
    inflight := fun _ => false
    holds := fun _ => false
    used := fun _ => 0
    pendingLimits := []
    pendingJobs := []
    cse := []
    evalTable := []
    queue := [.exec 0]
    submits := []
    finished := false }

/-! ### limits -/

def dem (l : List (Res × Nat)) (r : Res) : Nat :=
  (l.filter (fun p => p.1 == r)).foldl (fun a p => a + p.2) 0

/-- `_is_job_within_limits(proposed)` where `proposed = job_limits + ready` (`_add_limits`). -/
def within (p : Prog) (used : Res → Int) (keys : List Res) (amount : Res → Nat) : Bool :=
  keys.all fun r => decide ((p.limit r : Int) - used r - (amount r : Int) ≥ 0)

def keysOf (l : List (Res × Nat)) : List Res := l.map (·.1)

/-- the specification of job `j` -/
def spec (p : Prog) (s : S) (j : JobId) : Spec := p.specAt (s.specOf j)

def jobWithin (p : Prog) (s : S) (j : JobId) : Bool :=
  within p s.used (keysOf (spec p s j).limits) (dem (spec p s j).limits)

def consume (p : Prog) (s : S) (j : JobId) : S :=
  { s with used := fun r => s.used r + (dem (spec p s j).limits r : Int)
           holds := fun i => if i = j then true else s.holds i }

def release (p : Prog) (s : S) (j : JobId) : S :=
  { s with used := fun r => s.used r - (dem (spec p s j).limits r : Int)
           holds := fun i => if i = j then false else s.holds i }

def enqueue (s : S) (e : Ev) : S := { s with queue := s.queue ++ [e] }

/-- The scan of `_check_jobs_pending_limits`: returns (ready, notReady) given the cumulative
demand `acc` (with key list `accKeys`) of the jobs nominated so far. -/
def scanPending (p : Prog) (specOf : JobId → SpecId) (used : Res → Int) :
    List JobId → List Res → (Res → Nat) → List JobId × List JobId
  | [], _, _ => ([], [])
  | j :: rest, accKeys, acc =>
    let lim := (p.specAt (specOf j)).limits
    let keys := keysOf lim ++ accKeys
    let amount := fun r => dem lim r + acc r
    if within p used keys amount then
      let (rd, nr) := scanPending p specOf used rest keys amount
      (j :: rd, nr)
    else
      let (rd, nr) := scanPending p specOf used rest accKeys acc
      (rd, j :: nr)

def checkPending (p : Prog) (s : S) : S :=
  let (rd, nr) := scanPending p s.specOf s.used s.pendingLimits [] (fun _ => 0)
  { s with pendingLimits := nr, queue := s.queue ++ rd.map Ev.exec }

/-! ### CSE / cache lookups -/

def optedIn (sp : Spec) : Bool := sp.scope != .none && sp.cseOk

def lookupPending (s : S) (k : Nat × Nat) : Option JobId :=
  (s.pendingJobs.find? (fun e => e.1 == k)).map (·.2)

/-- The same-execution CSE query of `check_cache`: the context filter is applied only when the
job has a context (`if context_hash:`), so a context-free lookup matches entries of any context. -/
def cseLookup (s : S) (sp : Spec) : Option CseEntry :=
  s.cse.reverse.find? (fun e => e.key == sp.key && (sp.ctx == 0 || e.ctx == sp.ctx))

inductive Hit where
  | cse (isErr : Bool) | ultimate | single | miss
  deriving DecidableEq, Repr

/-- `_get_cache` / `check_cache` -/
def cacheLookup (s : S) (sp : Spec) : Hit :=
  if sp.scope == .none then .miss
  else
    match (if sp.cseOk then cseLookup s sp else none) with
    | some e => .cse e.isErr
    | none =>
      if sp.scope == .backend then
        match sp.pre with
        | .ultimate => .ultimate
        | .single => .single
        | .miss => if s.evalTable.contains sp.key then .single else .miss
      else .miss

def setJob (s : S) (j : JobId) (f : JobSt → JobSt) : S :=
  { s with jobs := fun i => if i = j then f (s.jobs i) else s.jobs i }

/-! ### event handlers -/

/-- `_exec_job_main_thread` -/
def execJob (p : Prog) (s : S) (j : JobId) : S :=
  let sp := spec p s j
  let k := (sp.key, sp.ctx)
  match (if optedIn sp then lookupPending s k else none) with
  | some t =>
    -- Job.collapse: wait for the twin; then re-check the jobs waiting for limits (fix)
    checkPending p (setJob s t fun js => { js with twins := js.twins ++ [j] })
  | none =>
    match cacheLookup s sp with
    | .cse isErr =>
      let s := setJob s j fun js => { js with wasCached := true }
      let s := checkPending p s
      enqueue s (if isErr then .reject j else .done j true)
    | .ultimate =>
      let s := setJob s j fun js => { js with wasCached := true }
      let s := checkPending p s
      enqueue s (.done j true)
    | .single =>
      let s := setJob s j fun js => { js with wasCached := true }
      let s := checkPending p s
      enqueue s (.done j false)
    | .miss =>
      if !p.dryrun && !jobWithin p s j then { s with pendingLimits := s.pendingLimits ++ [j] }
      else
        let s := if p.dryrun then s else consume p s j
        if !sp.execOk then enqueue s (.reject j)
        else if p.dryrun then s      -- "Stop short of submitting jobs during a dryrun"
        else
          -- `if job.recording_provenance(): self._pending_jobs.setdefault(key, job)`
          let s := if !sp.prov || (lookupPending s k).isSome then s
                   else { s with pendingJobs := s.pendingJobs ++ [(k, j)] }
          { s with inflight := fun i => if i = j then true else s.inflight i
                   submits := s.submits ++ [j] }

/-- creation of the child jobs of `j` (evaluate(result, parent_job=j)): one fresh Job per child
specification, each with its `_exec_job` event -/
def spawnOne (s : S) (j : JobId) (c : SpecId) : S :=
  let i := s.next
  { s with next := s.next + 1
           specOf := fun x => if x = i then c else s.specOf x
           jobs := fun x => if x = i then { created := true, parent := some j } else s.jobs x
           queue := s.queue ++ [.exec i] }

def spawn (s : S) (j : JobId) (cs : List SpecId) : S :=
  let s := cs.foldl (fun s c => spawnOne s j c) s
  let s := setJob s j fun js => { js with waiting := cs.length }
  if cs.isEmpty then enqueue s (.resolve j) else s

/-- `_done_job_main_thread` -/
def doneJob (p : Prog) (s : S) (j : JobId) (final : Bool) : S :=
  let s := if s.holds j then checkPending p (release p s j) else s
  -- set_cache: always written for an executed job that records provenance
  let s := if !(s.jobs j).wasCached && (spec p s j).prov then { s with evalTable := (spec p s j).key :: s.evalTable } else s
  if final then enqueue s (.resolve j) else spawn s j (spec p s j).children

def finalize (p : Prog) (s : S) (j : JobId) : S :=
  let sp := spec p s j
  if lookupPending s (sp.key, sp.ctx) = some j then
    { s with pendingJobs := s.pendingJobs.filter (fun e => e.1 != (sp.key, sp.ctx)) }
  else s

def record (p : Prog) (s : S) (j : JobId) (isErr : Bool) : S :=
  let sp := spec p s j
  if sp.prov then { s with cse := s.cse ++ [{ key := sp.key, ctx := sp.ctx, isErr := isErr }] } else s

/-- the parent's `Promise.all` learns that child `j` resolved -/
def notifyParentResolved (s : S) (j : JobId) : S :=
  match (s.jobs j).parent with
  | none => { s with finished := true }
  | some par =>
    let s := setJob s par fun js => { js with waiting := js.waiting - 1 }
    if (s.jobs par).waiting = 0 && !(s.jobs par).evalFailed then enqueue s (.resolve par) else s

def notifyParentRejected (s : S) (j : JobId) : S :=
  match (s.jobs j).parent with
  | none => { s with finished := true }
  | some par =>
    if (s.jobs par).evalFailed then s
    else enqueue (setJob s par fun js => { js with evalFailed := true }) (.reject par)

/-- `_resolve_job_main_thread` -/
def resolveJob (p : Prog) (s : S) (j : JobId) : S :=
  let s := record p s j false
  let s := setJob s j fun js => { js with status := .resolved }
  let s := notifyParentResolved s j
  let s := (s.jobs j).twins.foldl (fun s t =>
    enqueue (setJob s t fun js => { js with wasCached := true }) (.done t true)) s
  finalize p s j

/-- the in-line `_reject_job_main_thread(twin)` run by `Job.collapse`'s `fail` callback
(a collapsed job holds no limits and has no twins of its own) -/
def rejectTwin (p : Prog) (s : S) (t : JobId) : S :=
  let s := setJob s t fun js => { js with wasCached := true }
  let s := record p s t true
  let s := setJob s t fun js => { js with status := .rejected }
  let s := notifyParentRejected s t
  finalize p s t

/-- `_reject_job_main_thread` -/
def rejectJob (p : Prog) (s : S) (j : JobId) : S :=
  let s := if s.holds j then checkPending p (release p s j) else s
  let s := record p s j true
  let s := setJob s j fun js => { js with status := .rejected }
  let s := notifyParentRejected s j
  let s := (s.jobs j).twins.foldl (rejectTwin p) s
  finalize p s j

def handle (p : Prog) (s : S) : Ev → S
  | .exec j => execJob p s j
  | .done j f => doneJob p s j f
  | .reject j => rejectJob p s j
  | .resolve j => resolveJob p s j

/-- process the head of the event queue -/
def pop (p : Prog) (s : S) : S :=
  match s.queue with
  | [] => s
  | e :: rest => handle p { s with queue := rest } e

/-- an executor thread reports job `j` -/
def complete (p : Prog) (s : S) (j : JobId) : S :=
  let s := { s with inflight := fun i => if i = j then false else s.inflight i }
  enqueue s (if (spec p s j).fails then .reject j else .done j false)

inductive Step (p : Prog) : S → S → Prop
  | pop (s : S) : s.finished = false → s.queue ≠ [] → Step p s (pop p s)
  | complete (s : S) (j : JobId) : s.finished = false → s.inflight j = true →
      Step p s (complete p s j)

inductive Reachable (p : Prog) : S → Prop
  | init : Reachable p init
  | step {s t : S} : Reachable p s → Step p s t → Reachable p t

/-- A schedule: at each point either process the queue head or let in-flight job `j` report. -/
inductive Choice where
  | pop | complete (j : JobId)
  deriving Repr

def runChoice (p : Prog) (s : S) : Choice → S
  | .pop => if s.finished || s.queue.isEmpty then s else pop p s
  | .complete j => if s.finished || !s.inflight j then s else complete p s j

def run (p : Prog) (cs : List Choice) : S := cs.foldl (runChoice p) init

end RedunModel.SchedCore
