/-
Model of redun's task-option machinery (property C27).  Core Lean only.

Mirrors, as they are in /repo:
  * `redun/task.py::Task._validate` (option part)     → `normalize`, `validate`
  * `redun/task.py::task` (decorator, `export_options=`) → `mkTask`
  * `redun/task.py::Task.options`                      → `TaskV.options`
  * `redun/task.py::Task.export_options`               → `TaskV.exportOptions`
  * `redun/task.py::Task.get_task_options`             → `taskOptions`
  * `redun/task.py::Task.__getstate__/__setstate__`    → `TaskV.roundtrip` (pickle / cache round trip of a Task value)
  * `redun/task.py::Task.__call__`                     → a `Call` (the expression carries the called variant's
                                                         `_task_options_override` and `_export_options`; the job's
                                                         task is looked up in the registry by name = `reg`)
  * `redun/scheduler.py::Job.__init__` (export_options) → `exportsStep`
  * `redun/scheduler.py::Job.get_export_options`       → `inherited`
  * `redun/scheduler.py::Scheduler._evaluate_apply` (`job_options`) → `forced`
  * `redun/scheduler.py::Job.get_raw_options`          → `rawOptions`
  * `redun/scheduler.py::_evaluate_apply.options_then` → `evalOptions`
  * `redun/scheduler.py::Job.recording_provenance`     → `recProv`
  * `redun/scheduler.py::with_export_options`          → a `Call` of the option-less task `redun.with_export_options`
                                                         through `exportOptions` (built by `wxCall`)

A Python `dict` is an association list with `dset` (= `d[k] = v`: replace in place, else append), `dmerge a b`
(= `{**a, **b}`), `dpop`.  A Python `set` of names is a list read through `∈`.
Option values: `Val` may contain task-call expressions (`call id ret` = the expression `val(id, ret)` of a task
returning its argument); `CVal` is a value without expressions — what `Scheduler.evaluate` returns.
An enum member is `enum cls value` (`CacheScope.CSE` = `enum "CacheScope" "CSE"`).
-/
namespace RedunModel.Options

/-! ### values -/

/-- evaluated option value (no expression inside) -/
inductive CVal where
  | none
  | bool (b : Bool)
  | int (i : Int)
  | str (s : String)
  | enum (cls val : String)
  | list (l : List CVal)
  deriving Repr, Inhabited

/-- option value as written by the user: may contain `TaskExpression`s -/
inductive Val where
  | none
  | bool (b : Bool)
  | int (i : Int)
  | str (s : String)
  | enum (cls val : String)
  | list (l : List Val)
  | call (id : String) (ret : Val)
  deriving Repr, Inhabited

mutual
/-- an evaluated value put back into a raw option dict (inherited and scheduler-imposed options) -/
def embed : CVal → Val
  | .none => .none
  | .bool b => .bool b
  | .int i => .int i
  | .str s => .str s
  | .enum c v => .enum c v
  | .list l => .list (embedL l)
def embedL : List CVal → List Val
  | [] => []
  | v :: t => embed v :: embedL t
end

mutual
/-- `Scheduler.evaluate` on an option value: a call of a task returning `ret` evaluates to the evaluated `ret`;
containers are mapped (`map_nested_value`). -/
def evalVal : Val → CVal
  | .none => .none
  | .bool b => .bool b
  | .int i => .int i
  | .str s => .str s
  | .enum c v => .enum c v
  | .list l => .list (evalL l)
  | .call _ ret => evalVal ret
def evalL : List Val → List CVal
  | [] => []
  | v :: t => evalVal v :: evalL t
end

mutual
/-- ids of the jobs created by evaluating the value (every task call inside it, arguments included) -/
def calls : Val → List String
  | .list l => callsL l
  | .call id ret => id :: calls ret
  | _ => []
def callsL : List Val → List String
  | [] => []
  | v :: t => calls v ++ callsL t
end

inductive Err where
  | typeError
  | valueError
  deriving Repr, DecidableEq, Inhabited

/-- `bool(v)` on an evaluated value -/
def CVal.truthy : CVal → Bool
  | .none => false
  | .bool b => b
  | .int i => i != 0
  | .str s => s != ""
  | .enum _ _ => true
  | .list l => !l.isEmpty

/-- `bool(v)` on a raw value: `Expression.__bool__` raises `TypeError` -/
def Val.truthy : Val → Except Err Bool
  | .none => .ok false
  | .bool b => .ok b
  | .int i => .ok (i != 0)
  | .str s => .ok (s != "")
  | .enum _ _ => .ok true
  | .list l => .ok (!l.isEmpty)
  | .call _ _ => .error .typeError

/-! ### dicts -/

abbrev Dict (α : Type) := List (String × α)

/-- `d[k] = v` -/
def dset (k : String) (v : α) : Dict α → Dict α
  | [] => [(k, v)]
  | (k', v') :: t => if k' = k then (k', v) :: t else (k', v') :: dset k v t

/-- `{**a, **b}` -/
def dmerge (a b : Dict α) : Dict α := b.foldl (fun d kv => dset kv.1 kv.2 d) a

/-- `d.pop(k)` (the dict that remains) -/
def dpop (k : String) (d : Dict α) : Dict α := d.filter fun kv => kv.1 != k

def keys (d : Dict α) : List String := d.map Prod.fst

def hasKey (k : String) (d : Dict α) : Bool := (d.lookup k).isSome

/-- what a Python dict guarantees: keys are unique -/
def WF (d : Dict α) : Prop := (keys d).Nodup

def mapVals (f : α → β) (d : Dict α) : Dict β := d.map fun kv => (kv.1, f kv.2)

/-! ### tasks (`redun/task.py`) -/

/-- the option-related state of a `Task` object -/
structure TaskV where
  base : Dict Val          -- `_task_options_base`
  over : Dict Val          -- `_task_options_override`
  exports : List String    -- `_export_options` (a set)
  deriving Repr, Inhabited

def scopeMembers : List String := ["NONE", "CSE", "BACKEND"]
def checkValidMembers : List String := ["full", "shallow"]

/-- `EnumClass(v)`: a member of the class stays, a member's value is looked up, anything else is a `ValueError` -/
def coerceEnum (cls : String) (members : List String) : Val → Except Err Val
  | .enum c v => if c = cls then .ok (.enum c v) else .error .valueError
  | .str s => if s ∈ members then .ok (.enum cls s) else .error .valueError
  | _ => .error .valueError

def scopeV (s : String) : Val := .enum "CacheScope" s
def scopeC (s : String) : CVal := .enum "CacheScope" s

/-- `if "cache" in d: v = d.pop("cache"); d["cache_scope"] = BACKEND if v else CSE` -/
def normCache (d : Dict Val) : Except Err (Dict Val) :=
  match d.lookup "cache" with
  | some v =>
    match v.truthy with
    | .ok b => .ok (dset "cache_scope" (scopeV (if b then "BACKEND" else "CSE")) (dpop "cache" d))
    | .error e => .error e
  | none => .ok d

/-- `if key in d: d[key] = EnumClass(d[key])` -/
def normEnum (key cls : String) (members : List String) (d : Dict Val) : Except Err (Dict Val) :=
  match d.lookup key with
  | some v =>
    match coerceEnum cls members v with
    | .ok e => .ok (dset key e d)
    | .error e => .error e
  | none => .ok d

/-- the loop body of `Task._validate` over one options dict -/
def normalize (d : Dict Val) : Except Err (Dict Val) :=
  normCache d >>= normEnum "cache_scope" "CacheScope" scopeMembers >>= normEnum "check_valid" "CacheCheckValid" checkValidMembers

/-- `Task._validate`: both dicts are normalised; `prov` is exported automatically -/
def validate (t : TaskV) : Except Err TaskV := do
  let b ← normalize t.base
  let o ← normalize t.over
  pure { base := b, over := o,
         exports := if hasKey "prov" b || hasKey "prov" o then t.exports ++ ["prov"] else t.exports }

/-- `@task(export_options=defExport, **opts)`; `defExport = []` stands for `None`/`{}` -/
def mkTask (opts defExport : Dict Val) : Except Err TaskV :=
  if defExport.isEmpty then validate { base := opts, over := [], exports := [] }
  else validate { base := dmerge opts defExport, over := [], exports := keys defExport }

/-- `Task.options(**upd)`: the new task is built WITHOUT `export_options` -/
def TaskV.options (t : TaskV) (upd : Dict Val) : Except Err TaskV :=
  validate { base := t.base, over := dmerge t.over upd, exports := [] }

/-- `Task.export_options(**upd)` -/
def TaskV.exportOptions (t : TaskV) (upd : Dict Val) : Except Err TaskV :=
  let ex := t.exports ++ keys upd
  let ex := if "cache" ∈ ex then ex ++ ["cache_scope"] else ex
  validate { base := t.base, over := dmerge t.over upd, exports := ex }

/-- A pickle round trip of a Task VALUE (`Task.__getstate__` / `__setstate__`; also what a cache hit of a job that
returned the task does): `_task_options_override` and `_export_options` travel in the state, `_task_options_base`
is taken from the task registered under the same name (`reg`), then `_validate` runs. -/
def TaskV.roundtrip (t reg : TaskV) : Except Err TaskV :=
  validate { base := reg.base, over := t.over, exports := t.exports }

inductive TaskOp where
  | options (upd : Dict Val)
  | exportOptions (upd : Dict Val)
  | roundtrip
  deriving Repr, Inhabited

/-- `reg`: the registered task the chain of calls started from -/
def applyOp (reg t : TaskV) : TaskOp → Except Err TaskV
  | .options u => t.options u
  | .exportOptions u => t.exportOptions u
  | .roundtrip => t.roundtrip reg

def applyOps (reg t : TaskV) : List TaskOp → Except Err TaskV
  | [] => .ok t
  | op :: ops => do
    let t' ← applyOp reg t op
    applyOps reg t' ops

/-- `Task.get_task_options` -/
def taskOptions (t : TaskV) : Dict Val := dmerge t.base t.over

/-! ### jobs (`redun/scheduler.py`) -/

/-- One task call = one job.  `reg`: the task found in the registry under the expression's task name;
`var`: the task object that was called (`reg` after `.options(..)` / `.export_options(..)`), of which the
expression keeps `_task_options_override` (`expr._options`) and `_export_options`. -/
structure Call where
  reg : TaskV
  var : TaskV
  deriving Repr, Inhabited

/-- what child jobs read from an existing job -/
structure JobInfo where
  evalOpts : Dict CVal     -- `job.eval_options` = `job.get_options()`
  exports : List String    -- `job.export_options`
  deriving Repr, Inhabited

/-- `Job.recording_provenance`: `get_options().get("prov", True)` read as a bool -/
def recProv (o : Dict CVal) : Bool :=
  match o.lookup "prov" with
  | some v => v.truthy
  | none => true

/-- `Job.get_export_options` of the parent (`{}` for a root job) -/
def inherited : Option JobInfo → Dict CVal
  | none => []
  | some p => p.evalOpts.filter fun kv => kv.1 ∈ p.exports

/-- `job_options` in `_evaluate_apply` -/
def forced (useCache : Bool) (p : Option JobInfo) : Dict CVal :=
  (if useCache then [] else [("cache_scope", scopeC "CSE")]) ++
  (match p with
   | some p => if recProv p.evalOpts then [] else [("prov", .bool false)]
   | none => [])

/-- `Job.get_raw_options`: `{**task.get_task_options(), **parent_job_options, **expr._options, **job.options}` -/
def rawOptions (useCache : Bool) (p : Option JobInfo) (c : Call) : Dict Val :=
  dmerge (dmerge (dmerge (taskOptions c.reg) (mapVals embed (inherited p))) c.var.over)
    (mapVals embed (forced useCache p))

/-- `options_then`: the evaluated raw options, with `cache_scope := NONE` when provenance is off -/
def evalOptions (useCache : Bool) (p : Option JobInfo) (c : Call) : Dict CVal :=
  let e := mapVals evalVal (rawOptions useCache p c)
  if recProv e then e else dset "cache_scope" (scopeC "NONE") e

/-- `Job.__init__`: `task._export_options | expr._export_options | parent_job.export_options` -/
def parentExports : Option JobInfo → List String
  | some p => p.exports
  | none => []

def exportsStep (p : Option JobInfo) (c : Call) : List String :=
  c.reg.exports ++ c.var.exports ++ parentExports p

def jobStep (useCache : Bool) (p : Option JobInfo) (c : Call) : JobInfo :=
  { evalOpts := evalOptions useCache p c, exports := exportsStep p c }

/-- the job at the head of an ancestor chain (self first, root last); `none` for the empty chain -/
def jobInfo (useCache : Bool) : List Call → Option JobInfo
  | [] => none
  | c :: anc => some (jobStep useCache (jobInfo useCache anc) c)

/-- exported names of the job at the head of a chain -/
def exportsOf : List Call → List String
  | [] => []
  | c :: anc => c.reg.exports ++ c.var.exports ++ exportsOf anc

/-- ids of the jobs created while evaluating the raw options of a job (they are evaluated under the PARENT) -/
def optionJobs (d : Dict Val) : List String := d.flatMap fun kv => calls kv.2

def emptyTask : TaskV := { base := [], over := [], exports := [] }

/-- the call `val(id, ret)` inside an option value: a task without options, called as is -/
def plainCall : Call := { reg := emptyTask, var := emptyTask }

/-- `with_export_options(expr, options)` = `_with_export_options.export_options(**options)(expr)` -/
def wxCall (opts : Dict Val) : Except Err Call := do
  let v ← emptyTask.exportOptions opts
  pure { reg := emptyTask, var := v }

/-! ### job trees -/

inductive JTree where
  | node (id : String) (c : Call) (children : List JTree)
  deriving Repr, Inhabited

mutual
/-- top-down walk, as the scheduler creates jobs: every job is computed from its parent's `JobInfo` -/
def walk (useCache : Bool) (p : Option JobInfo) : JTree → List (String × JobInfo)
  | .node id c ch =>
    let j := jobStep useCache p c
    (id, j) :: walkL useCache (some j) ch
def walkL (useCache : Bool) (p : Option JobInfo) : List JTree → List (String × JobInfo)
  | [] => []
  | t :: ts => walk useCache p t ++ walkL useCache p ts
end

mutual
/-- the jobs created for expression-valued options: same parent as the job whose options they are -/
def walkOpt (useCache : Bool) (p : Option JobInfo) : JTree → List (String × JobInfo)
  | .node _ c ch =>
    (optionJobs (rawOptions useCache p c)).map (fun i => (i, jobStep useCache p plainCall)) ++
      walkOptL useCache (some (jobStep useCache p c)) ch
def walkOptL (useCache : Bool) (p : Option JobInfo) : List JTree → List (String × JobInfo)
  | [] => []
  | t :: ts => walkOpt useCache p t ++ walkOptL useCache p ts
end

mutual
/-- every node of a tree with its ancestor chain (self first); `anc` = chain of the tree's parent -/
def chainsOf (anc : List Call) : JTree → List (String × List Call)
  | .node id c ch => (id, c :: anc) :: chainsOfL (c :: anc) ch
def chainsOfL (anc : List Call) : List JTree → List (String × List Call)
  | [] => []
  | t :: ts => chainsOf anc t ++ chainsOfL anc ts
end

/-! ### a whole run (`Scheduler.run` of the root call) -/

inductive RunErr where
  | keyError
  deriving Repr, DecidableEq, Inhabited

/-- Number of parentless jobs of a run that record their start in the backend: the jobs evaluating the root
call's expression-valued options (no parent, no `prov` option: they always record) and the root job itself when it
records provenance.  `RedunBackendDb.record_job_start` pops the pending `Execution` for EVERY parentless job
(`self._executions.pop(job.execution.id)`), so the second one raises `KeyError` (current code, finding
C27-root-option-expression-crash). -/
def parentlessRecorded (useCache : Bool) (c : Call) : Nat :=
  (optionJobs (rawOptions useCache none c)).length + (if recProv (evalOptions useCache none c) then 1 else 0)

/-- the jobs of a run (tree jobs, option-value jobs), or the error the run ends with -/
def runTree (useCache : Bool) : JTree → Except RunErr (List (String × JobInfo) × List (String × JobInfo))
  | .node id c ch =>
    if parentlessRecorded useCache c ≥ 2 then .error .keyError
    else .ok (walk useCache none (.node id c ch), walkOpt useCache none (.node id c ch))

end RedunModel.Options
