/-
EvalCore — the redun expression language, the documented graph-reduction rules as a big-step
relation `Eval`, and an executable evaluator `evalAll` / `evalFuel`.

Mirrors (as the code is, not as it should be):
  redun/scheduler.py   Scheduler.evaluate, _evaluate_apply, get_arg_defaults, cond, catch, catch_all,
                       apply_tags, subrun / _subrun_root_task, fork_thread / join_thread
  redun/functools.py   seq, map_ (incl. the map-fusion into `compose_apply.partial(tasks)`)
  redun/expression.py  SimpleExpression operators (`_lazy_operation_registry`), ValueExpression
  redun/task.py        Task.__call__, PartialTask.__call__ (argument merge)
  redun/promise.py     Promise.all (first rejection wins: ANY failing sibling's error is admissible),
                       wait_promises (catch_all)
  docs/source/implementation/evaluation.md

What is *not* here: jobs, the event loop, limits, CSE / caching (results of deterministic tasks do not
depend on them), task options, context (`get_context`), executors.  Task bodies are a parameter
(`Lib.task`), arbitrary deterministic functions from evaluated arguments to an expression or an error.

Outcomes.  `Out.ok v` / `Out.err e` are results the rules prescribe; `Out.unk` is only produced by the
executable evaluator and means "the model does not say" (fuel ran out, or a Python behaviour that is not
modelled, e.g. the message of a TypeError of `1 + "a"`).  `Eval` never derives `unk`.

Nondeterminism.  `Promise.all` rejects with the first rejection it *observes*; which sibling that is
depends on timing.  The relation therefore allows the error of any failing sibling (`consErrHd`,
`consErrTl`), and `evalAll` computes the *set* of admissible outcomes.  `evalFuel` answers only when that
set is a singleton.
-/
namespace RedunModel.EvalCore

/-- A Python exception instance: class name and the canonical text of `args`
(`args[0]` when `args` is a single `str`, otherwise `"!" ++ repr(args)`). -/
structure Err where
  cls : String
  msg : String
  deriving DecidableEq, Repr, Inhabited

/-- Container types `map_nested_value` descends into (dict is a separate constructor). -/
inductive CKind where
  | list | tuple | set
  | ntuple (cls : String)
  | dcls (cls : String)
  deriving DecidableEq, Repr, Inhabited

inductive Expr where
  -- concrete leaves
  | none
  | bool (b : Bool)
  | int (z : Int)
  | str (s : String)
  | errv (e : Err)                       -- exception instance as a value
  | cls (name : String)                  -- exception class object
  | pyfunc (name : String)               -- plain Python function object
  | taskv (t : String)                   -- Task object
  | partialv (t : String) (args : List Expr) (kwn : List String) (kwv : List Expr)  -- PartialTask (arguments NOT evaluated)
  | threadv (e : Expr)                   -- redun Thread holding its expression
  | objv (cls : String) (args : List Expr)  -- instance of a plain user class (a leaf for `evaluate`); bound methods too
  | vexpr (v : Expr)                     -- ValueExpression(v)
  -- nested containers
  | cont (k : CKind) (items : List Expr)
  | dict (ks vs : List Expr)
  -- applications
  /-- TaskExpression; `ovn`/`ovv`: the `_context_override` option (`task.update_context(...)`), concrete values -/
  | call (t : String) (args : List Expr) (kwn : List String) (kwv : List Expr) (ovn : List String) (ovv : List Expr)
  | op (name : String) (args : List Expr)                                        -- SimpleExpression
  -- scheduler tasks (SchedulerExpression), raw arguments
  | cond (exprs : List Expr)
  | seq (exprs : List Expr)
  | catch (e : Expr) (clss recs : List Expr)
  | catchAll (exprs cls recover : Expr)
  | map_ (f values : Expr)
  | applyTags (v tags jtags etags : Expr)
  | fork (e : Expr)
  | join (th : Expr)
  | subrun (e : Expr) (newExec : Bool)
  | getCtx (key : String) (dflt : Expr)   -- redun.get_context(var_path, default), flat keys
  -- internal: `wait_promises` — evaluate and reify the outcome as `(True, v)` / `(False, error)`
  | settle (e : Expr)
  deriving Repr, Inhabited, BEq

inductive Out where
  | ok (v : Expr)
  | err (e : Err)
  | unk
  deriving Repr, Inhabited, BEq

abbrev Outs := List Out

/-- `[e1, e2, ...]` — also used for "evaluate these expressions jointly" (one `Promise.all`). -/
abbrev L (es : List Expr) : Expr := .cont .list es

/-! ## Task table -/

inductive PKind where
  | pos        -- POSITIONAL_ONLY / POSITIONAL_OR_KEYWORD
  | varPos     -- *args
  | kwOnly
  | varKw      -- **kwargs
  deriving DecidableEq, Repr, Inhabited

structure Param where
  name : String
  kind : PKind
  dflt : Option Expr
  deriving Repr, Inhabited

structure TaskDef where
  params : List Param
  /-- `task.func(*args, **kwargs)` on evaluated arguments: returned expression, raised error, or not modelled -/
  body : List Expr → List String → List Expr → Out

/-- A job's context, as a lookup function on (flat) variable names. -/
abbrev Ctx := String → Option Expr

def Ctx.empty : Ctx := fun _ => Option.none

def kvLookup : List String → List Expr → String → Option Expr
  | k :: ks, v :: vs, key => if k == key then some v else kvLookup ks vs key
  | _, _, _ => Option.none

/-- `merge_dicts([parent_context, context_override])` on flat keys: the override wins -/
def Ctx.override (c : Ctx) (ovn : List String) (ovv : List Expr) : Ctx :=
  fun k => match kvLookup ovn ovv k with
    | some v => some v
    | Option.none => c k

/-- `merge_dicts([config_context, run_context])`: what `Scheduler.run(context=...)` starts an execution with -/
def Ctx.over (base top : Ctx) : Ctx :=
  fun k => match top k with
    | some v => some v
    | Option.none => base k

structure Lib where
  task : String → Option TaskDef
  /-- `issubclass(c, d)` on exception class names -/
  isSub : String → String → Bool
  /-- application of a plain Python function object -/
  pyfunc : String → List Expr → List String → List Expr → Out
  /-- field names of a namedtuple / dataclass type -/
  fields : String → List String
  /-- the context of the scheduler configuration (`[scheduler] context`), which `subrun` forwards with the config -/
  config : Ctx := Ctx.empty

/-- `get_arg_defaults(task, args, kwargs)`: defaults of the parameters not given positionally or by keyword. -/
def argDefaultsAux (nargs : Nat) (kwn : List String) : Nat → List Param → List (String × Expr)
  | _, [] => []
  | i, p :: ps =>
    let rest := argDefaultsAux nargs kwn (i + 1) ps
    if i < nargs ∧ p.kind = .pos then rest
    else if kwn.contains p.name then rest
    else match p.dflt with
      | some d => (p.name, d) :: rest
      | none => rest

def argDefaults (ps : List Param) (nargs : Nat) (kwn : List String) : List (String × Expr) :=
  argDefaultsAux nargs kwn 0 ps

/-! ## Values -/

def isLeaf : Expr → Bool
  | .none | .bool _ | .int _ | .str _ | .errv _ | .cls _ | .pyfunc _ | .taskv _
  | .partialv _ _ _ _ | .threadv _ | .objv _ _ => true
  | _ => false

mutual
  /-- keys / set elements the model compares structurally: int, str, None, tuples of those -/
  def simpleKey : Expr → Bool
    | .int _ | .str _ | .none => true
    | .cont .tuple xs => simpleKeys xs
    | _ => false
  def simpleKeys : List Expr → Bool
    | [] => true
    | x :: xs => simpleKey x && simpleKeys xs
end

def nodupKeys : List Expr → Bool
  | [] => true
  | x :: xs => !(xs.contains x) && nodupKeys xs

/-- evaluated dict keys / set elements the model accepts (anything else: `unk`) -/
def keysOk (ks : List Expr) : Bool := simpleKeys ks && nodupKeys ks

def contOk (k : CKind) (vs : List Expr) : Bool :=
  match k with
  | .set => keysOk vs
  | _ => true

mutual
  /-- concrete values: what an evaluation returns; evaluating one again returns it unchanged -/
  def isValue : Expr → Bool
    | .none | .bool _ | .int _ | .str _ | .errv _ | .cls _ | .pyfunc _ | .taskv _
    | .partialv _ _ _ _ | .threadv _ | .objv _ _ => true
    | .cont k items => allValues items && contOk k items
    | .dict ks vs => allValues ks && allValues vs && keysOk ks
    | _ => false
  def allValues : List Expr → Bool
    | [] => true
    | x :: xs => isValue x && allValues xs
end

/-- Python truth value of a concrete value -/
def truthy : Expr → Bool
  | .none => false
  | .bool b => b
  | .int z => z != 0
  | .str s => s != ""
  | .cont (.dcls _) _ => true
  | .cont _ items => !items.isEmpty
  | .dict ks _ => !ks.isEmpty
  | _ => true

def typeName : Expr → Option String
  | .none => some "NoneType"
  | .bool _ => some "bool"
  | .int _ => some "int"
  | .str _ => some "str"
  | .cont .list _ => some "list"
  | .cont .tuple _ => some "tuple"
  | .cont .set _ => some "set"
  | .dict _ _ => some "dict"
  | _ => Option.none

/-! ## Python-level application -/

/-- `{**kw1, **kw2}` on parallel name/value lists: positions of `kw1` kept, overridden values, new keys appended -/
def kwMerge (n1 : List String) (v1 : List Expr) (n2 : List String) (v2 : List Expr) : List (String × Expr) :=
  let p1 := n1.zip v1
  let p2 := n2.zip v2
  p1.map (fun (k, v) => match p2.reverse.find? (fun q => q.1 == k) with
                        | some q => (k, q.2)
                        | Option.none => (k, v))
  ++ p2.filter (fun q => !(n1.contains q.1))

/-- `f(*args, **kwargs)` for a concrete `f` (Task.__call__, PartialTask.__call__, python functions). -/
def applyCallable (lib : Lib) (f : Expr) (args : List Expr) (kwn : List String) (kwv : List Expr) : Out :=
  match f with
  | .taskv t => .ok (.call t args kwn kwv [] [])
  | .partialv t pargs pkwn pkwv =>
    let kw := kwMerge pkwn pkwv kwn kwv
    .ok (.call t (pargs ++ args) (kw.map Prod.fst) (kw.map Prod.snd) [] [])
  | .pyfunc name => lib.pyfunc name args kwn kwv
  | .objv cls as => lib.pyfunc ("call:" ++ cls) (as ++ args) kwn kwv      -- `obj(...)`: `__call__` / a bound method
  | v => match typeName v with
    | some tn => .err ⟨"TypeError", "'" ++ tn ++ "' object is not callable"⟩
    | Option.none => .unk

/-- `isinstance(error, c)` for a raw class / tuple of classes; `none` = not a class spec (TypeError in Python). -/
def errMatches (lib : Lib) (x : Err) : Expr → Option Bool
  | .cls c => some (lib.isSub x.cls c)
  | .cont .tuple cs =>
    cs.foldr (fun c acc => match c, acc with
      | .cls c, some b => some (lib.isSub x.cls c || b)
      | _, _ => Option.none) (some false)
  | _ => Option.none

inductive Match where
  | hit (recover : Expr)
  | miss
  | bad

/-- the loop of `catch.promise_catch` over `zip(errors, recovers)` -/
def firstMatch (lib : Lib) (x : Err) : List Expr → List Expr → Match
  | c :: cs, r :: rs =>
    match errMatches lib x c with
    | some true => .hit r
    | some false => firstMatch lib x cs rs
    | Option.none => .bad
  | _, _ => .miss

/-! ## Operators (`_lazy_operation_registry`) -/

def numOf : Expr → Option Int
  | .int z => some z
  | .bool true => some 1
  | .bool false => some 0
  | _ => Option.none

mutual
  /-- Python `==` on the fragment the model covers (`none` = not modelled) -/
  def pyEq : Expr → Expr → Option Bool
    | .none, .none => some true
    | .str a, .str b => some (a == b)
    | .int a, .int b => some (a == b)
    | .int a, .bool b => some (a == (if b then 1 else 0))
    | .bool a, .int b => some ((if a then 1 else 0) == b)
    | .bool a, .bool b => some (a == b)
    | .cont .list xs, .cont .list ys => pyEqs xs ys
    | .cont .tuple xs, .cont .tuple ys => pyEqs xs ys
    | .none, .int _ | .none, .str _ | .none, .bool _ | .int _, .none | .str _, .none | .bool _, .none
    | .int _, .str _ | .str _, .int _ | .bool _, .str _ | .str _, .bool _ => some false
    | .cont .list _, .cont .tuple _ | .cont .tuple _, .cont .list _ => some false
    | .cont .list _, .int _ | .cont .list _, .str _ | .cont .list _, .none | .cont .list _, .bool _
    | .cont .tuple _, .int _ | .cont .tuple _, .str _ | .cont .tuple _, .none | .cont .tuple _, .bool _
    | .int _, .cont .list _ | .str _, .cont .list _ | .none, .cont .list _ | .bool _, .cont .list _
    | .int _, .cont .tuple _ | .str _, .cont .tuple _ | .none, .cont .tuple _ | .bool _, .cont .tuple _ => some false
    | _, _ => Option.none
  def pyEqs : List Expr → List Expr → Option Bool
    | [], [] => some true
    | x :: xs, y :: ys =>
      match pyEq x y with
      | some true => pyEqs xs ys
      | some false => (pyEqs xs ys).map (fun _ => false)
      | Option.none => Option.none
    | _, _ => some false
end

def pyLt : Expr → Expr → Option Bool
  | .str a, .str b => some (a < b)
  | a, b => match numOf a, numOf b with
    | some x, some y => some (x < y)
    | _, _ => Option.none

/-- canonical text of `KeyError(key).args` -/
def keyErrMsg : Expr → Option String
  | .str s => some s
  | .int z => some ("!(" ++ toString z ++ ",)")
  | _ => Option.none

def seqIndex (what : String) (xs : List Expr) (i : Int) : Out :=
  let n : Int := xs.length
  let j := if i < 0 then i + n else i
  if j < 0 ∨ j ≥ n then .err ⟨"IndexError", what ++ " index out of range"⟩
  else match xs[j.toNat]? with
    | some v => .ok v
    | Option.none => .unk

def dictLookup : List Expr → List Expr → Expr → Option Expr
  | k :: ks, v :: vs, key => if k == key then some v else dictLookup ks vs key
  | _, _, _ => Option.none

def fieldIndex : List String → String → Option Nat
  | [], _ => Option.none
  | f :: fs, name => if f == name then some 0 else (fieldIndex fs name).map (· + 1)

def boolOut : Option Bool → Out
  | some b => .ok (.bool b)
  | Option.none => .unk

def unsupportedOperand (sym : String) (a b : Expr) : Out :=
  match typeName a, typeName b with
  | some ta, some tb => .err ⟨"TypeError", "unsupported operand type(s) for " ++ sym ++ ": '" ++ ta ++ "' and '" ++ tb ++ "'"⟩
  | _, _ => .unk

def cannotConcat (what : String) (b : Expr) : Out :=
  match typeName b with
  | some tb => .err ⟨"TypeError", "can only concatenate " ++ what ++ " (not \"" ++ tb ++ "\") to " ++ what⟩
  | Option.none => .unk

/-- binary `a + b` (CPython's messages for the mismatches between int/bool/None/str/list/tuple/dict/set) -/
def pyAdd (a b : Expr) : Out :=
  match a, b with
  | .str x, .str y => .ok (.str (x ++ y))
  | .cont .list x, .cont .list y => .ok (.cont .list (x ++ y))
  | .cont .tuple x, .cont .tuple y => .ok (.cont .tuple (x ++ y))
  | .str _, _ => cannotConcat "str" b
  | .cont .list _, _ => cannotConcat "list" b
  | .cont .tuple _, .cont (.ntuple _) _ => .unk
  | .cont .tuple _, _ => cannotConcat "tuple" b
  | _, _ =>
    match numOf a, numOf b with
    | some x, some y => .ok (.int (x + y))
    | _, _ => unsupportedOperand "+" a b

def pySub (a b : Expr) : Out :=
  match numOf a, numOf b with
  | some x, some y => .ok (.int (x - y))
  | _, _ =>
    match a, b with
    | .cont .set _, .cont .set _ => .unk
    | _, _ => unsupportedOperand "-" a b

def isSeqVal : Expr → Bool
  | .str _ | .cont .list _ | .cont .tuple _ => true
  | _ => false

def pyMul (a b : Expr) : Out :=
  match numOf a, numOf b with
  | some x, some y => .ok (.int (x * y))
  | _, _ => if isSeqVal a || isSeqVal b then .unk else unsupportedOperand "*" a b

def pyDiv : Expr → Expr → Out
  | .int _, .int 0 => .err ⟨"ZeroDivisionError", "division by zero"⟩
  | _, _ => .unk     -- floats are outside the model

def pyGetitem (c key : Expr) : Out :=
  match c, key with
  | .cont .list xs, .int i => seqIndex "list" xs i
  | .cont .tuple xs, .int i => seqIndex "tuple" xs i
  | .cont (.ntuple _) xs, .int i => seqIndex "tuple" xs i
  | .dict ks vs, key =>
    if simpleKey key && simpleKeys ks then
      match dictLookup ks vs key with
      | some v => .ok v
      | Option.none => match keyErrMsg key with
        | some m => .err ⟨"KeyError", m⟩
        | Option.none => .unk
    else .unk
  | .int _, _ | .bool _, _ | .none, _ =>
    match typeName c with
    | some tn => .err ⟨"TypeError", "'" ++ tn ++ "' object is not subscriptable"⟩
    | Option.none => .unk
  | _, _ => .unk

def pyGetattr (lib : Lib) (obj field : Expr) : Out :=
  match obj, field with
  | .cont (.ntuple c) xs, .str f | .cont (.dcls c) xs, .str f =>
    match fieldIndex (lib.fields c) f with
    | some i => match xs[i]? with
      | some v => .ok v
      | Option.none => .unk
    | Option.none => .unk
  | _, _ => .unk

def strKeys : List Expr → Option (List String)
  | [] => some []
  | .str s :: ks => (strKeys ks).map (s :: ·)
  | _ => Option.none

/-- `func(*args)` of a SimpleExpression on evaluated arguments; the result is evaluated again by the scheduler -/
def applyOp (lib : Lib) (name : String) (vs : List Expr) : Out :=
  match name, vs with
  | "add", [a, b] => pyAdd a b
  | "radd", [a, b] => pyAdd b a
  | "sub", [a, b] => pySub a b
  | "rsub", [a, b] => pySub b a
  | "mul", [a, b] => pyMul a b
  | "rmul", [a, b] => pyMul b a
  | "div", [a, b] => pyDiv a b
  | "rdiv", [a, b] => pyDiv b a
  | "eq", [a, b] => boolOut (pyEq a b)
  | "ne", [a, b] => boolOut ((pyEq a b).map (!·))
  | "lt", [a, b] => boolOut (pyLt a b)
  | "gt", [a, b] => boolOut (pyLt b a)
  | "le", [a, b] => boolOut ((pyLt b a).map (!·))
  | "ge", [a, b] => boolOut ((pyLt a b).map (!·))
  | "and", [a, b] => .ok (if truthy a then b else a)
  | "rand", [a, b] => .ok (if truthy b then a else b)
  | "or", [a, b] => .ok (if truthy a then a else b)
  | "ror", [a, b] => .ok (if truthy b then b else a)
  | "getitem", [.objv cls as, k] => lib.pyfunc ("getitem:" ++ cls) (as ++ [k]) [] []     -- user `__getitem__`
  | "getitem", [c, k] => pyGetitem c k
  | "getattr", [.objv cls as, f] => lib.pyfunc ("getattr:" ++ cls) (as ++ [f]) [] []
  | "getattr", [o, f] => pyGetattr lib o f
  | "call", [f, .cont .tuple args, .dict ks kvs] =>
    match strKeys ks with
    | some kwn => applyCallable lib f args kwn kvs
    | Option.none => .unk
  | _, _ => .unk

/-! ## map_ helpers -/

/-- the `while isinstance(values, SchedulerExpression) and values.task_name == "redun.map_"` loop -/
def mapFuse : List Expr → Expr → List Expr × Expr
  | acc, .map_ f v => mapFuse (acc ++ [f]) v
  | acc, v => (acc, v)

/-- the task expression `map_` evaluates first: `a_task`, or `compose(*tasks)` after fusion -/
def mapTask (tasks : List Expr) : Expr :=
  match tasks with
  | [t] => t
  | ts => .partialv "redun.compose_apply" [.cont .tuple ts] [] []

/-- `[a_task(value) for value in values]` (Python level; stops at the first raising call) -/
def mapCalls (lib : Lib) (f : Expr) : List Expr → Out
  | [] => .ok (L [])
  | x :: xs =>
    match applyCallable lib f [x] [] [] with
    | .ok c => match mapCalls lib f xs with
      | .ok (.cont .list cs) => .ok (L (c :: cs))
      | .ok _ => .unk
      | o => o
    | o => o

/-- `isinstance(values, (list, tuple))` on the raw argument -/
def rawSeq : Expr → Option (List Expr)
  | .cont .list xs | .cont .tuple xs | .cont (.ntuple _) xs => some xs
  | _ => Option.none

/-- iteration over an evaluated `values` -/
def iterOf : Expr → Out
  | .cont .list xs | .cont .tuple xs | .cont (.ntuple _) xs => .ok (L xs)
  | .dict ks _ => .ok (L ks)
  | v => match v with
    | .none | .bool _ | .int _ => match typeName v with
      | some tn => .err ⟨"TypeError", "'" ++ tn ++ "' object is not iterable"⟩
      | Option.none => .unk
    | _ => .unk

/-! ## catch_all helpers -/

/-- terms of the nested value `exprs` (only one level of list/tuple, or a dict with leaf keys, or a single term) -/
def isContainer : Expr → Bool
  | .cont _ _ | .dict _ _ => true
  | _ => false

inductive Shape where
  | single
  | seqOf (k : CKind)
  | dictOf (n : Nat)

def termsOf : Expr → Option (Shape × List Expr)
  | .cont .list xs => if xs.any isContainer then Option.none else some (.seqOf .list, xs)
  | .cont .tuple xs => if xs.any isContainer then Option.none else some (.seqOf .tuple, xs)
  | .dict ks vs =>
    if ks.any isContainer || vs.any isContainer || ks.length != vs.length then Option.none
    else some (.dictOf ks.length, ks ++ vs)
  | .cont _ _ => Option.none
  | e => some (.single, [e])

/-- read back the reified outcomes of `settle`: values with errors in place, and the errors in term order -/
def unsettle : List Expr → Option (List Expr × List Err)
  | [] => some ([], [])
  | .cont .tuple [.bool true, v] :: rest => (unsettle rest).map fun (vs, es) => (v :: vs, es)
  | .cont .tuple [.bool false, .errv x] :: rest => (unsettle rest).map fun (vs, es) => (.errv x :: vs, x :: es)
  | _ => Option.none

def rebuild : Shape → List Expr → Out
  | .single, [v] => .ok v
  | .seqOf k, vs => if contOk k vs then .ok (.cont k vs) else .unk
  | .dictOf n, vs => if keysOk (vs.take n) then .ok (.dict (vs.take n) (vs.drop n)) else .unk
  | _, _ => .unk

/-- `all(isinstance(error, error_class) ...)` / first non-matching error -/
inductive AllMatch where
  | yes
  | no (x : Err)
  | bad

def allMatch (lib : Lib) (c : Expr) : List Err → AllMatch
  | [] => .yes
  | x :: xs =>
    match errMatches lib x c with
    | some true => allMatch lib c xs
    | some false => .no x
    | Option.none => .bad

def isListVal : Expr → Bool
  | .cont .list _ => true
  | _ => false

/-! ## The executable evaluator (set of admissible outcomes) -/

def Out.isOk : Out → Bool
  | .ok _ => true
  | _ => false

def bindO (rs : Outs) (k : Expr → Outs) : Outs :=
  rs.flatMap fun
    | .ok v => k v
    | .err e => [.err e]
    | .unk => [.unk]

def onList (k : List Expr → Outs) : Expr → Outs
  | .cont .list vs => k vs
  | _ => [.unk]

/-- continue with the elements of an evaluated list -/
def bindL (rs : Outs) (k : List Expr → Outs) : Outs := bindO rs (onList k)

/-- outcome(s) of a Python-level step followed by evaluation of what it returned -/
def thenEval (rec : Expr → Outs) : Out → Outs
  | .ok e => rec e
  | o => [o]

/-- one more element in front of a `Promise.all`: all ok, or the error of either side -/
def consJoin (rs tails : Outs) : Outs :=
  (rs.flatMap fun
    | .ok v => tails.flatMap fun
      | .ok (.cont .list vs) => [.ok (L (v :: vs))]
      | .ok _ => [.unk]
      | _ => []
    | _ => [])
  ++ rs.filter (fun r => !r.isOk) ++ tails.filter (fun r => !r.isOk)

def joinList : List Outs → Outs
  | [] => [.ok (L [])]
  | rs :: rest => consJoin rs (joinList rest)

/-- `Scheduler.evaluate([e1, ..., en])` given an evaluator for the terms -/
def evalList (rec : Expr → Outs) (es : List Expr) : Outs := joinList (es.map rec)

def condGo (rec : Expr → Outs) : List Expr → Outs
  | [c, t] =>
    bindO (rec c) fun cv =>
      if truthy cv then rec t else [.err ⟨"IndexError", "tuple index out of range"⟩]
  | [c, t, e] => bindO (rec c) fun cv => if truthy cv then rec t else rec e
  | c :: t :: c2 :: t2 :: rest =>
    bindO (rec c) fun cv => if truthy cv then rec t else condGo rec (c2 :: t2 :: rest)
  | _ => [.unk]

def seqGo (rec : Expr → Outs) : List Expr → Outs
  | [] => [.ok (L [])]
  | e :: es => bindO (rec e) fun v => bindL (seqGo rec es) fun vs => [.ok (L (v :: vs))]

def settleOut : Out → Out
  | .ok v => .ok (.cont .tuple [.bool true, v])
  | .err x => .ok (.cont .tuple [.bool false, .errv x])
  | .unk => .unk

/-- two groups evaluated jointly (`Promise.all([args_promise, default_kwargs_promise])`) -/
def bind2 (xs ys : Outs) (k : List Expr → List Expr → Outs) : Outs :=
  bindL (consJoin xs (consJoin ys [.ok (L [])])) fun
    | [.cont .list a, .cont .list d] => k a d
    | _ => [.unk]

/-- One layer of evaluation with the recursive calls abstracted (`rec` = evaluation with less fuel). -/
def step (lib : Lib) (recC : Ctx → Expr → Outs) (c : Ctx) (e : Expr) : Outs :=
  match e with
  | .none | .bool _ | .int _ | .str _ | .errv _ | .cls _ | .pyfunc _ | .taskv _
  | .partialv _ _ _ _ | .threadv _ | .objv _ _ => [.ok e]
  | .vexpr v => if isValue v then [.ok v] else [.unk]
  | .cont .list es => evalList (recC c) es
  | .cont k es => bindL (evalList (recC c) es) fun vs => if contOk k vs then [.ok (.cont k vs)] else [.unk]
  | .dict ks vs =>
    bindL (evalList (recC c) (ks ++ vs)) fun all =>
      if keysOk (all.take ks.length) then [.ok (.dict (all.take ks.length) (all.drop ks.length))] else [.unk]
  | .call t args kwn kwv ovn ovv =>
    match lib.task t with
    | Option.none => [.unk]
    | some td =>
      -- arguments under the caller's context; unspecified defaults and the body's result under the job's own context
      let c' := c.override ovn ovv
      let ds := argDefaults td.params args.length kwn
      bind2 (evalList (recC c) (args ++ kwv)) (evalList (recC c') (ds.map Prod.snd)) fun akv dvs =>
        thenEval (recC c') (td.body (akv.take args.length) (ds.map Prod.fst ++ kwn) (dvs ++ akv.drop args.length))
  | .op name args => bindL (evalList (recC c) args) fun vs => thenEval (recC c) (applyOp lib name vs)
  | .cond exprs => condGo (recC c) exprs
  | .seq exprs => seqGo (recC c) exprs
  | .catch e clss recs =>
    ((recC c) e).flatMap fun
      | .ok v => [.ok v]
      | .unk => [.unk]
      | .err x =>
        match firstMatch lib x clss recs with
        | .miss => [.err x]
        | .bad => [.unk]
        | .hit r => thenEval (recC c) (applyCallable lib r [.vexpr (.errv x)] [] [])
  | .catchAll exprs cls recover =>
    match termsOf exprs with
    | Option.none => [.unk]
    | some (shape, items) =>
      bindL (evalList (recC c) (items.map .settle)) fun outs =>
        match unsettle outs with
        | Option.none => [.unk]
        | some (vals, []) => [rebuild shape vals]
        | some (vals, x :: errs) =>
          if !isValue recover then [.unk]
          else if !truthy recover then [.err x]
          else bindL (evalList (recC c) [cls, recover]) fun
            | [cv, rv] =>
              match allMatch lib cv (x :: errs) with
              | .bad => [.unk]
              | .no y => [.err y]
              | .yes =>
                match rebuild shape vals with
                | .ok nv => thenEval (recC c) (applyCallable lib rv [nv] [] [])
                | o => [o]
            | _ => [.unk]
  | .map_ f values =>
    let (tasks, vals) := mapFuse [f] values
    bindO ((recC c) (mapTask tasks)) fun av =>
      match rawSeq vals with
      | some items => thenEval (recC c) (mapCalls lib av items)
      | Option.none =>
        bindO ((recC c) vals) fun vv =>
          match iterOf vv with
          | .ok (.cont .list items) => thenEval (recC c) (mapCalls lib av items)
          | .ok _ => [.unk]
          | o => [o]
  | .applyTags v tags jtags etags =>
    bindL (evalList (recC c) [v, tags, jtags, etags]) fun
      | [vv, tv, jv, ev] => if isListVal tv && isListVal jv && isListVal ev then [.ok vv] else [.unk]
      | _ => [.unk]
  | .fork e => [.ok (.threadv e)]
  | .join th =>
    match th with
    | .threadv e => (recC c) e
    | _ => [.unk]
  | .subrun e ne =>
    -- `run_config["context"]` = the calling job's context; a new execution starts from config context + that context,
    -- an extended one from a dummy parent job whose only override is that context
    let inner : Ctx := if ne then lib.config.over c else Ctx.empty.over c
    (recC inner e).flatMap fun
      | .ok v =>
        bindO ((recC c) (.dict [.str "result"] [v])) fun
          | .dict [_] [v'] => [.ok v']
          | _ => [.unk]
      | .err x => [.err x]
      | .unk => [.unk]
  | .getCtx key dflt =>
    if key.toList.contains '.' || !isValue dflt then [.unk]
    else match c key with
      | some v => if isValue v then [.ok v] else [.unk]
      | Option.none => [.ok dflt]
  | .settle e => ((recC c) e).map settleOut

/-- all admissible outcomes of `e` found with `n` layers of fuel (`unk` = fuel ran out / not modelled) -/
def evalAll (lib : Lib) : Nat → Ctx → Expr → Outs
  | 0, _, _ => [.unk]
  | n + 1, c, e => step lib (evalAll lib n) c e

/-- the outcome of `e`, when the model determines exactly one -/
def evalFuel (lib : Lib) (n : Nat) (c : Ctx) (e : Expr) : Option Out :=
  match evalAll lib n c e with
  | [.ok v] => some (.ok v)
  | [.err x] => some (.err x)
  | _ => Option.none

/-! ## The reduction rules as a big-step relation -/

set_option autoImplicit true in
inductive Eval (lib : Lib) : Ctx → Expr → Out → Prop
  -- concrete values evaluate to themselves
  | leaf {e} : isLeaf e = true → Eval lib cx e (.ok e)
  | vexpr {v} : isValue v = true → Eval lib cx (.vexpr v) (.ok v)
  -- eval([a, b, ...]) => [eval(a), eval(b), ...]; a rejected term rejects the whole (any of them may win)
  | nil : Eval lib cx (L []) (.ok (L []))
  | cons {e es v vs} : Eval lib cx e (.ok v) → Eval lib cx (L es) (.ok (L vs)) → Eval lib cx (L (e :: es)) (.ok (L (v :: vs)))
  | consErrHd {e es x} : Eval lib cx e (.err x) → Eval lib cx (L (e :: es)) (.err x)
  | consErrTl {e es x} : Eval lib cx (L es) (.err x) → Eval lib cx (L (e :: es)) (.err x)
  -- tuples, sets, named tuples, dataclasses, dicts
  | cont {k es vs} : k ≠ .list → Eval lib cx (L es) (.ok (L vs)) → contOk k vs = true →
      Eval lib cx (.cont k es) (.ok (.cont k vs))
  | contErr {k es x} : k ≠ .list → Eval lib cx (L es) (.err x) → Eval lib cx (.cont k es) (.err x)
  | dict {ks vs all} : Eval lib cx (L (ks ++ vs)) (.ok (L all)) → keysOk (all.take ks.length) = true →
      Eval lib cx (.dict ks vs) (.ok (.dict (all.take ks.length) (all.drop ks.length)))
  | dictErr {ks vs x} : Eval lib cx (L (ks ++ vs)) (.err x) → Eval lib cx (.dict ks vs) (.err x)
  -- TaskExpression: arguments, keyword arguments and unspecified defaults are evaluated jointly, then the
  -- body runs, then its result is evaluated
  | call {t args kwn kwv ovn ovv td akv dvs e' r} : lib.task t = some td →
      Eval lib cx (L (args ++ kwv)) (.ok (L akv)) →
      Eval lib (cx.override ovn ovv) (L ((argDefaults td.params args.length kwn).map Prod.snd)) (.ok (L dvs)) →
      td.body (akv.take args.length) ((argDefaults td.params args.length kwn).map Prod.fst ++ kwn)
        (dvs ++ akv.drop args.length) = .ok e' →
      Eval lib (cx.override ovn ovv) e' r → Eval lib cx (.call t args kwn kwv ovn ovv) r
  | callRaise {t args kwn kwv ovn ovv td akv dvs x} : lib.task t = some td →
      Eval lib cx (L (args ++ kwv)) (.ok (L akv)) →
      Eval lib (cx.override ovn ovv) (L ((argDefaults td.params args.length kwn).map Prod.snd)) (.ok (L dvs)) →
      td.body (akv.take args.length) ((argDefaults td.params args.length kwn).map Prod.fst ++ kwn)
        (dvs ++ akv.drop args.length) = .err x →
      Eval lib cx (.call t args kwn kwv ovn ovv) (.err x)
  | callArgErr {t args kwn kwv ovn ovv td x} : lib.task t = some td →
      Eval lib cx (L (args ++ kwv)) (.err x) → Eval lib cx (.call t args kwn kwv ovn ovv) (.err x)
  | callDefaultErr {t args kwn kwv ovn ovv td x} : lib.task t = some td →
      Eval lib (cx.override ovn ovv) (L ((argDefaults td.params args.length kwn).map Prod.snd)) (.err x) →
      Eval lib cx (.call t args kwn kwv ovn ovv) (.err x)
  -- SimpleExpression: evaluate the arguments, apply the operator, evaluate its result
  | op {name args vs e' r} : Eval lib cx (L args) (.ok (L vs)) → applyOp lib name vs = .ok e' → Eval lib cx e' r →
      Eval lib cx (.op name args) r
  | opRaise {name args vs x} : Eval lib cx (L args) (.ok (L vs)) → applyOp lib name vs = .err x →
      Eval lib cx (.op name args) (.err x)
  | opArgErr {name args x} : Eval lib cx (L args) (.err x) → Eval lib cx (.op name args) (.err x)
  -- cond
  | condErr {c t rest x} : Eval lib cx c (.err x) → Eval lib cx (.cond (c :: t :: rest)) (.err x)
  | condThen {c t rest cv r} : Eval lib cx c (.ok cv) → truthy cv = true → Eval lib cx t r →
      Eval lib cx (.cond (c :: t :: rest)) r
  | condElse {c t e cv r} : Eval lib cx c (.ok cv) → truthy cv = false → Eval lib cx e r →
      Eval lib cx (.cond [c, t, e]) r
  | condElif {c t c2 t2 rest cv r} : Eval lib cx c (.ok cv) → truthy cv = false →
      Eval lib cx (.cond (c2 :: t2 :: rest)) r → Eval lib cx (.cond (c :: t :: c2 :: t2 :: rest)) r
  | condNoElse {c t cv} : Eval lib cx c (.ok cv) → truthy cv = false →
      Eval lib cx (.cond [c, t]) (.err ⟨"IndexError", "tuple index out of range"⟩)
  -- seq: strictly left to right
  | seqNil : Eval lib cx (.seq []) (.ok (L []))
  | seqCons {e es v vs} : Eval lib cx e (.ok v) → Eval lib cx (.seq es) (.ok (L vs)) → Eval lib cx (.seq (e :: es)) (.ok (L (v :: vs)))
  | seqErrHd {e es x} : Eval lib cx e (.err x) → Eval lib cx (.seq (e :: es)) (.err x)
  | seqErrTl {e es v x} : Eval lib cx e (.ok v) → Eval lib cx (.seq es) (.err x) → Eval lib cx (.seq (e :: es)) (.err x)
  -- catch
  | catchOk {e clss recs v} : Eval lib cx e (.ok v) → Eval lib cx (.catch e clss recs) (.ok v)
  | catchMiss {e clss recs x} : Eval lib cx e (.err x) → firstMatch lib x clss recs = .miss →
      Eval lib cx (.catch e clss recs) (.err x)
  | catchHit {e clss recs x rc e' r} : Eval lib cx e (.err x) → firstMatch lib x clss recs = .hit rc →
      applyCallable lib rc [.vexpr (.errv x)] [] [] = .ok e' → Eval lib cx e' r → Eval lib cx (.catch e clss recs) r
  | catchHitRaise {e clss recs x rc y} : Eval lib cx e (.err x) → firstMatch lib x clss recs = .hit rc →
      applyCallable lib rc [.vexpr (.errv x)] [] [] = .err y → Eval lib cx (.catch e clss recs) (.err y)
  -- wait_promises: a term's outcome reified
  | settleOk {e v} : Eval lib cx e (.ok v) → Eval lib cx (.settle e) (.ok (.cont .tuple [.bool true, v]))
  | settleErr {e x} : Eval lib cx e (.err x) → Eval lib cx (.settle e) (.ok (.cont .tuple [.bool false, .errv x]))
  -- catch_all
  | catchAllOk {exprs cls recover shape items outs vals v} : termsOf exprs = some (shape, items) →
      Eval lib cx (L (items.map .settle)) (.ok (L outs)) → unsettle outs = some (vals, []) →
      rebuild shape vals = .ok v → Eval lib cx (.catchAll exprs cls recover) (.ok v)
  | catchAllFirst {exprs cls recover shape items outs vals x errs} : termsOf exprs = some (shape, items) →
      Eval lib cx (L (items.map .settle)) (.ok (L outs)) → unsettle outs = some (vals, x :: errs) →
      isValue recover = true → truthy recover = false → Eval lib cx (.catchAll exprs cls recover) (.err x)
  | catchAllArgErr {exprs cls recover shape items outs vals x errs y} : termsOf exprs = some (shape, items) →
      Eval lib cx (L (items.map .settle)) (.ok (L outs)) → unsettle outs = some (vals, x :: errs) →
      isValue recover = true → truthy recover = true → Eval lib cx (L [cls, recover]) (.err y) →
      Eval lib cx (.catchAll exprs cls recover) (.err y)
  | catchAllNoMatch {exprs cls recover shape items outs vals x errs cv rv y} : termsOf exprs = some (shape, items) →
      Eval lib cx (L (items.map .settle)) (.ok (L outs)) → unsettle outs = some (vals, x :: errs) →
      isValue recover = true → truthy recover = true → Eval lib cx (L [cls, recover]) (.ok (L [cv, rv])) →
      allMatch lib cv (x :: errs) = .no y → Eval lib cx (.catchAll exprs cls recover) (.err y)
  | catchAllRecover {exprs cls recover shape items outs vals x errs cv rv nv e' r} :
      termsOf exprs = some (shape, items) →
      Eval lib cx (L (items.map .settle)) (.ok (L outs)) → unsettle outs = some (vals, x :: errs) →
      isValue recover = true → truthy recover = true → Eval lib cx (L [cls, recover]) (.ok (L [cv, rv])) →
      allMatch lib cv (x :: errs) = .yes → rebuild shape vals = .ok nv →
      applyCallable lib rv [nv] [] [] = .ok e' → Eval lib cx e' r → Eval lib cx (.catchAll exprs cls recover) r
  | catchAllRecoverRaise {exprs cls recover shape items outs vals x errs cv rv nv y} :
      termsOf exprs = some (shape, items) →
      Eval lib cx (L (items.map .settle)) (.ok (L outs)) → unsettle outs = some (vals, x :: errs) →
      isValue recover = true → truthy recover = true → Eval lib cx (L [cls, recover]) (.ok (L [cv, rv])) →
      allMatch lib cv (x :: errs) = .yes → rebuild shape vals = .ok nv →
      applyCallable lib rv [nv] [] [] = .err y → Eval lib cx (.catchAll exprs cls recover) (.err y)
  -- map_
  | mapTaskErr {f values x} : Eval lib cx (mapTask (mapFuse [f] values).1) (.err x) → Eval lib cx (.map_ f values) (.err x)
  | mapRaw {f values av items e' r} : Eval lib cx (mapTask (mapFuse [f] values).1) (.ok av) →
      rawSeq (mapFuse [f] values).2 = some items → mapCalls lib av items = .ok e' → Eval lib cx e' r →
      Eval lib cx (.map_ f values) r
  | mapRawRaise {f values av items x} : Eval lib cx (mapTask (mapFuse [f] values).1) (.ok av) →
      rawSeq (mapFuse [f] values).2 = some items → mapCalls lib av items = .err x →
      Eval lib cx (.map_ f values) (.err x)
  | mapValuesErr {f values av x} : Eval lib cx (mapTask (mapFuse [f] values).1) (.ok av) →
      rawSeq (mapFuse [f] values).2 = Option.none → Eval lib cx (mapFuse [f] values).2 (.err x) →
      Eval lib cx (.map_ f values) (.err x)
  | mapNotIter {f values av vv x} : Eval lib cx (mapTask (mapFuse [f] values).1) (.ok av) →
      rawSeq (mapFuse [f] values).2 = Option.none → Eval lib cx (mapFuse [f] values).2 (.ok vv) →
      iterOf vv = .err x → Eval lib cx (.map_ f values) (.err x)
  | mapEval {f values av vv items e' r} : Eval lib cx (mapTask (mapFuse [f] values).1) (.ok av) →
      rawSeq (mapFuse [f] values).2 = Option.none → Eval lib cx (mapFuse [f] values).2 (.ok vv) →
      iterOf vv = .ok (L items) → mapCalls lib av items = .ok e' → Eval lib cx e' r → Eval lib cx (.map_ f values) r
  | mapEvalRaise {f values av vv items x} : Eval lib cx (mapTask (mapFuse [f] values).1) (.ok av) →
      rawSeq (mapFuse [f] values).2 = Option.none → Eval lib cx (mapFuse [f] values).2 (.ok vv) →
      iterOf vv = .ok (L items) → mapCalls lib av items = .err x → Eval lib cx (.map_ f values) (.err x)
  -- apply_tags returns its (evaluated) first argument
  | applyTags {v tags jtags etags vv tv jv ev} : Eval lib cx (L [v, tags, jtags, etags]) (.ok (L [vv, tv, jv, ev])) →
      isListVal tv = true → isListVal jv = true → isListVal ev = true →
      Eval lib cx (.applyTags v tags jtags etags) (.ok vv)
  | applyTagsErr {v tags jtags etags x} : Eval lib cx (L [v, tags, jtags, etags]) (.err x) →
      Eval lib cx (.applyTags v tags jtags etags) (.err x)
  -- fork_thread returns a Thread at once, whatever becomes of `e`; join_thread is the thread's outcome
  | fork {e} : Eval lib cx (.fork e) (.ok (.threadv e))
  | join {e r} : Eval lib cx e r → Eval lib cx (.join (.threadv e)) r
  -- subrun: the inner scheduler evaluates `e`; a value travels back inside the record `_subrun_root_task` returns,
  -- which the outer scheduler evaluates (as any task result) before `subrun.then` unwraps it; an error makes the
  -- `_subrun_root_task` job itself fail, for a new execution (`run` raises) and for an extended one alike
  | subrunOk {e ne v k v'} : Eval lib (if ne then lib.config.over cx else Ctx.empty.over cx) e (.ok v) →
      Eval lib cx (.dict [.str "result"] [v]) (.ok (.dict [k] [v'])) → Eval lib cx (.subrun e ne) (.ok v')
  | subrunOkErr {e ne v x} : Eval lib (if ne then lib.config.over cx else Ctx.empty.over cx) e (.ok v) →
      Eval lib cx (.dict [.str "result"] [v]) (.err x) → Eval lib cx (.subrun e ne) (.err x)
  | subrunErr {e ne x} : Eval lib (if ne then lib.config.over cx else Ctx.empty.over cx) e (.err x) →
      Eval lib cx (.subrun e ne) (.err x)
  -- get_context(var, default): the value in the current job's context, else the default
  | getCtxHit {key dflt v} : key.toList.contains '.' = false → isValue dflt = true → cx key = some v → isValue v = true →
      Eval lib cx (.getCtx key dflt) (.ok v)
  | getCtxMiss {key dflt} : key.toList.contains '.' = false → isValue dflt = true → cx key = Option.none →
      Eval lib cx (.getCtx key dflt) (.ok dflt)

end RedunModel.EvalCore
