/-
Line-protocol front end of `RedunModel.Model.Db` (used by the drivers of C03 / C22 / C23).
One request line (an S-expression) → one reply line.  Ids are `i<nat>` atoms (the harness interns real hashes).

State: the variant flags, a list of repositories (`Sess`), and for every repository the session as it was before
the last operation (so that `crash` / `retry` can go back to a durable prefix of that operation).
-/
import RedunModel.Proto
import RedunModel.Model.Db
namespace RedunModel.DbProto
open RedunModel RedunModel.Db

structure Repo where
  id : Nat
  cur : Sess
  prev : Sess      -- session before the last operation

structure St where
  v : Variant := Variant.current
  repos : List Repo := []

def getRepo (st : St) (r : Nat) : Option Repo := st.repos.find? (fun x => x.id == r)
def setRepo (st : St) (rp : Repo) : St :=
  { st with repos := rp :: st.repos.filter (fun x => x.id != rp.id) }

/-! parsing -/
def pNat : Sexp → Option Nat
  | .atom a => natOfAtom a
  | _ => none
def pOptNat : Sexp → Option (Option Nat)
  | .atom "N" => some none
  | .atom a => (natOfAtom a).map some
  | _ => none
def pBool : Sexp → Option Bool
  | .atom "T" => some true
  | .atom "F" => some false
  | _ => none
def pList {α} (f : Sexp → Option α) : Sexp → Option (List α)
  | .list l => l.mapM f
  | _ => none
def pKind : Sexp → Option VKind
  | .atom "plain" => some .plain
  | .atom "task" => some .task
  | .atom "file" => some .file
  | _ => none
def pScope : Sexp → Option Scope
  | .atom "NONE" => some .none
  | .atom "CSE" => some .cse
  | .atom "BACKEND" => some .backend
  | _ => none

def pValueRow : Sexp → Option ValueRow
  | .list [h, k] => do pure ⟨← pNat h, ← pKind k⟩
  | _ => none
def pNodeRow : Sexp → Option NodeRow
  | .list [c, t, a, v, ts] => do pure ⟨← pNat c, ← pNat t, ← pNat a, ← pNat v, ← pNat ts⟩
  | _ => none
def pEdgeRow : Sexp → Option EdgeRow
  | .list [p, c, o] => do pure ⟨← pNat p, ← pNat c, ← pNat o⟩
  | _ => none
def pArgRow : Sexp → Option ArgRow
  | .list [c, s, v] => do pure ⟨← pNat c, ← pNat s, ← pNat v⟩
  | _ => none
def pArgResRow : Sexp → Option ArgResRow
  | .list [c, s, r] => do pure ⟨← pNat c, ← pNat s, ← pNat r⟩
  | _ => none
def pSubRow : Sexp → Option SubRow
  | .list [c, t] => do pure ⟨← pNat c, ← pNat t⟩
  | _ => none
def pEvalRow : Sexp → Option EvalRow
  | .list [e, t, a, v] => do pure ⟨← pNat e, ← pNat t, ← pNat a, ← pNat v⟩
  | _ => none
def pJobRow : Sexp → Option JobRow
  | .list [i, t, p, e, c, ca, en] => do
    pure ⟨← pNat i, ← pNat t, ← pOptNat p, ← pNat e, ← pOptNat c, ← pBool ca, ← pBool en⟩
  | _ => none
def pExecRow : Sexp → Option ExecRow
  | .list [i, j] => do pure ⟨← pNat i, ← pNat j⟩
  | _ => none
def pTagRow : Sexp → Option TagRow
  | .list [t, et, en, k, v, cur] => do pure ⟨← pNat t, ← pNat et, ← pNat en, ← pNat k, ← pNat v, ← pBool cur⟩
  | _ => none
def pTagEditRow : Sexp → Option TagEditRow
  | .list [p, c] => do pure ⟨← pNat p, ← pNat c⟩
  | _ => none
def pSubvalueRow : Sexp → Option SubvalueRow
  | .list [c, p] => do pure ⟨← pNat c, ← pNat p⟩
  | _ => none

/-- `((values r*) (tasks h*) (files h*) (subvalues r*) (nodes r*) (edges r*) (args r*) (argres r*) (subtree r*)
(evals r*) (jobs r*) (execs r*) (tags r*) (tagedits r*))` -/
def pDb : Sexp → Option Db
  | .list [.list (.atom "values" :: vs), .list (.atom "tasks" :: ts), .list (.atom "files" :: fs),
      .list (.atom "subvalues" :: svs), .list (.atom "nodes" :: ns), .list (.atom "edges" :: es),
      .list (.atom "args" :: as), .list (.atom "argres" :: ars), .list (.atom "subtree" :: sts),
      .list (.atom "evals" :: evs), .list (.atom "jobs" :: js), .list (.atom "execs" :: xs),
      .list (.atom "tags" :: tgs), .list (.atom "tagedits" :: tes)] => do
    pure { values := ← vs.mapM pValueRow, tasks := ← ts.mapM pNat, files := ← fs.mapM pNat,
           subvalues := ← svs.mapM pSubvalueRow, nodes := ← ns.mapM pNodeRow, edges := ← es.mapM pEdgeRow,
           args := ← as.mapM pArgRow, argRes := ← ars.mapM pArgResRow, subtree := ← sts.mapM pSubRow,
           evals := ← evs.mapM pEvalRow, jobs := ← js.mapM pJobRow, execs := ← xs.mapM pExecRow,
           tags := ← tgs.mapM pTagRow, tagEdits := ← tes.mapM pTagEditRow }
  | _ => none

/-- `(hash kind (sub-hash sub-kind)*)` -/
def pValueSpec : Sexp → Option ValueSpec
  | .list (h :: k :: subs) => do pure ⟨⟨← pNat h, ← pKind k⟩, ← subs.mapM pValueRow⟩
  | _ => none

def pArgSpec : Sexp → Option ArgSpec
  | .list [s, val, ups] => do pure ⟨← pNat s, ← pValueSpec val, ← pList pNat ups⟩
  | _ => none

def pJobRes : Sexp → Option JobRes
  | .list [c, sub] => do pure ⟨← pOptNat c, ← pList pNat sub⟩
  | _ => none

/-! printing -/
def sNat (n : Nat) : String := "i" ++ toString n
def sOptNat : Option Nat → String
  | none => "N"
  | some n => sNat n
def sBool (b : Bool) : String := if b then "T" else "F"
def sList (l : List String) : String := "(" ++ " ".intercalate l ++ ")"
def sKind : VKind → String
  | .plain => "plain" | .task => "task" | .file => "file"

def sDb (db : Db) : String :=
  sList [
    sList ("values" :: db.values.map (fun r => sList [sNat r.hash, sKind r.kind])),
    sList ("tasks" :: db.tasks.map sNat),
    sList ("files" :: db.files.map sNat),
    sList ("subvalues" :: db.subvalues.map (fun r => sList [sNat r.child, sNat r.parent])),
    sList ("nodes" :: db.nodes.map (fun r => sList [sNat r.call, sNat r.task, sNat r.args, sNat r.value, sNat r.ts])),
    sList ("edges" :: db.edges.map (fun r => sList [sNat r.parent, sNat r.child, sNat r.order])),
    sList ("args" :: db.args.map (fun r => sList [sNat r.call, sNat r.slot, sNat r.value])),
    sList ("argres" :: db.argRes.map (fun r => sList [sNat r.call, sNat r.slot, sNat r.result])),
    sList ("subtree" :: db.subtree.map (fun r => sList [sNat r.call, sNat r.task])),
    sList ("evals" :: db.evals.map (fun r => sList [sNat r.eval, sNat r.task, sNat r.args, sNat r.value])),
    sList ("jobs" :: db.jobs.map (fun r => sList [sNat r.id, sNat r.task, sOptNat r.parent, sNat r.exec,
      sOptNat r.call, sBool r.cached, sBool r.ended])),
    sList ("execs" :: db.execs.map (fun r => sList [sNat r.id, sNat r.job])),
    sList ("tags" :: db.tags.map (fun r => sList [sNat r.tag, sNat r.etype, sNat r.entity, sNat r.key, sNat r.value,
      sBool r.current])),
    sList ("tagedits" :: db.tagEdits.map (fun r => sList [sNat r.parent, sNat r.child]))]

def sCacheKind : CacheKind → String
  | .miss => "MISS" | .cse => "CSE" | .ultimate => "ULTIMATE" | .single => "SINGLE"

/-- reply of a writing operation: the durable states it added to the log, oldest first -/
def sNewSnaps (before after : Sess) : String :=
  sList ((after.log.drop before.log.length).map (fun s => sDb s.db))

def applyOpOn (st : St) (r : Nat) (f : Sess → Except String Sess) : St × String :=
  match getRepo st r with
  | none => (st, "bad-repo")
  | some rp =>
    match f rp.cur with
    | .error e => (setRepo st { rp with prev := rp.cur }, e)
    | .ok s' => (setRepo st { rp with cur := s', prev := rp.cur }, sNewSnaps rp.cur s')

def step (st : St) (line : String) : St × String :=
  match Sexp.parseLine line with
  | some [.list (.atom "variant" :: flags)] =>
    match flags.mapM pBool with
    | some [a, b, c, d, e, f] => ({ st with v := ⟨a, b, c, d, e, f⟩ }, "ok")
    | _ => (st, "bad-value")
  | some [.list [.atom "noop"]] => (st, "ok")
  | some [.list [.atom "new", r]] =>
    match pNat r with
    | some r => (setRepo st ⟨r, .ofDb {}, .ofDb {}⟩, "ok")
    | none => (st, "bad-value")
  | some [.list [.atom "load", r, d]] =>
    match pNat r, pDb d with
    | some r, some db => (setRepo st ⟨r, .ofDb db, .ofDb db⟩, "ok")
    | _, _ => (st, "bad-value")
  | some [.list [.atom "execs", r, ids]] =>
    match pNat r, pList pNat ids with
    | some r, some ids =>
      match getRepo st r with
      | some rp => (setRepo st { rp with cur := { rp.cur with pendingExecs := rp.cur.pendingExecs ++ ids } }, "ok")
      | none => (st, "bad-repo")
    | _, _ => (st, "bad-value")
  | some [.list [.atom "value", r, val]] =>
    match pNat r, pValueSpec val with
    | some r, some val => applyOpOn st r (fun s => .ok (recordValue st.v val s))
    | _, _ => (st, "bad-value")
  | some [.list [.atom "eval", r, e, t, a, val]] =>
    match pNat r, pNat e, pNat t, pNat a, pValueSpec val with
    | some r, some e, some t, some a, some val =>
      applyOpOn st r (fun s => .ok (setEvalCache st.v ⟨e, t, a, val.row.hash⟩ val s))
    | _, _, _, _, _ => (st, "bad-value")
  | some [.list [.atom "jstart", r, i, t, p, e, root]] =>
    match pNat r, pNat i, pNat t, pOptNat p, pNat e, pBool root with
    | some r, some i, some t, some p, some e, some root =>
      applyOpOn st r (fun s => match recordJobStart st.v ⟨i, t, p, e, none, false, false⟩ root s with
        | .ok s' => .ok s'
        | .error .keyError => .error "!KeyError")
    | _, _, _, _, _, _ => (st, "bad-value")
  | some [.list [.atom "jend", r, i, c, cached]] =>
    match pNat r, pNat i, pOptNat c, pBool cached with
    | some r, some i, some c, some cached => applyOpOn st r (fun s => .ok (recordJobEnd i c cached s))
    | _, _, _, _ => (st, "bad-value")
  | some [.list [.atom "cnode", r, node, children, args, subtree]] =>
    match pNat r, pNodeRow node, pList pNat children, pList pArgSpec args, pList pNat subtree with
    | some r, some node, some children, some args, some subtree =>
      applyOpOn st r (fun s => .ok (recordCallNode st.v ⟨node, children, args, subtree⟩ s))
    | _, _, _, _, _ => (st, "bad-value")
  | some [.list [.atom "check", r, t, a, e, x, reg, scope, shallow, aC, aU, aS]] =>
    match pNat r, pNat t, pNat a, pNat e, pNat x, pList pNat reg, pScope scope, pBool shallow, pBool aC, pBool aU,
        pBool aS with
    | some r, some t, some a, some e, some x, some reg, some scope, some shallow, some aC, some aU, some aS =>
      match getRepo st r with
      | some rp =>
        let ans := checkCache st.v rp.cur.db t a e x reg scope shallow aC aU aS
        (st, sList [sOptNat ans.value, sOptNat ans.call, sCacheKind ans.kind])
      | none => (st, "bad-repo")
    | _, _, _, _, _, _, _, _, _, _, _ => (st, "bad-value")
  | some [.list [.atom "subq", r, c]] =>
    match pNat r, pNat c with
    | some r, some c =>
      match getRepo st r with
      | some rp => (st, sList ((subtreeOf rp.cur.db c).map sNat))
      | none => (st, "bad-repo")
    | _, _ => (st, "bad-value")
  | some [.list [.atom "execsub", t, children]] =>
    match pNat t, pList pJobRes children with
    | some t, some children => (st, sList ((execSubtree t children).map sNat))
    | _, _ => (st, "bad-value")
  | some [.list [.atom "cachedsub", r, reg, t, shallow, c]] =>
    match pNat r, pList pNat reg, pNat t, pBool shallow, pNat c with
    | some r, some reg, some t, some shallow, some c =>
      match getRepo st r with
      | some rp => (st, sList ((cachedSubtree st.v rp.cur.db reg t shallow c).map sNat))
      | none => (st, "bad-repo")
    | _, _, _, _, _ => (st, "bad-value")
  | some [.list [.atom "crash", r, k]] =>
    -- go back to the durable state before the k-th new commit (0-based) of the last operation
    match pNat r, pNat k with
    | some r, some k =>
      match getRepo st r with
      | some rp =>
        let s : Sess := { db := crashDb rp.prev rp.cur k, pendingExecs := [] }
        (setRepo st { rp with cur := s, prev := s }, sDb s.db)
      | none => (st, "bad-repo")
    | _, _ => (st, "bad-value")
  | some [.list [.atom "retry", r, k]] =>
    -- db_retry after a transient failure of the k-th new commit of the last operation: rollback (the caller
    -- then sends the operation again)
    match pNat r, pNat k with
    | some r, some k =>
      match getRepo st r with
      | some rp =>
        let s := retryState rp.prev rp.cur k
        (setRepo st { rp with cur := s, prev := s }, sDb s.db)
      | none => (st, "bad-repo")
    | _, _ => (st, "bad-value")
  | some [.list [.atom "ncommits", r]] =>
    match pNat r with
    | some r =>
      match getRepo st r with
      | some rp => (st, sNat (newCommits rp.prev rp.cur))
      | none => (st, "bad-repo")
    | none => (st, "bad-value")
  | some [.list [.atom "xfer", src, dst, roots]] =>
    match pNat src, pNat dst, pList pNat roots with
    | some src, some dst, some roots =>
      match getRepo st src with
      | some sp => applyOpOn st dst (fun s => .ok (transfer sp.cur.db roots s))
      | none => (st, "bad-repo")
    | _, _, _ => (st, "bad-value")
  | some [.list [.atom "iter", r, roots]] =>
    match pNat r, pList pNat roots with
    | some r, some roots =>
      match getRepo st r with
      | some rp => (st, sList ((iterRecordIds rp.cur.db roots).map sNat))
      | none => (st, "bad-repo")
    | _, _ => (st, "bad-value")
  | some [.list [.atom "dump", r]] =>
    match pNat r with
    | some r =>
      match getRepo st r with
      | some rp => (st, sDb rp.cur.db)
      | none => (st, "bad-repo")
    | none => (st, "bad-value")
  | some [.list [.atom "fk", r]] =>
    match pNat r with
    | some r =>
      match getRepo st r with
      | some rp => (st, sList [sBool (fkOk rp.cur.db), sBool (taskComplete rp.cur.db)])
      | none => (st, "bad-repo")
    | none => (st, "bad-value")
  | _ => (st, "bad-op")

def main : IO Unit := do driverLoop (← IO.getStdin) ({} : St) step

end RedunModel.DbProto
