/-
Model of redun's tag value display / command-line parsing (property C34).  Core Lean only.

Mirrors `redun/tags.py`: `str2literal`, `parse_tag_value`, `parse_tag_key_value`, `format_tag_value`.
Text is `List Char`.

The lexical functions of Python that the code calls — `int(str)`, `float(str)`, `json.loads`,
`json.dumps(v, sort_keys=True)` — are *parameters* (`Lex`); the control flow around them is what is modelled.
The laws the proofs need (`LexLaws`) are stated in `Props/C34.lean`; the harness exercises every law against the
real `int`/`float`/`json` on the generated cases and feeds the real answers to the driver.

`format` mirrors the code WITH the proposed repair (a string that starts with `[`, `{` or `"` is always
displayed as JSON); `formatOld` is the code before the repair, kept for the refutation theorems.
-/
namespace RedunModel.TagValue

abbrev Str := List Char

/-- JSON-compatible tag values.  `F` = Python floats, `C` = compound values (lists / dicts, compared with
Python `==`); both opaque. -/
inductive JV (F C : Type) where
  | null
  | bool (b : Bool)
  | int (z : Int)
  | float (f : F)
  | str (s : Str)
  | compound (c : C)
  deriving Repr, DecidableEq

inductive Err where
  | valueError
  deriving Repr, DecidableEq

/-- Python / json functions the code calls (`none` = `ValueError` resp. `JSONDecodeError`). -/
structure Lex (F C : Type) where
  pyInt : Str → Option Int
  pyFloat : Str → Option F
  loads : Str → Option (JV F C)
  dumps : JV F C → Str

variable {F C : Type}

/-- `value_str[0] in ("[", "{", '"')` (false for the empty text, as `value[:1]` would be) -/
def startsBracket : Str → Bool
  | [] => false
  | c :: _ => c == '[' || c == '{' || c == '"'

def sTrue : Str := ['t', 'r', 'u', 'e']
def sFalse : Str := ['f', 'a', 'l', 's', 'e']
def sNull : Str := ['n', 'u', 'l', 'l']

/-- `str2literal`: `none` = its `ValueError` -/
def str2literal (s : Str) : Option (JV F C) :=
  if s = sTrue then some (.bool true)
  else if s = sFalse then some (.bool false)
  else if s = sNull then some .null
  else none

/-- `parse_tag_value` -/
def parse (L : Lex F C) (s : Str) : Except Err (JV F C) :=
  if s = [] then .ok .null
  else if startsBracket s then
    match L.loads s with
    | some v => .ok v
    | none => .error .valueError
  else
    match L.pyInt s with
    | some z => .ok (.int z)
    | none =>
      match L.pyFloat s with
      | some f => .ok (.float f)
      | none =>
        match str2literal s with
        | some v => .ok v
        | none => .ok (.str s)

/-- `re.match(".*[ ,].*", value)`: `.` does not match a newline and the match is anchored at the start, so
this holds iff the first line contains a space or a comma. -/
def hasSpaceComma : Str → Bool
  | [] => false
  | c :: t => if c == '\n' then false else if c == ' ' || c == ',' then true else hasSpaceComma t

def isStr : JV F C → Bool
  | .str _ => true
  | _ => false

/-- `format_tag_value` with the repair: the conjunction is evaluated left to right, the new conjunct
`value[:1] not in ("[", "{", '"')` comes before the call of `parse_tag_value`. -/
def format (L : Lex F C) (v : JV F C) : Except Err Str :=
  match v with
  | .str s =>
    if hasSpaceComma s then .ok (L.dumps v)
    else if startsBracket s then .ok (L.dumps v)
    else
      match parse L s with
      | .error e => .error e
      | .ok p => if isStr p then .ok s else .ok (L.dumps v)
  | _ => .ok (L.dumps v)

/-- `format_tag_value` as it is before the repair. -/
def formatOld (L : Lex F C) (v : JV F C) : Except Err Str :=
  match v with
  | .str s =>
    if hasSpaceComma s then .ok (L.dumps v)
    else
      match parse L s with
      | .error e => .error e
      | .ok p => if isStr p then .ok s else .ok (L.dumps v)
  | _ => .ok (L.dumps v)

/-- `key_value.split("=", 1)` when `"=" in key_value` -/
def splitEq : Str → Option (Str × Str)
  | [] => none
  | c :: t =>
    if c == '=' then some ([], t)
    else match splitEq t with
      | some (k, v) => some (c :: k, v)
      | none => none

/-- result of `parse_tag_key_value`: the value is `none` for `ANY_VALUE` -/
def parseKeyValue (L : Lex F C) (kv : Str) (valueRequired : Bool) : Except Err (Str × Option (JV F C)) :=
  if kv = [] then .error .valueError
  else
    match splitEq kv with
    | none => if valueRequired then .error .valueError else .ok (kv, none)
    | some (k, v) =>
      if k = [] then .error .valueError
      else
        match parse L v with
        | .ok p => .ok (k, some p)
        | .error e => .error e

end RedunModel.TagValue
